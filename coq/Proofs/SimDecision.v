(* C11 — the engine performs what the script decided: facts about the decision / target /
   skill-point / ultimate logic of the whole-simulation model. *)
From Coq Require Import List ZArith Bool Floats Lia.
From SR Require Import Base.CaseLib Base.NumOps Model.Turn Model.Sim Model.SimProtocol Proofs.SimProofs.
Import ListNotations.
Open Scope Z_scope.

(* ------------------------------------------------------------------ *)
(* Target rules                                                         *)
(* ------------------------------------------------------------------ *)
Section Argmin.
  Variable key : Z -> float.
  Definition fle (a b : Z) : Prop := PrimFloat.ltb (key b) (key a) = false.   (* a <= b *)

  (* the float comparison behaves as a total preorder on the keys that occur (no NaN) *)
  Variable dom : Z -> Prop.
  Hypothesis Hrefl : forall a, dom a -> fle a a.
  Hypothesis Hasym : forall a b, dom a -> dom b -> PrimFloat.ltb (key a) (key b) = true -> fle a b.
  Hypothesis Htrans : forall a b c, dom a -> dom b -> dom c -> fle a b -> fle b c -> fle a c.

  Lemma argmin_dom : forall l b, dom b -> Forall dom l -> dom (argmin key b (key b) l).
  Proof.
    induction l as [|c l IH]; intros b Hb Hl; cbn [argmin]; [exact Hb|].
    inversion Hl; subst. destruct (PrimFloat.ltb (key c) (key b)); apply IH; assumption.
  Qed.

  Lemma argmin_in : forall l b, In (argmin key b (key b) l) (b :: l).
  Proof.
    induction l as [|c l IH]; intros b; cbn [argmin]; [left; reflexivity|].
    destruct (PrimFloat.ltb (key c) (key b)).
    - destruct (IH c) as [H|H]; [right; left; exact H|right; right; exact H].
    - destruct (IH b) as [H|H]; [left; exact H|right; right; exact H].
  Qed.

  Lemma argmin_le_start : forall l b, dom b -> Forall dom l -> fle (argmin key b (key b) l) b.
  Proof.
    induction l as [|c l IH]; intros b Hb Hl; cbn [argmin]; [apply Hrefl; exact Hb|].
    inversion Hl as [|? ? Hc Hl']; subst.
    destruct (PrimFloat.ltb (key c) (key b)) eqn:E.
    - apply (Htrans _ c b); auto using argmin_dom.
    - apply IH; assumption.
  Qed.

  (* the chosen unit has a minimal key among all candidates *)
  Lemma argmin_minimal : forall l b, dom b -> Forall dom l ->
    forall x, In x (b :: l) -> fle (argmin key b (key b) l) x.
  Proof.
    induction l as [|c l IH]; intros b Hb Hl x Hx; cbn [argmin].
    - destruct Hx as [<-|[]]. apply Hrefl. exact Hb.
    - inversion Hl as [|? ? Hc Hl']; subst.
      destruct (PrimFloat.ltb (key c) (key b)) eqn:E.
      + destruct Hx as [<-|Hx]; [|apply IH; assumption].
        apply (Htrans _ c b); auto using argmin_dom, argmin_le_start.
      + destruct Hx as [<-|[<-|Hx]].
        * apply argmin_le_start; assumption.
        * apply (Htrans _ b c); auto using argmin_dom, argmin_le_start.
        * apply IH; auto. right. exact Hx.
  Qed.
End Argmin.

(* ------------------------------------------------------------------ *)
(* evaluate: the primary target is a valid unit of the right side and satisfies the rule *)
(* ------------------------------------------------------------------ *)
Definition right_side (s : sim) (src : Z) (tt : ttype) (p : Z) : Prop :=
  match tt with
  | TAllies => In p (if is_enemy s src then enemies s else chars s)
  | TEnemies => In p (if is_enemy s src then chars s else enemies s)
  | TSelf => p = src
  | TInvalidType => False
  end.

(* total preorder on the HP keys of the candidates (holds when no HP value is NaN) *)
Definition hp_keys_ok (key : Z -> float) (l : list Z) : Prop :=
  (forall a, In a l -> fle key a a) /\
  (forall a b, In a l -> In b l -> PrimFloat.ltb (key a) (key b) = true -> fle key a b) /\
  (forall a b c, In a l -> In b l -> In c l -> fle key a b -> fle key b c -> fle key a c).

Definition rule_ok (s : sim) (src evl : Z) (tt : ttype) (p : Z) : Prop :=
  if (evl =? 100) || (evl =? 101) || (evl =? 102) then
    match candidates s src tt with
    | Some cands =>
        In p cands /\
        (evl = 100 -> exists r, cands = p :: r) /\                        (* First *)
        (evl = 101 -> hp_keys_ok (cur_hp s) cands -> forall x, In x cands -> fle (cur_hp s) p x) /\
        (evl = 102 -> hp_keys_ok (hp_ratio s) cands -> forall x, In x cands -> fle (hp_ratio s) p x)
    | None => False
    end
  else
    (* a named unit: exactly that unit, alive, still on the field (not removed by a death check),
       of the right class *)
    p = evl /\ is_alive s p = true /\ In p (chars s ++ enemies s) /\
    match tt with
    | TAllies => is_char s p = true
    | TEnemies => is_enemy s p = true
    | TSelf => p = src
    | TInvalidType => False
    end.

Lemma minimal_of_keys key x r : hp_keys_ok key (x :: r) ->
  forall y, In y (x :: r) -> fle key (argmin key x (key x) r) y.
Proof.
  intros (R & A & T) y Hy.
  apply (argmin_minimal key (fun a => In a (x :: r))); auto.
  - left. reflexivity.
  - apply Forall_forall. intros z Hz. right. exact Hz.
Qed.

Theorem evaluate_rule s src evl tt p : evaluate s src evl tt = Some p -> rule_ok s src evl tt p.
Proof.
  unfold evaluate, rule_ok. destruct ((evl =? 100) || (evl =? 101) || (evl =? 102)) eqn:E.
  - destruct (candidates s src tt) as [[|x [|y r]]|]; try discriminate.
    + intros H. inversion H; subst. split; [left; reflexivity|]. split; [eauto|].
      split; intros _ (R & _) z [<-|[]]; apply R; left; reflexivity.
    + destruct (evl =? 100) eqn:E0.
      * intros H. inversion H; subst. apply Z.eqb_eq in E0. subst.
        split; [left; reflexivity|]. split; [eauto|]. split; discriminate.
      * apply Z.eqb_neq in E0. destruct (evl =? 101) eqn:E1.
        -- intros H. injection H as <-. apply Z.eqb_eq in E1. subst.
           split; [exact (argmin_in (cur_hp s) (y :: r) x)|]. split; [congruence|]. split; [|discriminate].
           intros _ K. exact (minimal_of_keys (cur_hp s) x (y :: r) K).
        -- apply Z.eqb_neq in E1. intros H. injection H as <-.
           assert (evl = 102).
           { destruct (evl =? 102) eqn:E2; [apply Z.eqb_eq; exact E2|].
             destruct (evl =? 100) eqn:F0; [apply Z.eqb_eq in F0; congruence|].
             destruct (evl =? 101) eqn:F1; [apply Z.eqb_eq in F1; congruence|]. discriminate. }
           subst. split; [exact (argmin_in (hp_ratio s) (y :: r) x)|]. split; [congruence|]. split; [congruence|].
           intros _ K. exact (minimal_of_keys (hp_ratio s) x (y :: r) K).
  - destruct (get_unit (units s) evl) as [u|] eqn:EU; [|discriminate].
    destruct (negb (is_alive s evl) || negb (existsb (Z.eqb evl) (chars s ++ enemies s))) eqn:EA0; [discriminate|].
    apply orb_false_iff in EA0. destruct EA0 as [EA EF]. apply negb_false_iff in EA. apply negb_false_iff in EF.
    assert (HF : In evl (chars s ++ enemies s)).
    { apply existsb_exists in EF. destruct EF as (x & Hx & Ex). apply Z.eqb_eq in Ex. subst x. exact Hx. }
    destruct tt; try discriminate.
    + destruct (uchar u) eqn:EC; [|discriminate]. intros H; inversion H; subst.
      unfold is_char. rewrite EU. auto.
    + destruct (uchar u) eqn:EC; [discriminate|]. intros H; inversion H; subst.
      unfold is_enemy. rewrite EU, EC. auto.
    + destruct (evl =? src) eqn:ES; [|discriminate]. intros H; inversion H; subst.
      apply Z.eqb_eq in ES. auto.
Qed.

Lemma evaluate_right_side s src evl tt p : evaluate s src evl tt = Some p ->
  (evl = 100 \/ evl = 101 \/ evl = 102) -> right_side s src tt p.
Proof.
  intros H He. pose proof (evaluate_rule _ _ _ _ _ H) as R. unfold rule_ok in R.
  assert (E : (evl =? 100) || (evl =? 101) || (evl =? 102) = true).
  { destruct He as [ -> | [ -> | -> ] ]; reflexivity. }
  rewrite E in R. unfold candidates in R. unfold right_side.
  destruct tt; try contradiction; destruct R as [Hin _]; auto.
  destruct Hin as [<-|[]]. reflexivity.
Qed.

(* ------------------------------------------------------------------ *)
(* The action performed is the one decided, or the default attack       *)
(* ------------------------------------------------------------------ *)
Section Decisions.
  Variable cfg : config.

  (* what execute_action does for an alive character, spelled out *)
  Definition action_decision (s : sim) (id : Z) (u : unit) : Z * Z * bool :=   (* evaluator, attack type, fallback *)
    let '(d, _) := pop_next (next_q s) id in
    let want_skill := dc_type d =? 1 in
    let can := can_skill u s in      (* enough skill points and, if registered, the character's own check *)
    if want_skill && negb can then (100, ATYPE_NORMAL, true)
    else (dc_eval d, if want_skill then ATYPE_SKILL else ATYPE_NORMAL, false).

  Theorem action_matches_decision fuel s id ins s' u :
    get_unit (units s) id = Some u -> ust u = Alive -> uchar u = true ->
    execute_action cfg fuel s id ins = AOk s' ->
    let '(d, _) := pop_next (next_q s) id in
    let '(evl, atype, fallback) := action_decision s id u in
    exists pre rest p,
      (* the decision asked of the script is recorded, then (if the skill is not affordable) the
         default action; then the SP change, ActionStart of the decided type, and the content
         call with the chosen primary target *)
      trace s' = trace s ++ VNextAction id (dc_type d) (dc_eval d) :: pre ++
                 VActionStart id atype ins :: VCall (if atype =? ATYPE_SKILL then 1 else 0) id p :: rest /\
      (fallback = true -> pre = VDefaultAction id :: match pre with _ :: t => t | [] => [] end) /\
      (* a skill only when the team has its cost *)
      (atype = ATYPE_SKILL -> uspneed u <= sp s) /\
      (* the primary target obeys the decided rule on the state the decision was taken in *)
      (exists s2, evaluate s2 id evl (if atype =? ATYPE_SKILL then utt_s u else utt_a u) = Some p /\
                  units s2 = units s /\ chars s2 = chars s /\ enemies s2 = enemies s).
  Proof.
    intros EU EA EC H. unfold execute_action in H. rewrite EU, EA, EC in H.
    unfold action_decision.
    destruct (pop_next (next_q s) id) as [d q] eqn:EN.
    set (s1 := emit (set_next s q) [VNextAction id (dc_type d) (dc_eval d)]) in *.
    change (can_skill u s1) with (can_skill u s) in H.
    destruct ((dc_type d =? 1) && negb (can_skill u s)) eqn:ED.
    - set (s2 := emit s1 [VDefaultAction id]) in *.
      destruct (evaluate s2 id 100 (utt_a u)) as [p|] eqn:EV; [|discriminate].
      destruct (pop_act cfg _ id) as [sc s4] eqn:EPA.
      match type of H with match ?x with _ => _ end = _ => destruct x as [s6|] eqn:EB; [|discriminate] end.
      inversion H; subst; clear H.
      destruct (pop_act_frame cfg _ _ _ _ EPA) as (T4 & _ & _).
      unfold run_body in EB.
      destruct (exec_ops cfg fuel false _ id p sc) as [sx|] eqn:EX; [|discriminate].
      destruct (exec_ops_body cfg fuel (BAction id ATYPE_NORMAL ins) eq_refl _ _ _ _ _ EX) as (seg & Tx & _ & _).
      destruct (bext_end_attack (BAction id ATYPE_NORMAL ins) sx) as (seg2 & Te & _ & _).
      destruct (run_slot cfg fuel (end_attack sx) LActionEnd id id) as [sy|] eqn:ES; [|discriminate].
      destruct (run_slot_nb cfg _ _ _ _ _ _ ES) as (seg3 & Ts & _).
      inversion EB; subst; clear EB.
      destruct (ext_mod_sp s2 (uspadd u)) as (spseg & Tsp & _).
      exists (VDefaultAction id :: spseg), (seg ++ seg2 ++ seg3 ++ [VActionEnd id ATYPE_NORMAL ins]), p.
      split.
      { cbn [trace emit]. rewrite Ts, Te, Tx. cbn [trace emit]. rewrite T4. cbn [trace emit]. rewrite Tsp.
        cbn [trace emit s2 s1 set_next]. rewrite <- !app_assoc. cbn. reflexivity. }
      split; [reflexivity|]. split; [discriminate|].
      exists s2. split; [exact EV|]. repeat split.
    - destruct (evaluate s1 id (dc_eval d) (if dc_type d =? 1 then utt_s u else utt_a u)) as [p|] eqn:EV; [|discriminate].
      destruct (pop_act cfg _ id) as [sc s4] eqn:EPA.
      match type of H with match ?x with _ => _ end = _ => destruct x as [s6|] eqn:EB; [|discriminate] end.
      inversion H; subst; clear H.
      destruct (pop_act_frame cfg _ _ _ _ EPA) as (T4 & _ & _).
      set (atype := if dc_type d =? 1 then ATYPE_SKILL else ATYPE_NORMAL) in *.
      unfold run_body in EB.
      destruct (exec_ops cfg fuel false _ id p sc) as [sx|] eqn:EX; [|discriminate].
      destruct (exec_ops_body cfg fuel (BAction id atype ins) eq_refl _ _ _ _ _ EX) as (seg & Tx & _ & _).
      destruct (bext_end_attack (BAction id atype ins) sx) as (seg2 & Te & _ & _).
      destruct (run_slot cfg fuel (end_attack sx) LActionEnd id id) as [sy|] eqn:ES; [|discriminate].
      destruct (run_slot_nb cfg _ _ _ _ _ _ ES) as (seg3 & Ts & _).
      inversion EB; subst; clear EB.
      destruct (ext_mod_sp s1 (if dc_type d =? 1 then - uspneed u else uspadd u)) as (spseg & Tsp & _).
      exists spseg, (seg ++ seg2 ++ seg3 ++ [VActionEnd id atype ins]), p.
      assert (Hk : (if atype =? ATYPE_SKILL then 1 else 0) = (if dc_type d =? 1 then 1 else 0)).
      { unfold atype. destruct (dc_type d =? 1); reflexivity. }
      split.
      { cbn [trace emit]. rewrite Ts, Te, Tx. cbn [trace emit]. rewrite T4. cbn [trace emit]. rewrite Tsp.
        cbn [trace emit s1 set_next]. rewrite Hk. rewrite <- !app_assoc. cbn. reflexivity. }
      split; [discriminate|]. split.
      { unfold atype. destruct (dc_type d =? 1) eqn:E1; [|discriminate]. intros _.
        cbn [andb] in ED. apply negb_false_iff in ED. unfold can_skill in ED.
        apply andb_true_iff in ED. destruct ED as [ED _]. apply Z.leb_le. exact ED. }
      exists s1. split; [|repeat split].
      unfold atype. destruct (dc_type d =? 1); exact EV.
  Qed.

  (* skill points: a skill deducts its cost, a basic attack credits its configured points,
     always within [0,5] *)
  Theorem mod_sp_range s amt : 0 <= sp s <= 5 -> 0 <= sp (mod_sp s amt) <= 5 /\
    sp (mod_sp s amt) = Z.max 0 (Z.min 5 (sp s + amt)).
  Proof.
    intros H. unfold mod_sp. destruct (Z.max 0 (Z.min 5 (sp s + amt)) =? sp s) eqn:E.
    - apply Z.eqb_eq in E. split; [exact H|]. symmetry. exact E.
    - cbn. split; [lia|reflexivity].
  Qed.

  (* ultimates: a request is queued exactly when the unit is a character whose energy is full,
     and queuing consumes the energy *)
  Definition ult_request_statement : Prop := forall s r rest s',
    ult_reqs s (r :: rest) = Ok s' ->
    exists u, get_unit (units s) (ur_target r) = Some u /\ uchar u = true /\
      (* "could use it": full energy, or what the character's own Ult.CanUse check answers *)
      let full := can_ult u in
      exists s1, ult_reqs s1 rest = Ok s' /\
        (full = false -> s1 = s) /\
        (full = true ->
           s1 = set_energy (enqueue s PRIO_CHAR_ACTION (ur_target r) [FLAG_STAT_CTRL; FLAG_DISABLE_ACTION] (KUlt r))
                           (ur_target r) 0).

  Theorem ult_request_spec : ult_request_statement.
  Proof.
    intros s r rest s'. cbn [ult_reqs]. destruct (get_unit (units s) (ur_target r)) as [u|]; [|discriminate].
    destruct (uchar u) eqn:EC; cbn [negb]; [|discriminate].
    intros H. exists u. rewrite EC. split; [reflexivity|]. split; [reflexivity|]. cbn zeta.
    destruct (can_ult u); eexists; (split; [exact H|]); split; congruence.
  Qed.
End Decisions.

(* non-vacuity witness: skills decided twice (the second falls back: no skill points left after
   a credit-less skill), an ult request honoured once *)
Definition demo_cfg2 : config :=
  mkCfg
    [mkUD 3 true 100 1000 100 100 3 0 TEnemies TEnemies TEnemies [0%nat; 0%nat; 0%nat] [] [];
     mkUD 400 false 80 320 0 0 0 0 TEnemies TEnemies TEnemies [1%nat] [] []]
    [[SAttack 3 [TPrimary] true 30];
     [SAttack 4 [TId 1] true 10]]
    [(1, [mkDec 1 101; mkDec 1 102; mkDec 0 100])] [[mkUR 1 3 100]] [] [] [] [] [] [] [] [] 3 4.

Example demo_cfg2_runs :
  match start demo_cfg2 300 with
  | Stop s => decision_ok demo_cfg2 (trace s) && protocol_ok (trace s) &&
              existsb (fun e => match e with VActionStart 1 2 false => true | _ => false end) (trace s) &&
              existsb (fun e => match e with VDefaultAction 1 => true | _ => false end) (trace s) &&
              existsb (fun e => match e with VActionStart 1 3 true => true | _ => false end) (trace s)
  | _ => false
  end = true.
Proof. vm_compute. reflexivity. Qed.
