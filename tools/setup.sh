#!/bin/sh
# Build the framework from files on disk only (offline): harness binaries + full Coq build.
set -e
cd "$(dirname "$0")/.."
export GOFLAGS=-mod=mod GOPROXY=off GOSUMDB=off GOTOOLCHAIN=local
REPO="${VERIF_REPO:-/repo}"
mkdir -p harness/bin coq/Cases coq/Gen evidence replays
cp "$REPO/go.sum" harness/go.sum
sed -i "s#^replace github.com/simimpact/srsim => .*#replace github.com/simimpact/srsim => $REPO#" harness/go.mod
(cd harness && for d in cmd/*/; do b=$(basename "$d"); go build -tags verif -o "bin/$b" "./cmd/$b"; done)
if [ -x harness/bin/go2coq ]; then
  for g in $(python3 -c "import sys; sys.path.insert(0,'tools'); from props import PROPS; print(' '.join(sorted({g for p in PROPS.values() for g in p.get('gen',[])})))"); do
    harness/bin/go2coq "$g" -repo "$REPO" > "coq/Gen/$g.v.tmp" && mv "coq/Gen/$g.v.tmp" "coq/Gen/$g.v"
  done
fi
python3 tools/gen_coqproject.py
cd coq
coq_makefile -f _CoqProject -o Makefile >/dev/null
timeout 3000 make -j16 >/dev/null
echo setup ok
