(* The run-loop skeleton translated from the Go source (Gen/RunSkeleton.v) IS the pinned table. *)
From Coq Require Import List ZArith String.
From SR Require Import Model.SimSkeleton Gen.RunSkeleton.
Import ListNotations.

Theorem run_skeleton_is_pinned : RunSkeleton.table = SimSkeleton.expected.
Proof. reflexivity. Qed.

Theorem run_skeleton_consts_are_pinned : RunSkeleton.consts = SimSkeleton.expected_consts.
Proof. reflexivity. Qed.
