(* The DESCRIPTION language of the modifier manager's listener dispatch and its interpreter.

   `go2coq DispatchTable` (harness/cmd/go2coq/dispatch.go) translates pkg/engine/modifier/listener.go
   into a value of type [dtable] (coq/Gen/DispatchTable.v, regenerated on every run):
     - the Subscribe wiring of Manager.subscribe: event of event.System, method, priority;
     - per subscribed method, the source paths of the locals `qualified` and `snapshot`, the walks
       `for _, mod := range mgr.itr(<role>)` in source order, per walk whether the guard
       `if snapshot && !mod.modifySnapshot { continue }` is present and the callbacks
       `f := mod.listeners.K; if f != nil [&& qualified] { f(mod [, arg]) }` in source order;
     - whether the result of a callback ends the function (`if result { return true }`) and the
       final `return` of a bool function.
   [interp] gives such a table a meaning over the SAME world / call / event types as the hand-written
   model Model/Dispatch.v; Proofs/DispatchTableProofs.v proves
       interp DispatchTable.table e w = Some (Dispatch.run_event w e)
   for every world and every event of listener.go.

   What the interpreter takes from Model/Dispatch.v and does NOT re-derive from the source (hand-written,
   tied by correspondence): [attached] (mgr.targets; `mgr.itr` is a copy of it - go2coq checks that itr
   is verbatim make + copy + return), [has] (the Listeners field is non-nil), [script_of] / [do_actions]
   (what a callback does is data), [c_snap] (Instance.modifySnapshot), [mk_call] (what the recording
   harness notes of a call), [final_value] / [value0] (the number the harness callbacks rewrite),
   and the event system that delivers the event to the subscribed method.

   The FIELD TABLES below say which constructor argument of the model's [event] is which Go field path
   of the event struct (the path is spelled as in the source: e.Hit.AttackType.IsQualified() is
   ["Hit"; "AttackType"; "IsQualified()"]).  They are record projections, nothing else; a path that
   is not listed makes [interp] answer None, so the equality theorem fails.

   Executable; no proofs here. *)
From Coq Require Import List ZArith Bool String.
From SR Require Import Model.Dispatch.
Import ListNotations.
Open Scope Z_scope.

(* ---- the description ---- *)
Inductive gate := Always | Qualified.                       (* f != nil   |   f != nil && qualified *)
Inductive carg := ArgNone | ArgEvent | ArgEvField (p : list string).   (* f(mod) | f(mod, e) | f(mod, e.P) *)
Inductive cres := ResIgnored | ResReturnTrueIfTrue.         (* f(...)  |  r := f(...); if r { return true } *)
Inductive trole :=
  | REvField (p : list string)        (* for _, mod := range mgr.itr(e.P) *)
  | REachOf (p : list string).        (* for _, t := range e.P { for _, mod := range mgr.itr(t) ... } *)

Record tcall := mkTCall { tc_cb : cb; tc_gate : gate; tc_arg : carg; tc_res : cres }.
Record twalk := mkTWalk { tw_role : trole; tw_snapshot_gate : bool; tw_calls : list tcall }.
Record handler := mkHandler {
  h_name : string;                         (* method of *Manager *)
  h_event : string;                        (* type of its parameter: event.<h_event> *)
  h_ptr : bool;                            (* the parameter is a pointer (mutable event) *)
  h_qualified : option (list string);      (* qualified := e.<path> *)
  h_snapshot : option (list string);       (* snapshot := e.<path> *)
  h_walks : list twalk;
  h_final : option bool }.                 (* the closing `return b` of a bool function *)
Record sub := mkSub { sub_event : string; sub_method : string; sub_prio : option Z }.
Record dtable := mkTable { t_subs : list sub; t_handlers : list handler }.

(* ---- which model event is which field of event.System, and its fields ---- *)
Definition ev_name (e : event) : string :=
  match e with
  | EActionStart _ => "ActionStart"
  | EActionEnd _ _ => "ActionEnd"
  | EHPChange _ => "HPChange"
  | ELimbo _ _ => "LimboWaitHeal"
  | ETargetDeath _ _ => "TargetDeath"
  | EEnergyChange _ _ => "EnergyChange"
  | EStanceChange _ _ => "StanceChange"
  | EStanceBreak _ _ => "StanceBreak"
  | EStanceReset _ => "StanceReset"
  | EBreakExtend _ => "BreakExtend"
  | EShieldAdded _ _ => "ShieldAdded"
  | EShieldRemoved _ => "ShieldRemoved"
  | EAttackStart _ _ _ => "AttackStart"
  | EAttackEnd _ _ _ => "AttackEnd"
  | EHitStart _ _ _ _ _ => "HitStart"
  | EHitEnd _ _ _ _ => "HitEnd"
  | EHealStart _ _ _ _ => "HealStart"
  | EHealEnd _ _ _ => "HealEnd"
  | ETick _ _ => ""                        (* Manager.Tick is not an engine event (tick.go) *)
  end.

(* fields of type key.TargetID (HealStart carries *info.Stats: the id is read with .ID()) *)
Definition zfields (e : event) : list (list string * Z) :=
  (match e with
  | EActionStart o => [(["Owner"], o)]
  | EActionEnd o _ => [(["Owner"], o)]
  | EHPChange t => [(["Target"], t)]
  | ELimbo t _ => [(["Target"], t)]
  | ETargetDeath t k => [(["Target"], t); (["Killer"], k)]
  | EEnergyChange t s => [(["Target"], t); (["Source"], s)]
  | EStanceChange t s => [(["Target"], t); (["Source"], s)]
  | EStanceBreak t s => [(["Target"], t); (["Source"], s)]
  | EStanceReset t => [(["Target"], t)]
  | EBreakExtend t => [(["Target"], t)]
  | EShieldAdded t s => [(["Info"; "Target"], t); (["Info"; "Source"], s)]
  | EShieldRemoved t => [(["Target"], t)]
  | EAttackStart a _ _ => [(["Attacker"], a)]
  | EAttackEnd a _ _ => [(["Attacker"], a)]
  | EHitStart a d _ _ _ => [(["Attacker"], a); (["Defender"], d)]
  | EHitEnd a d _ _ => [(["Attacker"], a); (["Defender"], d)]
  | EHealStart h t _ _ => [(["Healer"; "ID()"], h); (["Target"; "ID()"], t)]
  | EHealEnd h t _ => [(["Healer"], h); (["Target"], t)]
  | ETick _ _ => []
  end)%string.
(* fields of type []key.TargetID *)
Definition lfields (e : event) : list (list string * list Z) :=
  (match e with
  | EAttackStart _ ts _ => [(["Targets"], ts)]
  | EAttackEnd _ ts _ => [(["Targets"], ts)]
  | _ => []
  end)%string.
(* bool fields; AttackType.IsQualified() is [is_qualified] (tied to the source by go2coq Formulas) *)
Definition bfields (e : event) : list (list string * bool) :=
  (match e with
  | EHitStart _ _ ty sn _ => [(["Hit"; "AttackType"; "IsQualified()"], is_qualified ty); (["Hit"; "UseSnapshot"], sn)]
  | EHitEnd _ _ ty sn => [(["AttackType"; "IsQualified()"], is_qualified ty); (["UseSnapshot"], sn)]
  | EHealStart _ _ sn _ => [(["UseSnapshot"], sn)]
  | EHealEnd _ _ sn => [(["UseSnapshot"], sn)]
  | _ => []
  end)%string.

Fixpoint path_eqb (a b : list string) : bool :=
  match a, b with
  | [], [] => true
  | x :: a', y :: b' => String.eqb x y && path_eqb a' b'
  | _, _ => false
  end.
Fixpoint assoc {A : Type} (p : list string) (l : list (list string * A)) : option A :=
  match l with
  | [] => None
  | (q, v) :: r => if path_eqb p q then Some v else assoc p r
  end.

(* what the callback of instance i answers (only OnLimboWaitHeal returns something: the harness
   callbacks answer true for the tags listed in the event) *)
Definition answer (e : event) (i : inst) : bool :=
  match e with
  | ELimbo _ yes => existsb (Z.eqb (i_id i)) yes
  | _ => false
  end.

(* ---- resolution of a handler against one event: every path is looked up ---- *)
Record rcall := mkRCall { rc_cb : cb; rc_on : bool; rc_arg : Z; rc_stop : bool }.
Record rwalk := mkRWalk { rw_unit : Z; rw_skip : bool; rw_calls : list rcall }.

Definition opt_path {A : Type} (l : list (list string * A)) (p : option (list string)) : option A :=
  match p with Some q => assoc q l | None => None end.

Definition resolve_call (e : event) (q : option bool) (c : tcall) : option rcall :=
  match (match tc_gate c with Always => Some true | Qualified => q end),
        (match tc_arg c with
         | ArgNone | ArgEvent => Some 0     (* the recorded argument is the target id handed over, else 0 *)
         | ArgEvField p => assoc p (zfields e)
         end) with
  | Some on, Some a =>
      Some (mkRCall (tc_cb c) on a (match tc_res c with ResIgnored => false | ResReturnTrueIfTrue => true end))
  | _, _ => None
  end.
Fixpoint resolve_calls (e : event) (q : option bool) (cs : list tcall) : option (list rcall) :=
  match cs with
  | [] => Some []
  | c :: r =>
      match resolve_call e q c, resolve_calls e q r with
      | Some c', Some r' => Some (c' :: r')
      | _, _ => None
      end
  end.
Definition resolve_walk (e : event) (q sn : option bool) (tw : twalk) : option (list rwalk) :=
  match (if tw_snapshot_gate tw then sn else Some false), resolve_calls e q (tw_calls tw) with
  | Some skip, Some cs =>
      match tw_role tw with
      | REvField p => match assoc p (zfields e) with Some u => Some [mkRWalk u skip cs] | None => None end
      | REachOf p => match assoc p (lfields e) with
                     | Some us => Some (map (fun u => mkRWalk u skip cs) us)
                     | None => None
                     end
      end
  | _, _ => None
  end.
Fixpoint resolve_walks (e : event) (q sn : option bool) (tws : list twalk) : option (list rwalk) :=
  match tws with
  | [] => Some []
  | tw :: r =>
      match resolve_walk e q sn tw, resolve_walks e q sn r with
      | Some a, Some b => Some (a ++ b)
      | _, _ => None
      end
  end.
(* a local that is declared must resolve, also when no walk reads it *)
Definition declared_ok {A : Type} (p : option (list string)) (v : option A) : bool :=
  match p, v with Some _, None => false | _, _ => true end.
Definition resolve (h : handler) (e : event) : option (list rwalk) :=
  let q := opt_path (bfields e) (h_qualified h) in
  let sn := opt_path (bfields e) (h_snapshot h) in
  if declared_ok (h_qualified h) q && declared_ok (h_snapshot h) sn
  then resolve_walks e q sn (h_walks h) else None.

(* ---- execution: the third component says that a `return true` was taken ---- *)
(* the callbacks of one loop iteration, in source order *)
Fixpoint run_calls (ans : inst -> bool) (cs : list rcall) (i : inst) (w : world) : list call * world * bool :=
  match cs with
  | [] => ([], w, false)
  | c :: r =>
      if has i (rc_cb c) && rc_on c then                       (* f != nil [&& qualified] *)
        let '(c1, w1) := do_actions i w (script_of i (rc_cb c)) in   (* f(mod, ...) *)
        let here := mk_call (rc_cb c) (rc_arg c) i :: c1 in
        if rc_stop c && ans i then (here, w1, true)              (* if result { return true } *)
        else let '(c2, w2, st) := run_calls ans r i w1 in (here ++ c2, w2, st)
      else run_calls ans r i w
  end.
(* `for _, mod := range <copy>` *)
Fixpoint run_copy (ans : inst -> bool) (skip : bool) (cs : list rcall) (copy : list inst) (w : world)
  : list call * world * bool :=
  match copy with
  | [] => ([], w, false)
  | i :: r =>
      if skip && negb (c_snap (i_cfg i)) then run_copy ans skip cs r w     (* continue *)
      else
        let '(c1, w1, st) := run_calls ans cs i w in
        if st then (c1, w1, true)
        else let '(c2, w2, st2) := run_copy ans skip cs r w1 in (c1 ++ c2, w2, st2)
  end.
(* the walks in source order; each takes its copy of the attached list when it starts *)
Fixpoint run_walks (ans : inst -> bool) (ws : list rwalk) (w : world) : list call * world * bool :=
  match ws with
  | [] => ([], w, false)
  | x :: r =>
      let '(c1, w1, st) := run_copy ans (rw_skip x) (rw_calls x) (attached w (rw_unit x)) w in
      if st then (c1, w1, true)
      else let '(c2, w2, st2) := run_walks ans r w1 in (c1 ++ c2, w2, st2)
  end.

Definition verdict_of (h : handler) (stopped : bool) : bool :=
  if stopped then true else match h_final h with Some b => b | None => false end.
(* the number the harness reads back from a mutable event (no number in a LimboWaitHeal) *)
Definition value_of (e : event) (cs : list call) : Z :=
  match e with ELimbo _ _ => 0 | _ => final_value (value0 e) cs end.

Definition subs_for (t : dtable) (ev : string) : list sub :=
  filter (fun s => String.eqb (sub_event s) ev) (t_subs t).
Definition handlers_named (t : dtable) (m : string) : list handler :=
  filter (fun h => String.eqb (h_name h) m) (t_handlers t).

(* the method the event is wired to (exactly one subscription, exactly one method of that name, whose
   parameter is this event) *)
Definition handler_of (t : dtable) (e : event) : option handler :=
  match subs_for t (ev_name e) with
  | [s] => match handlers_named t (sub_method s) with
           | [h] => if String.eqb (h_event h) (ev_name e) then Some h else None
           | _ => None
           end
  | _ => None
  end.

Definition interp (t : dtable) (e : event) (w : world) : option (list call * bool * Z * world) :=
  match handler_of t e with
  | Some h =>
      match resolve h e with
      | Some ws =>
          let '(cs, w', st) := run_walks (answer e) ws w in
          Some (cs, verdict_of h st, value_of e cs, w')
      | None => None
      end
  | None => None
  end.

(* the priorities the manager subscribes with (event, priority); no priority = the plain handler *)
Definition priorities (t : dtable) : list (string * Z) :=
  flat_map (fun s => match sub_prio s with Some p => [(sub_event s, p)] | None => [] end) (t_subs t).
