(* Trace predicates of the whole-simulation properties, as executable recognisers.  They are
   evaluated on the traces of the REAL simulator (monitors) and proved of the model's traces
   (Proofs/SimProofs.v).  C03: the lifecycle protocol as a deterministic stack automaton. *)
From Coq Require Import List ZArith Bool Floats.
From SR Require Import Base.CaseLib Base.NumOps Model.Turn Model.Sim.
Import ListNotations.
Open Scope Z_scope.

Inductive phase :=
| PInit0 | PInit1 | PInit2 | PInit3 | PInit4
| PWin0                      (* the queue window after BattleStart (engage) *)
| PTurnStarted (a : Z)       (* after TurnStart of unit a *)
| PPhase1 (a : Z)            (* after Phase1Start: the phase-1 queue window *)
| PAction (a : Z)            (* after Phase1End: the unit's own action may start *)
| PAfterAction (a : Z)       (* after the own ActionEnd *)
| PReset (a : Z)             (* after TurnReset *)
| PPhase2 (a : Z)            (* after Phase2Start: the phase-2 queue window *)
| PEnd2 (a : Z)              (* after Phase2End *)
| PBetween                   (* after TurnEnd *)
| PDone.                     (* after Termination: nothing may follow *)

Inductive bracket :=
| BAction (o t : Z) (ins : bool) | BInsert (k o p : Z) | BAttack (k a : Z) | BHit (a d : Z).

Record astate := mkA { ph : phase; stk : list bracket }.

Definition bracket_eqb (x y : bracket) : bool :=
  match x, y with
  | BAction o t i, BAction o' t' i' => (o =? o') && (t =? t') && Bool.eqb i i'
  | BInsert k o p, BInsert k' o' p' => (k =? k') && (o =? o') && (p =? p')
  | BAttack k a, BAttack k' a' => (k =? k') && (a =? a')
  | BHit a d, BHit a' d' => (a =? a') && (d =? d')
  | _, _ => false
  end.

Definition is_window (p : phase) : bool :=
  match p with PWin0 | PPhase1 _ | PPhase2 _ => true | _ => false end.
Definition is_done (p : phase) : bool := match p with PDone => true | _ => false end.

Definition pop_if (q : astate) (b : bracket) : option astate :=
  match stk q with
  | t :: r => if bracket_eqb t b then Some (mkA (ph q) r) else None
  | [] => None
  end.

Definition empty_stk (q : astate) : bool := match stk q with [] => true | _ => false end.

Definition astep (q : astate) (e : ev) : option astate :=
  if is_done (ph q) then None else
  match e with
  | VInitialize => match ph q with PInit0 => if empty_stk q then Some (mkA PInit1 []) else None | _ => None end
  | VCharactersAdded _ => match ph q with PInit1 => if empty_stk q then Some (mkA PInit2 []) else None | _ => None end
  | VEnemiesAdded _ => match ph q with PInit2 => if empty_stk q then Some (mkA PInit3 []) else None | _ => None end
  | VTurnTargetsAdded _ => match ph q with PInit3 => if empty_stk q then Some (mkA PInit4 []) else None | _ => None end
  | VBattleStart => match ph q with PInit4 => if empty_stk q then Some (mkA PWin0 []) else None | _ => None end
  | VTurnStart a _ _ _ =>
      match ph q with
      | PWin0 | PBetween => if empty_stk q then Some (mkA (PTurnStarted a) []) else None
      | _ => None
      end
  | VPhase1Start => match ph q with PTurnStarted a => if empty_stk q then Some (mkA (PPhase1 a) []) else None | _ => None end
  | VPhase1End => match ph q with PPhase1 a => if empty_stk q then Some (mkA (PAction a) []) else None | _ => None end
  | VTurnReset _ _ =>
      match ph q with
      | PPhase1 a | PAction a | PAfterAction a => if empty_stk q then Some (mkA (PReset a) []) else None
      | _ => None
      end
  | VPhase2Start => match ph q with PReset a => if empty_stk q then Some (mkA (PPhase2 a) []) else None | _ => None end
  | VPhase2End => match ph q with PPhase2 a => if empty_stk q then Some (mkA (PEnd2 a) []) else None | _ => None end
  | VTurnEnd _ _ => match ph q with PEnd2 _ => if empty_stk q then Some (mkA PBetween []) else None | _ => None end
  | VTermination _ _ =>
      if empty_stk q && (is_window (ph q) || match ph q with PBetween => true | _ => false end)
      then Some (mkA PDone []) else None
  | VActionStart o t ins =>
      if negb (empty_stk q) then None else
      if ins then (if is_window (ph q) then Some (mkA (ph q) [BAction o t ins]) else None)
      else match ph q with
           | PAction a => if o =? a then Some (mkA (ph q) [BAction o t ins]) else None
           | _ => None
           end
  | VActionEnd o t ins =>
      match stk q with
      | [b] => if bracket_eqb b (BAction o t ins)
               then Some (mkA (if ins then ph q else match ph q with PAction a => PAfterAction a | p => p end) [])
               else None
      | _ => None
      end
  | VInsertStart k o p =>
      if empty_stk q && is_window (ph q) then Some (mkA (ph q) [BInsert k o p]) else None
  | VInsertEnd k o p =>
      match stk q with
      | [b] => if bracket_eqb b (BInsert k o p) then Some (mkA (ph q) []) else None
      | _ => None
      end
  | VAttackStart k a =>
      (* directly inside an action or insert, never inside a hit or another attack *)
      match stk q with
      | BAction _ _ _ :: _ | BInsert _ _ _ :: _ => Some (mkA (ph q) (BAttack k a :: stk q))
      | _ => None
      end
  | VAttackEnd k a => pop_if q (BAttack k a)
  | VHitStart a d => Some (mkA (ph q) (BHit a d :: stk q))
  | VHitEnd a d _ _ => pop_if q (BHit a d)
  (* everything else is not a lifecycle event *)
  | _ => Some q
  end.

Fixpoint arun (q : astate) (tr : list ev) : option astate :=
  match tr with
  | [] => Some q
  | e :: r => match astep q e with Some q' => arun q' r | None => None end
  end.

Definition a0 : astate := mkA PInit0 [].

(* C03 for a run that returned a result: the whole trace is a protocol word ending with the
   one Termination *)
Definition protocol_ok (tr : list ev) : bool :=
  match arun a0 tr with
  | Some q => is_done (ph q) && empty_stk q
  | None => false
  end.

(* ------------------------------------------------------------------ *)
(* C08 — death is final and the dead do not act                         *)
(* ------------------------------------------------------------------ *)
Definition zin (x : Z) (l : list Z) : bool := existsb (Z.eqb x) l.

(* [dead]: announced so far.  After TargetDeath t: t never again acts, heads a turn, owns an
   insert, appears in a sample / turn order / turn-end snapshot; announced at most once *)
Fixpoint death_ok_from (dead : list Z) (tr : list ev) : bool :=
  match tr with
  | [] => true
  | e :: r =>
      match e with
      | VTargetDeath t _ => negb (zin t dead) && death_ok_from (t :: dead) r
      | VTurnStart a _ _ o => negb (zin a dead) && forallb (fun p => negb (zin (fst p) dead)) o && death_ok_from dead r
      | VTurnReset _ o => forallb (fun p => negb (zin (fst p) dead)) o && death_ok_from dead r
      | VActionStart o _ _ => negb (zin o dead) && death_ok_from dead r
      | VInsertStart _ o _ => negb (zin o dead) && death_ok_from dead r
      | VSample c en o => forallb (fun i => negb (zin i dead)) (c ++ en ++ o) && death_ok_from dead r
      | VTurnEnd c en => forallb (fun i => negb (zin i dead)) (c ++ en) && death_ok_from dead r
      | _ => death_ok_from dead r
      end
  end.
Definition death_ok (tr : list ev) : bool := death_ok_from [] tr.

(* the killer named is the attacker of the last hit that damaged the unit (itself if none).
   Events are logged when their emission completes, so the log line of an HP change may come after
   what its listeners did; the markers VHPSeen / VDeathSeen are recorded when the content's listener
   for the event starts, i.e. in emission order.  [hits]: stack of the hits in progress. *)
Fixpoint killer_ok_from (last : list (Z * Z)) (hits : list (Z * Z)) (tr : list ev) : bool :=
  match tr with
  | [] => true
  | e :: r =>
      match e with
      | VHitStart a d => killer_ok_from last ((a, d) :: hits) r
      | VHitEnd _ _ _ _ => killer_ok_from last (tl hits) r
      | VHPSeen t true =>
          (* an HP change by damage: the attacker of the innermost hit in progress *)
          match hits with
          | (a, _) :: _ => killer_ok_from ((t, a) :: last) hits r
          | [] => killer_ok_from last hits r
          end
      | VDeathSeen t k =>
          let expect := match List.find (fun p => fst p =? t) last with Some p => snd p | None => t end in
          (k =? expect) && killer_ok_from last hits r
      | _ => killer_ok_from last hits r
      end
  end.

(* ------------------------------------------------------------------ *)
(* C09 — result adds up                                                 *)
(* ------------------------------------------------------------------ *)
Definition sum_hits (is_char : Z -> bool) (want_char : bool) (tr : list ev) : float :=
  fold_left (fun acc e => match e with
                          | VHitEnd _ d t _ => if Bool.eqb (is_char d) want_char then PrimFloat.add acc t else acc
                          | _ => acc end) tr 0%float.

Definition sum_abs_hits (is_char : Z -> bool) (want_char : bool) (tr : list ev) : float :=
  fold_left (fun acc e => match e with
                          | VHitEnd _ d t _ => if Bool.eqb (is_char d) want_char then PrimFloat.add acc (PrimFloat.abs t) else acc
                          | _ => acc end) tr 0%float.

(* "equals the sum of the hits": bit-equal to the sum in log order, or - the statistics subscriber sees
   nested hits (a HitEnd listener that attacks) in another order than they are logged, and binary64
   addition is not associative - equal up to rounding: within 2^-40 of the sum of the magnitudes *)
Definition sum_close (a b scale : float) : bool :=
  feqb_bits a b || PrimFloat.leb (PrimFloat.abs (PrimFloat.sub a b)) (PrimFloat.mul scale 0x1p-40%float).

Fixpoint nondecreasing (l : list float) : bool :=
  match l with
  | x :: ((y :: _) as r) => PrimFloat.leb x y && nondecreasing r
  | _ => true
  end.

Definition last_f (l : list float) : float := last l 0%float.

Definition result_ok (nchars nunits : Z) (tr : list ev) (r : result) (av : float) : bool :=
  (* hits on ids that are not units of the battle are not counted *)
  let known := fun e => match e with VHitEnd _ d _ _ => (1 <=? d) && (d <=? nunits) | _ => true end in
  let tr' := filter known tr in
  let is_c := fun id => id <=? nchars in
  sum_close (r_dealt r) (sum_hits is_c false tr') (sum_abs_hits is_c false tr') &&
  sum_close (r_taken r) (sum_hits is_c true tr') (sum_abs_hits is_c true tr') &&
  nondecreasing (r_dealt_cyc r) && nondecreasing (r_taken_cyc r) &&
  Nat.eqb (length (r_dealt_cyc r)) (length (r_taken_cyc r)) &&
  feqb_bits (last_f (r_dealt_cyc r)) (r_dealt r) && feqb_bits (last_f (r_taken_cyc r)) (r_taken r) &&
  (* total AV = the clock at the end = the clock in the Termination event *)
  match last tr VInitialize with
  | VTermination _ t => feqb_bits t av
  | _ => false
  end.

(* exactly one Termination and it is the last event *)
Definition one_termination (tr : list ev) : bool :=
  match rev tr with
  | VTermination _ _ :: r => forallb (fun e => match e with VTermination _ _ => false | _ => true end) r
  | _ => false
  end.

(* ------------------------------------------------------------------ *)
(* C11 — the engine performs what the script decided (trace monitor)    *)
(* ------------------------------------------------------------------ *)
(* after VNextAction id typ evl (recorded when the engine asks the script), the next action
   start of that unit must be: SKILL only if a skill was decided and no fallback happened,
   NORMAL otherwise; the content call that follows names a primary target of the class the
   ability's target type requires, which has not been announced dead *)
Definition desc_of (c : config) (id : Z) : option udesc := nth_error (c_units c) (Z.to_nat (id - 1)).

Definition class_ok (c : config) (src : Z) (tt : ttype) (p : Z) : bool :=
  match desc_of c src, desc_of c p with
  | Some ds, Some dp =>
      match tt with
      | TAllies => Bool.eqb (d_char dp) (d_char ds)
      | TEnemies => negb (Bool.eqb (d_char dp) (d_char ds))
      | TSelf => p =? src
      | TInvalidType => false
      end
  | _, _ => false
  end.

Fixpoint decision_ok_from (c : config) (dead : list Z) (pending : option (Z * Z * bool)) (sp : Z)
         (tr : list ev) : bool :=
  match tr with
  | [] => true
  | e :: r =>
      match e with
      | VTargetDeath t _ => decision_ok_from c (t :: dead) pending sp r
      | VSPChange _ n => decision_ok_from c dead pending n r
      | VNextAction id typ _ => decision_ok_from c dead (Some (id, typ, false)) sp r
      | VDefaultAction id =>
          match pending with
          | Some (id', typ, _) => (id =? id') && (typ =? 1) && decision_ok_from c dead (Some (id', typ, true)) sp r
          | None => false
          end
      | VCall k id p =>
          if k =? 3 then decision_ok_from c dead None sp r        (* enemy action *)
          else if k =? 2 then                                    (* ult: target class and not dead *)
            match desc_of c id with
            | Some d => class_ok c id (d_tt_ult d) p && negb (zin p dead) && decision_ok_from c dead pending sp r
            | None => false
            end
          else
            match pending, desc_of c id with
            | Some (id', typ, fb), Some d =>
                (id =? id') &&
                (* skill performed iff decided and not fallen back *)
                Bool.eqb (k =? 1) ((typ =? 1) && negb fb) &&
                class_ok c id (if k =? 1 then d_tt_skill d else d_tt_attack d) p &&
                negb (zin p dead) &&
                decision_ok_from c dead None sp r
            | _, _ => false
            end
      | _ => decision_ok_from c dead pending sp r
      end
  end.
Definition decision_ok (c : config) (tr : list ev) : bool := decision_ok_from c [] None 3 tr.

(* ------------------------------------------------------------------ *)
(* further trace clauses                                                *)
(* ------------------------------------------------------------------ *)
(* C09: the reason reported by Termination: loss when every character has been announced dead,
   otherwise win when every enemy has, otherwise timeout with the cycle limit reached *)
Fixpoint reason_ok_from (c : config) (dead : list Z) (tr : list ev) : bool :=
  match tr with
  | [] => true
  | VTargetDeath t _ :: r => reason_ok_from c (t :: dead) r
  | VTermination reason tot :: r =>
      let n := Z.of_nat (length (c_units c)) in
      let nc := Z.of_nat (length (filter d_char (c_units c))) in
      let ids := map Z.of_nat (seq 1 (Z.to_nat n)) in
      let alive_c := existsb (fun i => (i <=? nc) && negb (zin i dead)) ids in
      let alive_e := existsb (fun i => (nc <? i) && negb (zin i dead)) ids in
      (if negb alive_c then reason =? 1
       else if negb alive_e then reason =? 2
       else (reason =? 3) && (c_cycle_limit c <=? ftoZ (PrimFloat.div tot 100))) &&
      reason_ok_from c dead r
  | _ :: r => reason_ok_from c dead r
  end.
Definition reason_ok (c : config) (tr : list ev) : bool := reason_ok_from c [] tr.

(* C08: a unit whose HP reached zero without a revive effect (LimboWaitHeal not cancelled) is dead
   from that moment, before its death is announced: it starts no action and none of its queued
   inserts is executed *)
Fixpoint dead_state_from (ds : list Z) (tr : list ev) : bool :=
  match tr with
  | [] => true
  | VLimbo t false :: r => dead_state_from (t :: ds) r
  | VActionStart o _ _ :: r => negb (zin o ds) && dead_state_from ds r
  | VInsertStart _ o _ :: r => negb (zin o ds) && dead_state_from ds r
  | _ :: r => dead_state_from ds r
  end.
Definition dead_state_ok (tr : list ev) : bool := dead_state_from [] tr.
