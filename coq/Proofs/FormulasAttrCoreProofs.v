(* The translator tie, part 2: the arithmetic of pkg/engine/attribute (Gen/FormulasAttr.v) against the
   attribute service as the combat models use it (Model/CombatCore.v: add_target, modify_hp,
   set_stance_op, modify_stance, modify_energy).  Each lemma restates the model function with the
   generated pieces plugged in and proves the two equal.  See Proofs/FormulasInfoProofs.v. *)
From Coq Require Import List ZArith Bool Floats.
From SR Require Import Model.CombatCore.
From SR Require Gen.FormulasInfo Gen.FormulasAttr.
Import ListNotations.
Open Scope Z_scope.

(* ------------------------------------------------------------------ attribute service (as modelled in CombatCore) *)

Lemma gen_add_target_is_model : forall N id ch lvl ratio energy maxE stance maxS weak props,
  add_target N id ch lvl ratio energy maxE stance maxS weak props =
  mkUnit id ch lvl (FormulasAttr.addTarget_hpRatio N ratio) (FormulasAttr.addTarget_energy N energy maxE) maxE stance maxS
         weak props FormulasInfo.TargetState_Alive id [].
Proof. reflexivity. Qed.

Lemma gen_clamp01_is_SetHP : forall N st amount,
  FormulasAttr.setHP_ratio N st amount = clamp01 N (ndiv N amount (MaxHP N st)).
Proof. reflexivity. Qed.

Lemma gen_modifyHPByAmount_is_model : forall N st amount,
  FormulasAttr.modifyHPByAmount_ratio N st amount = clamp01 N (ndiv N (nadd N (CurrentHP N st) amount) (MaxHP N st)).
Proof. reflexivity. Qed.

(* modify_hp, with the new ratio computed by the generated ModifyHPByAmount statements *)
Lemma gen_modify_hp_is_model : forall N w key target source amount dmg,
  modify_hp N w key target source amount dmg =
  match find_unit N (w_units N w) target with
  | None => (w, [])
  | Some u =>
      let st := stats_of N w target in
      let oldR := u_ratio N u in
      let newR := FormulasAttr.modifyHPByAmount_ratio N st amount in
      if neqb N oldR newR then (upd N w (set_hp N u newR (u_state N u) (u_last N u)), [])
      else
        let last := if dmg then source else u_last N u in
        let ev := IHPChange key target oldR newR (nmul N (FormulasInfo.MaxHP N st) oldR) (nmul N (FormulasInfo.MaxHP N st) newR) dmg in
        if u_state N u =? FormulasInfo.TargetState_Dead then (upd N w (set_hp N u newR FormulasInfo.TargetState_Dead last), [ev])
        else if nltb N (c0 N) newR then (upd N w (set_hp N u newR FormulasInfo.TargetState_Alive last), [ev])
        else
          let cancelled := existsb (Z.eqb target) (w_limbo N w) in
          (upd N w (set_hp N u newR (if cancelled then FormulasInfo.TargetState_Limbo else FormulasInfo.TargetState_Dead) last),
           [ev; ILimbo target cancelled])
  end.
Proof. reflexivity. Qed.

Lemma gen_set_stance_op_is_model : forall N w key target source amount,
  set_stance_op N w key target source amount =
  match find_unit N (w_units N w) target with
  | None => (w, [])
  | Some u =>
      let a := FormulasAttr.setStance_amount N (u_maxStance N u) amount in
      if neqb N (u_stance N u) a then (w, [])
      else
        let pre := if neqb N a (c0 N) then [IStanceBreak key target source]
                   else if neqb N (u_stance N u) (c0 N) then [IStanceReset key target] else [] in
        (upd N w (set_stance N u a), pre ++ [IStanceChange key target source (u_stance N u) a])
  end.
Proof. reflexivity. Qed.

(* ModifyStance reads the ALL_STANCE_DMG_PERCENT of the SOURCE *)
Lemma gen_modify_stance_is_model : forall N w key target source amount,
  modify_stance N w key target source amount =
  match find_unit N (w_units N w) target with
  | None => (w, [])
  | Some u => set_stance_op N w key target source
                (FormulasAttr.modifyStance_amount N (stats_of N w source) (u_stance N u) amount)
  end.
Proof. reflexivity. Qed.

(* ModifyEnergy reads the energy regeneration of the TARGET; SetEnergy clamps *)
Lemma gen_modify_energy_is_model : forall N w key target source amount,
  modify_energy N w key target source amount =
  match find_unit N (w_units N w) target with
  | None => (w, [])
  | Some u =>
      let e := FormulasAttr.setEnergy_amount N (u_maxEnergy N u)
                 (FormulasAttr.modifyEnergy_amount N (stats_of N w target) (u_energy N u) amount) in
      if neqb N (u_energy N u) e then (upd N w (set_energy N u e), [])
      else (upd N w (set_energy N u e), [IEnergyChange key target source (u_energy N u) e])
  end.
Proof. reflexivity. Qed.

