package main

import (
	"math"
	"strconv"
	"strings"

	"github.com/simimpact/srsim/pkg/engine/attribute"
	"github.com/simimpact/srsim/pkg/engine/event"
	"github.com/simimpact/srsim/pkg/engine/info"
	"github.com/simimpact/srsim/pkg/engine/logging"
	"github.com/simimpact/srsim/pkg/engine/prop"
	"github.com/simimpact/srsim/pkg/key"
	"github.com/simimpact/srsim/pkg/model"

	"verif/harness/term"
)

// ---- what the attribute service reads from the rest of the engine, scripted per call ----

type attrEnv struct {
	maxHP, regen, bonus    float64 // stats of the call's target
	omaxHP, oregen, obonus float64 // stats of every other unit
}

// attrEval is the modifier.Eval handed to attribute.New: the "modifier side" of a unit's
// stats is whatever the current call's env says (fresh maps on every call, NewStats mutates them).
type attrEval struct {
	target key.TargetID
	env    attrEnv
}

func (e *attrEval) EvalModifiers(target key.TargetID) *info.ModifierState {
	props := info.NewPropMap()
	if target == e.target {
		props[prop.HPBase] = e.env.maxHP
		props[prop.EnergyRegen] = e.env.regen
		props[prop.AllStanceDMGPercent] = e.env.bonus
	} else {
		props[prop.HPBase] = e.env.omaxHP
		props[prop.EnergyRegen] = e.env.oregen
		props[prop.AllStanceDMGPercent] = e.env.obonus
	}
	return &info.ModifierState{
		Props:     props,
		DebuffRES: info.NewDebuffRESMap(),
		Weakness:  info.NewWeaknessMap(),
		Flags:     nil,
		Counts:    map[model.StatusType]int{},
		Modifiers: nil,
	}
}

type attrWorld struct {
	eval  *attrEval
	svc   attribute.Manager
	limbo bool
	evs   []term.T
}

func keyOf(r key.Reason) int64 {
	n, err := strconv.ParseInt(string(r), 10, 64)
	if err != nil {
		panic("attr harness: event carries a key the harness never passed: " + string(r))
	}
	return n
}

func newAttrWorld() *attrWorld {
	w := &attrWorld{eval: &attrEval{}}
	sys := &event.System{}
	sys.HPChange.Subscribe(func(e event.HPChange) {
		w.evs = append(w.evs, term.C("EHP", term.I(keyOf(e.Key)), term.I(int64(e.Target)),
			term.F(e.OldHPRatio), term.F(e.NewHPRatio), term.F(e.OldHP), term.F(e.NewHP),
			term.B(e.IsHPChangeByDamage)))
	})
	sys.LimboWaitHeal.Subscribe(func(e event.LimboWaitHeal) bool {
		w.evs = append(w.evs, term.C("ELimbo", term.I(int64(e.Target))))
		return w.limbo
	}, 1)
	sys.EnergyChange.Subscribe(func(e event.EnergyChange) {
		w.evs = append(w.evs, term.C("EEnergy", term.I(keyOf(e.Key)), term.I(int64(e.Target)),
			term.I(int64(e.Source)), term.F(e.OldEnergy), term.F(e.NewEnergy)))
	})
	sys.StanceChange.Subscribe(func(e event.StanceChange) {
		w.evs = append(w.evs, term.C("EStance", term.I(keyOf(e.Key)), term.I(int64(e.Target)),
			term.I(int64(e.Source)), term.F(e.OldStance), term.F(e.NewStance)))
	})
	sys.StanceBreak.Subscribe(func(e event.StanceBreak) {
		w.evs = append(w.evs, term.C("EBreak", term.I(keyOf(e.Key)), term.I(int64(e.Target)),
			term.I(int64(e.Source))))
	})
	sys.StanceReset.Subscribe(func(e event.StanceReset) {
		w.evs = append(w.evs, term.C("EReset", term.I(keyOf(e.Key)), term.I(int64(e.Target))))
	})
	sys.SPChange.Subscribe(func(e event.SPChange) {
		w.evs = append(w.evs, term.C("ESP", term.I(keyOf(e.Key)), term.I(int64(e.Source)),
			term.I(int64(e.OldSP)), term.I(int64(e.NewSP))))
	})
	w.svc = attribute.New(sys, w.eval)
	return w
}

func stateName(s info.TargetState) term.T {
	switch s {
	case info.Invalid:
		return term.C("Invalid")
	case info.Dead:
		return term.C("Dead")
	case info.Limbo:
		return term.C("Limbo")
	case info.Alive:
		return term.C("Alive")
	}
	panic("attr harness: unknown target state")
}

func (w *attrWorld) snap(id key.TargetID) term.T {
	s := w.svc
	return term.C("mkSnap", term.F(s.HPRatio(id)), term.F(s.Energy(id)), term.F(s.MaxEnergy(id)),
		term.F(s.Stance(id)), term.F(s.MaxStance(id)), stateName(s.State(id)),
		term.I(int64(s.LastAttacker(id))), term.I(int64(s.SP())))
}

func errCode(err error) int64 {
	switch {
	case err == nil:
		return 0
	case strings.HasPrefix(err.Error(), "unknown target"):
		return 1
	case strings.HasPrefix(err.Error(), "target base stats already registered"):
		return 2
	case strings.HasPrefix(err.Error(), "unknown ratio type"):
		return 3
	}
	return 99
}

type attrCall struct {
	key            key.Reason
	target, source key.TargetID
}

// mkCall (mkEnv maxHP regen bonus omaxHP oregen obonus) key target source limbo
func (w *attrWorld) enter(c term.T) attrCall {
	_, a := term.Ctor(c)
	_, e := term.Ctor(a[0])
	w.eval.env = attrEnv{term.Float(e[0]), term.Float(e[1]), term.Float(e[2]),
		term.Float(e[3]), term.Float(e[4]), term.Float(e[5])}
	ac := attrCall{
		key:    key.Reason(strconv.FormatInt(term.Int(a[1]), 10)),
		target: key.TargetID(term.Int(a[2])),
		source: key.TargetID(term.Int(a[3])),
	}
	w.eval.target = ac.target
	w.limbo = term.Bool(a[4])
	return ac
}

func (c attrCall) mod(amount float64) info.ModifyAttribute {
	return info.ModifyAttribute{Key: c.key, Target: c.target, Source: c.source, Amount: amount}
}

func runAttr(in term.T) term.T {
	logging.InitLoggers()
	w := newAttrWorld()
	results := []term.T{}
	for _, o := range term.List(in) {
		name, a := term.Ctor(o)
		w.evs = nil
		w.limbo = false
		var err error
		var tgt key.TargetID
		switch name {
		case "OAdd":
			tgt = key.TargetID(term.Int(a[0]))
			err = w.svc.AddTarget(tgt, info.Attributes{
				Level:         1,
				BaseStats:     nil,
				BaseDebuffRES: nil,
				Weakness:      nil,
				HPRatio:       term.Float(a[1]),
				Energy:        term.Float(a[2]),
				MaxEnergy:     term.Float(a[3]),
				Stance:        term.Float(a[4]),
				MaxStance:     term.Float(a[5]),
			})
		case "OSetHP":
			c := w.enter(a[0])
			tgt = c.target
			err = w.svc.SetHP(c.mod(term.Float(a[1])), term.Bool(a[2]))
		case "OModHPAmount":
			c := w.enter(a[0])
			tgt = c.target
			err = w.svc.ModifyHPByAmount(c.mod(term.Float(a[1])), term.Bool(a[2]))
		case "OModHPRatio":
			c := w.enter(a[0])
			tgt = c.target
			err = w.svc.ModifyHPByRatio(info.ModifyHPByRatio{
				Key: c.key, Target: c.target, Source: c.source,
				Ratio:     term.Float(a[1]),
				RatioType: model.ModifyHPRatioType(term.Int(a[2])),
				Floor:     term.Float(a[3]),
			}, term.Bool(a[4]))
		case "OSetStance":
			c := w.enter(a[0])
			tgt = c.target
			err = w.svc.SetStance(c.mod(term.Float(a[1])))
		case "OModStance":
			c := w.enter(a[0])
			tgt = c.target
			err = w.svc.ModifyStance(c.mod(term.Float(a[1])))
		case "OSetEnergy":
			c := w.enter(a[0])
			tgt = c.target
			err = w.svc.SetEnergy(c.mod(term.Float(a[1])))
		case "OModEnergy":
			c := w.enter(a[0])
			tgt = c.target
			err = w.svc.ModifyEnergy(c.mod(term.Float(a[1])))
		case "OModEnergyFixed":
			c := w.enter(a[0])
			tgt = c.target
			err = w.svc.ModifyEnergyFixed(c.mod(term.Float(a[1])))
		case "OModSP":
			tgt = key.TargetID(term.Int(a[1]))
			err = w.svc.ModifySP(info.ModifySP{
				Key:    key.Reason(strconv.FormatInt(term.Int(a[0]), 10)),
				Source: tgt,
				Amount: int(term.Int(a[2])),
			})
		default:
			panic("attr harness: unknown op " + name)
		}
		results = append(results, term.C("mkRes", term.L(w.evs...), term.I(errCode(err)), w.snap(tgt)))
	}
	final := []term.T{}
	for id := 1; id <= 4; id++ {
		final = append(final, w.snap(key.TargetID(id)))
	}
	return term.C("Obs", term.L(results...), term.L(final...))
}

// ---- generator ----

// per-unit facts the generator remembers so that amounts can be exact boundaries
type genUnit struct {
	id                   int64
	maxHP                float64
	maxEnergy, maxStance float64
}

func pickF(r *term.Rng, xs ...float64) float64 { return xs[r.Intn(len(xs))] }

// a finite amount: half of the time a boundary of [0,hi] (exact, one ulp off, overshooting
// both ways, signed zeros), otherwise small "round" numbers whose sums hit the bounds exactly
func genAmount(r *term.Rng, hi float64) float64 {
	v := genAmountRaw(r, hi)
	if math.IsInf(v, 0) || math.IsNaN(v) {
		return hi
	}
	return v
}

func genAmountRaw(r *term.Rng, hi float64) float64 {
	switch r.Intn(10) {
	case 0:
		return pickF(r, 0, math.Copysign(0, -1))
	case 1:
		return pickF(r, hi, -hi)
	case 2:
		return pickF(r, math.Nextafter(hi, math.Inf(1)), math.Nextafter(hi, math.Inf(-1)),
			-math.Nextafter(hi, math.Inf(1)), -math.Nextafter(hi, math.Inf(-1)))
	case 3:
		return pickF(r, 2*hi, -2*hi, hi/2, -hi/2, hi+1, -(hi + 1))
	case 4:
		return pickF(r, math.MaxFloat64, -math.MaxFloat64, 1e308, -1e308, 5e-324, -5e-324, 1e-9, -1e-9)
	case 5, 6:
		return float64(r.Range(-12, 12)) * 10
	case 7:
		return float64(r.Range(-8, 8)) * 0.25 * hi
	case 8:
		return float64(r.Range(-40, 40)) * 0.125
	default:
		return (r.Float01()*3 - 1.5) * (hi + 1)
	}
}

func genScale(r *term.Rng) float64 {
	// energy regen / stance damage bonus: 0 most of the time so that sums stay exact
	switch r.Intn(8) {
	case 0:
		return pickF(r, 0.5, 0.25, 1)
	case 1:
		return pickF(r, -1, -0.5, -2, math.Copysign(0, -1))
	case 2:
		return pickF(r, 0.194, 0.1, 1e300, -1e300, 1e-300)
	default:
		return 0
	}
}

func genMaxHP(r *term.Rng) float64 {
	return pickF(r, 100, 100, 100, 1000, 1, 3, 0.1, 1234.5678, 5e-324, 1e-300, 1e300, math.MaxFloat64)
}

func genAttr(r *term.Rng, idx int) term.T {
	ids := []int64{1, 2, 3}
	units := map[int64]*genUnit{}
	ops := []term.T{}
	addUnit := func(id int64) {
		u := &genUnit{id: id, maxHP: genMaxHP(r)}
		u.maxEnergy = pickF(r, 0, 100, 100, 120, 140, 5, 0.5)
		u.maxStance = pickF(r, 0, 30, 60, 60, 90, 1, 0.25)
		hp := pickF(r, 1, 1, 1, 0.5, 0.25, 0, math.Copysign(0, -1), -1, 5e-324, 0.999)
		en := u.maxEnergy
		switch r.Intn(4) {
		case 0:
			en = 0
		case 1:
			en = u.maxEnergy / 2
		case 2:
			en = u.maxEnergy + 10 // AddTarget clamps
		}
		st := u.maxStance
		switch r.Intn(4) {
		case 0:
			st = 0
		case 1:
			st = u.maxStance / 2
		}
		if _, dup := units[id]; !dup {
			units[id] = u
		}
		ops = append(ops, term.C("OAdd", term.I(id), term.F(hp), term.F(en), term.F(u.maxEnergy),
			term.F(st), term.F(u.maxStance)))
	}
	nUnits := r.Range(1, 3)
	for i := 0; i < nUnits; i++ {
		addUnit(ids[i])
	}
	nops := r.Range(2, 30)
	// a case concentrates on few quantities so that consecutive calls chain
	focus := r.Intn(5) // 0 hp, 1 energy, 2 stance, 3 sp, 4 everything
	for len(ops) < nUnits+nops {
		if r.Chance(1, 25) {
			addUnit(term.Pick(r, ids)) // late or duplicate registration
			continue
		}
		tid := term.Pick(r, ids[:nUnits])
		if r.Chance(1, 20) {
			tid = int64(r.Range(1, 4)) // possibly unknown
		}
		u, ok := units[tid]
		if !ok {
			u = &genUnit{id: tid, maxHP: 100, maxEnergy: 100, maxStance: 60}
		}
		src := int64(r.Range(1, 4))
		maxHP := u.maxHP
		if r.Chance(1, 6) {
			maxHP = genMaxHP(r) // max HP changed since the last call
		}
		// The stance damage bonus is the same for every unit during a call: whose bonus scales
		// ModifyStance (engine.go documents the source's, the code read the target's) is
		// property C04's subject, and C07 must hold either way.  Max HP and energy regen of the
		// other units differ from the target's, so reading the wrong party's stats is seen.
		bonus := genScale(r)
		env := term.C("mkEnv", term.F(maxHP), term.F(genScale(r)), term.F(bonus),
			term.F(pickF(r, 7, 50, 1e6)), term.F(pickF(r, 0.3, 2, -0.75)), term.F(bonus))
		call := term.C("mkCall", env, term.I(int64(r.Intn(4))), term.I(tid), term.I(src), term.B(r.Chance(1, 3)))
		kind := focus
		if focus == 4 || r.Chance(1, 5) {
			kind = r.Intn(4)
		}
		switch kind {
		case 0:
			switch r.Intn(4) {
			case 0:
				ops = append(ops, term.C("OSetHP", call, term.F(genAmount(r, maxHP)), term.B(r.Bool())))
			case 1:
				ops = append(ops, term.C("OModHPAmount", call, term.F(genAmount(r, maxHP)), term.B(r.Bool())))
			default:
				ratio := pickF(r, -0.1, -0.25, -0.5, -0.5, -0.75, -1, -1, -2, 0.1, 0.25, 0.5, 1, 2, 0,
					math.Copysign(0, -1), -0.999, -1e-9, 1e308, -1e308)
				if r.Chance(1, 6) {
					ratio = r.Float01()*4 - 2
				}
				floor := pickF(r, 0, 0, 0, 1, 1, maxHP/10, maxHP/4, maxHP/2, maxHP, 2*maxHP, -1, -maxHP/2, -1e9,
					-math.MaxFloat64, math.MaxFloat64, math.Copysign(0, -1))
				if math.IsInf(floor, 0) {
					floor = maxHP
				}
				rt := int64(r.Range(1, 2))
				if r.Chance(1, 25) {
					rt = int64(pickF(r, 0, 3, -1))
				}
				ops = append(ops, term.C("OModHPRatio", call, term.F(ratio), term.I(rt), term.F(floor), term.B(r.Bool())))
			}
		case 1:
			name := term.Pick(r, []string{"OSetEnergy", "OModEnergy", "OModEnergyFixed", "OModEnergyFixed"})
			ops = append(ops, term.C(name, call, term.F(genAmount(r, u.maxEnergy))))
		case 2:
			name := term.Pick(r, []string{"OSetStance", "OModStance", "OModStance"})
			ops = append(ops, term.C(name, call, term.F(genAmount(r, u.maxStance))))
		default:
			amt := int64(r.Range(-3, 3))
			if r.Chance(1, 5) {
				amt = term.Pick(r, []int64{5, -5, 6, -6, 100, -100, math.MaxInt64, math.MinInt64,
					math.MaxInt64 - 4, math.MinInt64 + 1})
			}
			ops = append(ops, term.C("OModSP", term.I(int64(r.Intn(4))), term.I(src), term.I(amt)))
		}
	}
	return term.L(ops...)
}

func kindsAttr(in term.T) map[string]int {
	m := map[string]int{}
	for _, o := range term.List(in) {
		n, a := term.Ctor(o)
		m[n]++
		if n == "OModHPRatio" {
			if term.Float(a[3]) < 0 {
				m["ratio_negative_floor"]++
			} else if term.Float(a[3]) > 0 {
				m["ratio_positive_floor"]++
			}
		}
	}
	return m
}

func init() {
	register("attr", component{gen: genAttr, run: runAttr, kinds: kindsAttr})
}
