CONFIG = {
    "id": "C03",
    "coq_targets": ["Props/C03.v", "Model/SimCheck.v"],
    "prop_files": ["Props/C03.v"],
    "gen": [],
    "components": [{
        "name": "sim", "modules": ["Base.NumOps", "Model.Turn", "Model.Sim", "Model.SimCheck"],
        "check": "check_case", "monitor": "monitor_c03", "model_out": "monitor_detail",
        "case_type": "case", "ops_path": None, "mismatch_is_violation": False,
        "n_quick": 900, "n_thorough": 12000, "shard": 150,
    }],
    "rule": "scripted battles on the REAL simulation.Simulation: 1-4 registered harness characters (6 kinds: speeds, SP "
            "costs, target types, a Skill.CanUse / Ult.CanUse check of their own), 1-5 harness enemies (HP 50-400, speeds incl. ties), 5-14 content scripts of engine calls "
            "(attacks qualified/unqualified with lethal and scratch damage on any unit incl. dead and unknown ids, SetHP, "
            "insert abilities with real priorities and abort flags, extra actions, energy, SP, flag modifiers, gauge "
            "changes, revive switches, samples of Characters()/Enemies()/turn order), per-unit action queues, listener "
            "slots (BattleStart, ActionEnd, HitEnd, TargetDeath, HPChange, AttackStart, the OnPhase1 / OnPhase2 modifier "
            "ticks, LimboWaitHeal verdict), decision sequences of the "
            "script callbacks incl. invalid targets and ult requests, cycle limit 0-4, insert budget 0-12; distinct = "
            "distinct input term",
    "trusted": ["hits of harness content are 'plain' (no DEF/RES/stance/shield/crit), so a hit's total is its flat damage; the "
                "damage formula itself is C04",
                "listener scripts never open or close an attack bracket (legal use of the API, enforced by the model as a "
                "distinct outcome and respected by the generator); they may add hits to an attack that is open",
                "the turn manager part is Model/Turn.v at binary64 (property C02)"],
    "assumptions": ["content uses the engine API legally: an attack bracket is opened (first qualified attack) and closed (EndAttack) only from action / ult / insert bodies"],
    "manifest": {
        "level_text": "Kernel-checked theorem: every terminated run of the executable whole-simulation model (all configs, all "
                      "content scripts, all decision sequences, all fuel) produces a trace accepted by the lifecycle-protocol "
                      "stack automaton; the model's complete trace and result are compared exactly with the real simulator on "
                      "generated scripted battles, and the automaton is also run as a monitor on the real traces.",
        "level_note": "Coq kernel; hand-written model Model/Sim.v tied by whole-trace correspondence; content is scripted harness "
                      "content registered through the exported Register functions; internal/* content is not modelled.",
        "technique": "Coq proof (Hoare-style segment lemmas against a protocol automaton) + correspondence + trace monitor",
        "design_ref": "DESIGN.md section 7, C03",
    },
}
