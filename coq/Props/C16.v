(* C16 — Shields have the documented strength and absorb in parallel.
   Only statements, [exact] and [Print Assumptions] live here.

   First the theorems about flat histories (sequences of calls, listeners only record) and about one
   call; then (C16_reentrant ...) the same for histories WITH re-entrant listeners: every event kind has
   a listener slot with a queue of scripts of the manager's own operations, run inside the emission
   (Model/ShieldRe.v).  The re-entrant theorems reduce every such history to the flat ones: each call,
   top-level or nested, is one atomic step of the flat model, entered in the flat state of all calls
   entered before it, so every per-call theorem below applies to it as it stands. *)
From Coq Require Import List ZArith Reals.
From SR Require Import Model.Shield Model.ShieldRe Proofs.ShieldProofs Proofs.ShieldReProofs.
From SR Require Proofs.FormulasShieldProofs.
Import ListNotations.

(* the whole property (see Proofs/ShieldProofs.v, Part 4, for the five clauses) *)
Theorem C16_shields : C16_statement.
Proof. exact C16_holds. Qed.
Print Assumptions C16_shields.

(* after any history each unit carries at most one shield per key, for every numeric instance *)
Theorem C16_one_shield_per_key :
  forall (N : Type) (O : NumOps N) (ops : list (op N)) u,
    NoDup (keys (get_sh (exec O (init (N := N)) ops) u)).
Proof. intros N O ops u. apply exec_wf, wf_init. Qed.
Print Assumptions C16_one_shield_per_key.

(* each call meets its specification from any state with unique keys *)
Theorem C16_each_call_meets_spec :
  forall (N : Type) (O : NumOps N) (w : world N) (o : op N), wf w -> step_spec O w o (step O w o).
Proof. exact @step_meets_spec. Qed.
Print Assumptions C16_each_call_meets_spec.

(* strength = (sum of coefficient * named stat + flat) * (1 + shielder's bonus) * (1 + target's taken bonus),
   for a formula map listed in any order; each term reads the party the formula names *)
Theorem C16_strength_is_documented :
  forall f flat src tgt mx, NoDup (map fst f) ->
    strength ROps f flat src tgt mx =
    ((sum_terms src tgt mx f + flat) * (1 + s_boost src) * (1 + s_taken tgt))%R.
Proof. exact strength_documented_R. Qed.
Print Assumptions C16_strength_is_documented.

Theorem C16_terms_read_the_named_party :
  forall src tgt mx v,
    term_R src tgt mx (FAtk, v) = (v * Rmax 0 (s_atk src))%R /\
    term_R src tgt mx (FDef, v) = (v * Rmax 0 (s_def src))%R /\
    term_R src tgt mx (FHp, v) = (v * Rmax 0 (s_hp src))%R /\
    term_R src tgt mx (FTgtHp, v) = (v * Rmax 0 (s_hp tgt))%R /\
    term_R src tgt mx (FTotalShield, v) = (v * mx)%R /\
    term_R src tgt mx (FInvalid, v) = 0%R.
Proof. exact term_R_reads. Qed.
Print Assumptions C16_terms_read_the_named_party.

Theorem C16_strength_nonnegative :
  forall f flat src tgt mx, NoDup (map fst f) -> (0 <= mx)%R ->
    (forall kv, In kv f -> (0 <= snd kv)%R) -> (0 <= flat)%R ->
    (-1 <= s_boost src)%R -> (-1 <= s_taken tgt)%R ->
    (0 <= strength ROps f flat src tgt mx)%R.
Proof. exact strength_nonneg_R. Qed.
Print Assumptions C16_strength_nonnegative.

(* binary64: the damage passed on is never negative, surviving shields are strictly positive *)
Theorem C16_float_signs :
  forall (w : world PrimFloat.float) tgt d, get_sh w tgt <> [] -> PrimFloat.leb d PrimFloat.zero = false ->
    let r := do_absorb FOps w tgt d in
    let w' := fst (fst r) in let out := snd r in
    PrimFloat.ltb out PrimFloat.zero = false /\
    (forall k hp, In (k, hp) (get_sh w' tgt) ->
       PrimFloat.leb hp PrimFloat.zero = false /\
       (PrimFloat.is_nan hp = false -> PrimFloat.ltb PrimFloat.zero hp = true)).
Proof. exact absorb_F. Qed.
Print Assumptions C16_float_signs.

(* The translator tie: the order of the formula terms, the strength formula of AddShield and the
   loop of AbsorbDamage are, for every numeric instance and every argument, EQUAL to the definitions
   go2coq generates from shield/add.go and shield/absorb.go (Gen/FormulasShield.v; the conjunction
   is spelled out in Proofs/FormulasShieldProofs.v, C16_formulas_statement). *)
Theorem C16_model_formulas_are_the_source : FormulasShieldProofs.C16_formulas_statement.
Proof. exact FormulasShieldProofs.C16_formulas_hold. Qed.
Print Assumptions C16_model_formulas_are_the_source.

Theorem C16_nonvacuous :
  get_sh (exec FOps (init (N := PrimFloat.float)) demo_ops) 1%Z = demo_shields_after /\
  step FOps (exec FOps (init (N := PrimFloat.float)) (removelast demo_ops)) (last demo_ops (ORemove 0%Z 0%Z)) =
    (exec FOps (init (N := PrimFloat.float)) demo_ops, demo_last_events, demo_last_return) /\
  length demo_ops = 7%nat.
Proof. exact demo_runs. Qed.

(* ------------------------------------------------------------------------------------ *)
(* Histories WITH re-entrant listeners (all numeric instances, all script queues, all fuel; the
   out-of-fuel outcome excluded explicitly, and unreachable above the number of script operations) *)

(* the three clauses of Proofs/ShieldReProofs.v, Part 5: explained by flat atomic steps / fuel / no
   scripts = the flat model *)
Theorem C16_reentrant : C16_reentrant_statement.
Proof. exact C16_reentrant_holds. Qed.
Print Assumptions C16_reentrant.

(* at most one shield per key after any re-entrant history *)
Theorem C16_reentrant_one_shield_per_key :
  forall (N : Type) (O : NumOps N) nu nk fuel (q : slots N) ops w2 q2 t u,
    runL O nu nk fuel q (init (N := N)) ops = Done (w2, q2, t) -> NoDup (keys (get_sh w2 u)).
Proof.
  intros N O nu nk fuel q ops w2 q2 t u H.
  exact (proj2 (proj2 (reentrant_explained O nu nk fuel q _ ops w2 q2 t (wf_init (N := N)) H)) u).
Qed.
Print Assumptions C16_reentrant_one_shield_per_key.

(* every point of the trace: a call (top-level or nested) is entered in the flat state of the calls
   entered before it, with unique keys, and meets the per-call specification there; the state a listener
   sees, and the state right after a return, is that flat state *)
Theorem C16_reentrant_every_call_meets_spec :
  forall (N : Type) (O : NumOps N) nu nk fuel (q : slots N) ops w2 q2 t,
    runL O nu nk fuel q (init (N := N)) ops = Done (w2, q2, t) ->
    forall a x b, t = a ++ x :: b ->
      match x with
      | TCall o => wf (exec O (init (N := N)) (tcalls a)) /\
                   step_spec O (exec O (init (N := N)) (tcalls a)) o (step O (exec O (init (N := N)) (tcalls a)) o)
      | TEv _ p => p = probe O nu nk (exec O (init (N := N)) (tcalls a))
      | TRet _ p => p = probe O nu nk (exec O (init (N := N)) (tcalls a))
      end.
Proof.
  intros N O nu nk fuel q ops w2 q2 t H.
  exact (reentrant_observations O nu nk fuel q _ ops w2 q2 t (wf_init (N := N)) H).
Qed.
Print Assumptions C16_reentrant_every_call_meets_spec.

Theorem C16_reentrant_fuel_is_enough :
  forall (N : Type) (O : NumOps N) nu nk fuel (q : slots N) (w : world N) ops,
    (total_ops q < fuel)%nat -> exists w2 q2 t, runL O nu nk fuel q w ops = Done (w2, q2, t).
Proof. exact @fuel_enough. Qed.
Print Assumptions C16_reentrant_fuel_is_enough.

(* The clause that is about ONE call without interference: "what the call leaves behind when it
   RETURNS meets the per-call specification".  False with re-entrant listeners (a ShieldAdded listener
   removes the shield before AddShield returns); true at the call's commit (above) and for the whole call
   whenever no listener called the manager during it. *)
Theorem C16_whole_call_meets_spec_refuted : ~ C16_whole_call_meets_spec_statement.
Proof. exact whole_call_meets_spec_refuted. Qed.
Print Assumptions C16_whole_call_meets_spec_refuted.

Theorem C16_whole_call_meets_spec_partial :
  forall (N : Type) (O : NumOps N) nu nk fuel (q : slots N) (w : world N) o w2 q2 t, wf w ->
    call O nu nk fuel q w o = Done (w2, q2, t) -> tcalls t = [o] ->
    step_spec O w o (w2, snd (fst (step O w o)), snd (step O w o)).
Proof. exact @whole_call_meets_spec_partial. Qed.
Print Assumptions C16_whole_call_meets_spec_partial.

(* two readings of "announced" the property does not make, false with re-entrant listeners: the payload
   of an event is fixed at the commit of the call that emits it *)
Theorem C16_change_event_is_current_refuted : ~ C16_change_event_is_current_statement.
Proof. exact change_event_is_current_refuted. Qed.
Print Assumptions C16_change_event_is_current_refuted.

Theorem C16_removed_means_absent_refuted : ~ C16_removed_means_absent_statement.
Proof. exact removed_means_absent_refuted. Qed.
Print Assumptions C16_removed_means_absent_refuted.

(* non-vacuity with a re-entrant history three levels deep: a ShieldRemoved listener re-adds the key
   being reported, the ShieldAdded listener of that call hits the unit again (ShieldRemoved a second
   time, nested), the outer ShieldChange listener removes the shield the event names *)
Theorem C16_reentrant_nonvacuous :
  exists w2 q2 t,
    runL FOps 3 4 (S (total_ops re_q)) re_q (init (N := PrimFloat.float)) re_ops = Done (w2, q2, t) /\
    tcalls t = re_calls /\ get_sh w2 1%Z = [] /\ total_ops q2 = 0%nat /\ length t = 24%nat /\
    nth_error t 19 = Some re_outer_change.
Proof. exact re_demo_runs. Qed.
