(* C13 - The gcs lexer and parser are total.
   Only statements, [exact] and [Print Assumptions] live here. *)
From Coq Require Import List ZArith.
From SR Require Import Model.GcsAst Model.GcsLex Model.GcsParse Proofs.GcsLexProofs Proofs.GcsParseProofs.

(* every byte string: the lexer finishes without a panic within 9*len+9 steps, Parse (fuel
   16*len+64) returns a program or an error, and then the lexing goroutine has closed its channel *)
Theorem C13_lexer_and_parser_total : C13_statement.
Proof. exact C13_holds. Qed.
Print Assumptions C13_lexer_and_parser_total.

(* the lexer alone, as run by LexAll or by the deferred drain *)
Theorem C13_lexer_never_panics : forall bs, exists ts, lex_all (mk_input bs) = Ok ts.
Proof. exact lex_never_panics. Qed.
Print Assumptions C13_lexer_never_panics.

(* no receive of the parser needs more than 3*len+3 state-function calls of the lexer *)
Theorem C13_receive_is_linear : forall bs p, Reach (mk_input bs) p ->
  exists t p', recv (Z.to_nat (3 * src_len bs + 3)) (mk_input bs) p = Ok (t, p') /\ Reach (mk_input bs) p'.
Proof. exact C13_recv_linear. Qed.
Print Assumptions C13_receive_is_linear.

(* every parser function that succeeds has consumed a token (its measure T strictly
   decreases; the two loops that may stop at once do not increase it), which is why the fuel
   8 * (tokens left) + 8 is never exhausted *)
Theorem C13_parser_progress : forall inp, 0 <= in_len inp -> (forall i, 0 <= in_get inp i < 256) ->
  forall n, ALL inp n.
Proof. exact parser_all. Qed.
Print Assumptions C13_parser_progress.

Theorem C13_nonvacuous :
  (exists b, r_out (parse_bytes demo_ok) = OProgram b) /\
  r_out (parse_bytes demo_sign_digit) = OError /\
  r_out (parse_bytes demo_early_error) = OError /\ r_pulled (parse_bytes demo_early_error) = 2 /\
  r_prod (parse_bytes demo_early_error) = PClosed.
Proof. exact demo_runs. Qed.
