package main

import (
	"fmt"
	"math"

	"github.com/simimpact/srsim/pkg/engine/event"
	"github.com/simimpact/srsim/pkg/engine/info"
	"github.com/simimpact/srsim/pkg/engine/prop"
	"github.com/simimpact/srsim/pkg/engine/shield"
	"github.com/simimpact/srsim/pkg/key"
	"github.com/simimpact/srsim/pkg/model"

	"verif/harness/term"
)

// ---- a fake attribute.Getter serving chosen stat vectors (real info.Stats values) ----

type shStat struct{ atk, def, hp, boost, taken float64 }

type shAttr struct{ st map[key.TargetID]shStat }

func (a *shAttr) Stats(t key.TargetID) *info.Stats {
	s := a.st[t]
	mods := &info.ModifierState{
		Props:     info.NewPropMap(),
		DebuffRES: info.NewDebuffRESMap(),
		Weakness:  info.NewWeaknessMap(),
		Counts:    make(map[model.StatusType]int),
	}
	mods.Props[prop.ATKBase] = s.atk
	mods.Props[prop.DEFBase] = s.def
	mods.Props[prop.HPBase] = s.hp
	mods.Props[prop.ShieldBoost] = s.boost
	mods.Props[prop.ShieldTaken] = s.taken
	return info.NewStats(t, new(info.Attributes), mods)
}
func (a *shAttr) Stance(key.TargetID) float64              { return 0 }
func (a *shAttr) MaxStance(key.TargetID) float64           { return 0 }
func (a *shAttr) Energy(key.TargetID) float64              { return 0 }
func (a *shAttr) MaxEnergy(key.TargetID) float64           { return 0 }
func (a *shAttr) EnergyRatio(key.TargetID) float64         { return 0 }
func (a *shAttr) HPRatio(key.TargetID) float64             { return 1 }
func (a *shAttr) IsAlive(key.TargetID) bool                { return true }
func (a *shAttr) State(key.TargetID) info.TargetState      { return info.Alive }
func (a *shAttr) FullEnergy(key.TargetID) bool             { return false }
func (a *shAttr) LastAttacker(t key.TargetID) key.TargetID { return t }
func (a *shAttr) SP() int                                  { return 0 }

var shFormula = map[string]model.ShieldFormula{
	"FAtk":         model.ShieldFormula_SHIELD_BY_SHIELDER_ATK,
	"FDef":         model.ShieldFormula_SHIELD_BY_SHIELDER_DEF,
	"FHp":          model.ShieldFormula_SHIELD_BY_SHIELDER_MAX_HP,
	"FTgtHp":       model.ShieldFormula_SHIELD_BY_TARGET_MAX_HP,
	"FTotalShield": model.ShieldFormula_SHIELD_BY_SHIELDER_TOTAL_SHIELD,
	"FInvalid":     model.ShieldFormula_INVALID_SHIELD_FORMULA,
}

func shKey(k int64) key.Shield { return key.Shield(fmt.Sprintf("k%d", k)) }
func shKeyNum(s key.Shield) int64 {
	var k int64
	if _, err := fmt.Sscanf(string(s), "k%d", &k); err != nil {
		panic("unexpected shield key " + string(s))
	}
	return k
}
func shKeyBack(s key.Shield) term.T {
	if s == "" {
		return term.None()
	}
	return term.Some(term.I(shKeyNum(s)))
}

func shStatOf(t term.T) shStat {
	_, a := term.Ctor(t) // mkSt atk def hp boost taken
	return shStat{term.Float(a[0]), term.Float(a[1]), term.Float(a[2]), term.Float(a[3]), term.Float(a[4])}
}

func runShield(in term.T) term.T {
	it := term.TupleItems(in)
	nu, nk := int(term.Int(it[0])), int(term.Int(it[1]))
	events := &event.System{}
	attr := &shAttr{st: map[key.TargetID]shStat{}}
	mgr := shield.New(events, attr)

	var evs []term.T
	events.ShieldAdded.Subscribe(func(e event.ShieldAdded) {
		evs = append(evs, term.C("EAdded", term.I(shKeyNum(e.ID)),
			term.I(int64(e.Info.Source)), term.I(int64(e.Info.Target)), term.F(e.Info.ShieldValue), term.F(e.ShieldHealth)))
	})
	events.ShieldRemoved.Subscribe(func(e event.ShieldRemoved) {
		evs = append(evs, term.C("ERemoved", term.I(shKeyNum(e.ID)), term.I(int64(e.Target))))
	})
	events.ShieldChange.Subscribe(func(e event.ShieldChange) {
		evs = append(evs, term.C("EChange", term.I(int64(e.Target)), shKeyBack(e.ID),
			term.F(e.NewHP), term.F(e.OldHP), term.F(e.DamageIn), term.F(e.DamageOut)))
	})

	out := []term.T{}
	for _, o := range term.List(it[2]) {
		evs = nil
		ret := term.None()
		name, a := term.Ctor(o)
		switch name {
		case "OStats":
			attr.st[key.TargetID(term.Int(a[0]))] = shStatOf(a[1])
		case "OAdd":
			f := info.ShieldMap{}
			for _, e := range term.List(a[3]) {
				kv := term.TupleItems(e)
				kn, _ := term.Ctor(kv[0])
				fk, ok := shFormula[kn]
				if !ok {
					panic("unknown formula kind " + kn)
				}
				if _, dup := f[fk]; !dup { // first entry wins, as in the model's lookup
					f[fk] = term.Float(kv[1])
				}
			}
			mgr.AddShield(shKey(term.Int(a[0])), info.Shield{
				Source:      key.TargetID(term.Int(a[1])),
				Target:      key.TargetID(term.Int(a[2])),
				BaseShield:  f,
				ShieldValue: term.Float(a[4]),
			})
		case "ORemove":
			mgr.RemoveShield(shKey(term.Int(a[0])), key.TargetID(term.Int(a[1])))
		case "OAbsorb":
			r := mgr.AbsorbDamage(key.TargetID(term.Int(a[0])), term.Float(a[1]))
			ret = term.Some(term.F(r))
		default:
			panic("unknown op " + name)
		}
		probe := []term.T{}
		for u := 0; u < nu; u++ {
			has := []term.T{}
			for k := 0; k < nk; k++ {
				has = append(has, term.B(mgr.HasShield(key.TargetID(u), shKey(int64(k)))))
			}
			probe = append(probe, term.Tup(term.B(mgr.IsShielded(key.TargetID(u))), term.F(mgr.MaxShield(key.TargetID(u))), term.L(has...)))
		}
		out = append(out, term.C("mkObs", term.L(evs...), ret, term.L(probe...)))
	}
	return term.C("Ok", term.L(out...))
}

// ---- generator ----
// A shadow of the documented behaviour is kept only to aim damage amounts at the boundaries
// (exactly a shield's strength, one ulp below/above); nothing is compared against it.

type shShadow struct {
	k  int64
	hp float64
}

func shDim(x, y float64) float64 {
	if v := x - y; v > 0 {
		return v
	}
	return 0
}

func genShield(r *term.Rng, idx int) term.T {
	nu, nk := 3, 4
	statPool := []float64{0, 50, 80, 100, 100, 1000, 1234.5, 3.25}
	bonusPool := []float64{0, 0, 0.2, 0.5, 1, -0.25, 0.1}
	coefPool := []float64{0.5, 1, 0.1, 0.25, 2, 0, 0.57, -0.5}
	flatPool := []float64{0, 0, 20, 150, 320, 0.1, -10}
	kindsAll := []string{"FAtk", "FDef", "FHp", "FTgtHp", "FTotalShield", "FInvalid"}

	stats := make([]shStat, nu)
	shadow := make([][]shShadow, nu)
	ops := []term.T{}
	statTerm := func(s shStat) term.T {
		return term.C("mkSt", term.F(s.atk), term.F(s.def), term.F(s.hp), term.F(s.boost), term.F(s.taken))
	}
	eff := func(x float64) float64 {
		if x < 0 {
			return 0
		}
		return x
	}
	maxOf := func(u int) float64 {
		m := 0.0
		for _, s := range shadow[u] {
			if s.hp > m {
				m = s.hp
			}
		}
		return m
	}
	for u := 0; u < nu; u++ {
		if r.Chance(4, 5) {
			stats[u] = shStat{term.Pick(r, statPool), term.Pick(r, statPool), term.Pick(r, statPool), term.Pick(r, bonusPool), term.Pick(r, bonusPool)}
			ops = append(ops, term.C("OStats", term.I(int64(u)), statTerm(stats[u])))
		}
	}
	nops := r.Range(5, 40)
	for len(ops) < nops {
		switch c := r.Intn(20); {
		case c < 1:
			u := r.Intn(nu)
			stats[u] = shStat{term.Pick(r, statPool), term.Pick(r, statPool), term.Pick(r, statPool), term.Pick(r, bonusPool), term.Pick(r, bonusPool)}
			if r.Chance(1, 6) {
				stats[u].atk = -stats[u].atk // statCalc clamps a negative stat at zero
			}
			ops = append(ops, term.C("OStats", term.I(int64(u)), statTerm(stats[u])))
		case c < 8:
			k, src, tgt := int64(r.Intn(nk)), r.Intn(nu), r.Intn(nu)
			nt := r.Intn(4) // 0..3 formula terms; sometimes all five
			if r.Chance(1, 10) {
				nt = 5
			}
			used := map[string]bool{}
			f := []term.T{}
			base := 0.0
			terms := map[string]float64{}
			for len(f) < nt {
				kn := term.Pick(r, kindsAll)
				if used[kn] {
					continue
				}
				used[kn] = true
				co := term.Pick(r, coefPool)
				f = append(f, term.Tup(term.C(kn), term.F(co)))
				terms[kn] = co
			}
			for _, kn := range kindsAll {
				co, ok := terms[kn]
				if !ok {
					continue
				}
				switch kn {
				case "FAtk":
					base += co * eff(stats[src].atk)
				case "FDef":
					base += co * eff(stats[src].def)
				case "FHp":
					base += co * eff(stats[src].hp)
				case "FTgtHp":
					base += co * eff(stats[tgt].hp)
				case "FTotalShield":
					base += co * maxOf(src)
				}
			}
			flat := term.Pick(r, flatPool)
			hp := (base + flat) * (1 + stats[src].boost) * (1 + stats[tgt].taken)
			done := false
			for i := range shadow[tgt] {
				if shadow[tgt][i].k == k {
					shadow[tgt][i].hp = hp
					done = true
				}
			}
			if !done {
				shadow[tgt] = append(shadow[tgt], shShadow{k, hp})
			}
			ops = append(ops, term.C("OAdd", term.I(k), term.I(int64(src)), term.I(int64(tgt)), term.L(f...), term.F(flat)))
		case c < 10:
			k, tgt := int64(r.Intn(nk)), r.Intn(nu)
			keep := shadow[tgt][:0]
			for _, s := range shadow[tgt] {
				if s.k != k {
					keep = append(keep, s)
				}
			}
			shadow[tgt] = keep
			ops = append(ops, term.C("ORemove", term.I(k), term.I(int64(tgt))))
		default:
			tgt := r.Intn(nu)
			if len(shadow[tgt]) == 0 && r.Chance(2, 3) { // prefer shielded units
				for u := 0; u < nu; u++ {
					if len(shadow[u]) > 0 {
						tgt = u
					}
				}
			}
			var d float64
			if len(shadow[tgt]) > 0 && r.Chance(3, 5) {
				h := term.Pick(r, shadow[tgt]).hp
				switch r.Intn(6) {
				case 0, 1:
					d = h // exactly the shield's strength
				case 2:
					d = math.Nextafter(h, math.Inf(-1))
				case 3:
					d = math.Nextafter(h, math.Inf(1))
				case 4:
					d = h / 2
				default:
					d = maxOf(tgt) + term.Pick(r, []float64{0, 1, 10, 0.1})
				}
			} else {
				d = term.Pick(r, []float64{0, math.Copysign(0, -1), -1, -50.5, 1, 10, 25, 50, 100, 1e4, 5e-324, 0.1})
			}
			keep := shadow[tgt][:0]
			if d > 0 {
				for _, s := range shadow[tgt] {
					if s.hp = shDim(s.hp, d); s.hp != 0 {
						keep = append(keep, s)
					}
				}
				shadow[tgt] = keep
			}
			ops = append(ops, term.C("OAbsorb", term.I(int64(tgt)), term.F(d)))
		}
	}
	return term.Tup(term.Nat(nu), term.Nat(nk), term.L(ops...))
}

func kindsShield(in term.T) map[string]int {
	m := map[string]int{}
	for _, o := range term.List(term.TupleItems(in)[2]) {
		n, a := term.Ctor(o)
		m[n]++
		if n == "OAdd" {
			m[fmt.Sprintf("add_terms_%d", len(term.List(a[3])))]++
			if term.Float(a[4]) != 0 {
				m["add_with_flat"]++
			}
		}
		if n == "OAbsorb" && !(term.Float(a[1]) > 0) {
			m["absorb_nonpositive"]++
		}
	}
	return m
}

func init() {
	register("shield", component{gen: genShield, run: runShield, kinds: kindsShield})
}
