(* Proofs for C16 over Model/Shield.v.
   Part 1: structural facts for every numeric instance (replace-by-key, parallel absorption,
           removal, announcements, frame conditions, the key-uniqueness invariant).
   Part 2: the algebraic / order clauses at the real-number instance [ROps].
   Part 3: sign facts at the binary64 instance [FOps] (from the FloatAxioms specs).
   Part 4: the property statement over all operation sequences. *)
From Coq Require Import List ZArith Bool Floats Reals Lra Lia.
From SR Require Import Model.Shield.
Import ListNotations.
Open Scope Z_scope.

(* ------------------------------------------------------------------------------------ *)
(* Part 1: any instance *)
Section Generic.
Context {N : Type} (O : NumOps N).

Definition keys (l : list (shield N)) : list Z := map fst l.

Lemma aget_aset_same : forall A (m : list (Z * A)) k v, aget (aset m k v) k = Some v.
Proof.
  induction m as [|[k' v'] r IH]; intros k v; cbn.
  - now rewrite Z.eqb_refl.
  - destruct (k' =? k) eqn:E; cbn.
    + now rewrite Z.eqb_refl.
    + rewrite E. apply IH.
Qed.

Lemma aget_aset_other : forall A (m : list (Z * A)) k k' v, k <> k' -> aget (aset m k v) k' = aget m k'.
Proof.
  induction m as [|[k0 v0] r IH]; intros k k' v Hne; cbn.
  - destruct (k =? k') eqn:E; [apply Z.eqb_eq in E; contradiction|reflexivity].
  - destruct (k0 =? k) eqn:E; cbn.
    + apply Z.eqb_eq in E. subst k0.
      destruct (k =? k') eqn:E'; [apply Z.eqb_eq in E'; contradiction|reflexivity].
    + destruct (k0 =? k'); [reflexivity|]. now apply IH.
Qed.

Lemma get_set_same : forall (w : world N) u l, get_sh (set_sh w u l) u = l.
Proof. intros. unfold get_sh, set_sh; cbn. now rewrite aget_aset_same. Qed.
Lemma get_set_other : forall (w : world N) u u' l, u <> u' -> get_sh (set_sh w u l) u' = get_sh w u'.
Proof. intros. unfold get_sh, set_sh; cbn. now rewrite aget_aset_other. Qed.
Lemma get_st_set_sh : forall (w : world N) u l u', get_st O (set_sh w u l) u' = get_st O w u'.
Proof. reflexivity. Qed.
Lemma get_sh_set_st : forall (w : world N) u s u', get_sh (set_st w u s) u' = get_sh w u'.
Proof. reflexivity. Qed.

Lemma has_key_In : forall (l : list (shield N)) k, has_key l k = true <-> In k (keys l).
Proof.
  intros l k. unfold has_key, keys. rewrite existsb_exists, in_map_iff. split.
  - intros [s [Hin He]]. apply Z.eqb_eq in He. eauto.
  - intros [s [He Hin]]. exists s. split; [assumption|now apply Z.eqb_eq].
Qed.
Lemma has_key_false : forall (l : list (shield N)) k, has_key l k = false <-> ~ In k (keys l).
Proof.
  intros. rewrite <- has_key_In. destruct (has_key l k); split; intros; try congruence; intuition.
Qed.

(* -- AddShield: replace in place -- *)
Lemma replace_key_spec : forall (l : list (shield N)) k hp, In k (keys l) ->
  exists pre old post, l = pre ++ (k, old) :: post /\ ~ In k (keys pre) /\
    replace_key l k hp = pre ++ (k, hp) :: post.
Proof.
  induction l as [|[k0 h0] r IH]; intros k hp Hin; [destruct Hin|].
  cbn [replace_key fst]. destruct (k0 =? k) eqn:E.
  - apply Z.eqb_eq in E. subst k0. exists [], h0, r. cbn. auto.
  - cbn in Hin. destruct Hin as [He|Hin]; [subst; rewrite Z.eqb_refl in E; discriminate|].
    destruct (IH k hp Hin) as [pre [old [post [H1 [H2 H3]]]]].
    exists ((k0, h0) :: pre), old, post. cbn. rewrite H1 at 1. rewrite H3. repeat split; auto.
    intros [He|Hi]; [subst; rewrite Z.eqb_refl in E; discriminate|contradiction].
Qed.

Lemma keys_app : forall a b : list (shield N), keys (a ++ b) = keys a ++ keys b.
Proof. intros. unfold keys. apply map_app. Qed.

Lemma keys_replace : forall (l : list (shield N)) k hp, keys (replace_key l k hp) = keys l.
Proof.
  induction l as [|[k0 h0] r IH]; intros; [reflexivity|].
  cbn [replace_key fst]. destruct (k0 =? k) eqn:E; cbn.
  - apply Z.eqb_eq in E. now subst.
  - now rewrite IH.
Qed.

Lemma nodup_snoc : forall (l : list Z) k, NoDup l -> ~ In k l -> NoDup (l ++ [k]).
Proof.
  induction l as [|x r IH]; intros k Hnd Hni; cbn.
  - constructor; [intros []|constructor].
  - inversion Hnd as [|? ? Hx Hr]; subst. constructor.
    + rewrite in_app_iff. intros [Hi|[He|[]]]; [contradiction|]. subst. apply Hni. now left.
    + apply IH; [assumption|]. intros Hi. apply Hni. now right.
Qed.

Lemma put_shield_nodup : forall (l : list (shield N)) k hp, NoDup (keys l) -> NoDup (keys (put_shield l k hp)).
Proof.
  intros l k hp Hnd. unfold put_shield. destruct (has_key l k) eqn:E.
  - now rewrite keys_replace.
  - rewrite keys_app. cbn. apply has_key_false in E.
    now apply nodup_snoc.
Qed.

(* -- key-uniqueness invariant -- *)
Definition wf (w : world N) : Prop := forall u, NoDup (keys (get_sh w u)).

Lemma wf_init : wf (init (N := N)).
Proof. intros u. cbn. constructor. Qed.

Lemma keys_filter_In : forall (f : shield N -> bool) l k, In k (keys (filter f l)) -> In k (keys l).
Proof.
  intros f l k H. unfold keys in *. apply in_map_iff in H. destruct H as [s [He Hi]].
  apply filter_In in Hi. apply in_map_iff. exists s. tauto.
Qed.

Lemma keys_filter_nodup : forall (f : shield N -> bool) l, NoDup (keys l) -> NoDup (keys (filter f l)).
Proof.
  induction l as [|s r IH]; intros Hnd; cbn; [constructor|].
  inversion Hnd as [|? ? Hx Hr]; subst.
  destruct (f s); cbn; [constructor|]; auto.
  intros Hi. apply Hx. eapply keys_filter_In. exact Hi.
Qed.

Lemma filter_partition_keys : forall (f : shield N -> bool) l k, NoDup (keys l) -> In k (keys l) ->
  (In k (keys (filter f l)) /\ ~ In k (keys (filter (fun s => negb (f s)) l))) \/
  (~ In k (keys (filter f l)) /\ In k (keys (filter (fun s => negb (f s)) l))).
Proof.
  induction l as [|s r IH]; intros k Hnd Hin; [destruct Hin|].
  inversion Hnd as [|? ? Hx Hr]; subst. cbn in Hin.
  destruct Hin as [He|Hin].
  - subst k. cbn. destruct (f s) eqn:E; cbn.
    + left. split; [now left|]. intros Hi. apply Hx. eapply keys_filter_In; exact Hi.
    + right. split; [|now left]. intros Hi. apply Hx. eapply keys_filter_In; exact Hi.
  - assert (Hne : fst s <> k) by (intros He; apply Hx; rewrite He; exact Hin).
    destruct (IH k Hr Hin) as [[H1 H2]|[H1 H2]]; [left|right]; cbn; destruct (f s); cbn; split;
      try assumption; try (right; assumption); try (intros [He|Hi]; contradiction).
Qed.

Lemma keys_map_hit : forall d (l : list (shield N)), keys (map (hit O d) l) = keys l.
Proof. intros. unfold keys. rewrite map_map. reflexivity. Qed.

(* -- RemoveShield -- *)
Lemma drop_key_not_in : forall (l : list (shield N)) k, ~ In k (keys (drop_key l k)).
Proof.
  intros l k H. unfold keys, drop_key in H. apply in_map_iff in H. destruct H as [s [He Hi]].
  apply filter_In in Hi. destruct Hi as [_ Hf]. subst k. now rewrite Z.eqb_refl in Hf.
Qed.

(* -- AbsorbDamage -- *)
Definition kept (d : N) (l : list (shield N)) : list (shield N) :=
  filter (fun s => negb (is_zero O s)) (map (hit O d) l).
Definition gone (d : N) (l : list (shield N)) : list Z :=
  keys (filter (is_zero O) (map (hit O d) l)).

Lemma kept_nodup : forall d l, NoDup (keys l) -> NoDup (keys (kept d l)).
Proof. intros. unfold kept. apply keys_filter_nodup. now rewrite keys_map_hit. Qed.
Lemma gone_nodup : forall d l, NoDup (keys l) -> NoDup (gone d l).
Proof. intros. unfold gone. apply keys_filter_nodup. now rewrite keys_map_hit. Qed.

Lemma absorb_each : forall d l k hp, NoDup (keys l) -> In (k, hp) l ->
  (n_eqb O (dim O hp d) (zero O) = true /\ In k (gone d l) /\ ~ In k (keys (kept d l))) \/
  (n_eqb O (dim O hp d) (zero O) = false /\ In (k, dim O hp d) (kept d l) /\ ~ In k (gone d l)).
Proof.
  intros d l k hp Hnd Hin.
  assert (Hh : In (k, dim O hp d) (map (hit O d) l)).
  { apply in_map_iff. exists (k, hp). split; [reflexivity|assumption]. }
  assert (Hk : In k (keys (map (hit O d) l))).
  { unfold keys. apply in_map_iff. exists (k, dim O hp d). split; [reflexivity|assumption]. }
  assert (Hnd' : NoDup (keys (map (hit O d) l))) by now rewrite keys_map_hit.
  destruct (filter_partition_keys (is_zero O) _ k Hnd' Hk) as [[H1 H2]|[H1 H2]].
  - destruct (n_eqb O (dim O hp d) (zero O)) eqn:E.
    + left. auto.
    + exfalso. apply H2. unfold keys. apply in_map_iff. exists (k, dim O hp d). split; [reflexivity|].
      apply filter_In. split; [assumption|]. unfold is_zero; cbn. now rewrite E.
  - destruct (n_eqb O (dim O hp d) (zero O)) eqn:E.
    + exfalso. apply H1. unfold keys. apply in_map_iff. exists (k, dim O hp d). split; [reflexivity|].
      apply filter_In. split; [assumption|]. unfold is_zero; cbn. exact E.
    + right. repeat split; [|exact H1]. unfold kept. apply filter_In. split; [assumption|].
      unfold is_zero; cbn. now rewrite E.
Qed.

Lemma kept_from : forall d l k hp, In (k, hp) (kept d l) ->
  n_eqb O hp (zero O) = false /\ exists hp0, In (k, hp0) l /\ hp = dim O hp0 d.
Proof.
  intros d l k hp H. unfold kept in H. apply filter_In in H. destruct H as [Hm Hz].
  apply in_map_iff in Hm. destruct Hm as [[k0 h0] [He Hi]]. unfold hit in He; cbn in He.
  inversion He; subst. split.
  - unfold is_zero in Hz; cbn in Hz. now destruct (n_eqb O (dim O h0 d) (zero O)).
  - exists h0. auto.
Qed.

(* ---------------------------------------------------------------------------------- *)
(* what one call does, stated without the model's code *)
Definition frame (w w' : world N) (tgt : Z) : Prop :=
  (forall u, u <> tgt -> get_sh w' u = get_sh w u) /\ (forall u, get_st O w' u = get_st O w u).

Definition add_spec (w : world N) key src tgt f flat (w' : world N) (evs : list (event N)) (ret : option N) : Prop :=
  let ssrc := get_st O w src in let stgt := get_st O w tgt in
  let mx := max_shield O (get_sh w src) in
  let hp := strength O f flat ssrc stgt mx in
  let l := get_sh w tgt in let l' := get_sh w' tgt in
  ret = None /\ evs = [EAdded key src tgt flat (base_hp O f flat ssrc stgt mx)] /\ frame w w' tgt /\
  ((In key (keys l) /\ exists pre old post, l = pre ++ (key, old) :: post /\
       ~ In key (keys pre) /\ ~ In key (keys post) /\ l' = pre ++ (key, hp) :: post)
   \/ (~ In key (keys l) /\ l' = l ++ [(key, hp)])).

Definition remove_spec (w : world N) key tgt (w' : world N) (evs : list (event N)) (ret : option N) : Prop :=
  let l := get_sh w tgt in let l' := get_sh w' tgt in
  ret = None /\
  ((In key (keys l) /\ evs = [ERemoved key tgt] /\ frame w w' tgt /\
      l' = filter (fun s => negb (fst s =? key)) l /\ ~ In key (keys l'))
   \/ (~ In key (keys l) /\ evs = [] /\ w' = w)).

Definition absorb_spec (w : world N) tgt d (w' : world N) (evs : list (event N)) (ret : option N) : Prop :=
  let l := get_sh w tgt in let l' := get_sh w' tgt in
  ((l = [] \/ n_leb O d (zero O) = true) /\ w' = w /\ evs = [] /\ ret = Some d)
  \/
  (l <> [] /\ n_leb O d (zero O) = false /\ frame w w' tgt /\
   l' = kept d l /\
   (forall k hp, In (k, hp) l ->
      (n_eqb O (dim O hp d) (zero O) = true /\ In k (gone d l) /\ ~ In k (keys l')) \/
      (n_eqb O (dim O hp d) (zero O) = false /\ In (k, dim O hp d) l' /\ ~ In k (gone d l))) /\
   (forall k hp, In (k, hp) l' ->
      n_eqb O hp (zero O) = false /\ exists hp0, In (k, hp0) l /\ hp = dim O hp0 d) /\
   NoDup (gone d l) /\
   (exists mid nmax, evs = map (fun k => ERemoved k tgt) (gone d l) ++
                            [EChange tgt mid nmax (max_shield O l) d (damage_out O d l)]) /\
   ret = Some (damage_out O d l)).

Definition step_spec (w : world N) (o : op N) (r : world N * list (event N) * option N) : Prop :=
  let '(w', evs, ret) := r in
  match o with
  | OStats u s => evs = [] /\ ret = None /\ (forall u', get_sh w' u' = get_sh w u') /\
                  get_st O w' u = s /\ (forall u', u' <> u -> get_st O w' u' = get_st O w u')
  | OAdd key src tgt f flat => add_spec w key src tgt f flat w' evs ret
  | ORemove key tgt => remove_spec w key tgt w' evs ret
  | OAbsorb tgt d => absorb_spec w tgt d w' evs ret
  end.

Lemma frame_set_sh : forall (w : world N) tgt l, frame w (set_sh w tgt l) tgt.
Proof. intros. split; intros; [now apply get_set_other; auto|reflexivity]. Qed.

Lemma step_meets_spec : forall w o, wf w -> step_spec w o (step O w o).
Proof.
  intros w o Hwf. destruct o as [u s|key src tgt f flat|key tgt|tgt d]; cbn [step].
  - cbn. repeat split.
    + unfold get_st, set_st; cbn. now rewrite aget_aset_same.
    + intros u' Hne. unfold get_st, set_st; cbn. rewrite aget_aset_other; auto.
  - unfold do_add. cbn [step_spec]. unfold add_spec. rewrite get_set_same.
    split; [reflexivity|]. split; [reflexivity|]. split.
    { split; intros; [apply get_set_other; auto|reflexivity]. }
    unfold put_shield. destruct (has_key (get_sh w tgt) key) eqn:E.
    + left. apply has_key_In in E. split; [assumption|].
      destruct (replace_key_spec (get_sh w tgt) key
                  (strength O f flat (get_st O w src) (get_st O w tgt) (max_shield O (get_sh w src))) E)
        as [pre [old [post [H1 [H2 H3]]]]].
      exists pre, old, post. repeat split; auto.
      specialize (Hwf tgt). rewrite H1 in Hwf. rewrite keys_app in Hwf. cbn in Hwf.
      apply NoDup_remove_2 in Hwf. intros Hi. apply Hwf. apply in_or_app. now right.
    + right. apply has_key_false in E. auto.
  - unfold do_remove. cbn [step_spec]. unfold remove_spec.
    destruct (has_key (get_sh w tgt) key) eqn:E.
    + split; [reflexivity|]. left. apply has_key_In in E. rewrite get_set_same.
      repeat split; auto.
      * intros; apply get_set_other; auto.
      * apply drop_key_not_in.
    + split; [reflexivity|]. right. apply has_key_false in E. auto.
  - unfold do_absorb. cbn [step_spec]. unfold absorb_spec.
    destruct (is_shielded (get_sh w tgt)) eqn:Es; cbn [negb orb].
    2:{ left. destruct (get_sh w tgt); [|discriminate]. auto. }
    destruct (n_leb O d (Shield.zero O)) eqn:El.
    { left. auto. }
    destruct (new_max O (map (hit O d) (get_sh w tgt))) as [nmax mid] eqn:En.
    right. rewrite get_set_same.
    split. { intros H; rewrite H in Es; discriminate. }
    split; [assumption|]. split; [apply frame_set_sh|]. split; [reflexivity|].
    split. { intros k hp Hin. apply absorb_each; auto. }
    split. { intros k hp Hin. eapply kept_from; eauto. }
    split. { apply gone_nodup. apply Hwf. }
    split; [|reflexivity].
    exists mid, nmax. unfold gone, keys. rewrite map_map. reflexivity.
Qed.

Lemma step_keeps_wf : forall w o, wf w -> wf (fst (fst (step O w o))).
Proof.
  intros w o Hwf. destruct o as [u s|key src tgt f flat|key tgt|tgt d]; cbn [step].
  - cbn. intros u'. apply Hwf.
  - unfold do_add. cbn. intros u. destruct (Z.eq_dec tgt u) as [->|Hne].
    + rewrite get_set_same. apply put_shield_nodup. apply Hwf.
    + rewrite get_set_other by assumption. apply Hwf.
  - unfold do_remove. destruct (has_key (get_sh w tgt) key); cbn; [|assumption].
    intros u. destruct (Z.eq_dec tgt u) as [->|Hne].
    + rewrite get_set_same. unfold drop_key. apply keys_filter_nodup. apply Hwf.
    + rewrite get_set_other by assumption. apply Hwf.
  - unfold do_absorb.
    destruct (negb (is_shielded (get_sh w tgt)) || n_leb O d (Shield.zero O)); cbn; [assumption|].
    destruct (new_max O (map (hit O d) (get_sh w tgt))) as [nmax mid]. cbn.
    intros u. destruct (Z.eq_dec tgt u) as [->|Hne].
    + rewrite get_set_same. apply kept_nodup. apply Hwf.
    + rewrite get_set_other by assumption. apply Hwf.
Qed.

(* the world after a sequence of operations *)
Fixpoint exec (w : world N) (ops : list (op N)) : world N :=
  match ops with [] => w | o :: r => exec (fst (fst (step O w o))) r end.

Lemma exec_wf : forall ops w, wf w -> wf (exec w ops).
Proof. induction ops as [|o r IH]; intros w H; cbn; [assumption|]. apply IH. now apply step_keeps_wf. Qed.

Lemma exec_app : forall a b w, exec w (a ++ b) = exec (exec w a) b.
Proof. induction a as [|o r IH]; intros; cbn; [reflexivity|apply IH]. Qed.

(* the harness-visible run is the sequence of step outputs along [exec] *)
Lemma run_app_last : forall nu nk ops w o,
  run O nu nk w (ops ++ [o]) =
  run O nu nk w ops ++
    [let '(w', evs, ret) := step O (exec w ops) o in mkObs evs ret (probe O nu nk w')].
Proof.
  induction ops as [|o0 r IH]; intros w o; cbn.
  - destruct (step O w o) as [[w' evs] ret]. reflexivity.
  - destruct (step O w o0) as [[w' evs] ret] eqn:E. cbn. now rewrite IH.
Qed.

End Generic.

(* ------------------------------------------------------------------------------------ *)
(* Part 2: the real-number instance *)
Section Reals.
Open Scope R_scope.

Definition Rleb (a b : R) : bool := if Rle_dec a b then true else false.
Definition Rltb (a b : R) : bool := if Rlt_dec a b then true else false.
Definition Reqb (a b : R) : bool := if Req_EM_T a b then true else false.
Definition ROps : NumOps R := mkOps R 0 1 Rplus Rminus Rmult Rleb Rltb Reqb.

Lemma Rleb_true : forall a b, Rleb a b = true <-> a <= b.
Proof. intros. unfold Rleb. destruct (Rle_dec a b); split; intros; try discriminate; auto; contradiction. Qed.
Lemma Rleb_false : forall a b, Rleb a b = false <-> b < a.
Proof. intros. unfold Rleb. destruct (Rle_dec a b); split; intros; try discriminate; auto; lra. Qed.
Lemma Rltb_true : forall a b, Rltb a b = true <-> a < b.
Proof. intros. unfold Rltb. destruct (Rlt_dec a b); split; intros; try discriminate; auto; contradiction. Qed.
Lemma Rltb_false : forall a b, Rltb a b = false <-> b <= a.
Proof. intros. unfold Rltb. destruct (Rlt_dec a b); split; intros; try discriminate; auto; lra. Qed.
Lemma Reqb_true : forall a b, Reqb a b = true <-> a = b.
Proof. intros. unfold Reqb. destruct (Req_EM_T a b); split; intros; try discriminate; auto; contradiction. Qed.
Lemma Reqb_false : forall a b, Reqb a b = false <-> a <> b.
Proof. intros. unfold Reqb. destruct (Req_EM_T a b); split; intros; try discriminate; auto; contradiction. Qed.

Lemma dim_R : forall x y, dim ROps x y = Rmax 0 (x - y).
Proof.
  intros. unfold dim; cbn. destruct (Rleb (x - y) 0) eqn:E.
  - apply Rleb_true in E. unfold zero; cbn. rewrite Rmax_left; lra.
  - apply Rleb_false in E. rewrite Rmax_right; lra.
Qed.

Lemma statcalc_R : forall x, statcalc ROps x = Rmax 0 x.
Proof.
  intros. unfold statcalc, zero, one; cbn. replace (x * (1 + 0) + (0 + 0)) with x by lra.
  destruct (Rltb x 0) eqn:E.
  - apply Rltb_true in E. rewrite Rmax_left; lra.
  - apply Rltb_false in E. rewrite Rmax_right; lra.
Qed.

(* -- MaxShield = the largest shield, at least 0 -- *)
Fixpoint rmax_from (m : R) (l : list (shield R)) : R :=
  match l with [] => m | s :: r => rmax_from (Rmax m (snd s)) r end.

Lemma max_shield_from : forall l m,
  fold_left (fun m s => if n_ltb ROps m (snd s) then snd s else m) l m = rmax_from m l.
Proof.
  induction l as [|s r IH]; intros m; [reflexivity|]. cbn [fold_left rmax_from].
  rewrite IH. f_equal. cbn.
  destruct (Rltb m (snd s)) eqn:E.
  - apply Rltb_true in E. rewrite Rmax_right; lra.
  - apply Rltb_false in E. rewrite Rmax_left; lra.
Qed.

Lemma rmax_from_ge : forall l m, m <= rmax_from m l.
Proof.
  induction l as [|s r IH]; intros m; cbn; [lra|].
  eapply Rle_trans; [apply Rmax_l|apply IH].
Qed.
Lemma rmax_from_mono : forall l m m', m <= m' -> rmax_from m l <= rmax_from m' l.
Proof.
  induction l as [|s r IH]; intros m m' H; cbn; [assumption|]. apply IH.
  apply Rle_max_compat_r. assumption.
Qed.
Lemma rmax_from_upper : forall l m s, In s l -> snd s <= rmax_from m l.
Proof.
  induction l as [|s0 r IH]; intros m s Hin; [destruct Hin|]. cbn. destruct Hin as [->|Hin].
  - eapply Rle_trans; [apply Rmax_r|apply rmax_from_ge].
  - now apply IH.
Qed.
Lemma rmax_from_attained : forall l m, rmax_from m l = m \/ exists s, In s l /\ snd s = rmax_from m l.
Proof.
  induction l as [|s0 r IH]; intros m; cbn; [now left|].
  destruct (IH (Rmax m (snd s0))) as [H|[s [Hi He]]].
  - rewrite H. unfold Rmax. destruct (Rle_dec m (snd s0)); [|now left].
    right. exists s0. split; [now left|reflexivity].
  - right. exists s. split; [now right|assumption].
Qed.

Theorem max_shield_R_spec : forall l,
  0 <= max_shield ROps l /\ (forall s, In s l -> snd s <= max_shield ROps l) /\
  (max_shield ROps l = 0 \/ exists s, In s l /\ snd s = max_shield ROps l).
Proof.
  intros l. unfold max_shield. rewrite max_shield_from. unfold zero; cbn. repeat split.
  - apply rmax_from_ge.
  - intros s H. now apply rmax_from_upper.
  - apply rmax_from_attained.
Qed.

(* -- the damage passed on: what exceeds the strongest shield, never negative -- *)
Lemma damage_out_from : forall d l out m, out = Rmax 0 (d - m) ->
  fold_left (fun out s => let r := dim ROps d (snd s) in if n_ltb ROps r out then r else out) l out
  = Rmax 0 (d - rmax_from m l).
Proof.
  induction l as [|s r IH]; intros out m H; cbn; [assumption|].
  apply IH. rewrite dim_R. subst out.
  destruct (Rltb (Rmax 0 (d - snd s)) (Rmax 0 (d - m))) eqn:E.
  - apply Rltb_true in E. unfold Rmax in *.
    repeat destruct (Rle_dec _ _); lra.
  - apply Rltb_false in E. unfold Rmax in *.
    repeat destruct (Rle_dec _ _); lra.
Qed.

Theorem damage_out_R : forall d l, 0 < d ->
  damage_out ROps d l = Rmax 0 (d - max_shield ROps l).
Proof.
  intros d l Hd. unfold damage_out, max_shield. rewrite max_shield_from.
  apply damage_out_from. unfold zero; cbn. rewrite Rmax_right; lra.
Qed.

(* -- no shield below zero; survivors are strictly positive -- *)
Theorem kept_positive_R : forall d l k hp, In (k, hp) (kept ROps d l) -> 0 < hp.
Proof.
  intros d l k hp H. apply kept_from in H. destruct H as [Hz [hp0 [_ He]]].
  apply Reqb_false in Hz. rewrite dim_R in He. unfold zero in Hz; cbn in Hz.
  assert (0 <= hp) by (subst; apply Rmax_l). lra.
Qed.

(* -- the strongest shield after the hit -- *)
Lemma new_max_fst : forall (l : list (shield R)) m mid,
  fst (fold_left (fun acc s => if n_ltb ROps (fst acc) (snd s) then (snd s, Some (fst s)) else acc) l (m, mid))
  = rmax_from m l.
Proof.
  induction l as [|s r IH]; intros m mid; cbn; [reflexivity|].
  destruct (Rltb m (snd s)) eqn:E.
  - apply Rltb_true in E. rewrite IH. f_equal. rewrite Rmax_right; lra.
  - apply Rltb_false in E. rewrite IH. f_equal. rewrite Rmax_left; lra.
Qed.

Lemma rmax_from_hit : forall d l m, 0 < d -> 0 <= m ->
  rmax_from (Rmax 0 (m - d)) (map (hit ROps d) l) = Rmax 0 (rmax_from m l - d).
Proof.
  induction l as [|s r IH]; intros m Hd Hm; cbn; [reflexivity|].
  rewrite <- IH; [|assumption|eapply Rle_trans; [exact Hm|apply Rmax_l]].
  f_equal. rewrite dim_R. unfold Rmax. repeat destruct (Rle_dec _ _); lra.
Qed.

Lemma rmax_from_filter_nonzero : forall (l : list (shield R)) m, 0 <= m ->
  (forall s, In s l -> 0 <= snd s) ->
  rmax_from m (filter (fun s => negb (is_zero ROps s)) l) = rmax_from m l.
Proof.
  induction l as [|s r IH]; intros m Hm Hall; cbn; [reflexivity|].
  destruct (Reqb (snd s) 0) eqn:E; cbn [negb rmax_from].
  - apply Reqb_true in E. rewrite E. rewrite Rmax_left by lra.
    apply (IH m); [assumption|]. intros; apply Hall; now right.
  - apply (IH (Rmax m (snd s))); [eapply Rle_trans; [exact Hm|apply Rmax_l]|]. intros; apply Hall; now right.
Qed.

Theorem new_max_R : forall d l, 0 < d ->
  fst (new_max ROps (map (hit ROps d) l)) = max_shield ROps (kept ROps d l) /\
  max_shield ROps (kept ROps d l) = Rmax 0 (max_shield ROps l - d).
Proof.
  intros d l Hd. unfold new_max, max_shield, kept. rewrite !max_shield_from. unfold zero; cbn.
  rewrite new_max_fst.
  assert (Hnn : forall s, In s (map (hit ROps d) l) -> 0 <= snd s).
  { intros s Hs. apply in_map_iff in Hs. destruct Hs as [s0 [<- _]]. cbn. rewrite dim_R. apply Rmax_l. }
  rewrite rmax_from_filter_nonzero by (auto; lra).
  split; [reflexivity|].
  rewrite <- rmax_from_hit by lra. f_equal. rewrite Rmax_left; lra.
Qed.

(* -- strength: (sum of formula terms + flat) * (1 + shield bonus) * (1 + shield taken) -- *)
Definition term_R (src tgt : stats R) (mx : R) (kv : fkind * R) : R :=
  match stat_of ROps src tgt mx (fst kv) with Some s => snd kv * s | None => 0 end.
Fixpoint sum_terms (src tgt : stats R) (mx : R) (f : list (fkind * R)) : R :=
  match f with [] => 0 | kv :: r => term_R src tgt mx kv + sum_terms src tgt mx r end.

Definition contrib (f : list (fkind * R)) (src tgt : stats R) (mx : R) (k : fkind) : R :=
  match flookup f k, stat_of ROps src tgt mx k with Some v, Some s => v * s | _, _ => 0 end.

Lemma base_hp_contrib : forall f flat src tgt mx,
  base_hp ROps f flat src tgt mx =
  contrib f src tgt mx FAtk + contrib f src tgt mx FDef + contrib f src tgt mx FHp +
  contrib f src tgt mx FTgtHp + contrib f src tgt mx FTotalShield + flat.
Proof.
  intros. unfold base_hp, contrib, canon, add_term, zero. cbn.
  destruct (flookup f FAtk), (flookup f FDef), (flookup f FHp), (flookup f FTgtHp),
    (flookup f FTotalShield); lra.
Qed.

Lemma flookup_none : forall (f : list (fkind * R)) k, ~ In k (map fst f) -> flookup f k = None.
Proof.
  induction f as [|[k0 v0] r IH]; intros k H; cbn; [reflexivity|].
  destruct (fkind_eqb k0 k) eqn:E.
  - exfalso. apply H. left. cbn. destruct k0, k; try discriminate; reflexivity.
  - apply IH. intros Hi. apply H. now right.
Qed.

Lemma sum_contrib : forall f src tgt mx, NoDup (map fst f) ->
  contrib f src tgt mx FAtk + contrib f src tgt mx FDef + contrib f src tgt mx FHp +
  contrib f src tgt mx FTgtHp + contrib f src tgt mx FTotalShield = sum_terms src tgt mx f.
Proof.
  induction f as [|[k v] r IH]; intros src tgt mx Hnd.
  - unfold contrib; cbn. lra.
  - inversion Hnd as [|? ? Hx Hr]; subst. cbn [sum_terms]. rewrite <- (IH src tgt mx Hr).
    pose proof (flookup_none r k Hx) as Hn.
    unfold contrib, term_R. cbn [flookup fst snd].
    destruct k; cbn [fkind_eqb stat_of]; try rewrite Hn; lra.
Qed.

Theorem strength_documented_R : forall f flat src tgt mx, NoDup (map fst f) ->
  strength ROps f flat src tgt mx =
  (sum_terms src tgt mx f + flat) * (1 + s_boost src) * (1 + s_taken tgt).
Proof.
  intros. unfold strength. rewrite base_hp_contrib, sum_contrib by assumption. reflexivity.
Qed.

(* each term is coefficient * the named party's stat *)
Theorem term_R_reads : forall src tgt mx v,
  term_R src tgt mx (FAtk, v) = v * Rmax 0 (s_atk src) /\
  term_R src tgt mx (FDef, v) = v * Rmax 0 (s_def src) /\
  term_R src tgt mx (FHp, v) = v * Rmax 0 (s_hp src) /\
  term_R src tgt mx (FTgtHp, v) = v * Rmax 0 (s_hp tgt) /\
  term_R src tgt mx (FTotalShield, v) = v * mx /\
  term_R src tgt mx (FInvalid, v) = 0.
Proof. intros. unfold term_R; cbn. rewrite !statcalc_R. repeat split; reflexivity. Qed.

Lemma sum_terms_nonneg : forall src tgt mx f, 0 <= mx -> (forall kv, In kv f -> 0 <= snd kv) ->
  0 <= sum_terms src tgt mx f.
Proof.
  induction f as [|[k v] r IH]; intros Hmx Hall; cbn; [lra|].
  assert (0 <= v) by (apply (Hall (k, v)); now left).
  assert (0 <= sum_terms src tgt mx r) by (apply IH; auto; intros; apply Hall; now right).
  assert (0 <= term_R src tgt mx (k, v)).
  { unfold term_R. destruct k; cbn; try rewrite !statcalc_R; try lra;
      apply Rmult_le_pos; auto; apply Rmax_l. }
  lra.
Qed.

Theorem strength_nonneg_R : forall f flat src tgt mx, NoDup (map fst f) -> 0 <= mx ->
  (forall kv, In kv f -> 0 <= snd kv) -> 0 <= flat -> -1 <= s_boost src -> -1 <= s_taken tgt ->
  0 <= strength ROps f flat src tgt mx.
Proof.
  intros. rewrite strength_documented_R by assumption.
  pose proof (sum_terms_nonneg src tgt mx f H0 H1).
  apply Rmult_le_pos; [apply Rmult_le_pos|]; lra.
Qed.

End Reals.

(* what AbsorbDamage does on a shielded unit with positive damage, over the reals *)
Theorem absorb_R : forall (w : world R) tgt d, get_sh w tgt <> [] -> (0 < d)%R ->
  let l := get_sh w tgt in
  let r := do_absorb ROps w tgt d in
  let w' := fst (fst r) in let evs := snd (fst r) in let out := snd r in
  out = Rmax 0 (d - max_shield ROps l) /\ (0 <= out)%R /\
  (forall k hp, In (k, hp) (get_sh w' tgt) -> (0 < hp)%R) /\
  max_shield ROps (get_sh w' tgt) = Rmax 0 (max_shield ROps l - d) /\
  exists mid, evs = map (fun k => ERemoved k tgt) (gone ROps d l) ++
                    [EChange tgt mid (max_shield ROps (get_sh w' tgt)) (max_shield ROps l) d out].
Proof.
  intros w tgt d Hne Hd. cbn zeta. unfold do_absorb.
  destruct (get_sh w tgt) as [|s0 l0] eqn:El; [contradiction|]. rewrite <- El in *.
  assert (Hs : is_shielded (get_sh w tgt) = true) by (rewrite El; reflexivity).
  rewrite Hs. cbn [negb orb].
  assert (Hl : n_leb ROps d (zero ROps) = false) by (apply Rleb_false; unfold zero; cbn; lra).
  rewrite Hl.
  destruct (new_max ROps (map (hit ROps d) (get_sh w tgt))) as [nmax mid] eqn:En.
  cbn [fst snd]. rewrite get_set_same.
  destruct (new_max_R d (get_sh w tgt) Hd) as [Hn1 Hn2]. rewrite En in Hn1. cbn [fst] in Hn1.
  split; [now apply damage_out_R|]. split; [rewrite damage_out_R by assumption; apply Rmax_l|].
  split; [intros k hp Hin; eapply kept_positive_R; exact Hin|].
  split; [exact Hn2|].
  exists mid. fold (kept ROps d (get_sh w tgt)). rewrite <- Hn1.
  unfold gone, keys. rewrite map_map. reflexivity.
Qed.

(* ------------------------------------------------------------------------------------ *)
(* Part 3: sign facts at binary64, from the FloatAxioms specifications *)
Section FloatFacts.
Open Scope float_scope.

Lemma ltb_leb : forall x y, (x <? y) = true -> (x <=? y) = true.
Proof.
  intros x y. rewrite ltb_spec, leb_spec. unfold SFltb, SFleb.
  destruct (SFcompare (Prim2SF x) (Prim2SF y)) as [[]|]; auto; discriminate.
Qed.
Lemma leb_false_ltb_false : forall x y, (x <=? y) = false -> (x <? y) = false.
Proof. intros x y H. destruct (x <? y) eqn:E; [|reflexivity]. apply ltb_leb in E. congruence. Qed.

Lemma leb0_false_pos : forall v, (v <=? 0) = false -> PrimFloat.is_nan v = false -> (0 <? v) = true.
Proof.
  intros v. unfold PrimFloat.is_nan. rewrite ltb_spec, leb_spec, eqb_spec.
  replace (Prim2SF 0) with (S754_zero false) by reflexivity.
  unfold SFltb, SFleb, SFeqb.
  destruct (Prim2SF v) as [s|s| |s m e]; cbn; try discriminate; destruct s; cbn; try discriminate; auto.
Qed.

Lemma dim_F_cases : forall x y, dim FOps x y = 0 \/ (dim FOps x y <=? 0) = false.
Proof. intros. unfold dim; cbn. destruct (x - y <=? 0) eqn:E; [now left|now right]. Qed.

Theorem dim_F_nonneg : forall x y, (dim FOps x y <? 0) = false.
Proof.
  intros. destruct (dim_F_cases x y) as [H|H]; [rewrite H; reflexivity|now apply leb_false_ltb_false].
Qed.

Theorem kept_positive_F : forall d l k hp, In (k, hp) (kept FOps d l) ->
  (hp <=? 0) = false /\ (PrimFloat.is_nan hp = false -> (0 <? hp) = true).
Proof.
  intros d l k hp H. apply kept_from in H. destruct H as [Hz [hp0 [_ He]]].
  assert (Hle : (hp <=? 0) = false).
  { subst hp. destruct (dim_F_cases hp0 d) as [H|H]; [|exact H].
    rewrite H in Hz. cbn in Hz. discriminate. }
  split; [exact Hle|]. intros Hn. now apply leb0_false_pos.
Qed.

Lemma damage_out_F_from : forall d (l : list (shield float)) out, (out <? 0) = false ->
  (fold_left (fun out s => let r := dim FOps d (snd s) in if n_ltb FOps r out then r else out) l out <? 0) = false.
Proof.
  induction l as [|s r IH]; intros out H; cbn [fold_left]; [assumption|]. apply IH.
  cbn zeta. destruct (n_ltb FOps (dim FOps d (snd s)) out); [apply dim_F_nonneg|assumption].
Qed.

Theorem damage_out_F_nonneg : forall d l, (d <=? 0) = false -> (damage_out FOps d l <? 0) = false.
Proof. intros. unfold damage_out. apply damage_out_F_from. now apply leb_false_ltb_false. Qed.

End FloatFacts.

Theorem absorb_F : forall (w : world float) tgt d, get_sh w tgt <> [] -> PrimFloat.leb d 0 = false ->
  let r := do_absorb FOps w tgt d in
  let w' := fst (fst r) in let out := snd r in
  PrimFloat.ltb out 0 = false /\
  (forall k hp, In (k, hp) (get_sh w' tgt) ->
     PrimFloat.leb hp 0 = false /\ (PrimFloat.is_nan hp = false -> PrimFloat.ltb 0 hp = true)).
Proof.
  intros w tgt d Hne Hd. cbn zeta. unfold do_absorb.
  destruct (get_sh w tgt) as [|s0 l0] eqn:El; [contradiction|]. rewrite <- El in *.
  assert (Hs : is_shielded (get_sh w tgt) = true) by (rewrite El; reflexivity).
  rewrite Hs. cbn [negb orb].
  change (n_leb FOps d (zero FOps)) with (PrimFloat.leb d 0). rewrite Hd.
  destruct (new_max FOps (map (hit FOps d) (get_sh w tgt))) as [nmax mid] eqn:En.
  cbn [fst snd]. rewrite get_set_same. split.
  - now apply damage_out_F_nonneg.
  - intros k hp Hin. eapply kept_positive_F. exact Hin.
Qed.

(* ------------------------------------------------------------------------------------ *)
(* Part 4: the property *)

(* (a) every sequence of add / remove / absorb / stat changes, every numeric instance: keys stay
       unique per unit and each call meets its specification [step_spec]
   (b) the harness-visible run is exactly the sequence of those calls
   (c) strength formula over the reals
   (d) absorption over the reals
   (e) sign facts in binary64 *)
Definition C16_statement : Prop :=
  (forall (N : Type) (O : NumOps N) (ops : list (op N)) (o : op N),
     let w := exec O (init (N := N)) ops in wf w /\ step_spec O w o (step O w o)) /\
  (forall (N : Type) (O : NumOps N) nu nk (ops : list (op N)) (o : op N),
     run O nu nk (init (N := N)) (ops ++ [o]) =
     run O nu nk (init (N := N)) ops ++
       [let '(w', evs, ret) := step O (exec O (init (N := N)) ops) o in mkObs evs ret (probe O nu nk w')]) /\
  (forall f flat src tgt mx, NoDup (map fst f) ->
     strength ROps f flat src tgt mx =
     ((sum_terms src tgt mx f + flat) * (1 + s_boost src) * (1 + s_taken tgt))%R) /\
  (forall (w : world R) tgt d, get_sh w tgt <> [] -> (0 < d)%R ->
     let l := get_sh w tgt in
     let r := do_absorb ROps w tgt d in
     let w' := fst (fst r) in let evs := snd (fst r) in let out := snd r in
     out = Rmax 0 (d - max_shield ROps l) /\ (0 <= out)%R /\
     (forall k hp, In (k, hp) (get_sh w' tgt) -> (0 < hp)%R) /\
     max_shield ROps (get_sh w' tgt) = Rmax 0 (max_shield ROps l - d) /\
     exists mid, evs = map (fun k => ERemoved k tgt) (gone ROps d l) ++
                       [EChange tgt mid (max_shield ROps (get_sh w' tgt)) (max_shield ROps l) d out]) /\
  (forall (w : world float) tgt d, get_sh w tgt <> [] -> PrimFloat.leb d 0 = false ->
     let r := do_absorb FOps w tgt d in
     let w' := fst (fst r) in let out := snd r in
     PrimFloat.ltb out 0 = false /\
     (forall k hp, In (k, hp) (get_sh w' tgt) ->
        PrimFloat.leb hp 0 = false /\ (PrimFloat.is_nan hp = false -> PrimFloat.ltb 0 hp = true))).

Theorem C16_holds : C16_statement.
Proof.
  split; [|split; [|split; [|split]]].
  - intros N O ops o w. assert (Hwf : wf w) by (apply exec_wf, wf_init).
    split; [exact Hwf|now apply step_meets_spec].
  - intros. apply run_app_last.
  - exact strength_documented_R.
  - exact absorb_R.
  - exact absorb_F.
Qed.

(* non-vacuity: a concrete history exercising replace-by-key, the flat value, parallel
   absorption with a shield hit exactly at its strength, removal and announcement *)
Definition demo_ops : list (op float) :=
  [ OStats 0 (mkSt 100 80 60 0.5 0)%float;
    OStats 1 (mkSt 0 0 40 0 0.25)%float;
    OAdd 0 0 1 [(FAtk, 0.5%float); (FTgtHp, 0.5%float)] 10%float;   (* (50+20+10)*1.5*1.25 = 150 *)
    OAdd 1 0 1 [] 20%float;                                          (* 20*1.5*1.25 = 37.5 *)
    OAdd 1 0 1 [(FDef, 1%float)] 0%float;                            (* replaces k1: 80*1.5*1.25 = 150 *)
    OAdd 2 1 1 [] 32%float;                                          (* 32*1*1.25 = 40 *)
    OAbsorb 1 40%float ].                                            (* k2 hits zero; 150 -> 110 twice *)

Definition demo_shields_after : list (shield float) := [(0, 110%float); (1, 110%float)].
Definition demo_last_events : list (event float) :=
  [ERemoved 2 1; EChange 1 (Some 0) 110%float 150%float 40%float 0%float].
Definition demo_last_return : option float := Some 0%float.

Lemma demo_runs :
  get_sh (exec FOps (init (N := float)) demo_ops) 1 = demo_shields_after /\
  step FOps (exec FOps (init (N := float)) (removelast demo_ops)) (last demo_ops (ORemove 0 0)) =
    (exec FOps (init (N := float)) demo_ops, demo_last_events, demo_last_return) /\
  length demo_ops = 7%nat.
Proof. vm_compute. repeat split; reflexivity. Qed.
