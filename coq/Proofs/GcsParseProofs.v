(* Proofs about Model/GcsParse.v (property C13): the parser never waits on a dead or stuck
   lexer, every call and loop iteration that succeeds has consumed a token, so the fuel
   [8 * (tokens left) + 8] is never exhausted; Parse returns a program or an error, and when
   it returns the lexing goroutine has closed its channel. *)
From Coq Require Import List ZArith Bool String Ascii Lia.
From SR Require Import Base.CaseLib Model.GcsAst Model.GcsUnicode Model.GcsLex Model.GcsNum
  Model.GcsParse Proofs.GcsLexProofs.
Import ListNotations.
Open Scope Z_scope.

Section P.
Variable inp : input.
Hypothesis len_nonneg : 0 <= in_len inp.
Hypothesis get_range : forall i, 0 <= in_get inp i < 256.

(* ---- the measure: tokens that can still be consumed ---- *)
Definition nz (t : ltoken) : Z := if toktype_eqb (lt_typ t) ItemError then 0 else 1.
Fixpoint count_nz (l : list ltoken) : Z :=
  match l with [] => 0 | t :: r => nz t + count_nz r end.
Definition T (ps : pstate) : Z := count_nz (ahead ps) + tokpot inp (prod ps).
Definition Rp (ps : pstate) : Prop := Reach inp (prod ps).

Lemma nz_range : forall t, 0 <= nz t <= 1.
Proof. intros t. unfold nz. destruct (toktype_eqb _ _); lia. Qed.
Lemma count_nz_nonneg : forall l, 0 <= count_nz l.
Proof. induction l as [|t r IH]; cbn [count_nz]; [lia|]. pose proof (nz_range t). lia. Qed.
Lemma T_nonneg : forall ps, Rp ps -> 0 <= T ps.
Proof.
  intros ps [Iv _]. unfold T. pose proof (count_nz_nonneg (ahead ps)).
  pose proof (tokpot_nonneg inp (prod ps) Iv). lia.
Qed.

Lemma toktype_eqb_eq : forall a b, toktype_eqb a b = true <-> a = b.
Proof.
  intros a b. unfold toktype_eqb. rewrite Z.eqb_eq. split; [|intros ->; reflexivity].
  destruct a, b; cbn; intros H; try reflexivity; discriminate.
Qed.

Lemma nz_typ : forall t k, typ_is t k = true -> k <> ItemError -> nz t = 1.
Proof.
  intros t k H Hk. unfold typ_is in H. apply toktype_eqb_eq in H. unfold nz.
  destruct (toktype_eqb (lt_typ t) ItemError) eqn:E; [|reflexivity].
  apply toktype_eqb_eq in E. congruence.
Qed.
Lemma nz_typ_eq : forall t k, lt_typ t = k -> k <> ItemError -> nz t = 1.
Proof.
  intros t k H Hk. unfold nz.
  destruct (toktype_eqb (lt_typ t) ItemError) eqn:E; [|reflexivity].
  apply toktype_eqb_eq in E. congruence.
Qed.
Lemma nz_zero_tok : nz zero_tok = 0.
Proof. reflexivity. Qed.

(* ---- next / backup / peek ---- *)
Lemma L_next : forall ps, Rp ps ->
  exists t ps', pnext inp ps = ROk t ps' /\ Rp ps' /\ T ps' + nz t <= T ps /\
    consumed ps' = t :: consumed ps /\
    (forall t0 r, ahead ps = t0 :: r -> t = t0 /\ ahead ps' = r).
Proof.
  intros ps R. unfold pnext. destruct (ahead ps) as [|t0 r] eqn:Ea.
  - destruct (recv_total inp len_nonneg get_range (prod ps) R) as (t & p' & E & R' & K).
    rewrite E. eexists _, _. split; [reflexivity|]. unfold Rp, T. cbn [prod ahead consumed].
    rewrite Ea. cbn [count_nz]. split; [exact R'|]. split.
    + destruct K as [K|(K1 & K2 & K3)]; [pose proof (nz_range t); lia|].
      rewrite K1, nz_zero_tok. lia.
    + split; [reflexivity|]. intros t1 r1 H. discriminate.
  - eexists _, _. split; [reflexivity|]. unfold Rp, T. cbn [prod ahead consumed].
    rewrite Ea. cbn [count_nz]. split; [exact R|]. split; [lia|]. split; [reflexivity|].
    intros t1 r1 H. inversion H. split; reflexivity.
Qed.

Lemma L_backup : forall ps t c, consumed ps = t :: c ->
  pbackup ps = mkP (prod ps) (t :: ahead ps) c.
Proof. intros ps t c H. unfold pbackup. rewrite H. reflexivity. Qed.

Lemma T_backup : forall ps t c, consumed ps = t :: c -> T (pbackup ps) = T ps + nz t.
Proof. intros ps t c H. rewrite (L_backup ps t c H). unfold T. cbn [ahead prod count_nz]. lia. Qed.
Lemma Rp_backup : forall ps, Rp ps -> Rp (pbackup ps).
Proof. intros ps R. unfold pbackup. destruct (consumed ps); [exact R|exact R]. Qed.

(* next then backup: the state of peek *)
Lemma L_peek : forall ps, Rp ps ->
  exists t ps', ppeek inp ps = ROk t ps' /\ Rp ps' /\ T ps' <= T ps /\
    consumed ps' = consumed ps /\ exists r, ahead ps' = t :: r.
Proof.
  intros ps R. unfold ppeek.
  destruct (L_next ps R) as (t & s1 & E & R1 & T1 & C1 & _). rewrite E. cbn [bindP].
  eexists _, _. split; [reflexivity|].
  rewrite (L_backup s1 t (consumed ps) C1). unfold Rp, T in *. cbn [prod ahead consumed count_nz].
  split; [exact R1|]. split; [lia|]. split; [reflexivity|]. eexists. reflexivity.
Qed.

(* ---- what every parser function guarantees ---- *)
Definition okP {X} (T0 : Z) (r : PR X) : Prop :=
  match r with
  | ROk _ s => Rp s /\ T s < T0
  | RErr s => Rp s
  | _ => False
  end.

Definition A := 8.
Definition need (k : Z) (ps : pstate) (n : nat) : Prop := A * T ps + k <= Z.of_nat n.

(* ---- tactics for walking through a parser function ---- *)
Ltac t_next :=
  match goal with
  | R : Rp ?s |- context [pnext inp ?s] =>
      let t := fresh "t" in let s1 := fresh "s" in let E := fresh "E" in let R1 := fresh "R" in
      let T1 := fresh "HT" in let C1 := fresh "HC" in let A1 := fresh "HA" in
      destruct (L_next s R) as (t & s1 & E & R1 & T1 & C1 & A1); rewrite E; cbn [bindP];
      pose proof (nz_range t)
  end.
Ltac t_peek :=
  match goal with
  | R : Rp ?s |- context [ppeek inp ?s] =>
      let t := fresh "t" in let s1 := fresh "s" in let E := fresh "E" in let R1 := fresh "R" in
      let T1 := fresh "HT" in let C1 := fresh "HC" in let A1 := fresh "HA" in let r := fresh "r" in
      destruct (L_peek s R) as (t & s1 & E & R1 & T1 & C1 & (r & A1)); rewrite E; cbn [bindP];
      pose proof (nz_range t)
  end.
Ltac t_if :=
  match goal with
  | |- context [if typ_is ?t ?k then _ else _] =>
      let H := fresh "Hty" in destruct (typ_is t k) eqn:H;
      [ assert (nz t = 1) by (apply (nz_typ t k H); discriminate) | ]
  end.
Ltac t_cons := unfold pconsume; t_next; t_if; cbn [bindP].
(* a head token known from a peek: the next token is that one *)
Ltac t_known :=
  match goal with
  | HA : forall t0 r, ahead ?s = t0 :: r -> ?t = t0 /\ _, HK : ahead ?s = ?tk :: ?rk |- _ =>
      let e1 := fresh "Heq" in let e2 := fresh "Hah" in
      destruct (HA tk rk HK) as [e1 e2]; subst t; clear HA
  end.
Ltac fin := cbn [okP]; unfold need, A in *; first [ assumption | split; [assumption | lia] | lia ].

(* ---- the statements, one per function; [n] is the fuel of the callees ---- *)
Definition S_expr (n : nat) := forall pre ps, Rp ps -> need 4 ps n -> okP (T ps) (p_expr inp n pre ps).

Lemma step_ctrl : forall n ps, Rp ps -> need 1 ps (S n) -> okP (T ps) (p_ctrl inp (S n) ps).
Proof.
  intros n ps R N. simpl. t_next.
  destruct (lt_typ t) eqn:Ety; try (fin; fail);
    assert (nz t = 1) by (apply (nz_typ_eq t _ Ety); discriminate); fin.
Qed.

(* use an instantiated fact [H : okP T0 call] about a callee *)
Ltac t_use H :=
  match type of H with
  | okP _ ?call =>
      let a := fresh "a" in let s1 := fresh "s" in let R1 := fresh "R" in let T1 := fresh "HT" in
      destruct call as [a s1|s1| |]; cbn [bindP okP] in H |- *;
      [ destruct H as [R1 T1] | exact H | contradiction | contradiction ]
  end.
Ltac nd := unfold need, A in *; lia.

Definition S_infix (n : nat) := forall pre lhs ps, Rp ps -> need 6 ps n -> okP (T ps + 1) (p_infix_loop inp n pre lhs ps).
Definition S_prefix (n : nat) := forall pf ps, Rp ps ->
  (exists t r, ahead ps = t :: r /\ prefix_of (lt_typ t) = Some pf) ->
  need 2 ps n -> okP (T ps) (p_prefix inp n pf ps).
Definition S_map (n : nat) := forall arr fs ps, Rp ps -> need 5 ps n -> okP (T ps) (p_map_loop inp n arr fs ps).
Definition S_binary (n : nat) := forall lhs ps, Rp ps -> need 5 ps n -> okP (T ps) (p_binary inp n lhs ps).
Definition S_call (n : nat) := forall f ps, Rp ps -> need 1 ps n -> okP (T ps) (p_call inp n f ps).
Definition S_call_args (n : nat) := forall ps, Rp ps -> need 5 ps n -> okP (T ps) (p_call_args inp n ps).
Definition S_call_args_loop (n : nat) := forall args ps, Rp ps -> need 1 ps n -> okP (T ps) (p_call_args_loop inp n args ps).
Definition S_fn (n : nat) := forall ident ps, Rp ps -> need 1 ps n -> okP (T ps) (p_fn inp n ident ps).
Definition S_fn_args (n : nat) := forall args ps, Rp ps -> need 1 ps n -> okP (T ps) (p_fn_args inp n args ps).
Definition S_block (n : nat) := forall ps, Rp ps -> need 1 ps n -> okP (T ps) (p_block inp n ps).
Definition S_block_loop (n : nat) := forall acc ps, Rp ps -> need 7 ps n -> okP (T ps) (p_block_loop inp n acc ps).
Definition S_statement (n : nat) := forall ps, Rp ps -> need 6 ps n -> okP (T ps) (p_statement inp n ps).
Definition S_let (n : nat) := forall ps, Rp ps -> need 1 ps n -> okP (T ps) (p_let inp n ps).
Definition S_assign (n : nat) := forall ps, Rp ps -> need 1 ps n -> okP (T ps) (p_assign inp n ps).
Definition S_return (n : nat) := forall ps, Rp ps -> need 5 ps n -> okP (T ps) (p_return inp n ps).
Definition S_ctrl (n : nat) := forall ps, Rp ps -> need 1 ps n -> okP (T ps) (p_ctrl inp n ps).
Definition S_if (n : nat) := forall ps, Rp ps -> need 5 ps n -> okP (T ps) (p_if inp n ps).
Definition S_switch (n : nat) := forall ps, Rp ps -> need 1 ps n -> okP (T ps) (p_switch inp n ps).
Definition S_switch_loop (n : nat) := forall c cs d ps, Rp ps -> need 1 ps n -> okP (T ps) (p_switch_loop inp n c cs d ps).
Definition S_case_body (n : nat) := forall ps, Rp ps -> need 8 ps n -> okP (T ps + 1) (p_case_body inp n ps).
Definition S_case_body_loop (n : nat) := forall acc ps, Rp ps -> need 7 ps n -> okP (T ps + 1) (p_case_body_loop inp n acc ps).
Definition S_while (n : nat) := forall ps, Rp ps -> need 5 ps n -> okP (T ps) (p_while inp n ps).
Definition S_for (n : nat) := forall ps, Rp ps -> need 5 ps n -> okP (T ps) (p_for inp n ps).

Lemma prefix_not_error : forall k pf, prefix_of k = Some pf -> k <> ItemError.
Proof. intros k pf H E. subst k. discriminate. Qed.

Lemma st_ctrl : forall n, S_ctrl (S n).
Proof. intros n ps R N. apply step_ctrl; assumption. Qed.

Lemma st_let : forall n, S_expr n -> S_let (S n).
Proof.
  intros n IHe ps R N. simpl. t_next. t_cons; [|fin]. t_cons; [|fin].
  assert (Hc1 := IHe Lowest s1 R2 ltac:(nd)). t_use Hc1. fin.
Qed.

Lemma st_assign : forall n, S_expr n -> S_assign (S n).
Proof.
  intros n IHe ps R N. simpl. t_cons; [|fin]. t_cons; [|fin].
  assert (Hc1 := IHe Lowest s0 R1 ltac:(nd)). t_use Hc1. fin.
Qed.

Lemma st_return : forall n, S_expr n -> S_return (S n).
Proof.
  intros n IHe ps R N. simpl. t_next.
  assert (Hc1 := IHe Lowest s R0 ltac:(nd)). t_use Hc1. fin.
Qed.

Lemma st_binary : forall n, S_expr n -> S_binary (S n).
Proof.
  intros n IHe lhs ps R N. simpl. t_next.
  assert (Hc1 := IHe (tok_prec (lt_typ t)) s R0 ltac:(nd)). t_use Hc1. fin.
Qed.

Lemma st_call : forall n, S_call_args n -> S_call (S n).
Proof.
  intros n IHa f ps R N. simpl. t_cons; [|fin].
  assert (Hc1 := IHa s R0 ltac:(nd)). t_use Hc1. fin.
Qed.

Lemma st_call_args_loop : forall n, S_expr n -> S_call_args_loop n -> S_call_args_loop (S n).
Proof.
  intros n IHe IHl args ps R N. simpl. t_peek. t_if.
  - t_next. t_known.
    assert (Hc1 := IHe Lowest s0 R1 ltac:(nd)). t_use Hc1.
    assert (Hc2 := IHl (args ++ [a]) s1 R2 ltac:(nd)). t_use Hc2. fin.
  - t_next. t_if; [fin|]. cbn [okP]. apply Rp_backup. assumption.
Qed.

Lemma st_call_args : forall n, S_expr n -> S_call_args_loop n -> S_call_args (S n).
Proof.
  intros n IHe IHl ps R N. simpl. t_peek. t_if.
  - t_next. t_known. fin.
  - assert (Hc1 := IHe Lowest s R0 ltac:(nd)). t_use Hc1.
    assert (Hc2 := IHl [a] s0 R1 ltac:(nd)). t_use Hc2. fin.
Qed.

Lemma st_infix : forall n, S_binary n -> S_call n -> S_infix n -> S_infix (S n).
Proof.
  intros n IHb IHc IHl pre lhs ps R N. simpl. t_peek.
  destruct (negb (typ_is t ItemTerminateLine) && (pre <? tok_prec (lt_typ t))); [|fin].
  destruct (infix_of (lt_typ t)) as [[|]|]; [| |fin].
  - assert (Hc1 := IHb lhs s R0 ltac:(nd)). t_use Hc1.
    assert (Hc2 := IHl pre a s0 R1 ltac:(nd)). t_use Hc2. fin.
  - assert (Hc1 := IHc lhs s R0 ltac:(nd)). t_use Hc1.
    assert (Hc2 := IHl pre a s0 R1 ltac:(nd)). t_use Hc2. fin.
Qed.

Lemma st_expr : forall n, S_prefix n -> S_infix n -> S_expr (S n).
Proof.
  intros n IHp IHl pre ps R N. simpl. t_next.
  destruct (prefix_of (lt_typ t)) as [pf|] eqn:Epf; [|fin].
  pose proof (T_backup s t (consumed ps) HC) as TB.
  assert (Hc1 := IHp pf (pbackup s) (Rp_backup s R0)).
  assert (Hd : exists t0 r, ahead (pbackup s) = t0 :: r /\ prefix_of (lt_typ t0) = Some pf).
  { rewrite (L_backup s t (consumed ps) HC). cbn [ahead]. eexists _, _. split; [reflexivity|exact Epf]. }
  specialize (Hc1 Hd ltac:(nd)). t_use Hc1.
  assert (Hc2 := IHl pre a s0 R1 ltac:(nd)). t_use Hc2. fin.
Qed.

Lemma st_block : forall n, S_block_loop n -> S_block (S n).
Proof.
  intros n IHl ps R N. simpl. t_cons; [|fin].
  assert (Hc1 := IHl [] s R0 ltac:(nd)). t_use Hc1. fin.
Qed.

Lemma st_block_loop : forall n, S_statement n -> S_block_loop n -> S_block_loop (S n).
Proof.
  intros n IHs IHl acc ps R N. simpl. t_peek. t_if.
  - t_next. t_known. fin.
  - t_if; [fin|].
    assert (Hc1 := IHs s R0 ltac:(nd)). t_use Hc1.
    assert (Hc2 := IHl (block_append acc a) s0 R1 ltac:(nd)). t_use Hc2. fin.
Qed.

Lemma st_case_body_loop : forall n, S_statement n -> S_case_body_loop n -> S_case_body_loop (S n).
Proof.
  intros n IHs IHl acc ps R N. simpl. t_peek.
  destruct (typ_is t KeywordDefault || typ_is t KeywordCase || typ_is t ItemRightBrace); [fin|].
  t_if; [fin|].
  assert (Hc1 := IHs s R0 ltac:(nd)). t_use Hc1.
  assert (Hc2 := IHl (block_append acc a) s0 R1 ltac:(nd)). t_use Hc2. fin.
Qed.

Lemma st_case_body : forall n, S_case_body_loop n -> S_case_body (S n).
Proof.
  intros n IHl ps R N. simpl. t_next.
  assert (Hc1 := IHl [] s R0 ltac:(nd)). t_use Hc1. fin.
Qed.

Lemma st_fn_args : forall n, S_fn_args n -> S_fn_args (S n).
Proof.
  intros n IHl args ps R N. simpl. t_next. t_if; [fin|]. t_if; [|fin].
  t_peek. t_if.
  - t_next. t_known. t_peek. t_if; [|fin].
    assert (Hc1 := IHl (args ++ [lt_val t]) s2 R3 ltac:(nd)). t_use Hc1. fin.
  - t_if; [|fin].
    assert (Hc1 := IHl (args ++ [lt_val t]) s0 R1 ltac:(nd)). t_use Hc1. fin.
Qed.

Lemma st_fn : forall n, S_fn_args n -> S_block n -> S_fn (S n).
Proof.
  intros n IHa IHb ident ps R N. simpl. t_next.
  destruct ident.
  - t_cons; [|fin]. t_peek. t_if; [|fin]. t_next. t_known.
    assert (Hc1 := IHa [] s2 R3 ltac:(nd)). t_use Hc1.
    assert (Hc2 := IHb s3 R4 ltac:(nd)). t_use Hc2.
    destruct (has_dup a); fin.
  - cbn [bindP]. t_peek. t_if; [|fin]. t_next. t_known.
    assert (Hc1 := IHa [] s1 R2 ltac:(nd)). t_use Hc1.
    assert (Hc2 := IHb s2 R3 ltac:(nd)). t_use Hc2.
    destruct (has_dup a); fin.
Qed.

Lemma st_map : forall n, S_expr n -> S_map n -> S_map (S n).
Proof.
  intros n IHe IHl arr fs ps R N. simpl. t_next. t_next.
  destruct (typ_is t ItemIdentifier && typ_is t0 ItemAssign) eqn:Ec.
  - apply andb_true_iff in Ec. destruct Ec as [Ec1 Ec2].
    assert (nz t = 1) by (apply (nz_typ t _ Ec1); discriminate).
    assert (Hc1 := IHe Lowest s0 R1 ltac:(nd)). t_use Hc1.
    destruct (has_key (lt_val t) fs); [fin|]. cbn [bindP].
    t_next. t_if; [fin|]. t_if; [|fin].
    assert (Hc2 := IHl arr (fields_set (lt_val t) a fs) s2 R3 ltac:(nd)). t_use Hc2. fin.
  - pose proof (T_backup s0 t0 (consumed s) HC0) as TB1.
    pose proof (L_backup s0 t0 (consumed s) HC0) as LB1.
    assert (CB : consumed (pbackup s0) = t :: consumed ps) by (rewrite LB1; cbn [consumed]; exact HC).
    pose proof (T_backup (pbackup s0) t (consumed ps) CB) as TB2.
    assert (Hc1 := IHe Lowest (pbackup (pbackup s0)) (Rp_backup _ (Rp_backup _ R1)) ltac:(nd)). t_use Hc1.
    t_next. t_if; [fin|]. t_if; [|fin].
    assert (Hc2 := IHl (arr ++ [a]) fs s2 R3 ltac:(nd)). t_use Hc2. fin.
Qed.

Lemma st_prefix : forall n, S_expr n -> S_fn n -> S_map n -> S_prefix (S n).
Proof.
  intros n IHe IHf IHm pf ps R (t0 & r0 & Hah & Hpf) N.
  assert (Hnz : nz t0 = 1) by (apply (nz_typ_eq t0 _ eq_refl); eapply prefix_not_error; exact Hpf).
  simpl. destruct pf.
  - t_next. t_known. fin.
  - t_next. t_known. destruct (number_lit (lt_val t0)); fin.
  - t_next. t_known. destruct (bool_lit (lt_val t0)); fin.
  - t_next. t_known. fin.
  - t_next. t_known. fin.
  - t_peek.
    assert (Hc1 := IHf false s R0 ltac:(nd)). t_use Hc1. destruct a; fin.
  - t_next. t_known.
    destruct (typ_is t0 LogicNot || typ_is t0 ItemMinus); [|fin].
    assert (Hc1 := IHe Prefix s R0 ltac:(nd)). t_use Hc1. fin.
  - t_next. t_known.
    assert (Hc1 := IHe Lowest s R0 ltac:(nd)). t_use Hc1.
    t_peek. t_if; [|fin]. t_next. t_known. fin.
  - t_next. t_known. t_peek. t_if.
    + t_next. t_known. fin.
    + assert (Hc1 := IHm [] [] s0 R1 ltac:(nd)). t_use Hc1. fin.
Qed.

Lemma st_if : forall n, S_expr n -> S_block n -> S_statement n -> S_if (S n).
Proof.
  intros n IHe IHb IHs ps R N. simpl. t_next.
  assert (Hc1 := IHe Lowest s R0 ltac:(nd)). t_use Hc1.
  t_peek. t_if; [|fin].
  assert (Hc2 := IHb s1 R2 ltac:(nd)). t_use Hc2.
  t_peek. t_if; [|fin]. t_next. t_known.
  assert (Hc3 := IHs s4 R5 ltac:(nd)). t_use Hc3.
  destruct (is_if_or_block a1); fin.
Qed.

Lemma st_while : forall n, S_expr n -> S_block n -> S_while (S n).
Proof.
  intros n IHe IHb ps R N. simpl. t_next.
  assert (Hc1 := IHe Lowest s R0 ltac:(nd)). t_use Hc1.
  t_peek. t_if; [|fin].
  assert (Hc2 := IHb s1 R2 ltac:(nd)). t_use Hc2. fin.
Qed.

Lemma st_switch_loop : forall n, S_expr n -> S_case_body n -> S_switch_loop n -> S_switch_loop (S n).
Proof.
  intros n IHe IHc IHl c cs d ps R N. simpl. t_next. t_if; [fin|]. t_if.
  - assert (Hc1 := IHe Lowest s R0 ltac:(nd)). t_use Hc1.
    t_peek. t_if; [|fin].
    assert (Hc2 := IHc s1 R2 ltac:(nd)). t_use Hc2.
    assert (Hc3 := IHl c (cs ++ [Case a a0]) d s2 R3 ltac:(nd)). t_use Hc3. fin.
  - t_if; [|fin]. destruct d as [|dl]; [|fin]. t_peek. t_if; [|fin].
    assert (Hc2 := IHc s0 R1 ltac:(nd)). t_use Hc2.
    assert (Hc3 := IHl c cs a s1 R2 ltac:(nd)). t_use Hc3. fin.
Qed.

Lemma st_switch : forall n, S_expr n -> S_switch_loop n -> S_switch (S n).
Proof.
  intros n IHe IHl ps R N. simpl. t_cons; [|fin]. t_peek. t_if.
  - cbn [bindP]. t_next. t_known. rewrite Hty0.
    assert (Hc1 := IHl ENil [] BNil s1 R2 ltac:(nd)). t_use Hc1. fin.
  - assert (Hc1 := IHe Lowest s0 R1 ltac:(nd)). t_use Hc1.
    t_next. t_if; [|fin].
    assert (Hc2 := IHl a [] BNil s2 R3 ltac:(nd)). t_use Hc2. fin.
Qed.

(* prove a fact about the first computation of a bind, then continue with its result *)
Ltac t_first T0 :=
  match goal with
  | |- okP _ (bindP ?e _) => assert (Hf : okP T0 e); [ | t_use Hf ]
  end.

Lemma st_for : forall n, S_expr n -> S_block n -> S_let n -> S_assign n -> S_for (S n).
Proof.
  intros n IHe IHb IHlet IHas ps R N. simpl. t_next. t_peek. t_if.
  - assert (Hc1 := IHb s0 R1 ltac:(nd)). t_use Hc1. fin.
  - (* existVarDecl *)
    t_first (T s0 + 1).
    { t_peek. t_if; [fin|]. t_if; [|fin].
      t_next. t_known. t_peek.
      pose proof (T_backup s3 t1 (consumed s1)) as TB.
      assert (CB : consumed s3 = t1 :: consumed s1) by congruence.
      specialize (TB CB).
      cbn [okP]. split; [apply Rp_backup; assumption|lia]. }
    (* the optional init statement *)
    t_first (T s1 + 1).
    { destruct a; [|fin]. t_peek.
      t_first (T s2).
      { destruct (typ_is t1 KeywordLet); [apply IHlet|apply IHas]; try assumption; nd. }
      t_peek. t_if; [|fin]. t_next. t_known. fin. }
    (* condition *)
    assert (Hc1 := IHe Lowest s2 R3 ltac:(nd)). t_use Hc1.
    t_peek.
    (* the optional post statement *)
    t_first (T s4 + 1).
    { t_if; [|fin]. t_next. t_known. t_peek. t_if; [fin|].
      assert (Hc2 := IHas s6 R7 ltac:(nd)). t_use Hc2. fin. }
    t_peek. t_if; [|fin].
    assert (Hc2 := IHb s6 R7 ltac:(nd)). t_use Hc2. fin.
Qed.

(* the tail of a statement that ends in ';' *)
Lemma semi_ok : forall X (r : PR X) T0, okP T0 r ->
  okP T0 (pb (x, s) <- r; pb (_, s0) <- pconsume inp ItemTerminateLine s; ROk x s0).
Proof.
  intros X r T0 H. t_use H. t_cons; fin.
Qed.
Lemma as_ok : forall X Y (f : X -> Y) (r : PR X) T0, okP T0 r -> okP T0 (pb (x, s) <- r; ROk (f x) s).
Proof. intros X Y f r T0 H. t_use H. fin. Qed.

Lemma st_statement : forall n, S_ctrl n -> S_let n -> S_return n -> S_if n -> S_switch n -> S_fn n ->
  S_while n -> S_for n -> S_block n -> S_assign n -> S_expr n -> S_statement (S n).
Proof.
  intros n Hctrl Hlet Hret Hif Hsw Hfn Hwh Hfor Hbl Has Hex ps R N. simpl. t_peek.
  assert (Hdef : okP (T ps)
     (pb (x, s0) <- (pb (x, s0) <- p_expr inp n Lowest s; ROk (NExpr x) s0);
      pb (_, s1) <- pconsume inp ItemTerminateLine s0; ROk x s1)).
  { apply semi_ok. apply as_ok.
    assert (Hc1 := Hex Lowest s R0 ltac:(nd)).
    destruct (p_expr inp n Lowest s); cbn [okP] in *; try assumption. destruct Hc1; split; [assumption|lia]. }
  destruct (lt_typ t) eqn:Ety; try exact Hdef; clear Hdef.
  - (* '{' *)
    assert (Hc1 := Hbl s R0 ltac:(nd)). t_use Hc1. fin.
  - (* identifier *)
    assert (nz t = 1) by (apply (nz_typ_eq t _ Ety); discriminate).
    t_next. t_known. t_peek.
    pose proof (T_backup s1 t (consumed s)) as TB.
    assert (CB : consumed s1 = t :: consumed s) by congruence.
    specialize (TB CB).
    t_if.
    + apply semi_ok. apply as_ok.
      assert (Hc1 := Has (pbackup s1) (Rp_backup _ R2) ltac:(nd)).
      destruct (p_assign inp n (pbackup s1)); cbn [okP] in *; try assumption. destruct Hc1; split; [assumption|lia].
    + apply semi_ok. apply as_ok.
      assert (Hc1 := Hex Lowest (pbackup s1) (Rp_backup _ R2) ltac:(nd)).
      destruct (p_expr inp n Lowest (pbackup s1)); cbn [okP] in *; try assumption. destruct Hc1; split; [assumption|lia].
  - (* let *)
    apply semi_ok. apply as_ok.
    assert (Hc1 := Hlet s R0 ltac:(nd)).
    destruct (p_let inp n s); cbn [okP] in *; try assumption. destruct Hc1; split; [assumption|lia].
  - (* while *)
    apply as_ok. assert (Hc1 := Hwh s R0 ltac:(nd)).
    destruct (p_while inp n s); cbn [okP] in *; try assumption. destruct Hc1; split; [assumption|lia].
  - (* if *)
    apply as_ok. assert (Hc1 := Hif s R0 ltac:(nd)).
    destruct (p_if inp n s); cbn [okP] in *; try assumption. destruct Hc1; split; [assumption|lia].
  - (* fn *)
    apply as_ok. assert (Hc1 := Hfn true s R0 ltac:(nd)).
    destruct (p_fn inp n true s); cbn [okP] in *; try assumption. destruct Hc1; split; [assumption|lia].
  - (* switch *)
    apply as_ok. assert (Hc1 := Hsw s R0 ltac:(nd)).
    destruct (p_switch inp n s); cbn [okP] in *; try assumption. destruct Hc1; split; [assumption|lia].
  - (* break *)
    apply semi_ok. apply as_ok. assert (Hc1 := Hctrl s R0 ltac:(nd)).
    destruct (p_ctrl inp n s); cbn [okP] in *; try assumption. destruct Hc1; split; [assumption|lia].
  - (* continue *)
    apply semi_ok. apply as_ok. assert (Hc1 := Hctrl s R0 ltac:(nd)).
    destruct (p_ctrl inp n s); cbn [okP] in *; try assumption. destruct Hc1; split; [assumption|lia].
  - (* fallthrough *)
    apply semi_ok. apply as_ok. assert (Hc1 := Hctrl s R0 ltac:(nd)).
    destruct (p_ctrl inp n s); cbn [okP] in *; try assumption. destruct Hc1; split; [assumption|lia].
  - (* return *)
    apply semi_ok. apply as_ok. assert (Hc1 := Hret s R0 ltac:(nd)).
    destruct (p_return inp n s); cbn [okP] in *; try assumption. destruct Hc1; split; [assumption|lia].
  - (* for *)
    apply as_ok. assert (Hc1 := Hfor s R0 ltac:(nd)).
    destruct (p_for inp n s); cbn [okP] in *; try assumption. destruct Hc1; split; [assumption|lia].
Qed.

Definition S_rows (n : nat) := forall acc ps, Rp ps -> need 7 ps n -> okP (T ps + 1) (p_rows inp n acc ps).

Lemma st_rows : forall n, S_statement n -> S_rows n -> S_rows (S n).
Proof.
  intros n IHs IHl acc ps R N. simpl. t_peek. t_if; [fin|].
  assert (Hc1 := IHs s R0 ltac:(nd)). t_use Hc1.
  assert (Hc2 := IHl (block_append acc a) s0 R1 ltac:(nd)). t_use Hc2. fin.
Qed.

Record ALL (n : nat) : Prop := mkALL {
  a_expr : S_expr n; a_infix : S_infix n; a_prefix : S_prefix n; a_map : S_map n;
  a_binary : S_binary n; a_call : S_call n; a_call_args : S_call_args n;
  a_call_args_loop : S_call_args_loop n; a_fn : S_fn n; a_fn_args : S_fn_args n;
  a_block : S_block n; a_block_loop : S_block_loop n; a_statement : S_statement n;
  a_let : S_let n; a_assign : S_assign n; a_return : S_return n; a_ctrl : S_ctrl n;
  a_if : S_if n; a_switch : S_switch n; a_switch_loop : S_switch_loop n;
  a_case_body : S_case_body n; a_case_body_loop : S_case_body_loop n;
  a_while : S_while n; a_for : S_for n; a_rows : S_rows n }.

Lemma need_zero : forall k ps, Rp ps -> 1 <= k -> need k ps 0 -> False.
Proof. intros k ps R Hk N. pose proof (T_nonneg ps R). unfold need, A in N. lia. Qed.

Lemma ALL_0 : ALL 0.
Proof.
  constructor; red; intros;
  match goal with R : Rp ?ps, N : need ?k ?ps 0%nat |- _ => exfalso; apply (need_zero k ps R); [lia|exact N] end.
Qed.

Lemma ALL_S : forall n, ALL n -> ALL (S n).
Proof.
  intros n [].
  constructor.
  - apply st_expr; assumption.
  - apply st_infix; assumption.
  - apply st_prefix; assumption.
  - apply st_map; assumption.
  - apply st_binary; assumption.
  - apply st_call; assumption.
  - apply st_call_args; assumption.
  - apply st_call_args_loop; assumption.
  - apply st_fn; assumption.
  - apply st_fn_args; assumption.
  - apply st_block; assumption.
  - apply st_block_loop; assumption.
  - apply st_statement; assumption.
  - apply st_let; assumption.
  - apply st_assign; assumption.
  - apply st_return; assumption.
  - apply st_ctrl.
  - apply st_if; assumption.
  - apply st_switch; assumption.
  - apply st_switch_loop; assumption.
  - apply st_case_body; assumption.
  - apply st_case_body_loop; assumption.
  - apply st_while; assumption.
  - apply st_for; assumption.
  - apply st_rows; assumption.
Qed.

Theorem parser_all : forall n, ALL n.
Proof. induction n; [apply ALL_0|apply ALL_S; assumption]. Qed.

(* ---- Parse ---- *)
Lemma Rp0 : Rp pstate0.
Proof. unfold Rp, pstate0. cbn [prod]. apply Reach0; assumption. Qed.
Lemma T0 : T pstate0 = in_len inp + 2.
Proof. unfold T, pstate0. cbn [ahead prod count_nz]. rewrite tokpot0. lia. Qed.

Lemma finish_closed : forall o ps, Rp ps -> (o <> ODied /\ o <> OFuel) ->
  r_out (finish inp o ps) = o /\ r_prod (finish inp o ps) = PClosed.
Proof.
  intros o ps R Ho. unfold finish, drain_producer.
  destruct (drain_total inp len_nonneg get_range (prod ps) [] R) as (ts & E). rewrite E.
  cbn [r_out r_prod]. split; reflexivity.
Qed.

(* Parse returns a program or an error - never dies, never runs out of fuel - and when it
   returns the lexing goroutine has closed its channel; the tokens pulled stay within the
   number of tokens the lexer can produce plus the look-ahead *)
Theorem parse_input_total :
  (exists b, r_out (parse_input inp) = OProgram b) \/ r_out (parse_input inp) = OError.
Proof.
  unfold parse_input.
  pose proof (a_rows _ (parser_all (parse_fuel inp)) [] pstate0 Rp0) as H.
  assert (N : need 7 pstate0 (parse_fuel inp)).
  { unfold need, A, parse_fuel. rewrite T0. rewrite Z2Nat.id by lia. lia. }
  specialize (H N).
  destruct (p_rows inp (parse_fuel inp) [] pstate0) as [b ps|ps| |]; cbn [okP] in H; try contradiction.
  - destruct H as [R _]. left. exists b.
    apply (finish_closed (OProgram b) ps R). split; discriminate.
  - right. apply (finish_closed OError ps H). split; discriminate.
Qed.

Theorem parse_input_closed : r_prod (parse_input inp) = PClosed.
Proof.
  unfold parse_input.
  pose proof (a_rows _ (parser_all (parse_fuel inp)) [] pstate0 Rp0) as H.
  assert (N : need 7 pstate0 (parse_fuel inp)).
  { unfold need, A, parse_fuel. rewrite T0. rewrite Z2Nat.id by lia. lia. }
  specialize (H N).
  destruct (p_rows inp (parse_fuel inp) [] pstate0) as [b ps|ps| |]; cbn [okP] in H; try contradiction.
  - destruct H as [R _]. apply (finish_closed (OProgram b) ps R). split; discriminate.
  - apply (finish_closed OError ps H). split; discriminate.
Qed.

End P.

(* ---- C13 for byte strings ---- *)
Definition src_len (bs : list Z) : Z := Z.of_nat (List.length bs).

(* For every byte string (bytes are taken mod 256):
   1. the lexer, run to completion as by LexAll or the deferred drain, returns its token list:
      no panic, and the fuel 9*len+9 (receives and state-function calls together; at most
      3*len+3 state-function calls) is not exhausted;
   2. Parse, run with fuel 16*len+64 (one unit per call or loop iteration, nested), returns a
      program or an error: it neither dies with the lexer nor runs out of fuel;
   3. when Parse has returned, the lexing goroutine has closed its channel: nothing is left
      blocked on a send. *)
Definition C13_statement : Prop :=
  forall bs : list Z,
    let inp := mk_input bs in
    (exists ts, drain (Z.to_nat (9 * src_len bs + 9)) inp producer0 [] = Ok ts) /\
    (exists res, parse_input inp = res /\
       parse_fuel inp = Z.to_nat (16 * src_len bs + 64) /\
       ((exists b, r_out res = OProgram b) \/ r_out res = OError) /\
       r_prod res = PClosed).

Theorem C13_holds : C13_statement.
Proof.
  intros bs inp. split.
  - destruct (lex_never_panics bs) as [ts E]. exists ts.
    unfold lex_all, drain_fuel, lex_fuel in E. fold inp in E.
    replace (Z.to_nat (9 * src_len bs + 9)) with (3 * Z.to_nat (3 * in_len inp + 3))%nat; [exact E|].
    unfold inp, mk_input, src_len. cbn [in_len]. lia.
  - exists (parse_input inp). split; [reflexivity|]. split; [reflexivity|]. split.
    + apply parse_input_total; [apply mk_input_len|apply mk_input_range].
    + apply parse_input_closed; [apply mk_input_len|apply mk_input_range].
Qed.

(* the same for the state-function calls alone: a receive never needs more than 3*len+3 of them *)
Theorem C13_recv_linear : forall bs p, Reach (mk_input bs) p ->
  exists t p', recv (Z.to_nat (3 * src_len bs + 3)) (mk_input bs) p = Ok (t, p') /\ Reach (mk_input bs) p'.
Proof.
  intros bs p R.
  destruct (recv_total (mk_input bs) (mk_input_len bs) (mk_input_range bs) p R) as (t & p' & E & R' & _).
  exists t, p'. split; [exact E|exact R'].
Qed.

(* non-vacuity: a valid program, the input that used to kill the process, a leaked-goroutine input *)
Definition demo_ok : list Z := string_bytes "let x = 1 + 2 * 3; if x > 6 { print(x); }".
Definition demo_sign_digit : list Z := [32; 45; 217; 163].           (* " -" followed by U+0663 *)
Definition demo_early_error : list Z := string_bytes "let = 1; let y = 2; let z = 3;".
Lemma demo_runs :
  (exists b, r_out (parse_bytes demo_ok) = OProgram b) /\
  r_out (parse_bytes demo_sign_digit) = OError /\
  r_out (parse_bytes demo_early_error) = OError /\ r_pulled (parse_bytes demo_early_error) = 2 /\
  r_prod (parse_bytes demo_early_error) = PClosed.
Proof. vm_compute. repeat split; try reflexivity. eexists. reflexivity. Qed.
