(* Proofs for C02 over Model/TurnRe.v: histories of the turn manager WITH re-entrant listeners.

   Part 1 (every number system, every listener table, every fuel; OutOfFuel and Illegal excluded by
           the hypothesis that the run is [Done]):
           [explained]: the recorded trace of a re-entrant history is explained by FLAT atomic steps.
           Reading the trace from left to right and applying [Turn.step] whenever a call is entered,
           every call - top-level or nested at any depth - delivers exactly the events of that atomic
           step, returns exactly its return value, the probe after every return is the flat state
           reached so far, calls nest properly and nested calls are operations a listener may issue.
           The final state is the flat execution ([exec] = [Turn.run]) of all calls in the order in
           which they were entered.
   Part 2  fuel above the number of operations in all scripts never runs out; scripts without
           StartTurn / ResetTurn / AddTargets never reach [Illegal]; both together: the run is [Done].
   Part 3  without listener scripts the re-entrant model IS the flat model (conservative extension).
   Part 4  structural well-formedness (unique ids) for every number system along every re-entrant
           history whose AddTargets add new ids; hence the per-call specifications of
           Proofs/TurnProofs.v ([start_spec], [set_gauge_spec], [reset_spec]) hold for every call.
   Part 5  the property statement (real-number instance) for re-entrant histories.
   Part 6  what is NOT true with re-entrant listeners (refutation by a vm_compute witness): the state
           a gauge / reset call leaves behind when it RETURNS may differ from the state before it in
           OTHER units too (its listener changed them); the clause "changes that unit only" holds per
           call at its commit (Parts 1, 4, 5) and for whole calls whose listeners did not call the
           manager (partial theorem). *)
From Coq Require Import List ZArith Bool Lia Permutation Reals Lra Floats.
From SR Require Import Base.NumOps Model.Turn Model.TurnRe Proofs.TurnProofs.
Import ListNotations.
Open Scope Z_scope.

(* ------------------------------------------------------------------------------------ *)
(* Part 1 *)
Section Generic.
  Variable N : NumOps.
  Notation tstate := (tstate N).
  Notation op := (op N).
  Notation out := (out N).
  Notation titem := (titem N).
  Notation slots := (slots N).

  (* the flat execution of a list of calls *)
  Definition exec (s : tstate) (ops : list op) : tstate := fst (run N s ops).

  Lemma exec_nil s : exec s [] = s.
  Proof. reflexivity. Qed.

  Lemma exec_cons s o r : exec s (o :: r) = exec (fst (step N s o)) r.
  Proof.
    unfold exec. cbn [run]. destruct (step N s o) as [s1 e]. cbn [fst].
    destruct (run N s1 r). reflexivity.
  Qed.

  Lemma exec_app : forall a s b, exec s (a ++ b) = exec (exec s a) b.
  Proof.
    induction a as [|o a IH]; intros s b; [reflexivity|].
    cbn [app]. rewrite !exec_cons. apply IH.
  Qed.

  (* the calls of a trace in the order in which they were entered *)
  Fixpoint tcalls (t : list titem) : list op :=
    match t with
    | [] => []
    | TCall o :: r => o :: tcalls r
    | _ :: r => tcalls r
    end.

  Lemma tcalls_app : forall a b, tcalls (a ++ b) = tcalls a ++ tcalls b.
  Proof.
    induction a as [|x a IH]; intros b; [reflexivity|].
    destruct x; cbn [app tcalls]; rewrite IH; reflexivity.
  Qed.

  (* an open call: the events it still has to deliver, and what it will return *)
  Definition pending : Type := (list out * list out)%type.

  (* the flat reading of a trace: [s] is the flat state reached so far, [stk] the open calls
     (innermost first) *)
  Fixpoint explained (s : tstate) (stk : list pending) (t : list titem) : Prop :=
    match t with
    | [] => stk = []
    | TCall o :: r =>
        (stk = [] \/ listener_legal N o = true) /\
        explained (fst (step N s o))
                  ((events_of N (snd (step N s o)), returns_of N (snd (step N s o))) :: stk) r
    | TEv e :: r =>
        match stk with
        | (e' :: evs, ret) :: k => e = e' /\ explained s ((evs, ret) :: k) r
        | _ => False
        end
    | TRet rt p :: r =>
        match stk with
        | ([], ret) :: k => rt = ret /\ p = probe_of N s /\ explained s k r
        | _ => False
        end
    end.

  (* what is proved of every caller by induction on the fuel *)
  Definition caller_ok (C : caller N) : Prop :=
    forall q s o s2 q2 t, C q s o = Done (s2, q2, t) ->
      s2 = exec s (tcalls t) /\
      forall stk r, (stk = [] \/ listener_legal N o = true) ->
                    explained s2 stk r -> explained s stk (t ++ r).

  Lemma run_ops_ok : forall C, caller_ok C ->
    forall nested ops q s s2 q2 t, run_ops N C nested q s ops = Done (s2, q2, t) ->
      s2 = exec s (tcalls t) /\
      forall stk r, (nested = false -> stk = []) -> explained s2 stk r -> explained s stk (t ++ r).
  Proof.
    intros C HC nested. induction ops as [|o ops IH]; intros q s s2 q2 t H; cbn [run_ops] in H.
    - inversion H; subst. cbn. auto.
    - destruct (nested && negb (listener_legal N o)) eqn:El; [discriminate|].
      destruct (C q s o) as [[[s1 q1] t1]| |] eqn:Ec; try discriminate.
      destruct (run_ops N C nested q1 s1 ops) as [[[s3 q3] t3]| |] eqn:Er; try discriminate.
      inversion H; subst. clear H.
      destruct (HC _ _ _ _ _ _ Ec) as [Hs1 Hx1].
      destruct (IH _ _ _ _ _ Er) as [Hs2 Hx2].
      split.
      + rewrite tcalls_app, exec_app, <- Hs1. exact Hs2.
      + intros stk r Hn Hr. rewrite <- app_assoc. apply Hx1.
        * destruct nested; [right|left; auto].
          cbn [andb] in El. destruct (listener_legal N o); [reflexivity|discriminate].
        * apply Hx2; assumption.
  Qed.

  Lemma emit_all_ok : forall C, caller_ok C ->
    forall evs q s s2 q2 t, emit_all N C q s evs = Done (s2, q2, t) ->
      s2 = exec s (tcalls t) /\
      forall rest ret stk r, explained s2 ((rest, ret) :: stk) r ->
                             explained s ((evs ++ rest, ret) :: stk) (t ++ r).
  Proof.
    intros C HC. induction evs as [|e evs IH]; intros q s s2 q2 t H; cbn [emit_all] in H.
    - inversion H; subst. cbn. auto.
    - destruct (pop_slot N q e) as [sc q1].
      destruct (run_ops N C true q1 s sc) as [[[s1 q3] t1]| |] eqn:Er; try discriminate.
      destruct (emit_all N C q3 s1 evs) as [[[s3 q4] t3]| |] eqn:Ee; try discriminate.
      inversion H; subst. clear H.
      destruct (run_ops_ok C HC _ _ _ _ _ _ _ Er) as [Hs1 Hx1].
      destruct (IH _ _ _ _ _ Ee) as [Hs2 Hx2].
      split.
      + cbn [tcalls]. rewrite tcalls_app, exec_app, <- Hs1. exact Hs2.
      + intros rest ret stk r Hr. cbn [app explained].
        split; [reflexivity|].
        rewrite <- app_assoc. apply Hx1; [discriminate|]. apply Hx2. exact Hr.
  Qed.

  Lemma call_ok : forall fuel, caller_ok (call N fuel).
  Proof.
    induction fuel as [|f IH]; intros q s o s2 q2 t H; cbn [call] in H; [discriminate|].
    destruct (step N s o) as [s1 outs] eqn:Es.
    destruct (emit_all N (call N f) q s1 (events_of N outs)) as [[[s3 q3] t3]| |] eqn:Ee; try discriminate.
    inversion H; subst. clear H.
    destruct (emit_all_ok _ IH _ _ _ _ _ _ Ee) as [Hs2 Hx2].
    split.
    - cbn [tcalls]. rewrite tcalls_app. cbn [tcalls]. rewrite app_nil_r.
      rewrite exec_cons, Es. cbn [fst]. exact Hs2.
    - intros stk r Hl Hr. cbn [app explained]. rewrite Es. cbn [fst snd].
      split; [exact Hl|].
      rewrite <- app_assoc.
      specialize (Hx2 [] (returns_of N outs) stk ([TRet (returns_of N outs) (probe_of N s2)] ++ r)).
      rewrite app_nil_r in Hx2. apply Hx2. cbn [app explained]. auto.
  Qed.

  Theorem reentrant_explained : forall fuel q s ops s2 q2 t,
    runL N fuel q s ops = Done (s2, q2, t) ->
    explained s [] t /\ s2 = exec s (tcalls t).
  Proof.
    intros fuel q s ops s2 q2 t H. unfold runL in H.
    destruct (run_ops_ok _ (call_ok fuel) _ _ _ _ _ _ _ H) as [Hs Hx].
    split; [|exact Hs].
    specialize (Hx [] []). rewrite app_nil_r in Hx. apply Hx; reflexivity.
  Qed.

  (* the same for one call; the calls it contains are itself, then calls a listener may issue *)
  Theorem call_explained : forall fuel q s o s2 q2 t,
    call N fuel q s o = Done (s2, q2, t) ->
    explained s [] t /\ s2 = exec s (tcalls t).
  Proof.
    intros fuel q s o s2 q2 t H.
    destruct (call_ok fuel _ _ _ _ _ _ H) as [Hs Hx].
    split; [|exact Hs].
    specialize (Hx [] []). rewrite app_nil_r in Hx. apply Hx; [left|]; reflexivity.
  Qed.

  Lemma call_head : forall fuel q s o s2 q2 t,
    call N fuel q s o = Done (s2, q2, t) ->
    exists nested, tcalls t = o :: nested /\ s2 = exec (fst (step N s o)) nested.
  Proof.
    intros [|f] q s o s2 q2 t H; cbn [call] in H; [discriminate|].
    destruct (step N s o) as [s1 outs] eqn:Es.
    destruct (emit_all N (call N f) q s1 (events_of N outs)) as [[[s3 q3] t3]| |] eqn:Ee; try discriminate.
    inversion H; subst. clear H.
    destruct (emit_all_ok _ (call_ok f) _ _ _ _ _ _ Ee) as [Hs2 _].
    exists (tcalls t3). cbn [tcalls fst]. rewrite tcalls_app. cbn [tcalls]. rewrite app_nil_r.
    split; [reflexivity|exact Hs2].
  Qed.


  (* AddTargets always announces: the first operation of the TurnTargetsAdded listener's script is the
     call entered right after it, inside it *)
  Lemma add_listener_runs : forall fuel q s ivs ops o1 sc qa' s2 q2 t,
    q_added q = (o1 :: sc) :: qa' ->
    runL N fuel q s (OAdd ivs :: ops) = Done (s2, q2, t) ->
    exists rest, tcalls t = OAdd ivs :: o1 :: rest.
  Proof.
    intros fuel q s ivs ops o1 sc qa' s2 q2 t Hq H. unfold runL in H. cbn [run_ops andb] in H.
    destruct (call N fuel q s (OAdd ivs)) as [[[s1 q1] t1]| |] eqn:Ec; try discriminate.
    destruct (run_ops N (call N fuel) false q1 s1 ops) as [[[s3 q3] t3]| |] eqn:Er; try discriminate.
    inversion H; subst. clear H Er.
    destruct fuel as [|f]; cbn [call] in Ec; [discriminate|].
    cbn [step events_of filter is_event emit_all pop_slot] in Ec. rewrite Hq in Ec.
    cbn [pop run_ops] in Ec.
    destruct (true && negb (listener_legal N o1)); [discriminate|].
    destruct (call N f _ _ o1) as [[[s4 q4] t4]| |] eqn:Ec1; try discriminate.
    destruct (call_head _ _ _ _ _ _ _ Ec1) as (nst & Ht4 & _).
    destruct (run_ops N (call N f) true q4 s4 sc) as [[[s5 q5] t5]| |]; try discriminate.
    cbn [emit_all] in Ec. inversion Ec; subst. clear Ec.
    eexists. cbn [tcalls app]. rewrite !tcalls_app, Ht4. cbn [app]. reflexivity.
  Qed.

  (* every observation point: the probe after a return is the flat execution of the calls entered
     so far *)
  Lemma explained_probes : forall t s stk, explained s stk t ->
    forall a rt p b, t = a ++ TRet rt p :: b -> p = probe_of N (exec s (tcalls a)).
  Proof.
    induction t as [|y t IH]; intros s stk Hx a rt p b Heq.
    - destruct a; discriminate.
    - destruct a as [|y' a].
      + cbn in Heq. inversion Heq; subst. cbn [tcalls]. rewrite exec_nil.
        cbn [explained] in Hx. destruct stk as [|[[|e' evs] ret] k]; try contradiction. tauto.
      + cbn in Heq. inversion Heq; subst.
        destruct y' as [o|e|rt' p']; cbn [explained] in Hx; cbn [tcalls].
        * destruct Hx as [_ Hx]. rewrite exec_cons. eapply IH; [exact Hx|reflexivity].
        * destruct stk as [|[[|e' evs] ret] k]; try contradiction.
          destruct Hx as [_ Hx]. eapply IH; [exact Hx|reflexivity].
        * destruct stk as [|[[|e' evs] ret] k]; try contradiction.
          destruct Hx as [_ [_ Hx]]. eapply IH; [exact Hx|reflexivity].
  Qed.

  (* ---------------------------------------------------------------------------------- *)
  (* Part 2: fuel and legality *)

  Lemma pop_total (l : list (script N)) :
    (length (fst (pop N l)) + script_ops N (snd (pop N l)) = script_ops N l)%nat.
  Proof. destruct l as [|x l]; cbn; lia. Qed.

  Lemma pop_slot_total : forall (q : slots) e sc q1, pop_slot N q e = (sc, q1) ->
    (length sc + total_ops N q1 = total_ops N q)%nat.
  Proof.
    intros [qa qr qg qc] e sc q1 H. unfold pop_slot in H. unfold total_ops.
    cbn [q_added q_reset q_gauge q_cost] in *.
    destruct e;
      try (inversion H; subst; cbn [length q_added q_reset q_gauge q_cost]; lia).
    - pose proof (pop_total qa) as Hp. destruct (pop N qa) as [x r]. inversion H; subst.
      cbn [fst snd q_added q_reset q_gauge q_cost] in *. lia.
    - pose proof (pop_total qr) as Hp. destruct (pop N qr) as [x r]. inversion H; subst.
      cbn [fst snd q_added q_reset q_gauge q_cost] in *. lia.
    - pose proof (pop_total qg) as Hp. destruct (pop N qg) as [x r]. inversion H; subst.
      cbn [fst snd q_added q_reset q_gauge q_cost] in *. lia.
    - pose proof (pop_total qc) as Hp. destruct (pop N qc) as [x r]. inversion H; subst.
      cbn [fst snd q_added q_reset q_gauge q_cost] in *. lia.
  Qed.

  Definition caller_total (C : caller N) (b : nat) : Prop :=
    forall q s o, (total_ops N q < b)%nat ->
      C q s o <> OutOfFuel /\
      forall s2 q2 t, C q s o = Done (s2, q2, t) -> (total_ops N q2 <= total_ops N q)%nat.

  Lemma run_ops_total : forall C b, caller_total C b ->
    forall nested ops q s, (ops = [] \/ (total_ops N q < b)%nat) ->
      run_ops N C nested q s ops <> OutOfFuel /\
      forall s2 q2 t, run_ops N C nested q s ops = Done (s2, q2, t) -> (total_ops N q2 <= total_ops N q)%nat.
  Proof.
    intros C b HC nested. induction ops as [|o ops IH]; intros q s Hb; cbn [run_ops].
    - split; [discriminate|]. intros s2 q2 t H. inversion H; subst. lia.
    - destruct Hb as [Hb|Hb]; [discriminate|].
      destruct (nested && negb (listener_legal N o)); [split; [discriminate|discriminate]|].
      destruct (HC q s o Hb) as [Hnf Hle].
      destruct (C q s o) as [[[s1 q1] t1]| |] eqn:Ec; [|contradiction|split; discriminate].
      specialize (Hle _ _ _ eq_refl).
      destruct (IH q1 s1) as [Hnf2 Hle2]; [right; lia|].
      destruct (run_ops N C nested q1 s1 ops) as [[[s3 q3] t3]| |] eqn:Er;
        [|contradiction|split; discriminate].
      specialize (Hle2 _ _ _ eq_refl).
      split; [discriminate|]. intros s2 q2 t H. inversion H; subst. lia.
  Qed.

  Lemma emit_all_total : forall C b, caller_total C b ->
    forall evs q s, (total_ops N q <= b)%nat ->
      emit_all N C q s evs <> OutOfFuel /\
      forall s2 q2 t, emit_all N C q s evs = Done (s2, q2, t) -> (total_ops N q2 <= total_ops N q)%nat.
  Proof.
    intros C b HC. induction evs as [|e evs IH]; intros q s Hb; cbn [emit_all].
    - split; [discriminate|]. intros s2 q2 t H. inversion H; subst. lia.
    - destruct (pop_slot N q e) as [sc q1] eqn:Ep. pose proof (pop_slot_total _ _ _ _ Ep) as Ht.
      destruct (run_ops_total C b HC true sc q1 s) as [Hnf Hle].
      { destruct sc as [|o sc]; [now left|right]. cbn [length] in Ht. lia. }
      destruct (run_ops N C true q1 s sc) as [[[s1 q2] t1]| |] eqn:Er; [|contradiction|split; discriminate].
      specialize (Hle _ _ _ eq_refl).
      destruct (IH q2 s1) as [Hnf2 Hle2]; [lia|].
      destruct (emit_all N C q2 s1 evs) as [[[s3 q3] t3]| |] eqn:Ee; [|contradiction|split; discriminate].
      specialize (Hle2 _ _ _ eq_refl).
      split; [discriminate|]. intros s2' q2' t H. inversion H; subst. lia.
  Qed.

  Lemma call_total : forall fuel, caller_total (call N fuel) fuel.
  Proof.
    induction fuel as [|f IH]; intros q s o Hb; [lia|]. cbn [call].
    destruct (step N s o) as [s1 outs].
    destruct (emit_all_total _ f IH (events_of N outs) q s1) as [Hnf Hle]; [lia|].
    destruct (emit_all N (call N f) q s1 (events_of N outs)) as [[[s3 q3] t3]| |] eqn:Ee;
      [|contradiction|split; discriminate].
    specialize (Hle _ _ _ eq_refl).
    split; [discriminate|]. intros s2 q2 t H. inversion H; subst. exact Hle.
  Qed.

  (* fuel above the number of operations in all scripts is enough, for every history *)
  Theorem fuel_enough : forall fuel q s ops, (total_ops N q < fuel)%nat ->
    runL N fuel q s ops <> OutOfFuel.
  Proof.
    intros fuel q s ops Hb. unfold runL.
    apply (run_ops_total _ fuel (call_total fuel) false ops q s). now right.
  Qed.

  (* scripts made of operations a listener may issue never reach [Illegal] *)
  Lemma pop_legal (l : list (script N)) : forallb (forallb (listener_legal N)) l = true ->
    forallb (listener_legal N) (fst (pop N l)) = true /\
    forallb (forallb (listener_legal N)) (snd (pop N l)) = true.
  Proof.
    destruct l as [|x l]; cbn; [auto|]. intros H. apply andb_true_iff in H. exact H.
  Qed.

  Lemma pop_slot_legal : forall (q : slots) e sc q1, pop_slot N q e = (sc, q1) ->
    scripts_legal N q = true -> forallb (listener_legal N) sc = true /\ scripts_legal N q1 = true.
  Proof.
    intros [qa qr qg qc] e sc q1 H Hl. unfold scripts_legal in *. unfold pop_slot in H.
    cbn [q_added q_reset q_gauge q_cost] in *.
    apply andb_true_iff in Hl. destruct Hl as [Hl Hc]. apply andb_true_iff in Hl. destruct Hl as [Hl Hg].
    apply andb_true_iff in Hl. destruct Hl as [Ha Hr].
    destruct e;
      try (inversion H; subst; cbn [forallb q_added q_reset q_gauge q_cost];
           rewrite Ha, Hr, Hg, Hc; auto).
    - destruct (pop_legal qa Ha) as [H1 H2]. destruct (pop N qa) as [x r]. inversion H; subst.
      cbn [fst snd q_added q_reset q_gauge q_cost] in *. rewrite H2, Hr, Hg, Hc. auto.
    - destruct (pop_legal qr Hr) as [H1 H2]. destruct (pop N qr) as [x r]. inversion H; subst.
      cbn [fst snd q_added q_reset q_gauge q_cost] in *. rewrite H2, Ha, Hg, Hc. auto.
    - destruct (pop_legal qg Hg) as [H1 H2]. destruct (pop N qg) as [x r]. inversion H; subst.
      cbn [fst snd q_added q_reset q_gauge q_cost] in *. rewrite H2, Ha, Hr, Hc. auto.
    - destruct (pop_legal qc Hc) as [H1 H2]. destruct (pop N qc) as [x r]. inversion H; subst.
      cbn [fst snd q_added q_reset q_gauge q_cost] in *. rewrite H2, Ha, Hr, Hg. auto.
  Qed.

  Definition caller_legal (C : caller N) : Prop :=
    forall q s o, scripts_legal N q = true ->
      C q s o <> Illegal /\
      forall s2 q2 t, C q s o = Done (s2, q2, t) -> scripts_legal N q2 = true.

  Lemma run_ops_legal : forall C, caller_legal C ->
    forall nested ops q s, scripts_legal N q = true ->
      (nested = true -> forallb (listener_legal N) ops = true) ->
      run_ops N C nested q s ops <> Illegal /\
      forall s2 q2 t, run_ops N C nested q s ops = Done (s2, q2, t) -> scripts_legal N q2 = true.
  Proof.
    intros C HC nested. induction ops as [|o ops IH]; intros q s Hq Hn; cbn [run_ops].
    - split; [discriminate|]. intros s2 q2 t H. inversion H; subst. exact Hq.
    - assert (Hno : nested && negb (listener_legal N o) = false).
      { destruct nested; [|reflexivity]. specialize (Hn eq_refl). cbn [forallb] in Hn.
        apply andb_true_iff in Hn. destruct Hn as [Hn _]. rewrite Hn. reflexivity. }
      rewrite Hno.
      destruct (HC q s o Hq) as [Hni Hl].
      destruct (C q s o) as [[[s1 q1] t1]| |] eqn:Ec; [|split; discriminate|contradiction].
      specialize (Hl _ _ _ eq_refl).
      destruct (IH q1 s1 Hl) as [Hni2 Hl2].
      { intros ->. specialize (Hn eq_refl). cbn [forallb] in Hn. apply andb_true_iff in Hn. tauto. }
      destruct (run_ops N C nested q1 s1 ops) as [[[s3 q3] t3]| |] eqn:Er;
        [|split; discriminate|contradiction].
      specialize (Hl2 _ _ _ eq_refl).
      split; [discriminate|]. intros s2 q2 t H. inversion H; subst. exact Hl2.
  Qed.

  Lemma emit_all_legal : forall C, caller_legal C ->
    forall evs q s, scripts_legal N q = true ->
      emit_all N C q s evs <> Illegal /\
      forall s2 q2 t, emit_all N C q s evs = Done (s2, q2, t) -> scripts_legal N q2 = true.
  Proof.
    intros C HC. induction evs as [|e evs IH]; intros q s Hq; cbn [emit_all].
    - split; [discriminate|]. intros s2 q2 t H. inversion H; subst. exact Hq.
    - destruct (pop_slot N q e) as [sc q1] eqn:Ep.
      destruct (pop_slot_legal _ _ _ _ Ep Hq) as [Hsc Hq1].
      destruct (run_ops_legal C HC true sc q1 s Hq1 (fun _ => Hsc)) as [Hni Hl].
      destruct (run_ops N C true q1 s sc) as [[[s1 q2] t1]| |] eqn:Er; [|split; discriminate|contradiction].
      specialize (Hl _ _ _ eq_refl).
      destruct (IH q2 s1 Hl) as [Hni2 Hl2].
      destruct (emit_all N C q2 s1 evs) as [[[s3 q3] t3]| |] eqn:Ee; [|split; discriminate|contradiction].
      specialize (Hl2 _ _ _ eq_refl).
      split; [discriminate|]. intros s2' q2' t H. inversion H; subst. exact Hl2.
  Qed.

  Lemma call_legal : forall fuel, caller_legal (call N fuel).
  Proof.
    induction fuel as [|f IH]; intros q s o Hq; cbn [call]; [split; discriminate|].
    destruct (step N s o) as [s1 outs].
    destruct (emit_all_legal _ IH (events_of N outs) q s1 Hq) as [Hni Hl].
    destruct (emit_all N (call N f) q s1 (events_of N outs)) as [[[s3 q3] t3]| |] eqn:Ee;
      [|split; discriminate|contradiction].
    specialize (Hl _ _ _ eq_refl).
    split; [discriminate|]. intros s2 q2 t H. inversion H; subst. exact Hl.
  Qed.

  Theorem legal_scripts_never_illegal : forall fuel q s ops, scripts_legal N q = true ->
    runL N fuel q s ops <> Illegal.
  Proof.
    intros fuel q s ops Hq. unfold runL.
    apply (run_ops_legal _ (call_legal fuel) false ops q s Hq). discriminate.
  Qed.

  Theorem reentrant_run_is_done : forall fuel q s ops,
    (total_ops N q < fuel)%nat -> scripts_legal N q = true ->
    exists s2 q2 t, runL N fuel q s ops = Done (s2, q2, t).
  Proof.
    intros fuel q s ops Hf Hq.
    pose proof (fuel_enough fuel q s ops Hf) as H1.
    pose proof (legal_scripts_never_illegal fuel q s ops Hq) as H2.
    destruct (runL N fuel q s ops) as [[[s2 q2] t]| |]; [eauto|contradiction|contradiction].
  Qed.

  (* ---------------------------------------------------------------------------------- *)
  (* Part 3: no listener scripts = the flat model *)

  Definition flat_call (s : tstate) (o : op) : list titem :=
    TCall o :: map TEv (events_of N (snd (step N s o)))
      ++ [TRet (returns_of N (snd (step N s o))) (probe_of N (fst (step N s o)))].

  Fixpoint flat_trace (s : tstate) (ops : list op) : list titem :=
    match ops with
    | [] => []
    | o :: r => flat_call s o ++ flat_trace (fst (step N s o)) r
    end.

  Lemma pop_slot_idle : forall (q : slots) e, total_ops N q = 0%nat ->
    fst (pop_slot N q e) = [] /\ total_ops N (snd (pop_slot N q e)) = 0%nat.
  Proof.
    intros q e H. destruct (pop_slot N q e) as [sc q1] eqn:Ep.
    pose proof (pop_slot_total _ _ _ _ Ep) as Ht. cbn [fst snd].
    split; [destruct sc; [reflexivity|cbn [length] in Ht; lia]|lia].
  Qed.

  Lemma emit_all_idle : forall C evs q s, total_ops N q = 0%nat ->
    exists q2, emit_all N C q s evs = Done (s, q2, map TEv evs) /\ total_ops N q2 = 0%nat.
  Proof.
    intros C. induction evs as [|e evs IH]; intros q s H; cbn [emit_all map].
    - exists q. auto.
    - destruct (pop_slot_idle q e H) as [Hs Hq]. destruct (pop_slot N q e) as [sc q1].
      cbn [fst snd] in Hs, Hq. subst sc. cbn [run_ops].
      destruct (IH q1 s Hq) as [q2 [E Hq2]]. rewrite E. exists q2. split; [reflexivity|exact Hq2].
  Qed.

  Lemma call_idle : forall fuel q s o, total_ops N q = 0%nat ->
    exists q2, call N (S fuel) q s o = Done (fst (step N s o), q2, flat_call s o) /\
               total_ops N q2 = 0%nat.
  Proof.
    intros fuel q s o H. cbn [call]. unfold flat_call.
    destruct (step N s o) as [s1 outs]. cbn [fst snd].
    destruct (emit_all_idle (call N fuel) (events_of N outs) q s1 H) as [q1 [E Hq1]]. rewrite E.
    exists q1. split; [reflexivity|exact Hq1].
  Qed.

  Theorem no_listeners_is_flat : forall fuel ops q s, total_ops N q = 0%nat ->
    exists q2, runL N (S fuel) q s ops = Done (exec s ops, q2, flat_trace s ops).
  Proof.
    intros fuel. unfold runL. induction ops as [|o ops IH]; intros q s H; cbn [run_ops flat_trace].
    - exists q. reflexivity.
    - cbn [andb]. destruct (call_idle fuel q s o H) as [q1 [E Hq1]]. rewrite E.
      destruct (IH q1 (fst (step N s o)) Hq1) as [q2 E2]. rewrite E2. exists q2.
      rewrite exec_cons. reflexivity.
  Qed.

  (* a call during which no listener called the manager again leaves exactly its own effect *)
  Theorem whole_call_is_step_partial : forall fuel q s o s2 q2 t,
    call N fuel q s o = Done (s2, q2, t) -> tcalls t = [o] -> s2 = fst (step N s o).
  Proof.
    intros fuel q s o s2 q2 t H Ht.
    destruct (call_ok fuel _ _ _ _ _ _ H) as [Hs _]. rewrite Ht in Hs.
    rewrite exec_cons, exec_nil in Hs. exact Hs.
  Qed.

  (* ---------------------------------------------------------------------------------- *)
  (* Part 4: unique ids along re-entrant histories, every number system *)

  (* AddTargets adds new, pairwise different ids (the engine never adds an id twice) *)
  Definition add_ok (s : tstate) (o : op) : Prop :=
    match o with
    | OAdd ivs => NoDup (map fst ivs) /\ (forall id, In id (map fst ivs) -> ~ In id (ids (order s)))
    | _ => True
    end.

  Fixpoint adds_ok (s : tstate) (ops : list op) : Prop :=
    match ops with
    | [] => True
    | o :: r => add_ok s o /\ adds_ok (fst (step N s o)) r
    end.

  Lemma fold_set_speed_order_gen ivs (s : tstate) :
    order (fold_left (fun st iv => set_speed N st (fst iv) (snd iv)) ivs s) = order s.
  Proof. revert s. induction ivs as [|iv ivs IH]; intros s; cbn; [reflexivity|]. rewrite IH. reflexivity. Qed.

  Lemma step_wf s o : wf N s -> add_ok s o -> wf N (fst (step N s o)).
  Proof.
    intros Hwf Hok. destruct o as [ivs|id| | |id amt|id amt|id amt|amt|amt|id v].
    - (* OAdd *)
      destruct Hok as [Hnd Hfresh]. cbn [step fst]. unfold wf. cbn [order set_order].
      eapply Permutation_NoDup; [apply ids_perm, resort_perm|].
      rewrite fold_set_speed_order_gen, ids_app. unfold ids at 2. rewrite map_map. cbn [u_id].
      apply NoDup_app_local2; auto.
    - (* ORemove *)
      cbn [step]. destruct (find (order s) id); cbn [fst]; [|exact Hwf].
      unfold wf. cbn [order set_order]. apply remove_id_nodup. exact Hwf.
    - (* OStart *)
      cbn [step]. destruct (active s); [exact Hwf|].
      pose proof (resort_perm N s (order s)) as HP.
      destruct (resort N s (order s)) as [|hd tl] eqn:ES; [exact Hwf|].
      match goal with |- context [negb (forallb ?f ?l)] => destruct (negb (forallb f l)) end; [exact Hwf|].
      cbn [fst]. unfold wf. cbn [order].
      rewrite set_gauge_of_ids, ids_map_same_id by reflexivity.
      eapply Permutation_NoDup; [apply ids_perm; exact HP|exact Hwf].
    - (* OReset *)
      destruct (step N s OReset) as [s' outs] eqn:E. cbn [fst].
      pose proof (reset_ok N s s' outs Hwf E) as HR.
      destruct outs as [|e outs]; [cbn in HR; contradiction|].
      destruct e; cbn in HR; try contradiction; destruct outs; try contradiction.
      + destruct HR as (_ & _ & _ & _ & _ & _ & HP & _).
        unfold wf. eapply Permutation_NoDup; [symmetry; exact HP|exact Hwf].
      + destruct HR as [-> _]. exact Hwf.
      + rewrite HR. exact Hwf.
    - destruct (step N s (OSetGauge id amt)) as [s' outs] eqn:E. cbn [fst].
      pose proof (set_gauge_ops_ok N s _ s' outs id Hwf (ex_intro _ amt (or_introl eq_refl)) E) as (_ & HP & _).
      unfold wf. eapply Permutation_NoDup; [symmetry; exact HP|exact Hwf].
    - destruct (step N s (OModNorm id amt)) as [s' outs] eqn:E. cbn [fst].
      pose proof (set_gauge_ops_ok N s _ s' outs id Hwf
                    (ex_intro _ amt (or_intror (or_introl eq_refl))) E) as (_ & HP & _).
      unfold wf. eapply Permutation_NoDup; [symmetry; exact HP|exact Hwf].
    - destruct (step N s (OModAV id amt)) as [s' outs] eqn:E. cbn [fst].
      pose proof (set_gauge_ops_ok N s _ s' outs id Hwf
                    (ex_intro _ amt (or_intror (or_intror eq_refl))) E) as (_ & HP & _).
      unfold wf. eapply Permutation_NoDup; [symmetry; exact HP|exact Hwf].
    - cbn [step]. unfold do_set_cost. destruct (neqb N (cost s) amt); exact Hwf.
    - cbn [step]. unfold do_set_cost. destruct (neqb N (cost s) _); exact Hwf.
    - exact Hwf.
  Qed.

  Lemma exec_wf : forall ops s, wf N s -> adds_ok s ops -> wf N (exec s ops).
  Proof.
    induction ops as [|o ops IH]; intros s Hwf Hok; [exact Hwf|].
    rewrite exec_cons. destruct Hok as [Ho Hr]. apply IH; [apply step_wf; assumption|exact Hr].
  Qed.

  Lemma adds_ok_app : forall a s b, adds_ok s (a ++ b) -> adds_ok s a /\ adds_ok (exec s a) b.
  Proof.
    induction a as [|o a IH]; intros s b H; [split; [exact I|exact H]|].
    cbn [app adds_ok] in *. destruct H as [Ho H]. rewrite exec_cons.
    destruct (IH _ _ H) as [H1 H2]. auto.
  Qed.

  (* every call of a re-entrant history - top-level or nested - is entered in a state with unique
     ids, and so meets the per-call specifications of Proofs/TurnProofs.v there *)
  Definition call_meets_spec (s : tstate) (o : op) : Prop :=
    wf N s /\
    (forall s' id a st tot, o = OStart -> step N s o = (s', [EStart id a st tot]) ->
       start_spec N s s' id a tot /\ st = status N s') /\
    (forall s' outs id amt, o = OSetGauge id amt \/ o = OModNorm id amt \/ o = OModAV id amt ->
       step N s o = (s', outs) -> set_gauge_spec N s s' id outs) /\
    (forall s' outs, o = OReset -> step N s o = (s', outs) -> reset_spec N s s' outs).

  Lemma wf_call_meets_spec s o : wf N s -> call_meets_spec s o.
  Proof.
    intros Hwf. split; [exact Hwf|]. split; [|split].
    - intros s' id a st tot -> H. apply start_ok; assumption.
    - intros s' outs id amt Ho H. eapply set_gauge_ops_ok; [exact Hwf| |exact H]. exists amt. exact Ho.
    - intros s' outs -> H. apply reset_ok; assumption.
  Qed.

  Theorem reentrant_every_call_meets_spec : forall fuel q ops s2 q2 t,
    runL N fuel q (init N) ops = Done (s2, q2, t) -> adds_ok (init N) (tcalls t) ->
    explained (init N) [] t /\ s2 = exec (init N) (tcalls t) /\ wf N s2 /\
    forall a o b, tcalls t = a ++ o :: b -> call_meets_spec (exec (init N) a) o.
  Proof.
    intros fuel q ops s2 q2 t H Hok.
    destruct (reentrant_explained _ _ _ _ _ _ _ H) as [Hx Hs].
    assert (Hwf0 : wf N (init N)) by constructor.
    split; [exact Hx|]. split; [exact Hs|]. split.
    - rewrite Hs. apply exec_wf; assumption.
    - intros a o b Heq. apply wf_call_meets_spec. rewrite Heq in Hok.
      apply exec_wf; [exact Hwf0|]. exact (proj1 (adds_ok_app _ _ _ Hok)).
  Qed.


  (* StartTurn emits nothing (TurnStart is the simulation's event): as a WHOLE call it is its atomic
     step, whatever the listener table holds - so the turn-start clauses hold of whole calls *)
  Lemma start_no_events s : events_of N (snd (step N s OStart)) = [].
  Proof.
    cbn [step]. destruct (active s); [reflexivity|].
    destruct (resort N s (order s)) as [|hd tl]; [reflexivity|].
    match goal with |- context [negb (forallb ?f ?l)] => destruct (negb (forallb f l)) end; reflexivity.
  Qed.

  Theorem start_call_is_atomic : forall fuel q s s2 q2 t,
    call N fuel q s OStart = Done (s2, q2, t) ->
    s2 = fst (step N s OStart) /\ q2 = q /\ tcalls t = [OStart].
  Proof.
    intros [|f] q s s2 q2 t H; cbn [call] in H; [discriminate|].
    pose proof (start_no_events s) as He.
    destruct (step N s OStart) as [s1 outs]. cbn [snd] in He. rewrite He in H.
    cbn [emit_all] in H. inversion H; subst. auto.
  Qed.

  (* ---------------------------------------------------------------------------------- *)
  (* which operations a run can call: the top-level ones, and those of the scripts *)
  Section CallsFrom.
    Variable P : op -> Prop.

    Definition slots_all (q : slots) : Prop :=
      Forall (Forall P) (q_added q) /\ Forall (Forall P) (q_reset q) /\
      Forall (Forall P) (q_gauge q) /\ Forall (Forall P) (q_cost q).

    Lemma pop_all (l : list (script N)) : Forall (Forall P) l ->
      Forall P (fst (pop N l)) /\ Forall (Forall P) (snd (pop N l)).
    Proof.
      destruct l as [|x l]; cbn; [auto|]. intros H. inversion H; subst. auto.
    Qed.

    Lemma pop_slot_all : forall (q : slots) e sc q1, pop_slot N q e = (sc, q1) ->
      slots_all q -> Forall P sc /\ slots_all q1.
    Proof.
      intros [qa qr qg qc] e sc q1 H (Ha & Hr & Hg & Hc). unfold slots_all, pop_slot in *.
      cbn [q_added q_reset q_gauge q_cost] in *.
      destruct e;
        try (inversion H; subst; cbn [q_added q_reset q_gauge q_cost]; solve [auto]).
      - destruct (pop_all qa Ha) as [H1 H2]. destruct (pop N qa) as [x r]. inversion H; subst.
        cbn [fst snd q_added q_reset q_gauge q_cost] in *. auto.
      - destruct (pop_all qr Hr) as [H1 H2]. destruct (pop N qr) as [x r]. inversion H; subst.
        cbn [fst snd q_added q_reset q_gauge q_cost] in *. auto.
      - destruct (pop_all qg Hg) as [H1 H2]. destruct (pop N qg) as [x r]. inversion H; subst.
        cbn [fst snd q_added q_reset q_gauge q_cost] in *. auto.
      - destruct (pop_all qc Hc) as [H1 H2]. destruct (pop N qc) as [x r]. inversion H; subst.
        cbn [fst snd q_added q_reset q_gauge q_cost] in *. auto.
    Qed.

    Definition caller_all (C : caller N) : Prop :=
      forall q s o s2 q2 t, slots_all q -> C q s o = Done (s2, q2, t) ->
        exists nested, tcalls t = o :: nested /\ Forall P nested /\ slots_all q2.

    Lemma run_ops_all : forall C, caller_all C ->
      forall nested ops q s s2 q2 t, slots_all q -> Forall P ops ->
        run_ops N C nested q s ops = Done (s2, q2, t) -> Forall P (tcalls t) /\ slots_all q2.
    Proof.
      intros C HC nested. induction ops as [|o ops IH]; intros q s s2 q2 t Hq Hops H; cbn [run_ops] in H.
      - inversion H; subst. split; [constructor|exact Hq].
      - destruct (nested && negb (listener_legal N o)); [discriminate|].
        destruct (C q s o) as [[[s1 q1] t1]| |] eqn:Ec; try discriminate.
        destruct (run_ops N C nested q1 s1 ops) as [[[s3 q3] t3]| |] eqn:Er; try discriminate.
        inversion H; subst. clear H. inversion Hops as [|? ? Ho Hr]; subst.
        destruct (HC _ _ _ _ _ _ Hq Ec) as (nst & Ht1 & Hn & Hq1).
        destruct (IH _ _ _ _ _ Hq1 Hr Er) as [Ht3 Hq3].
        split; [|exact Hq3]. rewrite tcalls_app, Ht1. apply Forall_app. split; [|exact Ht3].
        constructor; assumption.
    Qed.

    Lemma emit_all_all : forall C, caller_all C ->
      forall evs q s s2 q2 t, slots_all q ->
        emit_all N C q s evs = Done (s2, q2, t) -> Forall P (tcalls t) /\ slots_all q2.
    Proof.
      intros C HC. induction evs as [|e evs IH]; intros q s s2 q2 t Hq H; cbn [emit_all] in H.
      - inversion H; subst. split; [constructor|exact Hq].
      - destruct (pop_slot N q e) as [sc q1] eqn:Ep.
        destruct (pop_slot_all _ _ _ _ Ep Hq) as [Hsc Hq1].
        destruct (run_ops N C true q1 s sc) as [[[s1 q3] t1]| |] eqn:Er; try discriminate.
        destruct (emit_all N C q3 s1 evs) as [[[s3 q4] t3]| |] eqn:Ee; try discriminate.
        inversion H; subst. clear H.
        destruct (run_ops_all C HC _ _ _ _ _ _ _ Hq1 Hsc Er) as [Ht1 Hq3].
        destruct (IH _ _ _ _ _ Hq3 Ee) as [Ht3 Hq4].
        split; [|exact Hq4]. cbn [tcalls]. rewrite tcalls_app. apply Forall_app. auto.
    Qed.

    Lemma call_all : forall fuel, caller_all (call N fuel).
    Proof.
      induction fuel as [|f IH]; intros q s o s2 q2 t Hq H; cbn [call] in H; [discriminate|].
      destruct (step N s o) as [s1 outs].
      destruct (emit_all N (call N f) q s1 (events_of N outs)) as [[[s3 q3] t3]| |] eqn:Ee; try discriminate.
      inversion H; subst. clear H.
      destruct (emit_all_all _ IH _ _ _ _ _ _ Hq Ee) as [Ht3 Hq3].
      exists (tcalls t3). cbn [tcalls]. rewrite tcalls_app. cbn [tcalls]. rewrite app_nil_r. auto.
    Qed.

    (* a history whose first operation is arbitrary and whose other operations and scripts satisfy P:
       the calls are that first operation, then operations satisfying P *)
    Theorem calls_of_history : forall fuel q s o ops s2 q2 t, slots_all q -> Forall P ops ->
      runL N fuel q s (o :: ops) = Done (s2, q2, t) ->
      exists rest, tcalls t = o :: rest /\ Forall P rest.
    Proof.
      intros fuel q s o ops s2 q2 t Hq Hops H. unfold runL in H. cbn [run_ops andb] in H.
      destruct (call N fuel q s o) as [[[s1 q1] t1]| |] eqn:Ec; try discriminate.
      destruct (run_ops N (call N fuel) false q1 s1 ops) as [[[s3 q3] t3]| |] eqn:Er; try discriminate.
      inversion H; subst. clear H.
      destruct (call_all fuel _ _ _ _ _ _ Hq Ec) as (nst & Ht1 & Hn & Hq1).
      destruct (run_ops_all _ (call_all fuel) _ _ _ _ _ _ _ Hq1 Hops Er) as [Ht3 _].
      exists (nst ++ tcalls t3). rewrite tcalls_app, Ht1. split; [reflexivity|].
      apply Forall_app. auto.
    Qed.
  End CallsFrom.
End Generic.

Arguments exec {N}. Arguments tcalls {N}. Arguments explained {N}. Arguments flat_trace {N}.
Arguments add_ok {N}. Arguments adds_ok {N}. Arguments call_meets_spec {N}.

(* ------------------------------------------------------------------------------------ *)
(* Part 5: the property for re-entrant histories (real-number instance) *)
Section RHistories.
  Open Scope R_scope.
  Notation tstate := (tstate ROps).
  Notation rop := (op ROps).

  (* the clauses of [C02_statement] for one state *)
  Definition C02_at (s : tstate) : Prop :=
    NoDup (ids (order s)) /\ Forall (fun u => (0 <= u_gauge u)%Z) (order s) /\
    forall o s' outs, op_ok s o -> step ROps s o = (s', outs) ->
      (o = OStart -> turn_start_ok s s' outs) /\
      (forall id amt, o = OSetGauge id amt \/ o = OModNorm id amt \/ o = OModAV id amt ->
         set_gauge_spec ROps s s' id outs) /\
      (o = OReset -> reset_spec ROps s s' outs).

  Lemma C02_statement_is_C02_at : C02_statement = (forall s, reachable s -> C02_at s).
  Proof. reflexivity. Qed.

  Lemma legal_app : forall a s b, legal s (a ++ b) -> legal s a /\ legal (exec s a) b.
  Proof.
    induction a as [|o a IH]; intros s b H; [split; [exact I|exact H]|].
    cbn [app legal] in *. destruct H as [Ho H]. rewrite exec_cons.
    destruct (IH _ _ H) as [H1 H2]. auto.
  Qed.

  Lemma legal_exec_reachable a : legal (init ROps) a -> reachable (exec (init ROps) a).
  Proof. intros H. exists a. split; [exact H|reflexivity]. Qed.

  (* gauges in every probe of the trace are those of a reachable state *)
  Definition probe_nonneg (p : probe ROps) : Prop := Forall (fun ig => (0 <= snd ig)%Z) (fst p).

  Lemma probe_of_nonneg s : Forall (fun u => (0 <= u_gauge u)%Z) (order s) -> probe_nonneg (probe_of ROps s).
  Proof.
    intros H. unfold probe_nonneg, probe_of. cbn [fst]. apply Forall_forall. intros ig Hin.
    apply in_map_iff in Hin. destruct Hin as (u & <- & Hu). cbn [snd].
    rewrite Forall_forall in H. apply H. exact Hu.
  Qed.

  (* For every history of top-level operations, every table of listener scripts and every fuel: if the
     run completes (neither out of fuel nor an illegal listener operation) and every call, in the
     order in which the calls were entered, is legal use where it is entered (positive speeds, new
     ids), then
     - the trace is explained by flat atomic steps and the final state is their flat execution;
     - every call, top-level or nested at any depth, is entered in a state that a flat legal history
       reaches, is legal there, and that state satisfies every clause of C02 (no negative gauge, unique
       units; a turn start picks a minimal action value, adds the non-negative elapsed value to the
       clock, shrinks the others in proportion to their speed; a gauge change touches that unit only
       and never goes below zero; the end of action resets the acting unit only, to base x cost);
     - the state observed after every return, top-level or nested, has no negative gauge. *)
  Definition C02_reentrant_statement : Prop :=
    forall fuel (q : slots ROps) ops s2 q2 t,
      runL ROps fuel q (init ROps) ops = Done (s2, q2, t) ->
      legal (init ROps) (tcalls t) ->
      explained (init ROps) [] t /\ s2 = exec (init ROps) (tcalls t) /\ reachable s2 /\ C02_at s2 /\
      (forall a o b, tcalls t = a ++ o :: b ->
         let s := exec (init ROps) a in reachable s /\ op_ok s o /\ C02_at s) /\
      (forall a rt p b, t = a ++ TRet rt p :: b -> probe_nonneg p).

  Theorem C02_reentrant_holds : C02_reentrant_statement.
  Proof.
    intros fuel q ops s2 q2 t H HL.
    destruct (reentrant_explained ROps _ _ _ _ _ _ _ H) as [Hx Hs].
    assert (Hr2 : reachable s2) by (rewrite Hs; apply legal_exec_reachable; exact HL).
    split; [exact Hx|]. split; [exact Hs|]. split; [exact Hr2|]. split; [exact (C02_holds s2 Hr2)|].
    split.
    - intros a o b Heq s. rewrite Heq in HL. destruct (legal_app _ _ _ HL) as [Ha Hb].
      assert (Hr : reachable s) by (apply legal_exec_reachable; exact Ha).
      split; [exact Hr|]. split; [exact (proj1 Hb)|exact (C02_holds s Hr)].
    - intros a rt p b Heq.
      rewrite (explained_probes ROps _ _ _ Hx _ _ _ _ Heq).
      assert (Hpre : legal (init ROps) (tcalls a)).
      { rewrite Heq, tcalls_app in HL. exact (proj1 (legal_app _ _ _ HL)). }
      apply probe_of_nonneg.
      exact (proj1 (proj2 (reachable_inv _ (legal_exec_reachable _ Hpre)))).
  Qed.
End RHistories.

(* ------------------------------------------------------------------------------------ *)
(* Part 6: what re-entrant listeners break *)

(* "advancing, delaying or setting a unit's gauge changes that unit only", read for the WHOLE call
   (state before the call against state when it returns): true per call at its commit (Parts 1, 4, 5)
   and for whole calls whose listeners did not call the manager again ([whole_call_is_step_partial]);
   false in general - the GaugeChange listener may change another unit before the call returns. *)
Definition C02_whole_gauge_call_touches_one_unit_statement : Prop :=
  forall (N : NumOps) fuel (q : slots N) (s : tstate N) id amt s2 q2 t, wf N s ->
    call N fuel q s (OSetGauge id amt) = Done (s2, q2, t) ->
    forall id', id' <> id -> find (order s2) id' = find (order s) id'.

(* units 1 (speed 100) and 2 (speed 90); SetGauge(1, 5000) is announced; the GaugeChange listener sets
   the gauge of unit 2 to 4500 (a tie with unit 1): when SetGauge returns, unit 2 has changed too *)
Definition wg_state : tstate FloatOps :=
  exec (init FloatOps) [@OAdd FloatOps [(1, 100%float); (2, 90%float)]].
Definition wg_q : slots FloatOps := mkQ [] [] [[@OSetGauge FloatOps 2 4500%float]] [].

Definition wg_out : result FloatOps :=
  Eval vm_compute in call FloatOps 2 wg_q wg_state (@OSetGauge FloatOps 1 5000%float).

Lemma wg_runs :
  exists s2 q2 t, call FloatOps 2 wg_q wg_state (@OSetGauge FloatOps 1 5000%float) = Done (s2, q2, t) /\
                  find (order s2) 2 = Some (mkU 2 4500) /\ find (order wg_state) 2 = Some (mkU 2 10000) /\
                  tcalls t = [@OSetGauge FloatOps 1 5000%float; @OSetGauge FloatOps 2 4500%float].
Proof.
  assert (Hr : call FloatOps 2 wg_q wg_state (@OSetGauge FloatOps 1 5000%float) = wg_out)
    by reflexivity.
  unfold wg_out in Hr. eexists _, _, _. split; [exact Hr|].
  repeat split; reflexivity.
Qed.

Lemma wg_wf : wf FloatOps wg_state.
Proof.
  apply exec_wf; [constructor|]. cbn [adds_ok add_ok map fst]. split; [|exact I]. split.
  - constructor; [intros [H|[]]; discriminate|]. constructor; [intros []|constructor].
  - intros id _ [].
Qed.

Theorem whole_gauge_call_touches_one_unit_refuted : ~ C02_whole_gauge_call_touches_one_unit_statement.
Proof.
  intros H. destruct wg_runs as (s2 & q2 & t & E & H2 & H0 & _).
  specialize (H FloatOps 2%nat wg_q wg_state 1 5000%float s2 q2 t wg_wf E 2).
  rewrite H2, H0 in H. assert (Hne : 2 <> 1) by lia. specialize (H Hne). discriminate.
Qed.

(* the same for "that unit's gauge and no other is reset", read for the whole ResetTurn call *)
Definition C02_whole_reset_call_resets_one_unit_statement : Prop :=
  forall (N : NumOps) fuel (q : slots N) (s : tstate N) s2 q2 t, wf N s ->
    call N fuel q s OReset = Done (s2, q2, t) ->
    forall id', id' <> atarget s -> find (order s2) id' = find (order s) id'.

(* unit 1 acts; at the end of its action the TurnReset listener sets the gauge of unit 2 *)
Definition wr_state : tstate FloatOps :=
  exec (init FloatOps) [@OAdd FloatOps [(1, 100%float); (2, 90%float)]; @OStart FloatOps].
Definition wr_q : slots FloatOps := mkQ [] [[@OSetGauge FloatOps 2 777%float]] [] [].
Definition wr_out : result FloatOps := Eval vm_compute in call FloatOps 2 wr_q wr_state OReset.

Lemma wr_runs :
  exists s2 q2 t, call FloatOps 2 wr_q wr_state OReset = Done (s2, q2, t) /\
                  find (order s2) 2 = Some (mkU 2 777) /\ find (order wr_state) 2 = Some (mkU 2 1000) /\
                  atarget wr_state = 1.
Proof.
  assert (Hr : call FloatOps 2 wr_q wr_state OReset = wr_out) by reflexivity.
  unfold wr_out in Hr. eexists _, _, _. split; [exact Hr|].
  repeat split; reflexivity.
Qed.

Lemma wr_wf : wf FloatOps wr_state.
Proof.
  apply exec_wf; [constructor|]. cbn [adds_ok add_ok map fst]. split; [|split; exact I]. split.
  - constructor; [intros [H|[]]; discriminate|]. constructor; [intros []|constructor].
  - intros id _ [].
Qed.

Theorem whole_reset_call_resets_one_unit_refuted : ~ C02_whole_reset_call_resets_one_unit_statement.
Proof.
  intros H. destruct wr_runs as (s2 & q2 & t & E & H2 & H0 & Ha).
  specialize (H FloatOps 2%nat wr_q wr_state s2 q2 t wr_wf E 2).
  rewrite H2, H0, Ha in H. assert (Hne : 2 <> 1) by lia. specialize (H Hne). discriminate.
Qed.

Theorem whole_reset_call_resets_one_unit_partial :
  forall (N : NumOps) fuel (q : slots N) (s : tstate N) s2 q2 t, wf N s ->
    call N fuel q s OReset = Done (s2, q2, t) -> tcalls t = [OReset] ->
    reset_spec N s s2 (snd (step N s OReset)).
Proof.
  intros N fuel q s s2 q2 t Hwf H Ht.
  rewrite (whole_call_is_step_partial N _ _ _ _ _ _ _ H Ht).
  apply reset_ok; [exact Hwf|]. destruct (step N s OReset); reflexivity.
Qed.

(* what does hold of a whole call, for every number system, listener table and fuel: it leaves its own
   atomic step followed by the flat steps of the calls its listeners made (each of which meets the
   per-call specification where it is entered, Part 4); without such calls it leaves its own step, and
   then the per-call specification holds of the whole call *)
Theorem whole_call_partial : forall (N : NumOps) fuel (q : slots N) (s : tstate N) o s2 q2 t,
  call N fuel q s o = Done (s2, q2, t) ->
  (exists nested, tcalls t = o :: nested /\ s2 = exec (fst (step N s o)) nested) /\
  (tcalls t = [o] -> s2 = fst (step N s o)).
Proof.
  intros N fuel q s o s2 q2 t H. split.
  - eapply call_head. exact H.
  - eapply whole_call_is_step_partial. exact H.
Qed.

Theorem whole_gauge_call_touches_one_unit_partial :
  forall (N : NumOps) fuel (q : slots N) (s : tstate N) o id s2 q2 t, wf N s ->
    (exists amt, o = OSetGauge id amt \/ o = OModNorm id amt \/ o = OModAV id amt) ->
    call N fuel q s o = Done (s2, q2, t) -> tcalls t = [o] ->
    set_gauge_spec N s s2 id (snd (step N s o)).
Proof.
  intros N fuel q s o id s2 q2 t Hwf Ho H Ht.
  rewrite (whole_call_is_step_partial N _ _ _ _ _ _ _ H Ht).
  eapply set_gauge_ops_ok; [exact Hwf|exact Ho|]. destruct (step N s o); reflexivity.
Qed.

(* ------------------------------------------------------------------------------------ *)
(* a static sufficient condition for the hypotheses of [C02_reentrant_statement] (real-number
   instance): the history starts with one AddTargets of new units with positive speeds; no other
   operation, top-level or in any listener script, is an AddTargets; every speed change, top-level or
   in a script, sets a positive speed.  Then every call is legal where it is entered - whatever the
   listener scripts do otherwise, at any nesting depth. *)
Section Static.
  Open Scope R_scope.
  Definition static_ok (o : op ROps) : Prop :=
    match o with
    | OAdd _ => False
    | OSetSpeed _ v => 0 < v
    | _ => True
    end.

  Lemma static_legal : forall l s, Forall static_ok l -> legal s l.
  Proof.
    induction l as [|o l IH]; intros s H; cbn [legal]; [exact I|].
    inversion H as [|? ? Ho Hl]; subst. split; [|apply IH; exact Hl].
    destruct o; cbn in *; tauto.
  Qed.

  Theorem reentrant_static_history_legal : forall fuel (q : slots ROps) ivs ops s2 q2 t,
    slots_all ROps static_ok q -> Forall static_ok ops -> op_ok (init ROps) (OAdd ivs) ->
    runL ROps fuel q (init ROps) (OAdd ivs :: ops) = Done (s2, q2, t) ->
    legal (init ROps) (tcalls t).
  Proof.
    intros fuel q ivs ops s2 q2 t Hq Hops Hadd H.
    destruct (calls_of_history ROps static_ok _ _ _ _ _ _ _ _ Hq Hops H) as (rest & Ht & Hr).
    rewrite Ht. cbn [legal]. split; [exact Hadd|]. apply static_legal. exact Hr.
  Qed.

  (* ... and with enough fuel and scripts free of the run loop's operations the run completes: the
     hypotheses of [C02_reentrant_statement] are met by EVERY such history and listener table *)
  Theorem reentrant_static_history_runs : forall fuel (q : slots ROps) ivs ops,
    (total_ops ROps q < fuel)%nat -> scripts_legal ROps q = true ->
    slots_all ROps static_ok q -> Forall static_ok ops -> op_ok (init ROps) (OAdd ivs) ->
    exists s2 q2 t, runL ROps fuel q (init ROps) (OAdd ivs :: ops) = Done (s2, q2, t) /\
                    legal (init ROps) (tcalls t).
  Proof.
    intros fuel q ivs ops Hf Hl Hq Hops Hadd.
    destruct (reentrant_run_is_done ROps fuel q (init ROps) (OAdd ivs :: ops) Hf Hl) as (s2 & q2 & t & E).
    exists s2, q2, t. split; [exact E|]. eapply reentrant_static_history_legal; eassumption.
  Qed.
End Static.

(* ------------------------------------------------------------------------------------ *)
(* non-vacuity at the real-number instance: a re-entrant history whose run completes and is legal.
   Units 1 (speed 100) and 2 (speed 90) enter; the TurnTargetsAdded listener advances unit 2 by 10%
   (a call nested in AddTargets: it is the second call of the trace); GaugeChange listeners set the
   gauge cost and change a speed, the CurrentGaugeCostChange listener delays unit 1, the TurnReset
   listener sets the reset unit's gauge once more and removes the other unit. *)
Section NonVacuity.
  Open Scope R_scope.
  Definition re_ops : list (op ROps) :=
    [@OStart ROps; @OSetCost ROps (3 / 4); @OModNorm ROps 1%Z (1 / 2); @OReset ROps; @OStart ROps].
  Definition re_ivs : list (Z * R) := [(1%Z, 100); (2%Z, 90)].
  Definition re_q : slots ROps :=
    mkQ [[@OModNorm ROps 2%Z (- (1 / 10))]]
        [[@OSetGauge ROps 1%Z 1234; @ORemove ROps 2%Z]]
        [[@OSetCost ROps (1 / 2); @OSetSpeed ROps 2%Z 120]; []; [@OModAV ROps 2%Z (-5)]]
        [[@OModNorm ROps 1%Z (1 / 4)]; []].

  Example reentrant_legal_history_exists :
    exists s2 q2 t,
      runL ROps 9 re_q (init ROps) (@OAdd ROps re_ivs :: re_ops) = Done (s2, q2, t) /\
      legal (init ROps) (tcalls t) /\
      exists rest, tcalls t = @OAdd ROps re_ivs :: @OModNorm ROps 2%Z (- (1 / 10)) :: rest.
  Proof.
    destruct (reentrant_static_history_runs 9 re_q re_ivs re_ops) as (s2 & q2 & t & E & HL).
    - cbn. lia.
    - reflexivity.
    - unfold slots_all, re_q. cbn [q_added q_reset q_gauge q_cost].
      repeat split; repeat constructor; cbn; lra.
    - unfold re_ops. repeat constructor.
    - cbn [op_ok re_ivs map fst snd]. split; [repeat constructor; cbn; lra|]. split.
      + constructor; [intros [H|[]]; discriminate|]. constructor; [intros []|constructor].
      + intros id _ [].
    - exists s2, q2, t. split; [exact E|]. split; [exact HL|].
      eapply (add_listener_runs ROps 9%nat re_q); [reflexivity|exact E].
  Qed.
End NonVacuity.

(* non-vacuity at binary64, by evaluation: a history nested three levels deep.  AddTargets' listener
   advances unit 2 (level 1); the GaugeChange listener of that sets the gauge cost (level 2); the
   CurrentGaugeCostChange listener of that delays unit 1 (level 3).  Later the TurnReset listener sets
   the gauge of the unit being reset once more. *)
Definition fre_ops : list (op FloatOps) :=
  [@OAdd FloatOps [(1, 100%float); (2, 90%float)]; @OStart FloatOps; @OSetCost FloatOps 0.75%float;
   @OReset FloatOps; @OStart FloatOps].
Definition fre_q : slots FloatOps :=
  mkQ [[@OModNorm FloatOps 2 (-0.125)%float]]
      [[@OSetGauge FloatOps 2 1234%float]]
      [[@OSetCost FloatOps 0.5%float]; []; []]
      [[@OModNorm FloatOps 1 0.25%float]; []].
Definition fre_calls : list (op FloatOps) :=
  [@OAdd FloatOps [(1, 100%float); (2, 90%float)]; @OModNorm FloatOps 2 (-0.125)%float;
   @OSetCost FloatOps 0.5%float; @OModNorm FloatOps 1 0.25%float;
   @OStart FloatOps; @OSetCost FloatOps 0.75%float; @OReset FloatOps; @OSetGauge FloatOps 2 1234%float;
   @OStart FloatOps].
Definition fre_out : result FloatOps :=
  Eval vm_compute in runL FloatOps 5 fre_q (init FloatOps) fre_ops.

Lemma fre_runs :
  exists s2 q2 t, runL FloatOps 5 fre_q (init FloatOps) fre_ops = Done (s2, q2, t) /\
                  tcalls t = fre_calls /\ adds_ok (init FloatOps) (tcalls t) /\
                  total_ops FloatOps q2 = 0%nat /\ atarget s2 = 2.
Proof.
  assert (Hr : runL FloatOps 5 fre_q (init FloatOps) fre_ops = fre_out) by reflexivity.
  unfold fre_out in Hr. eexists _, _, _. split; [exact Hr|].
  split; [reflexivity|]. split; [|split; reflexivity].
  cbn [tcalls adds_ok add_ok map fst]. split; [|repeat split].
  split.
  - constructor; [intros [H|[]]; discriminate|]. constructor; [intros []|constructor].
  - intros id _ [].
Qed.
