(* Correspondence checker for Model/Dispatch.v (harness components dispatch_heal / dispatch_hit):
   [check_case]   the call sequence, verdict, read-back number and attached lists the REAL
                  modifier.Manager produced for every emitted event = the model's, exactly;
   [monitor_case] the role table of Model/DispatchSpec.v evaluated on the recorded calls, against the
                  attached lists the implementation itself reported before the event.  It never runs
                  [run_event] / [dispatch].  What it demands is what Proofs/DispatchProofs.v proves of the
                  model: in EVERY world the per-call clause, the table for the callbacks of the event's
                  first role (first_role_any_world) and for LimboWaitHeal (limbo_any_world), the read-back
                  number; in worlds whose callbacks only record, the whole table (role_table_statement). *)
From Coq Require Import List ZArith Bool String.
From SR Require Import Base.CaseLib Model.Dispatch Model.DispatchSpec.
Import ListNotations.
Open Scope Z_scope.

Definition call_eqb (a b : call) : bool :=
  cb_eqb (c_cb a) (c_cb b) && (c_id a =? c_id b) && (c_owner a =? c_owner b) && (c_arg a =? c_arg b).
Definition calls_eqb := list_eqb call_eqb.
Definition tagc_eqb (a b : Z * nat) : bool := (fst a =? fst b) && Nat.eqb (snd a) (snd b).
Definition lists_eqb := list_eqb (list_eqb tagc_eqb).
Definition evobs_eqb (a b : evobs) : bool :=
  let '(ca, va, xa, la) := a in
  let '(cb', vb, xb, lb) := b in
  calls_eqb ca cb' && Bool.eqb va vb && (xa =? xb) && lists_eqb la lb.

(* what the harness observed: the attached lists after the set-up and one record per event, or a Go
   panic (a nil callback called, ...) *)
Inductive obs := Obs (init : list (list (Z * nat))) (evs : list evobs) | HarnessPanic (msg : string).

Definition case := (list cfg * list Z * list (Z * nat) * list event * obs)%type.

Definition model_out (c : case) : list (list (Z * nat)) * list evobs :=
  let '(cat, valid, adds, es, _) := c in
  let w := mk_world cat valid adds in
  (lists w, run w es).

Definition check_case (c : case) : bool :=
  let '(_, _, _, _, o) := c in
  match o with
  | Obs init evs =>
      let '(mi, me) := model_out c in
      lists_eqb mi init && list_eqb evobs_eqb me evs
  | HarnessPanic _ => false
  end.

(* ------------------------------------------------------------------------------------------ *)
(* the world the implementation reported: per valid unit (tag, config index) in attachment order *)
Definition dummy_cfg : cfg := mkCfg [] false [].
Definition inst_of (cat : list cfg) (u : Z) (p : Z * nat) : inst :=
  mkInst (fst p) u (snd p) (nth (snd p) cat dummy_cfg).
Definition world_of_lists (cat : list cfg) (valid : list Z) (ls : list (list (Z * nat))) : world :=
  mkW cat valid (map (fun ul => (fst ul, map (inst_of cat (fst ul)) (snd ul))) (combine valid ls)) 0.

Definition find_any (wb wa : world) (t : Z) : option inst :=
  match find_att t (w_att wb) with
  | Some i => Some i
  | None => find_att t (w_att wa)
  end.

(* clause 1, for every world (scripted or not): a callback is only ever invoked by the event that the
   doc comment names, on an instance whose owner plays the callback's role in that event, with the
   documented argument, the non-All hit callbacks only for qualified attack types, and in snapshot
   state only on instances that may modify snapshots; the instance really has that callback *)
Definition call_ok (wb wa : world) (e : event) (c : call) : bool :=
  let k := c_cb c in
  ekind_eqb (kind_of e) (cb_event k) &&
  existsb (Z.eqb (c_owner c)) (role_units e (cb_role k)) &&
  (c_arg c =? arg_of e k) &&
  (negb (qualified_only k) || qualified_of e) &&
  match find_any wb wa (c_id c) with
  | Some i => has i k && (negb (snapshot_of e) || c_snap (i_cfg i)) && (i_owner i =? c_owner c)
  | None => true      (* attached and detached again by scripts within this very event *)
  end.

Fixpoint ranks_sorted (l : list nat) : bool :=
  match l with
  | a :: ((b :: _) as r) => (a <=? b)%nat && ranks_sorted r
  | _ => true
  end.

(* the verdict is the disjunction of the answers actually given, and an answer `true` ends the walk *)
Fixpoint limbo_answers_ok (yes : list Z) (cs : list call) (v : bool) : bool :=
  match cs with
  | [] => negb v
  | [c] => Bool.eqb v (existsb (Z.eqb (c_id c)) yes)
  | c :: r => negb (existsb (Z.eqb (c_id c)) yes) && limbo_answers_ok yes r v
  end.

Definition ev_monitor (q : bool) (wb wa : world) (e : event) (o : evobs) : bool :=
  let '(cs, v, x, _) := o in
  let ds := external cs in
  forallb (call_ok wb wa e) ds &&
  match e with
  | ELimbo t yes =>
      (* every world: the candidates in attachment order up to the first `true`; verdict = disjunction *)
      (x =? 0) && limbo_answers_ok yes ds v &&
      calls_eqb ds (expected_limbo wb t yes) && Bool.eqb v (expected_verdict wb t yes)
  | _ =>
      negb v &&
      (* the adjustments of the mutable events landed on the event the emitter reads back *)
      (x =? final_value (value0 e) cs) &&
      (* every world: the callbacks of the event's first role (all callbacks of a single-role event)
         are exactly the table's for the lists reported before the event *)
      forallb (fun k => negb (Nat.eqb (rank k) 0) || calls_eqb (proj k ds) (expected wb e k)) all_cbs &&
      (negb q ||
       ((* quiet worlds: no bookkeeping call, and per callback kind exactly the table *)
        Nat.eqb (List.length ds) (List.length cs) &&
        forallb (fun k => calls_eqb (proj k cs) (expected wb e k)) all_cbs &&
        (* role order across kinds *)
        ranks_sorted (map (fun c => rank (c_cb c)) cs) &&
        (* All-variant then plain variant, instance by instance *)
        forallb (fun k => match twin k with
                          | Some k' => calls_eqb (projp k k' cs) (expected_pair wb e k k')
                          | None => true
                          end) all_cbs))
  end.

Fixpoint monitor_events (q : bool) (cat : list cfg) (valid : list Z) (before : list (list (Z * nat)))
                        (es : list event) (os : list evobs) : bool :=
  match es, os with
  | [], [] => true
  | e :: es', o :: os' =>
      let after := snd o in
      ev_monitor q (world_of_lists cat valid before) (world_of_lists cat valid after) e o &&
      monitor_events q cat valid after es' os'
  | _, _ => false
  end.

Definition monitor_case (c : case) : bool :=
  let '(cat, valid, adds, es, o) := c in
  match o with
  | Obs init evs =>
      let q := forallb quiet_cfg cat in
      monitor_events q cat (dedup valid []) init es evs
  | HarnessPanic _ => false
  end.
