(* Proofs about the RE-ENTRANT layer of Model/Attr.v (listener scripts that call the service again
   while the outer call is still running) for property C07; all at the binary64 level.  The flat
   facts (one call, listeners only record) are Proofs/AttrProofs.v. *)
From Coq Require Import List ZArith Bool Lia Arith.
From SR Require Import Base.FloatFactsAttr Model.Attr Proofs.AttrProofs.
From Coq Require Import Floats.
Import ListNotations.
Open Scope Z_scope.

(* ------------------------------------------------------------------------------------ *)
(* Hypotheses: valid calls at top level and in every listener script                     *)
(* ------------------------------------------------------------------------------------ *)

(* a call issued from a listener: valid like a top-level call; units are registered at top level *)
Definition sop_ok (o : op) : Prop :=
  op_ok o /\ match o with OAdd _ _ _ _ _ _ => False | _ => True end.
Definition script_ok (sc : script) : Prop := Forall sop_ok sc.
Definition queue_ok (q : list script) : Prop := Forall script_ok q.
Definition lsn_ok (L : lsn) : Prop :=
  queue_ok (l_hp L) /\ queue_ok (l_limbo L) /\ queue_ok (l_stance L) /\ queue_ok (l_break L) /\
  queue_ok (l_reset L) /\ queue_ok (l_energy L) /\ queue_ok (l_sp L).

(* no listener reacts to StanceBreak / StanceReset *)
Definition nobr (L : lsn) : Prop := l_break L = [] /\ l_reset L = [].

Lemma pop_q_ok q : queue_ok q -> script_ok (fst (pop_q q)) /\ queue_ok (snd (pop_q q)).
Proof.
  intros H. destruct q as [|sc r]; cbn [pop_q fst snd].
  - split; constructor.
  - inversion H; subst. split; assumption.
Qed.

Lemma pop_slot_ok L sl : lsn_ok L -> script_ok (fst (pop_slot L sl)) /\ lsn_ok (snd (pop_slot L sl)).
Proof.
  intros (H1 & H2 & H3 & H4 & H5 & H6 & H7).
  destruct sl; cbn [pop_slot];
    match goal with |- context [pop_q ?q] =>
      let Hq := fresh in
      assert (Hq : queue_ok q) by assumption;
      destruct (pop_q_ok q Hq) as [? ?]; destruct (pop_q q) as [sc r] end;
    cbn [fst snd] in *; (split; [assumption|]); unfold lsn_ok; cbn; auto 10.
Qed.

Lemma pop_slot_nobr L sl : nobr L -> nobr (snd (pop_slot L sl)).
Proof.
  intros [H1 H2].
  destruct sl; cbn [pop_slot];
    match goal with |- context [pop_q ?q] => destruct (pop_q q) as [sc r] eqn:E end;
    cbn [snd]; unfold nobr; cbn; try (split; assumption).
  - rewrite H1 in E. inversion E; subst. auto.
  - rewrite H2 in E. inversion E; subst. auto.
Qed.

Lemma pop_slot_nobr_script L sl : nobr L -> (sl = LBreak \/ sl = LReset) -> fst (pop_slot L sl) = [].
Proof.
  intros [H1 H2] [-> | ->]; cbn [pop_slot]; rewrite ?H1, ?H2; reflexivity.
Qed.

(* ------------------------------------------------------------------------------------ *)
(* Chains with both ends: the events lead from x to y                                    *)
(* ------------------------------------------------------------------------------------ *)

Fixpoint link (x : float) (l : list (float * float)) (y : float) : Prop :=
  match l with
  | [] => eqb x y = true
  | (o, n) :: r => eqb x o = true /\ link n r y
  end.

Fixpoint sp_link (x : Z) (l : list (Z * Z)) (y : Z) : Prop :=
  match l with
  | [] => x = y
  | (o, n) :: r => x = o /\ sp_link n r y
  end.

Lemma link_head x x' l y : eqb x' x = true -> link x l y -> link x' l y.
Proof.
  intros E. destruct l as [|[o n] r]; cbn [link].
  - intros H. eapply eqb_trans_any; eauto.
  - intros [H1 H2]. split; [eapply eqb_trans_any; eauto | exact H2].
Qed.

Lemma link_app x l1 y l2 z : link x l1 y -> link y l2 z -> link x (l1 ++ l2) z.
Proof.
  revert x. induction l1 as [|[o n] r IH]; intros x; cbn [link app].
  - intros E H. eapply link_head; eauto.
  - intros [E H1] H2. split; [exact E | apply IH; assumption].
Qed.

Lemma sp_link_app x l1 y l2 z : sp_link x l1 y -> sp_link y l2 z -> sp_link x (l1 ++ l2) z.
Proof.
  revert x. induction l1 as [|[o n] r IH]; intros x; cbn [sp_link app].
  - intros ->. auto.
  - intros [E H1] H2. split; [exact E | apply IH; assumption].
Qed.

Lemma link_chained x l y : link x l y -> chained l /\ head_is x l.
Proof.
  revert x. induction l as [|[o n] r IH]; intros x; cbn [link chained head_is].
  - auto.
  - intros [E H]. destruct (IH n H) as [C Hd]. split; [|exact E]. split; [|exact C].
    destruct r as [|[o2 n2] r2]; [exact I | exact Hd].
Qed.

Lemma sp_link_chained x l y : sp_link x l y -> sp_chained l /\ sp_head_is x l.
Proof.
  revert x. induction l as [|[o n] r IH]; intros x; cbn [sp_link sp_chained sp_head_is].
  - auto.
  - intros [E H]. destruct (IH n H) as [C Hd]. split; [|exact E]. split; [|exact C].
    destruct r as [|[o2 n2] r2]; [exact I | exact Hd].
Qed.

(* the last event reports the value the history ends with *)
Definition ends_at (l : list (float * float)) (y : float) : Prop :=
  match rev l with [] => True | (_, n) :: _ => eqb n y = true end.
Definition sp_ends_at (l : list (Z * Z)) (y : Z) : Prop :=
  match rev l with [] => True | (_, n) :: _ => n = y end.

Lemma link_ends x l y : link x l y -> ends_at l y.
Proof.
  revert x. induction l as [|[o n] r IH]; intros x; cbn [link].
  - intros _. exact I.
  - intros [_ H]. unfold ends_at. cbn [rev].
    destruct r as [|p r'].
    + cbn [link] in H. cbn. exact H.
    + specialize (IH n H). unfold ends_at in IH.
      destruct (rev (p :: r')) as [|[o2 n2] t] eqn:E.
      * apply (f_equal (@length _)) in E. rewrite rev_length in E. discriminate.
      * cbn [app]. exact IH.
Qed.

Lemma sp_link_ends x l y : sp_link x l y -> sp_ends_at l y.
Proof.
  revert x. induction l as [|[o n] r IH]; intros x; cbn [sp_link].
  - intros _. exact I.
  - intros [_ H]. unfold sp_ends_at. cbn [rev].
    destruct r as [|p r'].
    + cbn [sp_link] in H. cbn. exact H.
    + specialize (IH n H). unfold sp_ends_at in IH.
      destruct (rev (p :: r')) as [|[o2 n2] t] eqn:E.
      * apply (f_equal (@length _)) in E. rewrite rev_length in E. discriminate.
      * cbn [app]. exact IH.
Qed.

(* ------------------------------------------------------------------------------------ *)
(* What the recording listener sees: every event is followed by the getters' values       *)
(* ------------------------------------------------------------------------------------ *)

(* the reading agrees with the event: the reported new value IS what is stored when the listeners run *)
Definition agrees (e : ev) (g : snap) : Prop :=
  match e with
  | EHP _ _ _ n _ _ _ => g_hp g = n
  | EEnergy _ _ _ _ n => g_energy g = n
  | EStance _ _ _ _ n => g_stance g = n
  | ESP _ _ _ n => g_sp g = n
  | _ => True
  end.

(* a reading is in range (the getters of an unregistered id return defaults and state Invalid) *)
Definition snap_ok (g : snap) : Prop :=
  0 <= g_sp g <= 5 /\
  (g_state g <> Invalid ->
   leb 0 (g_hp g) = true /\ leb (g_hp g) 1 = true /\
   leb 0 (g_energy g) = true /\ leb (g_energy g) (g_maxEnergy g) = true /\
   leb 0 (g_stance g) = true /\ leb (g_stance g) (g_maxStance g) = true).

Fixpoint seen_from (pend : option ev) (evs : list ev) : Prop :=
  match evs with
  | [] => pend = None
  | e :: r =>
      match pend with
      | Some p => match e with ESeen g => agrees p g /\ snap_ok g /\ seen_from None r | _ => False end
      | None => match e with
                | ESeen _ => False
                | ERet _ => seen_from None r
                | _ => seen_from (Some e) r
                end
      end
  end.
Definition seen_ok (evs : list ev) : Prop := seen_from None evs.

Lemma seen_app p a b : seen_from p a -> seen_ok b -> seen_from p (a ++ b).
Proof.
  revert p. induction a as [|e r IH]; intros p; cbn [app seen_from].
  - intros ->. auto.
  - destruct p as [p|].
    + destruct e; try contradiction. intros (A & B & C) Hb. split; [exact A|]. split; [exact B|]. apply IH; assumption.
    + destruct e; try contradiction; intros H Hb; apply IH; assumption.
Qed.

Definition is_service_event (e : ev) : Prop := match e with ESeen _ | ERet _ => False | _ => True end.

Lemma seen_pair e g r : is_service_event e -> agrees e g -> snap_ok g -> seen_ok r -> seen_ok (e :: ESeen g :: r).
Proof. intros Hs A G R. unfold seen_ok. destruct e; try contradiction; cbn [seen_from]; auto. Qed.

Lemma seen_ret err r : seen_ok r -> seen_ok (ERet err :: r).
Proof. intros H. exact H. Qed.

(* ------------------------------------------------------------------------------------ *)
(* Events that report a change: old <> new                                               *)
(* ------------------------------------------------------------------------------------ *)
Definition genuine_ev (e : ev) : Prop :=
  match e with
  | EHP _ _ o n _ _ _ => eqb o n = false
  | EEnergy _ _ _ o n => eqb o n = false
  | ESP _ _ o n => o <> n
  | _ => True
  end.
Definition genuine (evs : list ev) : Prop := Forall genuine_ev evs.

(* the same for StanceChange, with the range of both values *)
Definition stance_strict_ev (e : ev) : Prop :=
  match e with
  | EStance _ _ _ o n => eqb o n = false /\ leb 0 o = true /\ leb 0 n = true
  | _ => True
  end.
Definition stance_strict (evs : list ev) : Prop := Forall stance_strict_ev evs.

(* ------------------------------------------------------------------------------------ *)
(* Break / reset announcements counted against the StanceChange events of the unit       *)
(* ------------------------------------------------------------------------------------ *)
Definition cnt (p : float * float -> bool) (l : list (float * float)) : nat := length (filter p l).
Definition zero_new (id : Z) (evs : list ev) : nat := cnt (fun p => eqb (snd p) 0) (q_evs QStance id evs).
Definition old_zero (id : Z) (evs : list ev) : nat := cnt (fun p => eqb (fst p) 0) (q_evs QStance id evs).
(* the stance reaches zero from a positive value / leaves zero *)
Definition reach_zero (id : Z) (evs : list ev) : nat :=
  cnt (fun p => ltb 0 (fst p) && eqb (snd p) 0) (q_evs QStance id evs).
Definition leave_zero (id : Z) (evs : list ev) : nat :=
  cnt (fun p => eqb (fst p) 0 && ltb 0 (snd p)) (q_evs QStance id evs).

Lemma cnt_app p a b : cnt p (a ++ b) = (cnt p a + cnt p b)%nat.
Proof. unfold cnt. rewrite filter_app, app_length. reflexivity. Qed.

Lemma n_break_app id a b : n_break id (a ++ b) = (n_break id a + n_break id b)%nat.
Proof. unfold n_break. rewrite filter_app, app_length. reflexivity. Qed.
Lemma n_reset_app id a b : n_reset id (a ++ b) = (n_reset id a + n_reset id b)%nat.
Proof. unfold n_reset. rewrite filter_app, app_length. reflexivity. Qed.
Lemma zero_new_app id a b : zero_new id (a ++ b) = (zero_new id a + zero_new id b)%nat.
Proof. unfold zero_new. rewrite q_evs_app, cnt_app. reflexivity. Qed.
Lemma old_zero_app id a b : old_zero id (a ++ b) = (old_zero id a + old_zero id b)%nat.
Proof. unfold old_zero. rewrite q_evs_app, cnt_app. reflexivity. Qed.
Lemma reach_zero_app id a b : reach_zero id (a ++ b) = (reach_zero id a + reach_zero id b)%nat.
Proof. unfold reach_zero. rewrite q_evs_app, cnt_app. reflexivity. Qed.
Lemma leave_zero_app id a b : leave_zero id (a ++ b) = (leave_zero id a + leave_zero id b)%nat.
Proof. unfold leave_zero. rewrite q_evs_app, cnt_app. reflexivity. Qed.

Lemma cnt_le (p p' : float * float -> bool) l :
  (forall x, p x = true -> p' x = true) -> (cnt p l <= cnt p' l)%nat.
Proof.
  intros H. unfold cnt. induction l as [|x r IH]; cbn [filter length]; [lia|].
  destruct (p x) eqn:E.
  - rewrite (H x E). cbn [length]. lia.
  - destruct (p' x); cbn [length]; lia.
Qed.

Lemma reach_le_zero_new id evs : (reach_zero id evs <= zero_new id evs)%nat.
Proof.
  apply cnt_le. intros x H. apply andb_true_iff in H. apply H.
Qed.

(* what holds of every piece of execution: a break per StanceChange that ends at zero, a reset
   (at least) for every StanceChange that leaves zero *)
Definition announced (evs : list ev) : Prop :=
  forall id, n_break id evs = zero_new id evs /\ (leave_zero id evs <= n_reset id evs)%nat.
(* with strict StanceChange events: exactly *)
Definition announced_exactly (evs : list ev) : Prop :=
  forall id, n_break id evs = reach_zero id evs /\ n_reset id evs = leave_zero id evs.

Lemma announced_nil : announced [].
Proof. intros id. split; [reflexivity | apply Nat.le_refl]. Qed.

Lemma announced_app a b : announced a -> announced b -> announced (a ++ b).
Proof.
  intros Ha Hb id. destruct (Ha id) as [A1 A2]. destruct (Hb id) as [B1 B2].
  rewrite n_break_app, n_reset_app, zero_new_app, leave_zero_app. lia.
Qed.

(* for strict events "ends at zero" is "reaches zero from a positive value" and "starts at zero"
   is "leaves zero" *)
Lemma strict_counts id evs : stance_strict evs ->
  zero_new id evs = reach_zero id evs /\ old_zero id evs = leave_zero id evs.
Proof.
  intros H. induction H as [|e r He Hr IH]; [split; reflexivity|].
  change (e :: r) with ([e] ++ r).
  rewrite zero_new_app, reach_zero_app, old_zero_app, leave_zero_app.
  destruct IH as [I1 I2]. rewrite I1, I2.
  assert (zero_new id [e] = reach_zero id [e] /\ old_zero id [e] = leave_zero id [e]) as [E1 E2];
    [|rewrite E1, E2; split; reflexivity].
  unfold zero_new, reach_zero, old_zero, leave_zero, q_evs. cbn [flat_map app].
  destruct e; cbn [q_ev]; try (split; reflexivity).
  rewrite app_nil_r.
  destruct (target =? id); [|split; reflexivity].
  cbn [stance_strict_ev] in He. destruct He as (Ne & Ho & Hn).
  unfold cnt. cbn [filter fst snd].
  split.
  - destruct (eqb newS 0) eqn:En; [|rewrite andb_false_r; reflexivity].
    assert (Eo : eqb oldS 0 = false).
    { destruct (eqb oldS 0) eqn:X; [|reflexivity].
      rewrite <- Ne. symmetry. apply (eqb_trans_any oldS 0 newS); [exact X | rewrite eqb_sym; exact En]. }
    rewrite (pos_of_nonneg_nonzero _ Ho Eo). reflexivity.
  - destruct (eqb oldS 0) eqn:Eo; [|reflexivity].
    assert (En : eqb newS 0 = false).
    { destruct (eqb newS 0) eqn:X; [|reflexivity].
      rewrite <- Ne. symmetry. apply (eqb_trans_any oldS 0 newS); [exact Eo | rewrite eqb_sym; exact X]. }
    rewrite (pos_of_nonneg_nonzero _ Hn En). reflexivity.
Qed.

(* ------------------------------------------------------------------------------------ *)
(* The unit table under pointer writes                                                   *)
(* ------------------------------------------------------------------------------------ *)

Lemma set_unit_set_unit t a b us : set_unit t b (set_unit t a us) = set_unit t b us.
Proof.
  induction us as [|[k v] r IH]; cbn [set_unit]; [reflexivity|].
  destruct (k =? t) eqn:E; cbn [set_unit]; rewrite E; [reflexivity | rewrite IH; reflexivity].
Qed.

Lemma upd_unit_find s t f id :
  find_unit id (units (upd_unit s t f)) =
  if id =? t then option_map f (find_unit t (units s)) else find_unit id (units s).
Proof.
  unfold upd_unit. destruct (find_unit t (units s)) as [u|] eqn:E; cbn [units option_map].
  - rewrite find_set_unit, E. reflexivity.
  - destruct (Z.eqb_spec id t) as [->|]; [exact E | reflexivity].
Qed.

Lemma upd_unit_sp s t f : sp (upd_unit s t f) = sp s.
Proof. unfold upd_unit. destruct (find_unit t (units s)); reflexivity. Qed.

Lemma upd_unit_twice s t f g : upd_unit (upd_unit s t f) t g = upd_unit s t (fun u => g (f u)).
Proof.
  unfold upd_unit at 1. rewrite upd_unit_find, Z.eqb_refl, upd_unit_sp.
  unfold upd_unit. destruct (find_unit t (units s)) as [u|] eqn:E; cbn [option_map units sp].
  - rewrite set_unit_set_unit. reflexivity.
  - reflexivity.
Qed.

Lemma snapshot_upd s t f u :
  find_unit t (units s) = Some u ->
  snapshot (upd_unit s t f) t =
  mkSnap (u_hp (f u)) (u_energy (f u)) (u_maxEnergy (f u)) (u_stance (f u)) (u_maxStance (f u))
         (u_state (f u)) (u_last (f u)) (sp s).
Proof.
  intros E. unfold snapshot. rewrite upd_unit_find, Z.eqb_refl, E, upd_unit_sp. reflexivity.
Qed.

Lemma snapshot_ok s id : state_ok s -> snap_ok (snapshot s id).
Proof.
  intros Hs. unfold snapshot, snap_ok.
  destruct (find_unit id (units s)) as [u|] eqn:E; cbn [g_sp g_state g_hp g_energy g_maxEnergy g_stance g_maxStance].
  - split; [apply Hs|]. intros _.
    destruct (state_unit_ok _ _ _ Hs E) as (A1 & A2 & A3 & A4 & _ & _ & A6 & A7 & _ & _). auto 10.
  - split; [apply Hs|]. intros H. contradiction H. reflexivity.
Qed.

(* ------------------------------------------------------------------------------------ *)
(* A piece of execution from s to s' that recorded evs                                   *)
(* ------------------------------------------------------------------------------------ *)

(* registered units stay registered with the same maxima; no unit appears *)
Definition stable (s s' : state) : Prop :=
  forall id, match find_unit id (units s) with
             | Some u => exists u', find_unit id (units s') = Some u' /\
                                    u_maxEnergy u' = u_maxEnergy u /\ u_maxStance u' = u_maxStance u
             | None => find_unit id (units s') = None
             end.

Definition seg (s s' : state) (evs : list ev) : Prop :=
  state_ok s' /\ stable s s' /\
  (* per unit and quantity the recorded change events lead from the value before to the value after *)
  (forall id u u', find_unit id (units s) = Some u -> find_unit id (units s') = Some u' ->
     forall q, link (qval q u) (q_evs q id evs) (qval q u')) /\
  (forall id, find_unit id (units s) = None -> forall q, q_evs q id evs = []) /\
  sp_link (sp s) (sp_evs evs) (sp s') /\
  (* every event is followed by the getters' values at that moment: in range, and the event's new value *)
  seen_ok evs /\
  (* HPChange, EnergyChange, SPChange report changes *)
  genuine evs.

Lemma stable_refl s : stable s s.
Proof. intros id. destruct (find_unit id (units s)) as [u|]; [exists u; auto | reflexivity]. Qed.

Lemma stable_trans s s1 s2 : stable s s1 -> stable s1 s2 -> stable s s2.
Proof.
  intros H1 H2 id. specialize (H1 id). specialize (H2 id).
  destruct (find_unit id (units s)) as [u|].
  - destruct H1 as (u1 & E1 & A1 & B1). rewrite E1 in H2. destruct H2 as (u2 & E2 & A2 & B2).
    exists u2. repeat split; congruence.
  - rewrite H1 in H2. exact H2.
Qed.

Lemma seg_refl s : state_ok s -> seg s s [].
Proof.
  intros Hs. split; [exact Hs|]. split; [apply stable_refl|]. repeat split.
  - intros id u u' E E' q. rewrite E in E'. inversion E'; subst u'. cbn [q_evs flat_map link].
    apply eqb_refl. apply unit_nn. eapply state_unit_ok; eauto.
  - constructor.
Qed.

Lemma seg_trans s s1 s2 e1 e2 : seg s s1 e1 -> seg s1 s2 e2 -> seg s s2 (e1 ++ e2).
Proof.
  intros (O1 & S1 & K1 & N1 & P1 & V1 & G1) (O2 & S2 & K2 & N2 & P2 & V2 & G2).
  split; [exact O2|]. split; [eapply stable_trans; eauto|]. repeat split.
  - intros id u u2 E E2 q. rewrite q_evs_app.
    pose proof (S1 id) as X. rewrite E in X. destruct X as (u1 & E1 & _).
    eapply link_app; [eapply K1; eauto | eapply K2; eauto].
  - intros id E q. rewrite q_evs_app, (N1 id E q). cbn [app]. apply N2.
    pose proof (S1 id) as X. rewrite E in X. exact X.
  - rewrite sp_evs_app. eapply sp_link_app; eauto.
  - apply seen_app; assumption.
  - apply Forall_app. split; assumption.
Qed.

(* a pointer write to one unit together with the events that report it *)
Lemma seg_upd s t f u evs :
  state_ok s -> find_unit t (units s) = Some u ->
  unit_ok (f u) -> u_maxEnergy (f u) = u_maxEnergy u -> u_maxStance (f u) = u_maxStance u ->
  (forall q, link (qval q u) (q_evs q t evs) (qval q (f u))) ->
  (forall id q, id <> t -> q_evs q id evs = []) ->
  sp_evs evs = [] -> seen_ok evs -> genuine evs ->
  seg s (upd_unit s t f) evs.
Proof.
  intros Hs Eu Ok Me Ms Lk Oth Sp Sn Gn.
  split.
  { destruct Hs as [Hus Hsp]. unfold upd_unit. rewrite Eu. split; [|exact Hsp].
    cbn [units]. apply set_unit_ok; assumption. }
  split.
  { intros id. rewrite upd_unit_find. destruct (Z.eqb_spec id t) as [->|Hid].
    - rewrite Eu. cbn [option_map]. exists (f u). auto.
    - destruct (find_unit id (units s)) as [v|]; [exists v; auto | reflexivity]. }
  repeat split.
  - intros id v v' Ev Ev' q. rewrite upd_unit_find in Ev'. destruct (Z.eqb_spec id t) as [->|Hid].
    + rewrite Eu in Ev, Ev'. cbn [option_map] in Ev'. inversion Ev; inversion Ev'; subst. apply Lk.
    + rewrite Ev in Ev'. inversion Ev'; subst v'. rewrite (Oth id q Hid). cbn [link].
      apply eqb_refl, unit_nn. eapply state_unit_ok; eauto.
  - intros id En q. apply Oth. intros ->. congruence.
  - rewrite Sp, upd_unit_sp. reflexivity.
  - exact Sn.
  - exact Gn.
Qed.

(* a write that changes no reported quantity (life state, last attacker) *)
Lemma seg_quiet s t f :
  state_ok s ->
  (forall u, u_hp (f u) = u_hp u /\ u_energy (f u) = u_energy u /\ u_maxEnergy (f u) = u_maxEnergy u /\
             u_stance (f u) = u_stance u /\ u_maxStance (f u) = u_maxStance u) ->
  seg s (upd_unit s t f) [].
Proof.
  intros Hs Hf. destruct (find_unit t (units s)) as [u|] eqn:Eu.
  - destruct (Hf u) as (A & B & C & D & E).
    pose proof (state_unit_ok _ _ _ Hs Eu) as Ou.
    apply (seg_upd s t f u); auto.
    + unfold unit_ok in *. rewrite A, B, C, D, E. exact Ou.
    + intros q. cbn [q_evs flat_map link]. destruct q; cbn [qval]; rewrite ?A, ?B, ?D;
        apply eqb_refl; [apply (unit_nn u QHP Ou) | apply (unit_nn u QEnergy Ou) | apply (unit_nn u QStance Ou)].
    + reflexivity.
    + constructor.
  - unfold upd_unit. rewrite Eu. apply seg_refl, Hs.
Qed.

(* an event that reports no quantity (StanceBreak, StanceReset, LimboWaitHeal) and its reading *)
Lemma seg_note s e id :
  state_ok s -> is_service_event e ->
  (forall q i, q_ev q i e = []) -> sp_ev e = [] -> agrees e (snapshot s id) -> genuine_ev e ->
  seg s s [e; ESeen (snapshot s id)].
Proof.
  intros Hs Se Q Sp Ag Gn.
  split; [exact Hs|]. split; [apply stable_refl|]. repeat split.
  - intros i u u' E E' q. rewrite E in E'. inversion E'; subst u'.
    unfold q_evs. cbn [flat_map]. rewrite Q. cbn [q_ev app link].
    destruct q; apply eqb_refl; [apply (unit_nn u QHP) | apply (unit_nn u QEnergy) | apply (unit_nn u QStance)];
      eapply state_unit_ok; eauto.
  - intros i E q. unfold q_evs. cbn [flat_map]. rewrite Q. destruct q; reflexivity.
  - unfold sp_evs. cbn [flat_map]. rewrite Sp. reflexivity.
  - apply seen_pair; auto; [apply snapshot_ok, Hs | reflexivity].
  - repeat constructor. exact Gn.
Qed.

(* ------------------------------------------------------------------------------------ *)
(* What every piece of execution guarantees, listeners included                          *)
(* ------------------------------------------------------------------------------------ *)

Definition exact_resets (evs : list ev) : Prop := forall id, n_reset id evs = old_zero id evs.

Definition post (L : lsn) (s s' : state) (L' : lsn) (evs : list ev) : Prop :=
  lsn_ok L' /\ seg s s' evs /\ announced evs /\
  (* when no listener reacts to StanceBreak / StanceReset: StanceChange reports changes, resets exactly *)
  (nobr L -> nobr L' /\ stance_strict evs /\ exact_resets evs).

(* the contract of the runner of nested listener scripts *)
Definition rspec (rs : runner) : Prop :=
  (forall s L, rs s L [] = Some (s, L, [])) /\
  forall s L sc s' L' evs, state_ok s -> lsn_ok L -> script_ok sc ->
    rs s L sc = Some (s', L', evs) -> post L s s' L' evs.

Definition plain_ev (e : ev) : Prop :=
  match e with EStance _ _ _ _ _ | EBreak _ _ _ | EReset _ _ => False | _ => True end.

Lemma exact_resets_app a b : exact_resets a -> exact_resets b -> exact_resets (a ++ b).
Proof. intros Ha Hb id. rewrite n_reset_app, old_zero_app, (Ha id), (Hb id). reflexivity. Qed.

Lemma plain_facts evs : Forall plain_ev evs -> announced evs /\ stance_strict evs /\ exact_resets evs.
Proof.
  intros H. induction H as [|e r He Hr (I1 & I2 & I3)].
  - split; [apply announced_nil|]. split; [constructor | intros id; reflexivity].
  - change (e :: r) with ([e] ++ r).
    assert (announced [e] /\ stance_strict [e] /\ exact_resets [e]) as (A1 & A2 & A3).
    { destruct e; try contradiction; (split; [intros id; split; [reflexivity | apply Nat.le_refl]|]);
        (split; [repeat constructor | intros id; reflexivity]). }
    split; [apply announced_app; assumption|]. split; [apply Forall_app; split; assumption|].
    apply exact_resets_app; assumption.
Qed.

Lemma post_atomic L s s' evs : lsn_ok L -> seg s s' evs -> Forall plain_ev evs -> post L s s' L evs.
Proof.
  intros HL Hseg Hp. destruct (plain_facts evs Hp) as (A & B & C).
  split; [exact HL|]. split; [exact Hseg|]. split; [exact A|]. intros N. auto.
Qed.

Lemma post_refl L s : lsn_ok L -> state_ok s -> post L s s L [].
Proof. intros HL Hs. apply post_atomic; [exact HL | apply seg_refl, Hs | constructor]. Qed.

Lemma post_trans L s s1 L1 e1 s2 L2 e2 evs :
  post L s s1 L1 e1 -> post L1 s1 s2 L2 e2 -> evs = e1 ++ e2 -> post L s s2 L2 evs.
Proof.
  intros (O1 & S1 & A1 & N1) (O2 & S2 & A2 & N2) ->.
  split; [exact O2|]. split; [eapply seg_trans; eauto|]. split; [apply announced_app; assumption|].
  intros N. destruct (N1 N) as (M1 & T1 & R1). destruct (N2 M1) as (M2 & T2 & R2).
  split; [exact M2|]. split; [apply Forall_app; split; assumption | apply exact_resets_app; assumption].
Qed.

Lemma post_state_ok L s s' L' evs : post L s s' L' evs -> state_ok s' /\ lsn_ok L'.
Proof. intros (O & S & _). split; [apply S | exact O]. Qed.

Lemma emit_ev_inv rs s L sl e id s2 L2 evs :
  emit_ev rs s L sl e id = Some (s2, L2, evs) ->
  exists evs', evs = e :: ESeen (snapshot s id) :: evs' /\
    rs s (snd (pop_slot L sl)) (fst (pop_slot L sl)) = Some (s2, L2, evs').
Proof.
  unfold emit_ev. destruct (pop_slot L sl) as [sc L1]. cbn [fst snd].
  destruct (rs s L1 sc) as [[[a b] c]|]; intros H; inversion H; subst. eauto.
Qed.

(* the listeners of one emission *)
Lemma emit_ev_post rs s L sl e id s2 L2 evs :
  rspec rs -> state_ok s -> lsn_ok L ->
  emit_ev rs s L sl e id = Some (s2, L2, evs) ->
  exists evs', evs = e :: ESeen (snapshot s id) :: evs' /\ post L s s2 L2 evs' /\
    ((sl = LBreak \/ sl = LReset) -> nobr L -> s2 = s /\ evs' = []).
Proof.
  intros [R0 R] Hs HL H. destruct (emit_ev_inv _ _ _ _ _ _ _ _ _ H) as (evs' & -> & E).
  exists evs'. split; [reflexivity|].
  destruct (pop_slot_ok L sl HL) as [Hsc HL1].
  pose proof (R _ _ _ _ _ _ Hs HL1 Hsc E) as (O & S & A & N).
  split.
  - split; [exact O|]. split; [exact S|]. split; [exact A|]. intros NL. apply N, pop_slot_nobr, NL.
  - intros Hsl NL. rewrite (pop_slot_nobr_script L sl NL Hsl), R0 in E. inversion E; subst. auto.
Qed.

(* ------------------------------------------------------------------------------------ *)
(* The three HP mutators                                                                 *)
(* ------------------------------------------------------------------------------------ *)

Ltac list_eq := cbn [app]; rewrite ?app_nil_r, <- ?app_assoc; cbn [app]; reflexivity.

Lemma set_state_quiet st : forall u,
  u_hp (set_state u st) = u_hp u /\ u_energy (set_state u st) = u_energy u /\
  u_maxEnergy (set_state u st) = u_maxEnergy u /\ u_stance (set_state u st) = u_stance u /\
  u_maxStance (set_state u st) = u_maxStance u.
Proof. intros u. repeat split. Qed.

Lemma r_do_hp_post rs s L c u newR dmg s' L' evs :
  rspec rs -> state_ok s -> lsn_ok L -> find_unit (c_target c) (units s) = Some u ->
  leb 0 newR = true -> leb newR 1 = true ->
  r_do_hp rs s L c u newR dmg = Some (s', L', evs) -> post L s s' L' evs.
Proof.
  intros HR Hs HL Eu H0 H1.
  pose proof (state_unit_ok _ _ _ Hs Eu) as Ou.
  pose proof Ou as (A1 & A2 & A3 & A4 & Hme & A5 & A6 & A7 & Hms & A8).
  destruct (unit_finite u Ou) as (Fh & Fe & Fs).
  set (t := c_target c) in *.
  unfold r_do_hp, r_emit_hp. fold t.
  destruct (eqb (u_hp u) newR) eqn:E.
  - (* the ratio is stored, nothing is reported *)
    intros H; injection H as <- <- <-.
    apply post_atomic; [exact HL | | constructor].
    apply (seg_upd s t (fun u' => set_hp u' newR) u); auto.
    + unfold unit_ok; cbn. repeat split; auto.
    + intros q. cbn [q_evs flat_map link]. destruct q; cbn [qval set_hp u_hp u_energy u_stance];
        [exact E | apply eqb_refl, finite_nn, Fe | apply eqb_refl, finite_nn, Fs].
    + reflexivity.
    + constructor.
  - (* stored, lastAttacker, HPChange and its listeners, then the life state *)
    set (F := fun u' : unit_ => if dmg then set_last (set_hp u' newR) (c_source c) else set_hp u' newR).
    set (s1 := if dmg then upd_unit (upd_unit s t (fun u' => set_hp u' newR)) t (fun u0 => set_last u0 (c_source c))
               else upd_unit s t (fun u' => set_hp u' newR)).
    assert (Es1 : s1 = upd_unit s t F).
    { unfold s1, F. destruct dmg; [apply upd_unit_twice | reflexivity]. }
    rewrite Es1.
    set (E0 := EHP (c_key c) t (u_hp u) newR (e_maxHP (c_env c) * u_hp u) (e_maxHP (c_env c) * newR) dmg).
    assert (Hq : u_hp (F u) = newR /\ u_energy (F u) = u_energy u /\ u_maxEnergy (F u) = u_maxEnergy u /\
                 u_stance (F u) = u_stance u /\ u_maxStance (F u) = u_maxStance u).
    { unfold F. destruct dmg; repeat split. }
    destruct Hq as (Q1 & Q2 & Q3 & Q4 & Q5).
    assert (Seg1 : seg s (upd_unit s t F) [E0; ESeen (snapshot (upd_unit s t F) t)]).
    { apply (seg_upd s t F u); auto.
      - unfold unit_ok. rewrite Q1, Q2, Q3, Q4, Q5. repeat split; auto.
      - intros q. unfold q_evs, E0. cbn [flat_map app].
        destruct q; cbn [q_ev qval app]; rewrite ?Z.eqb_refl, ?Q1, ?Q2, ?Q4; cbn [app link].
        + split; apply eqb_refl; [apply finite_nn, Fh | apply (proj2 (leb_nn _ _ H0))].
        + apply eqb_refl, finite_nn, Fe.
        + apply eqb_refl, finite_nn, Fs.
      - intros id q Hid. unfold q_evs, E0. cbn [flat_map app].
        destruct q; cbn [q_ev app]; rewrite ?(neqb_other _ _ Hid); reflexivity.
      - apply seen_pair; [exact I | | apply snapshot_ok | reflexivity].
        + rewrite (snapshot_upd s t F u Eu). cbn [agrees E0 g_hp]. exact Q1.
        + destruct Hs as [Hus Hsp]. unfold upd_unit. rewrite Eu. split; [|exact Hsp]. cbn [units].
          apply set_unit_ok; auto. unfold unit_ok. rewrite Q1, Q2, Q3, Q4, Q5. repeat split; auto.
      - repeat constructor. exact E. }
    assert (P1 : post L s (upd_unit s t F) L [E0; ESeen (snapshot (upd_unit s t F) t)]).
    { apply post_atomic; [exact HL | exact Seg1 | repeat constructor]. }
    destruct (emit_ev rs (upd_unit s t F) L LHP E0 t) as [[[s2 L2] evs2]|] eqn:Em; [|discriminate].
    destruct (emit_ev_post _ _ _ _ _ _ _ _ _ HR (proj1 Seg1) HL Em) as (evs2' & -> & P2 & _).
    destruct (post_state_ok _ _ _ _ _ P2) as [Hs2 HL2].
    assert (P12 : post L s s2 L2 (E0 :: ESeen (snapshot (upd_unit s t F) t) :: evs2')).
    { eapply post_trans; [exact P1 | exact P2 | list_eq]. }
    assert (Quiet : forall st, post L2 s2 (upd_unit s2 t (fun u0 => set_state u0 st)) L2 []).
    { intros st. apply post_atomic; [exact HL2 | apply seg_quiet; [exact Hs2 | apply set_state_quiet] | constructor]. }
    destruct (cur_state s2 t) eqn:Ecs.
    1,3,4:
      (destruct (ltb 0 newR);
       [ intros H; injection H as <- <- <-; eapply post_trans; [exact P12 | apply Quiet | list_eq]
       | destruct (emit_ev rs (upd_unit s2 t (fun u0 => set_state u0 Dead)) L2 LLimbo (ELimbo t) t)
           as [[[s4 L4] evs4]|] eqn:Em4; [|discriminate];
         pose proof (Quiet Dead) as P3;
         destruct (post_state_ok _ _ _ _ _ P3) as [Hs3 _];
         destruct (emit_ev_post _ _ _ _ _ _ _ _ _ HR Hs3 HL2 Em4) as (evs4' & -> & P4 & _);
         destruct (post_state_ok _ _ _ _ _ P4) as [Hs4 HL4];
         assert (PL : post L2 (upd_unit s2 t (fun u0 => set_state u0 Dead)) (upd_unit s2 t (fun u0 => set_state u0 Dead)) L2
                        [ELimbo t; ESeen (snapshot (upd_unit s2 t (fun u0 => set_state u0 Dead)) t)])
           by (apply post_atomic; [exact HL2 | apply seg_note; auto; try exact I; intros q i; destruct q; reflexivity
                                  | repeat constructor]);
         intros H; injection H as <- <- <-;
         assert (P5 : post L4 s4 (if c_limbo c then upd_unit s4 t (fun u0 => set_state u0 Limbo) else s4) L4 [])
           by (destruct (c_limbo c);
               [apply post_atomic; [exact HL4 | apply seg_quiet; [exact Hs4 | apply set_state_quiet] | constructor]
               | apply post_refl; assumption]);
         eapply post_trans; [exact P12 | | reflexivity];
         eapply post_trans; [exact P3 | | reflexivity];
         eapply post_trans; [exact PL | | reflexivity];
         eapply post_trans; [exact P4 | exact P5 | list_eq] ]).
    (* Dead: death is final *)
    intros H; injection H as <- <- <-. exact P12.
Qed.

(* ------------------------------------------------------------------------------------ *)
(* SetEnergy and the two ModifyEnergy                                                    *)
(* ------------------------------------------------------------------------------------ *)
Lemma r_do_energy_post rs s L c u amount s' L' evs :
  rspec rs -> state_ok s -> lsn_ok L -> find_unit (c_target c) (units s) = Some u -> nn amount ->
  r_do_energy rs s L c u amount = Some (s', L', evs) -> post L s s' L' evs.
Proof.
  intros HR Hs HL Eu Na.
  pose proof (state_unit_ok _ _ _ Hs Eu) as Ou.
  pose proof Ou as (A1 & A2 & A3 & A4 & Hme & A5 & A6 & A7 & Hms & A8).
  destruct (unit_finite u Ou) as (Fh & Fe & Fs).
  destruct (clampTo_range (u_maxEnergy u) amount Na Hme) as [R0 R1].
  set (t := c_target c) in *.
  unfold r_do_energy. fold t.
  set (a := clampTo (u_maxEnergy u) amount) in *.
  set (F := fun u' : unit_ => set_energy u' a).
  assert (OkF : unit_ok (F u)) by (unfold unit_ok, F; cbn [set_energy u_hp u_energy u_maxEnergy u_stance u_maxStance]; repeat split; auto).
  destruct (eqb (u_energy u) a) eqn:E.
  - intros H; injection H as <- <- <-.
    apply post_atomic; [exact HL | | constructor].
    apply (seg_upd s t F u); auto.
    + intros q. cbn [q_evs flat_map link]. destruct q; cbn [qval F set_energy u_hp u_energy u_stance];
        [apply eqb_refl, finite_nn, Fh | exact E | apply eqb_refl, finite_nn, Fs].
    + reflexivity.
    + constructor.
  - set (E0 := EEnergy (c_key c) t (c_source c) (u_energy u) a).
    assert (Seg1 : seg s (upd_unit s t F) [E0; ESeen (snapshot (upd_unit s t F) t)]).
    { apply (seg_upd s t F u); auto.
      - intros q. unfold q_evs, E0. cbn [flat_map app].
        destruct q; cbn [q_ev qval app F set_energy u_hp u_energy u_stance]; rewrite ?Z.eqb_refl; cbn [app link].
        + apply eqb_refl, finite_nn, Fh.
        + split; apply eqb_refl; [apply finite_nn, Fe | apply (proj2 (leb_nn _ _ R0))].
        + apply eqb_refl, finite_nn, Fs.
      - intros id q Hid. unfold q_evs, E0. cbn [flat_map app].
        destruct q; cbn [q_ev app]; rewrite ?(neqb_other _ _ Hid); reflexivity.
      - apply seen_pair; [exact I | | apply snapshot_ok | reflexivity].
        + rewrite (snapshot_upd s t F u Eu). reflexivity.
        + destruct Hs as [Hus Hsp]. unfold upd_unit. rewrite Eu. split; [|exact Hsp]. cbn [units].
          apply set_unit_ok; auto.
      - repeat constructor. exact E. }
    intros Em.
    destruct (emit_ev_post _ _ _ _ _ _ _ _ _ HR (proj1 Seg1) HL Em) as (evs2 & -> & P2 & _).
    assert (P1 : post L s (upd_unit s t F) L [E0; ESeen (snapshot (upd_unit s t F) t)])
      by (apply post_atomic; [exact HL | exact Seg1 | repeat constructor]).
    eapply post_trans; [exact P1 | exact P2 | list_eq].
Qed.

(* ------------------------------------------------------------------------------------ *)
(* ModifySP                                                                              *)
(* ------------------------------------------------------------------------------------ *)
Lemma seg_sp s n key source :
  state_ok s -> 0 <= n <= 5 -> sp s <> n ->
  seg s (mkSt (units s) n) [ESP key source (sp s) n; ESeen (snapshot (mkSt (units s) n) source)].
Proof.
  intros Hs Hn Hne.
  assert (Ok1 : state_ok (mkSt (units s) n)) by (split; [apply Hs | exact Hn]).
  split; [exact Ok1|]. split; [|split; [|split; [|split; [|split]]]].
  - intros id. cbn [units]. destruct (find_unit id (units s)) as [u|]; [exists u; auto | reflexivity].
  - intros id u u' Eu Eu' q. cbn [units] in Eu'. rewrite Eu in Eu'. inversion Eu'; subst u'.
    assert (Z : q_evs q id [ESP key source (sp s) n; ESeen (snapshot (mkSt (units s) n) source)] = [])
      by (destruct q; reflexivity).
    rewrite Z. cbn [link]. apply eqb_refl, unit_nn. eapply state_unit_ok; eauto.
  - intros id _ q. destruct q; reflexivity.
  - cbn. auto.
  - apply seen_pair; [exact I | | apply snapshot_ok, Ok1 | reflexivity].
    unfold snapshot. cbn [units sp]. destruct (find_unit source (units s)); reflexivity.
  - repeat constructor. exact Hne.
Qed.

(* ------------------------------------------------------------------------------------ *)
(* SetStance and ModifyStance                                                            *)
(* ------------------------------------------------------------------------------------ *)
Lemma counts_break k t src g id :
  n_break id [EBreak k t src; ESeen g] = b2n (t =? id) /\ n_reset id [EBreak k t src; ESeen g] = 0%nat /\
  zero_new id [EBreak k t src; ESeen g] = 0%nat /\ old_zero id [EBreak k t src; ESeen g] = 0%nat /\
  leave_zero id [EBreak k t src; ESeen g] = 0%nat.
Proof.
  unfold n_break, n_reset, zero_new, old_zero, leave_zero, q_evs, cnt.
  cbn [filter is_break is_reset flat_map q_ev app]. destruct (t =? id); repeat split.
Qed.

Lemma counts_reset k t g id :
  n_break id [EReset k t; ESeen g] = 0%nat /\ n_reset id [EReset k t; ESeen g] = b2n (t =? id) /\
  zero_new id [EReset k t; ESeen g] = 0%nat /\ old_zero id [EReset k t; ESeen g] = 0%nat /\
  leave_zero id [EReset k t; ESeen g] = 0%nat.
Proof.
  unfold n_break, n_reset, zero_new, old_zero, leave_zero, q_evs, cnt.
  cbn [filter is_break is_reset flat_map q_ev app]. destruct (t =? id); repeat split.
Qed.

Lemma counts_stance k t src o n g id :
  n_break id [EStance k t src o n; ESeen g] = 0%nat /\ n_reset id [EStance k t src o n; ESeen g] = 0%nat /\
  zero_new id [EStance k t src o n; ESeen g] = b2n ((t =? id) && eqb n 0) /\
  old_zero id [EStance k t src o n; ESeen g] = b2n ((t =? id) && eqb o 0) /\
  leave_zero id [EStance k t src o n; ESeen g] = b2n ((t =? id) && (eqb o 0 && ltb 0 n)).
Proof.
  unfold n_break, n_reset, zero_new, old_zero, leave_zero, q_evs, cnt.
  cbn [filter is_break is_reset flat_map q_ev app]. destruct (t =? id); cbn [app filter fst snd andb].
  - repeat split; [destruct (eqb n 0) | destruct (eqb o 0) | destruct (eqb o 0 && ltb 0 n)]; reflexivity.
  - repeat split.
Qed.

Lemma cur_stance_found s t u : find_unit t (units s) = Some u -> cur_stance s t = u_stance u.
Proof. intros E. unfold cur_stance. rewrite E. reflexivity. Qed.

(* the store of the new stance and the StanceChange that reports it, with its listeners *)
Lemma stance_store rs s1 L1 (k t src : Z) a u1 s3 L3 evs :
  rspec rs -> state_ok s1 -> lsn_ok L1 -> find_unit t (units s1) = Some u1 ->
  leb 0 a = true -> leb a (u_maxStance u1) = true ->
  emit_ev rs (upd_unit s1 t (fun u' => set_stance u' a)) L1 LStance (EStance k t src (cur_stance s1 t) a) t
    = Some (s3, L3, evs) ->
  exists g evs', evs = EStance k t src (u_stance u1) a :: ESeen g :: evs' /\
    seg s1 (upd_unit s1 t (fun u' => set_stance u' a)) [EStance k t src (u_stance u1) a; ESeen g] /\
    post L1 (upd_unit s1 t (fun u' => set_stance u' a)) s3 L3 evs'.
Proof.
  intros HR Hs HL Eu R0 R1 Em.
  pose proof (state_unit_ok _ _ _ Hs Eu) as Ou.
  pose proof Ou as (A1 & A2 & A3 & A4 & Hme & A5 & A6 & A7 & Hms & A8).
  destruct (unit_finite u1 Ou) as (Fh & Fe & Fs).
  rewrite (cur_stance_found _ _ _ Eu) in Em.
  set (F := fun u' : unit_ => set_stance u' a) in *.
  set (E0 := EStance k t src (u_stance u1) a) in *.
  assert (OkF : unit_ok (F u1))
    by (unfold unit_ok, F; cbn [set_stance u_hp u_energy u_maxEnergy u_stance u_maxStance]; repeat split; auto).
  assert (Seg1 : seg s1 (upd_unit s1 t F) [E0; ESeen (snapshot (upd_unit s1 t F) t)]).
  { apply (seg_upd s1 t F u1); auto.
    - intros q. unfold q_evs, E0. cbn [flat_map app].
      destruct q; cbn [q_ev qval app F set_stance u_hp u_energy u_stance]; rewrite ?Z.eqb_refl; cbn [app link].
      + apply eqb_refl, finite_nn, Fh.
      + apply eqb_refl, finite_nn, Fe.
      + split; apply eqb_refl; [apply finite_nn, Fs | apply (proj2 (leb_nn _ _ R0))].
    - intros id q Hid. unfold q_evs, E0. cbn [flat_map app].
      destruct q; cbn [q_ev app]; rewrite ?(neqb_other _ _ Hid); reflexivity.
    - apply seen_pair; [exact I | | apply snapshot_ok | reflexivity].
      + rewrite (snapshot_upd s1 t F u1 Eu). reflexivity.
      + destruct Hs as [Hus Hsp]. unfold upd_unit. rewrite Eu. split; [|exact Hsp]. cbn [units].
        apply set_unit_ok; auto.
    - repeat constructor. }
  destruct (emit_ev_post _ _ _ _ _ _ _ _ _ HR (proj1 Seg1) HL Em) as (evs2 & -> & P2 & _).
  exists (snapshot (upd_unit s1 t F) t), evs2. split; [reflexivity|]. split; [exact Seg1 | exact P2].
Qed.

Lemma b2n_le1 b : (b2n b <= 1)%nat.
Proof. destruct b; cbn; lia. Qed.

(* SetStance after its guard: [hdr] is the announcement (StanceBreak / StanceReset and its reading, or
   nothing), [evsB] what its listeners did, then the store and the StanceChange *)
Lemma stance_tail rs s L c u a hdr s1 L1 evsB s' L' evs :
  rspec rs -> state_ok s -> find_unit (c_target c) (units s) = Some u ->
  leb 0 a = true -> leb a (u_maxStance u) = true -> eqb (u_stance u) a = false ->
  seg s s hdr -> Forall stance_strict_ev hdr ->
  (forall id, n_break id hdr = b2n ((c_target c =? id) && eqb a 0) /\
              n_reset id hdr = b2n ((c_target c =? id) && (negb (eqb a 0) && eqb (u_stance u) 0)) /\
              zero_new id hdr = 0%nat /\ old_zero id hdr = 0%nat /\ leave_zero id hdr = 0%nat) ->
  post L s s1 L1 evsB ->
  ((nobr L \/ (eqb a 0 = false /\ eqb (u_stance u) 0 = false)) -> s1 = s /\ evsB = []) ->
  match emit_ev rs (upd_unit s1 (c_target c) (fun u' => set_stance u' a)) L1 LStance
          (EStance (c_key c) (c_target c) (c_source c) (cur_stance s1 (c_target c)) a) (c_target c) with
  | Some (s3, L3, evs0) => Some (s3, L3, (hdr ++ evsB) ++ evs0)
  | None => None
  end = Some (s', L', evs) -> post L s s' L' evs.
Proof.
  intros HR Hs Eu R0 R1 E SegH StrH Cnt PB Q.
  set (t := c_target c) in *.
  pose proof (state_unit_ok _ _ _ Hs Eu) as Ou.
  pose proof Ou as (A1 & A2 & A3 & A4 & Hme & A5 & A6 & A7 & Hms & A8).
  destruct (emit_ev rs (upd_unit s1 t (fun u' => set_stance u' a)) L1 LStance
              (EStance (c_key c) t (c_source c) (cur_stance s1 t) a) t) as [[[s3 L3] evs0]|] eqn:Em; [|discriminate].
  intros H; injection H as <- <- <-.
  destruct PB as (OB & SB & AB & CB).
  pose proof (proj1 SB) as Hs1.
  pose proof (proj1 (proj2 SB) t) as St. rewrite Eu in St. destruct St as (u1 & Eu1 & _ & Ms1).
  assert (R1' : leb a (u_maxStance u1) = true) by (rewrite Ms1; exact R1).
  destruct (stance_store _ _ _ _ _ _ _ _ _ _ _ HR Hs1 OB Eu1 R0 R1' Em) as (g & evsS & -> & SegT & PS).
  destruct PS as (OS & SS & AS & CS).
  set (ES := EStance (c_key c) t (c_source c) (u_stance u1) a) in *.
  (* the stance at the store is the stance at entry when no listener ran in between *)
  assert (Same : s1 = s -> u_stance u1 = u_stance u).
  { intros X. rewrite X in Eu1. rewrite Eu in Eu1. inversion Eu1. reflexivity. }
  assert (Shape : (hdr ++ evsB) ++ ES :: ESeen g :: evsS = hdr ++ evsB ++ [ES; ESeen g] ++ evsS) by list_eq.
  rewrite Shape.
  (* a stance at zero is not raised by a call whose target value is zero too *)
  assert (NotBoth : eqb a 0 = true -> eqb (u_stance u) 0 = false).
  { intros Ea0. destruct (eqb (u_stance u) 0) eqn:X; [|reflexivity].
    rewrite <- E. symmetry. apply (eqb_trans_any _ 0 _); [exact X | rewrite eqb_sym; exact Ea0]. }
  split; [exact OS|]. split; [|split].
  - eapply seg_trans; [exact SegH|]. eapply seg_trans; [exact SB|]. eapply seg_trans; [exact SegT | exact SS].
  - intros id.
    rewrite !n_break_app, !n_reset_app, !zero_new_app, !leave_zero_app.
    destruct (Cnt id) as (C1 & C2 & C3 & _ & C5).
    destruct (counts_stance (c_key c) t (c_source c) (u_stance u1) a g id) as (T1 & T2 & T3 & _ & T5).
    destruct (AB id) as [B1 B2]. destruct (AS id) as [S1 S2].
    unfold ES. rewrite C1, C2, C3, C5, T1, T2, T3, T5, B1, S1.
    split; [lia|].
    destruct (t =? id); cbn [andb b2n]; [|lia].
    destruct (eqb a 0) eqn:Ea0; cbn [negb andb b2n].
    + rewrite (eqb_zero_not_pos a Ea0), andb_false_r. cbn [b2n]. lia.
    + destruct (eqb (u_stance u) 0) eqn:Eu0; cbn [b2n].
      * pose proof (b2n_le1 (eqb (u_stance u1) 0 && ltb 0 a)). lia.
      * destruct (Q (or_intror (conj eq_refl eq_refl))) as [X _].
        rewrite (Same X), Eu0. cbn [andb b2n]. lia.
  - intros NL.
    destruct (CB NL) as (NL1 & StrB & RB). destruct (CS NL1) as (NL3 & StrS & RS).
    destruct (Q (or_introl NL)) as [X Y].
    split; [exact NL3|]. split.
    + apply Forall_app. split; [exact StrH|]. apply Forall_app. split; [exact StrB|].
      apply Forall_app. split; [|exact StrS].
      repeat constructor; cbn [stance_strict_ev ES].
      * rewrite (Same X). exact E.
      * rewrite (Same X). exact A6.
      * exact R0.
    + intros id.
      rewrite !n_reset_app, !old_zero_app.
      destruct (Cnt id) as (_ & C2 & _ & C4 & _).
      destruct (counts_stance (c_key c) t (c_source c) (u_stance u1) a g id) as (_ & T2 & _ & T4 & _).
      unfold ES. rewrite C2, C4, T2, T4, (RB id), (RS id), (Same X).
      destruct (t =? id); cbn [andb b2n]; [|lia].
      destruct (eqb a 0) eqn:Ea0; cbn [negb andb].
      * rewrite (NotBoth eq_refl). cbn [b2n]. lia.
      * lia.
Qed.

Lemma r_do_stance_post rs s L c u amount s' L' evs :
  rspec rs -> state_ok s -> lsn_ok L -> find_unit (c_target c) (units s) = Some u -> nn amount ->
  r_do_stance rs s L c u amount = Some (s', L', evs) -> post L s s' L' evs.
Proof.
  intros HR Hs HL Eu Na.
  pose proof (state_unit_ok _ _ _ Hs Eu) as Ou.
  pose proof Ou as (A1 & A2 & A3 & A4 & Hme & A5 & A6 & A7 & Hms & A8).
  destruct (clampTo_range (u_maxStance u) amount Na Hms) as [R0 R1].
  unfold r_do_stance.
  set (a := clampTo (u_maxStance u) amount) in *.
  destruct (eqb (u_stance u) a) eqn:E.
  { intros H; injection H as <- <- <-. apply post_refl; assumption. }
  destruct (eqb a 0) eqn:Ea0.
  - (* the stance is about to reach zero: StanceBreak first *)
    destruct (emit_ev rs s L LBreak (EBreak (c_key c) (c_target c) (c_source c)) (c_target c))
      as [[[s1 L1] pre]|] eqn:Em; [|discriminate].
    destruct (emit_ev_post _ _ _ _ _ _ _ _ _ HR Hs HL Em) as (evsB & -> & PB & QB).
    apply (stance_tail rs s L c u a [EBreak (c_key c) (c_target c) (c_source c); ESeen (snapshot s (c_target c))] s1 L1 evsB);
      auto.
    + apply seg_note; auto; try exact I. intros q i; destruct q; reflexivity.
    + repeat constructor.
    + intros id. destruct (counts_break (c_key c) (c_target c) (c_source c) (snapshot s (c_target c)) id) as (X1 & X2 & X3 & X4 & X5).
      rewrite X1, X2, X3, X4, X5, Ea0. cbn [negb andb]. rewrite !andb_true_r, andb_false_r. auto.
    + intros [NL | [X _]]; [apply QB; auto | congruence].
  - destruct (eqb (u_stance u) 0) eqn:Eu0.
    + (* the stance is about to leave zero: StanceReset first *)
      destruct (emit_ev rs s L LReset (EReset (c_key c) (c_target c)) (c_target c))
        as [[[s1 L1] pre]|] eqn:Em; [|discriminate].
      destruct (emit_ev_post _ _ _ _ _ _ _ _ _ HR Hs HL Em) as (evsB & -> & PB & QB).
      apply (stance_tail rs s L c u a [EReset (c_key c) (c_target c); ESeen (snapshot s (c_target c))] s1 L1 evsB);
        auto.
      * apply seg_note; auto; try exact I. intros q i; destruct q; reflexivity.
      * repeat constructor.
      * intros id. destruct (counts_reset (c_key c) (c_target c) (snapshot s (c_target c)) id) as (X1 & X2 & X3 & X4 & X5).
        rewrite X1, X2, X3, X4, X5, Ea0, Eu0. cbn [negb andb]. rewrite andb_true_r, andb_false_r. auto.
      * intros [NL | [_ X]]; [apply QB; auto | congruence].
    + (* neither: no listener runs before the store *)
      apply (stance_tail rs s L c u a [] s L []); auto.
      * apply seg_refl, Hs.
      * intros id. rewrite Ea0, Eu0. cbn [negb andb]. rewrite !andb_false_r. repeat split.
      * apply post_refl; assumption.
Qed.

(* ------------------------------------------------------------------------------------ *)
(* One call, a listener script, any nesting depth                                        *)
(* ------------------------------------------------------------------------------------ *)
Lemma r_on_target_post s L c f s' L' evs err :
  state_ok s -> lsn_ok L ->
  (forall u s' L' evs, find_unit (c_target c) (units s) = Some u -> f u = Some (s', L', evs) -> post L s s' L' evs) ->
  r_on_target s L c f = Some (s', L', evs, err) -> post L s s' L' evs.
Proof.
  intros Hs HL Hf. unfold r_on_target.
  destruct (find_unit (c_target c) (units s)) as [u|] eqn:Eu.
  - destruct (f u) as [[[a b] d]|] eqn:Ef; [|discriminate].
    intros H; injection H as <- <- <- _. eapply Hf; eauto.
  - intros H; injection H as <- <- <- _. apply post_refl; assumption.
Qed.

Lemma exec_op_post rs s L o s' L' evs err :
  rspec rs -> state_ok s -> lsn_ok L -> sop_ok o ->
  exec_op rs s L o = Some (s', L', evs, err) -> post L s s' L' evs.
Proof.
  intros HR Hs HL [Ho Hna]. destruct o; cbn [exec_op]; try contradiction.
  - (* SetHP *)
    destruct Ho as ((Fm & Pm & _ & _) & Fa).
    apply r_on_target_post; auto. intros u s2 L2 evs2 Eu.
    destruct (new_hp_set_range _ _ Fm Pm Fa). apply r_do_hp_post; auto.
  - (* ModifyHPByAmount *)
    destruct Ho as ((Fm & Pm & _ & _) & Fa).
    apply r_on_target_post; auto. intros u s2 L2 evs2 Eu.
    destruct (unit_finite u (state_unit_ok _ _ _ Hs Eu)) as (Fh & _ & _).
    destruct (new_hp_amount_range _ _ _ Fm Pm Fh Fa). apply r_do_hp_post; auto.
  - (* ModifyHPByRatio *)
    destruct Ho as ((Fm & Pm & _ & _) & Fr & Ff).
    destruct ((rtype =? 1) || (rtype =? 2)).
    + apply r_on_target_post; auto. intros u s2 L2 evs2 Eu.
      destruct (unit_finite u (state_unit_ok _ _ _ Hs Eu)) as (Fh & _ & _).
      destruct (new_hp_ratio_range _ _ _ rtype _ Fm Pm Fh Fr Ff). apply r_do_hp_post; auto.
    + intros H; injection H as <- <- <- _. apply post_refl; assumption.
  - (* SetStance *)
    destruct Ho as (_ & Fa).
    apply r_on_target_post; auto. intros u s2 L2 evs2 Eu. apply r_do_stance_post; auto. apply finite_nn, Fa.
  - (* ModifyStance *)
    destruct Ho as ((_ & _ & _ & Fb) & Fa).
    apply r_on_target_post; auto. intros u s2 L2 evs2 Eu.
    destruct (unit_finite u (state_unit_ok _ _ _ Hs Eu)) as (_ & _ & Fs).
    apply r_do_stance_post; auto. apply scaled_nn; auto.
  - (* SetEnergy *)
    destruct Ho as (_ & Fa).
    apply r_on_target_post; auto. intros u s2 L2 evs2 Eu. apply r_do_energy_post; auto. apply finite_nn, Fa.
  - (* ModifyEnergy *)
    destruct Ho as ((_ & _ & Fr & _) & Fa).
    apply r_on_target_post; auto. intros u s2 L2 evs2 Eu.
    destruct (unit_finite u (state_unit_ok _ _ _ Hs Eu)) as (_ & Fe & _).
    apply r_do_energy_post; auto. apply scaled_nn; auto.
  - (* ModifyEnergyFixed *)
    destruct Ho as (_ & Fa).
    apply r_on_target_post; auto. intros u s2 L2 evs2 Eu.
    destruct (unit_finite u (state_unit_ok _ _ _ Hs Eu)) as (_ & Fe & _).
    apply r_do_energy_post; auto. apply add_finite_nn; auto. apply finite_nn, Fa.
  - (* ModifySP *)
    pose proof (new_sp_range (sp s) amount) as Rn.
    destruct (Z.eqb_spec (sp s) (new_sp (sp s) amount)) as [Eq|Ne].
    + intros H; injection H as <- <- <- _. rewrite <- Eq.
      replace (mkSt (units s) (sp s)) with s by (destruct s; reflexivity).
      apply post_refl; assumption.
    + pose proof (seg_sp s _ key source Hs Rn Ne) as Seg1.
      destruct (emit_ev rs (mkSt (units s) (new_sp (sp s) amount)) L LSP (ESP key source (sp s) (new_sp (sp s) amount)) source)
        as [[[s2 L2] evs2]|] eqn:Em; [|discriminate].
      intros H; injection H as <- <- <- _.
      destruct (emit_ev_post _ _ _ _ _ _ _ _ _ HR (proj1 Seg1) HL Em) as (evs3 & -> & P2 & _).
      assert (P1 : post L s (mkSt (units s) (new_sp (sp s) amount)) L
                     [ESP key source (sp s) (new_sp (sp s) amount);
                      ESeen (snapshot (mkSt (units s) (new_sp (sp s) amount)) source)])
        by (apply post_atomic; [exact HL | exact Seg1 | repeat constructor]).
      eapply post_trans; [exact P1 | exact P2 | list_eq].
Qed.

Lemma seg_ret s err : state_ok s -> seg s s [ERet err].
Proof.
  intros Hs. split; [exact Hs|]. split; [apply stable_refl|]. split; [|split; [|split; [|split]]].
  - intros id u u' E E' q. rewrite E in E'. inversion E'; subst u'.
    assert (Z : q_evs q id [ERet err] = []) by (destruct q; reflexivity). rewrite Z. cbn [link].
    apply eqb_refl, unit_nn. eapply state_unit_ok; eauto.
  - intros id _ q. destruct q; reflexivity.
  - reflexivity.
  - reflexivity.
  - repeat constructor.
Qed.

Lemma exec_list_post rs : rspec rs ->
  forall sc s L s' L' evs, state_ok s -> lsn_ok L -> script_ok sc ->
    exec_list rs s L sc = Some (s', L', evs) -> post L s s' L' evs.
Proof.
  intros HR. induction sc as [|o r IH]; intros s L s' L' evs Hs HL Hsc; cbn [exec_list].
  - intros H; injection H as <- <- <-. apply post_refl; assumption.
  - inversion Hsc as [|? ? Ho Hr]; subst.
    destruct (exec_op rs s L o) as [[[[s1 L1] e1] err]|] eqn:E1; [|discriminate].
    destruct (exec_list rs s1 L1 r) as [[[s2 L2] e2]|] eqn:E2; [|discriminate].
    intros H; injection H as <- <- <-.
    pose proof (exec_op_post _ _ _ _ _ _ _ _ HR Hs HL Ho E1) as P1.
    destruct (post_state_ok _ _ _ _ _ P1) as [Hs1 HL1].
    pose proof (IH _ _ _ _ _ Hs1 HL1 Hr E2) as P2.
    eapply post_trans; [exact P1 | | reflexivity].
    eapply (post_trans L1 s1 s1 L1 [ERet err]); [|exact P2|reflexivity].
    apply post_atomic; [exact HL1 | apply seg_ret, Hs1 | repeat constructor].
Qed.

Theorem run_script_rspec fuel : rspec (run_script fuel).
Proof.
  induction fuel as [|f IH].
  - split; [reflexivity|]. intros s L sc s' L' evs Hs HL Hsc. destruct sc; cbn [run_script].
    + intros H; injection H as <- <- <-. apply post_refl; assumption.
    + discriminate.
  - split; [reflexivity|]. intros s L sc s' L' evs Hs HL Hsc. destruct sc as [|o r].
    + cbn [run_script]. intros H; injection H as <- <- <-. apply post_refl; assumption.
    + change (run_script (S f) s L (o :: r)) with (exec_list (run_script f) s L (o :: r)).
      apply exec_list_post; assumption.
Qed.

(* ------------------------------------------------------------------------------------ *)
(* Histories: top-level calls (units are registered here) with listener scripts          *)
(* ------------------------------------------------------------------------------------ *)
Definition revents (rs : list res) : list ev := flat_map r_evs rs.

(* a registered unit before and after: the events lead from the old value to the new one *)
Definition leads (s s' : state) (evs : list ev) : Prop :=
  forall id u, find_unit id (units s) = Some u ->
    exists u', find_unit id (units s') = Some u' /\ forall q, link (qval q u) (q_evs q id evs) (qval q u').

Lemma seg_leads s s' evs : seg s s' evs -> leads s s' evs.
Proof.
  intros (_ & St & K & _) id u Eu. pose proof (St id) as X. rewrite Eu in X.
  destruct X as (u' & Eu' & _). exists u'. split; [exact Eu' | intros q; eapply K; eauto].
Qed.

(* one top-level call, AddTarget included *)
Definition tstep (L : lsn) (s s' : state) (L' : lsn) (evs : list ev) : Prop :=
  lsn_ok L' /\ state_ok s' /\ leads s s' evs /\
  (forall id, find_unit id (units s) = None -> forall q, q_evs q id evs = []) /\
  sp_link (sp s) (sp_evs evs) (sp s') /\ seen_ok evs /\ genuine evs /\ announced evs /\
  (nobr L -> nobr L' /\ stance_strict evs /\ exact_resets evs).

Lemma post_tstep L s s' L' evs : post L s s' L' evs -> tstep L s s' L' evs.
Proof.
  intros (O & S & A & N). pose proof (seg_leads _ _ _ S) as Ld.
  destruct S as (Ok & St & K & Nn & Sp & Sn & Gn). unfold tstep. auto 12.
Qed.

Lemma rstep_tstep fuel s L o s' L' evs err :
  state_ok s -> lsn_ok L -> op_ok o ->
  rstep fuel s L o = Some (s', L', evs, err) -> tstep L s s' L' evs.
Proof.
  intros Hs HL Ho. unfold rstep.
  destruct o; try (intros H; apply post_tstep; eapply exec_op_post; eauto using run_script_rspec; split; [exact Ho | exact I]).
  (* AddTarget *)
  cbn [exec_op]. destruct (find_unit id (units s)) eqn:Eu; intros H; injection H as <- <- <- _.
  - apply post_tstep, post_refl; assumption.
  - pose proof (add_unit_ok _ _ _ _ _ _ Ho) as OK. destruct Hs as [Hus Hsp].
    split; [exact HL|]. split.
    { split; [|exact Hsp]. cbn [units]. apply Forall_app. split; [exact Hus|]. constructor; [exact OK | constructor]. }
    split.
    { intros id0 u Eu0. exists u. cbn [units]. rewrite find_app_unit, Eu0. split; [reflexivity|].
      intros q. cbn [q_evs flat_map link]. apply eqb_refl, unit_nn. eapply find_unit_ok; eauto. }
    split; [intros; destruct q; reflexivity|]. split; [reflexivity|]. split; [reflexivity|].
    split; [constructor|]. split; [apply announced_nil|].
    intros N. split; [exact N|]. split; [constructor | intros i; reflexivity].
Qed.

(* what holds of every history *)
Definition hist (L : lsn) (s s' : state) (L' : lsn) (T : list ev) : Prop :=
  lsn_ok L' /\ state_ok s' /\ leads s s' T /\
  (* a unit registered during the history: no event before, a chain ending at the final value after *)
  (forall id q, chained (q_evs q id T) /\
                forall u', find_unit id (units s') = Some u' -> ends_at (q_evs q id T) (qval q u')) /\
  sp_link (sp s) (sp_evs T) (sp s') /\ seen_ok T /\ genuine T /\ announced T /\
  (nobr L -> nobr L' /\ stance_strict T /\ exact_resets T).

Lemma revents_cons r rs : revents (r :: rs) = r_evs r ++ revents rs.
Proof. reflexivity. Qed.

Theorem rrun_hist fuel : forall ops s L s' L' rs,
  state_ok s -> lsn_ok L -> Forall op_ok ops ->
  rrun fuel s L ops = Some (s', L', rs) -> hist L s s' L' (revents rs).
Proof.
  induction ops as [|o r IH]; intros s L s' L' rs Hs HL Ho; cbn [rrun].
  - intros H; injection H as <- <- <-. cbn [revents flat_map].
    split; [exact HL|]. split; [exact Hs|]. split.
    { intros id u Eu. exists u. split; [exact Eu|]. intros q. cbn [q_evs flat_map link].
      apply eqb_refl, unit_nn. eapply state_unit_ok; eauto. }
    split; [intros id q; split; [exact I | intros; exact I]|].
    split; [reflexivity|]. split; [reflexivity|]. split; [constructor|]. split; [apply announced_nil|].
    intros N. split; [exact N|]. split; [constructor | intros i; reflexivity].
  - inversion Ho as [|? ? Ho1 Hor]; subst.
    destruct (rstep fuel s L o) as [[[[s1 L1] evs] err]|] eqn:E1; [|discriminate].
    destruct (rrun fuel s1 L1 r) as [[[s2 L2] rs2]|] eqn:E2; [|discriminate].
    intros H; injection H as <- <- <-.
    destruct (rstep_tstep _ _ _ _ _ _ _ _ Hs HL Ho1 E1) as (HL1 & Hs1 & Ld1 & Nn1 & Sp1 & Sn1 & Gn1 & An1 & C1).
    destruct (IH _ _ _ _ _ Hs1 HL1 Hor E2) as (HL2 & Hs2 & Ld2 & Ch2 & Sp2 & Sn2 & Gn2 & An2 & C2).
    rewrite revents_cons. cbn [r_evs].
    split; [exact HL2|]. split; [exact Hs2|]. split.
    { intros id u Eu. destruct (Ld1 id u Eu) as (u1 & Eu1 & K1). destruct (Ld2 id u1 Eu1) as (u2 & Eu2 & K2).
      exists u2. split; [exact Eu2|]. intros q. rewrite q_evs_app. eapply link_app; eauto. }
    split.
    { intros id q. rewrite q_evs_app.
      destruct (find_unit id (units s)) as [u|] eqn:Eu.
      - destruct (Ld1 id u Eu) as (u1 & Eu1 & K1). destruct (Ld2 id u1 Eu1) as (u2 & Eu2 & K2).
        pose proof (link_app _ _ _ _ _ (K1 q) (K2 q)) as K.
        split; [apply (link_chained _ _ _ K)|].
        intros u' Eu'. rewrite Eu2 in Eu'. inversion Eu'; subst u'. apply (link_ends _ _ _ K).
      - rewrite (Nn1 id Eu q). cbn [app]. apply Ch2. }
    split; [rewrite sp_evs_app; eapply sp_link_app; eauto|].
    split; [apply seen_app; assumption|].
    split; [apply Forall_app; split; assumption|].
    split; [apply announced_app; assumption|].
    intros N. destruct (C1 N) as (N1 & T1 & R1). destruct (C2 N1) as (N2 & T2 & R2).
    split; [exact N2|]. split; [apply Forall_app; split; assumption | apply exact_resets_app; assumption].
Qed.

(* ------------------------------------------------------------------------------------ *)
(* C07 for histories with re-entrant listeners                                           *)
(* ------------------------------------------------------------------------------------ *)

(* per unit and quantity: the change events chain, and the last one reports the final value *)
Definition chains_to (s' : state) (T : list ev) : Prop :=
  forall id q, chained (q_evs q id T) /\
               forall u', find_unit id (units s') = Some u' -> ends_at (q_evs q id T) (qval q u').

(* THE PROPERTY TEXT, for every start in range, every list of valid top-level calls, every table
   of listener scripts made of valid calls, every fuel (the out-of-fuel outcome excluded):
   - ranges: in the final state and in every reading taken when an event reaches its listeners
     ([seen_ok]: every recorded event is followed by the getters' values of its unit, in range);
   - every change is reported: per unit and quantity the change events lead from the value before
     the history to the value after it, old_(i+1) == new_i ([leads], [chains_to], [sp_link]), and
     the new value of an event IS the stored value when the event reaches its listeners ([seen_ok]);
   - calls that change nothing report nothing: every change event has old <> new
     ([genuine] for HPChange / EnergyChange / SPChange, [stance_strict] for StanceChange);
   - a StanceBreak exactly per StanceChange that reaches zero from a positive value, a StanceReset
     exactly per StanceChange that leaves zero ([announced_exactly]). *)
Definition C07_re_conclusion (strict : bool) (L : lsn) (s s' : state) (T : list ev) : Prop :=
  in_range s' /\ seen_ok T /\
  leads s s' T /\ chains_to s' T /\
  sp_link (sp s) (sp_evs T) (sp s') /\
  genuine T /\
  if strict then stance_strict T /\ announced_exactly T
  else
    (* what today's code guarantees whatever the listeners do: a break per StanceChange that ENDS at
       zero (old == new == 0 included), at least one reset per StanceChange that leaves zero *)
    announced T /\ (forall id, (reach_zero id T <= n_break id T)%nat) /\
    (* and everything when no listener reacts to StanceBreak / StanceReset *)
    (nobr L -> stance_strict T /\ announced_exactly T).

Definition C07_re_full_statement : Prop :=
  forall fuel L ops s s' L' rs,
    state_ok s -> Forall op_ok ops -> lsn_ok L ->
    rrun fuel s L ops = Some (s', L', rs) ->
    C07_re_conclusion true L s s' (revents rs).

Definition C07_re_partial_statement : Prop :=
  forall fuel L ops s s' L' rs,
    state_ok s -> Forall op_ok ops -> lsn_ok L ->
    rrun fuel s L ops = Some (s', L', rs) ->
    C07_re_conclusion false L s s' (revents rs).

Lemma strict_exact T : stance_strict T -> announced T -> exact_resets T -> announced_exactly T.
Proof.
  intros St An Ex id. destruct (strict_counts id T St) as [Z1 Z2]. destruct (An id) as [B _].
  rewrite B, Z1, (Ex id), Z2. split; reflexivity.
Qed.

Theorem C07_re_partial : C07_re_partial_statement.
Proof.
  intros fuel L ops s s' L' rs Hs Ho HL E.
  destruct (rrun_hist fuel ops s L s' L' rs Hs HL Ho E) as (_ & Hs' & Ld & Ch & Sp & Sn & Gn & An & C).
  split; [apply state_ok_in_range, Hs'|]. split; [exact Sn|]. split; [exact Ld|]. split; [exact Ch|].
  split; [exact Sp|]. split; [exact Gn|]. cbn beta iota.
  split; [exact An|]. split.
  - intros id. destruct (An id) as [B _]. rewrite B. apply reach_le_zero_new.
  - intros N. destruct (C N) as (_ & St & Ex). split; [exact St | apply strict_exact; assumption].
Qed.

(* one call of a history (top level, or the calls a listener issues: [exec_op] with any runner that
   meets the contract), from any state in range with any listener table: its own events and those of
   everything nested in it lead from the values before the call to the values after it *)
Definition C07_re_call_statement : Prop :=
  forall fuel s L o s' L' evs err,
    state_ok s -> lsn_ok L -> op_ok o ->
    rstep fuel s L o = Some (s', L', evs, err) -> tstep L s s' L' evs.

Theorem C07_re_call : C07_re_call_statement.
Proof. intros fuel s L o s' L' evs err Hs HL Ho E. eapply rstep_tstep; eauto. Qed.

(* ---- refutation of the full statement: the faithful model of SetStance ---- *)
Definition wit_env : env := mkEnv 100 0 0 50 0.25 0.
Definition wit_call (k : Z) : call := mkCall wit_env k 1 2 false.

(* a StanceBreak listener that sets the stance of the same unit to zero itself *)
Definition wit_break_L : lsn := mkLs [] [] [] [[OSetStance (wit_call 7) 0]] [] [] [].
Definition wit_break_ops : list op := [OAdd 1 1 0 100 60 60; OSetStance (wit_call 1) 0].
(* a StanceReset listener that raises the stance of the same unit itself *)
Definition wit_reset_L : lsn := mkLs [] [] [] [] [[OSetStance (wit_call 7) 30]] [] [].
Definition wit_reset_ops : list op := [OAdd 1 1 0 100 0 60; OSetStance (wit_call 1) 60].

Definition wit_events (L : lsn) (ops : list op) : list ev :=
  match rrun 2 init L ops with Some (_, _, rs) => filter (fun e => match e with ESeen _ | ERet _ => false | _ => true end) (revents rs) | None => [] end.

Lemma wit_valid :
  Forall op_ok wit_break_ops /\ lsn_ok wit_break_L /\ Forall op_ok wit_reset_ops /\ lsn_ok wit_reset_L.
Proof.
  unfold lsn_ok, queue_ok, script_ok, sop_ok.
  repeat split; repeat constructor; vm_compute; reflexivity.
Qed.

(* what the model (and, replayed through the harness, the Go code) does on the two witnesses *)
Lemma wit_break_events :
  wit_events wit_break_L wit_break_ops =
  [EBreak 1 1 2; EBreak 7 1 2; EStance 7 1 2 60 0; EStance 1 1 2 0 0]%float.
Proof. vm_compute. reflexivity. Qed.
Lemma wit_reset_events :
  wit_events wit_reset_L wit_reset_ops =
  [EReset 1 1; EReset 7 1; EStance 7 1 2 0 30; EStance 1 1 2 30 60]%float.
Proof. vm_compute. reflexivity. Qed.

(* with a listener of StanceBreak that brings the stance to zero: a StanceChange with old == new,
   two breaks for one zero crossing; with a listener of StanceReset that raises the stance: every
   StanceChange reports a change, but two resets for one leaving of zero *)
Definition C07_re_refutation : Prop :=
  (exists s' L' rs, rrun 2 init wit_break_L wit_break_ops = Some (s', L', rs) /\
     ~ stance_strict (revents rs) /\ n_break 1 (revents rs) = 2%nat /\ reach_zero 1 (revents rs) = 1%nat) /\
  (exists s' L' rs, rrun 2 init wit_reset_L wit_reset_ops = Some (s', L', rs) /\
     stance_strict (revents rs) /\ n_reset 1 (revents rs) = 2%nat /\ leave_zero 1 (revents rs) = 1%nat).

Lemma C07_re_refutation_holds : C07_re_refutation.
Proof.
  split.
  - destruct (rrun 2 init wit_break_L wit_break_ops) as [[[s' L'] rs]|] eqn:E; [|vm_compute in E; discriminate].
    exists s', L', rs. split; [reflexivity|].
    vm_compute in E. injection E as <- <- <-.
    split; [|split; vm_compute; reflexivity].
    intros St. unfold revents in St. cbn [flat_map r_evs app] in St.
    repeat match goal with H : stance_strict (_ :: _) |- _ => inversion H; subst; clear H
                     | H : Forall stance_strict_ev (_ :: _) |- _ => inversion H; subst; clear H end.
    match goal with H : stance_strict_ev (EStance 1 1 2 _ _) |- _ => destruct H as [X _]; vm_compute in X; discriminate end.
  - destruct (rrun 2 init wit_reset_L wit_reset_ops) as [[[s' L'] rs]|] eqn:E; [|vm_compute in E; discriminate].
    exists s', L', rs. split; [reflexivity|].
    vm_compute in E. injection E as <- <- <-.
    split; [|split; vm_compute; reflexivity].
    unfold revents. cbn [flat_map r_evs app]. repeat constructor; vm_compute; reflexivity.
Qed.

Theorem C07_re_full_refuted : ~ C07_re_full_statement.
Proof.
  intros F. destruct wit_valid as (V1 & V2 & _ & _).
  destruct C07_re_refutation_holds as [(s' & L' & rs & E & NS & _) _].
  destruct (F 2%nat wit_break_L wit_break_ops init s' L' rs init_ok V1 V2 E) as (_ & _ & _ & _ & _ & _ & St & _).
  exact (NS St).
Qed.

(* the second witness alone refutes the break / reset clause *)
Theorem C07_re_reset_clause_refuted :
  exists fuel L ops s' L' rs, Forall op_ok ops /\ lsn_ok L /\ rrun fuel init L ops = Some (s', L', rs) /\
    stance_strict (revents rs) /\ ~ announced_exactly (revents rs).
Proof.
  destruct wit_valid as (_ & _ & V1 & V2).
  destruct C07_re_refutation_holds as [_ (s' & L' & rs & E & St & R & Lz)].
  exists 2%nat, wit_reset_L, wit_reset_ops, s', L', rs.
  split; [exact V1|]. split; [exact V2|]. split; [exact E|]. split; [exact St|].
  intros A. destruct (A 1) as [_ X]. rewrite R, Lz in X. discriminate.
Qed.

(* ------------------------------------------------------------------------------------ *)
(* Without listener scripts the re-entrant model IS the flat model of Proofs/AttrProofs.v *)
(* (up to the harness items ESeen / ERet), so the per-call clause of C07_statement - exactly *)
(* one event per changed quantity - is the case "no interference" of the theorems above.  *)
(* ------------------------------------------------------------------------------------ *)
Definition strip_evs (evs : list ev) : list ev :=
  filter (fun e => match e with ESeen _ | ERet _ => false | _ => true end) evs.

Lemma run_script_nil fuel s L : run_script fuel s L [] = Some (s, L, []).
Proof. destruct fuel; reflexivity. Qed.

Lemma upd_unit_found s t f u :
  find_unit t (units s) = Some u -> upd_unit s t f = mkSt (set_unit t (f u) (units s)) (sp s).
Proof. intros E. unfold upd_unit. rewrite E. reflexivity. Qed.

Lemma cur_state_upd s t f u : find_unit t (units s) = Some u -> cur_state (upd_unit s t f) t = u_state (f u).
Proof. intros E. unfold cur_state. rewrite upd_unit_find, Z.eqb_refl, E. reflexivity. Qed.

Lemma emit_ev_flat fuel s sl e id :
  emit_ev (run_script fuel) s no_lsn sl e id = Some (s, no_lsn, [e; ESeen (snapshot s id)]).
Proof. unfold emit_ev. destruct sl; cbn [pop_slot no_lsn l_hp l_limbo l_stance l_break l_reset l_energy l_sp pop_q]; rewrite run_script_nil; reflexivity. Qed.

Lemma r_do_hp_flat fuel s c u newR dmg :
  find_unit (c_target c) (units s) = Some u ->
  exists evs,
    r_do_hp (run_script fuel) s no_lsn c u newR dmg =
      Some (mkSt (set_unit (c_target c) (fst (do_hp c u newR dmg)) (units s)) (sp s), no_lsn, evs) /\
    strip_evs evs = snd (do_hp c u newR dmg).
Proof.
  intros Eu. unfold r_do_hp, r_emit_hp, do_hp, emit_hp.
  cbn [u_hp set_hp].
  destruct (eqb (u_hp u) newR).
  - eexists. split; [rewrite (upd_unit_found _ _ _ _ Eu); reflexivity | reflexivity].
  - destruct dmg; rewrite ?emit_ev_flat, ?upd_unit_twice, (cur_state_upd _ _ _ _ Eu);
      cbn [u_state set_last set_hp]; destruct (u_state u); try destruct (ltb 0 newR);
      rewrite ?emit_ev_flat; destruct (c_limbo c);
      rewrite ?upd_unit_twice, (upd_unit_found _ _ _ _ Eu); eexists; (split; reflexivity).
Qed.

Lemma r_do_stance_flat fuel s c u amount :
  find_unit (c_target c) (units s) = Some u ->
  exists evs,
    r_do_stance (run_script fuel) s no_lsn c u amount =
      Some (mkSt (set_unit (c_target c) (fst (do_stance c u amount)) (units s)) (sp s), no_lsn, evs) /\
    strip_evs evs = snd (do_stance c u amount).
Proof.
  intros Eu. unfold r_do_stance, do_stance.
  assert (Same : mkSt (set_unit (c_target c) u (units s)) (sp s) = s).
  { destruct s as [us p]. cbn [units sp] in *. f_equal.
    revert Eu. induction us as [|[k v] r IH]; cbn [find_unit set_unit]; [discriminate|].
    destruct (k =? c_target c) eqn:Ek.
    - intros H; inversion H; subst. apply Z.eqb_eq in Ek. subst k. reflexivity.
    - intros H. rewrite (IH H). reflexivity. }
  destruct (eqb (u_stance u) (clampTo (u_maxStance u) amount)).
  - eexists. cbn [fst snd]. rewrite Same. split; reflexivity.
  - destruct (eqb (clampTo (u_maxStance u) amount) 0); [|destruct (eqb (u_stance u) 0)];
      rewrite ?emit_ev_flat; cbn beta iota; rewrite ?(cur_stance_found _ _ _ Eu), ?emit_ev_flat, (upd_unit_found _ _ _ _ Eu);
      eexists; (split; reflexivity).
Qed.

Lemma r_do_energy_flat fuel s c u amount :
  find_unit (c_target c) (units s) = Some u ->
  exists evs,
    r_do_energy (run_script fuel) s no_lsn c u amount =
      Some (mkSt (set_unit (c_target c) (fst (do_energy c u amount)) (units s)) (sp s), no_lsn, evs) /\
    strip_evs evs = snd (do_energy c u amount).
Proof.
  intros Eu. unfold r_do_energy, do_energy. cbn [fst snd].
  destruct (eqb (u_energy u) (clampTo (u_maxEnergy u) amount)).
  - eexists. rewrite (upd_unit_found _ _ _ _ Eu). split; reflexivity.
  - rewrite emit_ev_flat, (upd_unit_found _ _ _ _ Eu). eexists. split; reflexivity.
Qed.

Lemma r_on_target_flat s c f g :
  (forall u, find_unit (c_target c) (units s) = Some u ->
     exists evs, f u = Some (mkSt (set_unit (c_target c) (fst (g u)) (units s)) (sp s), no_lsn, evs) /\
                 strip_evs evs = snd (g u)) ->
  exists evs, r_on_target s no_lsn c f = Some (fst (fst (on_target s c g)), no_lsn, evs, snd (on_target s c g)) /\
              strip_evs evs = snd (fst (on_target s c g)).
Proof.
  intros H. unfold r_on_target, on_target.
  destruct (find_unit (c_target c) (units s)) as [u|] eqn:Eu.
  - destruct (H u eq_refl) as (evs & E1 & E2). rewrite E1. destruct (g u) as [u' ev']. cbn [fst snd] in *.
    exists evs. split; [reflexivity | exact E2].
  - exists []. split; reflexivity.
Qed.

(* one call without listener scripts: the flat model's state, error and events *)
Theorem rstep_no_listeners fuel s o :
  exists evs, rstep fuel s no_lsn o = Some (fst (fst (step s o)), no_lsn, evs, snd (step s o)) /\
              strip_evs evs = snd (fst (step s o)).
Proof.
  unfold rstep. destruct o; cbn [exec_op step].
  - destruct (find_unit id (units s)); exists []; split; reflexivity.
  - apply r_on_target_flat. intros u Eu. apply r_do_hp_flat, Eu.
  - apply r_on_target_flat. intros u Eu. apply r_do_hp_flat, Eu.
  - destruct ((rtype =? 1) || (rtype =? 2)).
    + apply r_on_target_flat. intros u Eu. apply r_do_hp_flat, Eu.
    + exists []. split; reflexivity.
  - apply r_on_target_flat. intros u Eu. apply r_do_stance_flat, Eu.
  - apply r_on_target_flat. intros u Eu. apply r_do_stance_flat, Eu.
  - apply r_on_target_flat. intros u Eu. apply r_do_energy_flat, Eu.
  - apply r_on_target_flat. intros u Eu. apply r_do_energy_flat, Eu.
  - apply r_on_target_flat. intros u Eu. apply r_do_energy_flat, Eu.
  - destruct (sp s =? new_sp (sp s) amount).
    + exists []. split; reflexivity.
    + rewrite emit_ev_flat. eexists. split; reflexivity.
Qed.

(* a whole history without listener scripts *)
Theorem rrun_no_listeners fuel : forall ops s,
  exists rs, rrun fuel s no_lsn ops = Some (fst (run s ops), no_lsn, rs) /\
    map (fun r => mkRes (strip_evs (r_evs r)) (r_err r) (r_snap r)) rs = snd (run s ops).
Proof.
  induction ops as [|o r IH]; intros s.
  - exists []. split; reflexivity.
  - destruct (rstep_no_listeners fuel s o) as (evs & E1 & E2).
    destruct (step s o) as [[s1 ev1] err] eqn:Es. cbn [fst snd] in E1, E2.
    destruct (IH s1) as (rs & R1 & R2).
    cbn [rrun]. rewrite E1, R1. rewrite (run_cons _ _ _ _ _ _ Es). cbn [fst snd].
    eexists. split; [reflexivity|]. cbn [map r_evs r_err r_snap]. rewrite E2, R2. reflexivity.
Qed.

(* ------------------------------------------------------------------------------------ *)
(* Fuel: every run of a non-empty listener script consumes one queued script, so fuel at  *)
(* least the number of queued scripts is never exhausted                                  *)
(* ------------------------------------------------------------------------------------ *)
Definition rtotal (rs : runner) (k : nat) : Prop :=
  forall s L sc, (sc = [] \/ (n_scripts L < k)%nat) ->
    exists s' L' evs, rs s L sc = Some (s', L', evs) /\ (n_scripts L' <= n_scripts L)%nat.

Lemma pop_q_count q :
  (length (snd (pop_q q)) <= length q)%nat /\
  (fst (pop_q q) = [] \/ (S (length (snd (pop_q q))) <= length q)%nat).
Proof. destruct q as [|sc r]; cbn [pop_q fst snd length]; [auto | split; [lia | right; lia]]. Qed.

Lemma pop_slot_count L sl :
  (n_scripts (snd (pop_slot L sl)) <= n_scripts L)%nat /\
  (fst (pop_slot L sl) = [] \/ (S (n_scripts (snd (pop_slot L sl))) <= n_scripts L)%nat).
Proof.
  destruct sl; cbn [pop_slot];
    match goal with |- context [pop_q ?q] =>
      destruct (pop_q_count q) as [A B]; destruct (pop_q q) as [sc r] end;
    cbn [fst snd] in *; unfold n_scripts; cbn [l_hp l_limbo l_stance l_break l_reset l_energy l_sp];
    (split; [lia | destruct B as [B|B]; [left; exact B | right; lia]]).
Qed.

Lemma emit_ev_total rs k s L sl e id :
  rtotal rs k -> (n_scripts L <= k)%nat ->
  exists s2 L2 evs, emit_ev rs s L sl e id = Some (s2, L2, evs) /\ (n_scripts L2 <= n_scripts L)%nat.
Proof.
  intros HT Hk. unfold emit_ev.
  destruct (pop_slot_count L sl) as [A B]. destruct (pop_slot L sl) as [sc L1]. cbn [fst snd] in *.
  assert (C : sc = [] \/ (n_scripts L1 < k)%nat) by (destruct B as [B|B]; [left; exact B | right; lia]).
  destruct (HT s L1 sc C) as (s2 & L2 & evs & E & Hn). rewrite E.
  exists s2, L2, (e :: ESeen (snapshot s id) :: evs). split; [reflexivity | lia].
Qed.

Ltac use_emit HT Hk :=
  match goal with
  | |- context [emit_ev ?rs ?s ?L ?sl ?e ?id] =>
      let s2 := fresh "s" in let L2 := fresh "L" in let ev := fresh "ev" in
      let E := fresh "E" in let Hn := fresh "Hn" in
      destruct (emit_ev_total rs _ s L sl e id HT Hk) as (s2 & L2 & ev & E & Hn); rewrite E
  end.

Lemma exec_op_total rs k s L o :
  rtotal rs k -> (n_scripts L <= k)%nat ->
  exists s' L' evs err, exec_op rs s L o = Some (s', L', evs, err) /\ (n_scripts L' <= n_scripts L)%nat.
Proof.
  intros HT Hk.
  assert (HP : forall c u newR dmg, exists s' L' evs,
            r_do_hp rs s L c u newR dmg = Some (s', L', evs) /\ (n_scripts L' <= n_scripts L)%nat).
  { intros c u newR dmg. unfold r_do_hp, r_emit_hp.
    destruct (eqb (u_hp u) newR); [do 3 eexists; split; [reflexivity | lia]|].
    use_emit HT Hk.
    destruct (cur_state s0 (c_target c)); try (destruct (ltb 0 newR));
      try (do 3 eexists; split; [reflexivity | lia]);
      (assert (Hk2 : (n_scripts L0 <= k)%nat) by lia; use_emit HT Hk2; do 3 eexists; split; [reflexivity | lia]). }
  assert (HS : forall c u amount, exists s' L' evs,
            r_do_stance rs s L c u amount = Some (s', L', evs) /\ (n_scripts L' <= n_scripts L)%nat).
  { intros c u amount. unfold r_do_stance.
    destruct (eqb (u_stance u) (clampTo (u_maxStance u) amount)); [do 3 eexists; split; [reflexivity | lia]|].
    destruct (eqb (clampTo (u_maxStance u) amount) 0); [|destruct (eqb (u_stance u) 0)].
    - use_emit HT Hk. assert (Hk2 : (n_scripts L0 <= k)%nat) by lia. use_emit HT Hk2.
      do 3 eexists; split; [reflexivity | lia].
    - use_emit HT Hk. assert (Hk2 : (n_scripts L0 <= k)%nat) by lia. use_emit HT Hk2.
      do 3 eexists; split; [reflexivity | lia].
    - use_emit HT Hk. do 3 eexists; split; [reflexivity | lia]. }
  assert (HE : forall c u amount, exists s' L' evs,
            r_do_energy rs s L c u amount = Some (s', L', evs) /\ (n_scripts L' <= n_scripts L)%nat).
  { intros c u amount. unfold r_do_energy.
    destruct (eqb (u_energy u) (clampTo (u_maxEnergy u) amount)); [do 3 eexists; split; [reflexivity | lia]|].
    use_emit HT Hk. do 3 eexists; split; [reflexivity | lia]. }
  assert (OT : forall c f, (forall u, exists s' L' evs, f u = Some (s', L', evs) /\ (n_scripts L' <= n_scripts L)%nat) ->
            exists s' L' evs err, r_on_target s L c f = Some (s', L', evs, err) /\ (n_scripts L' <= n_scripts L)%nat).
  { intros c f Hf. unfold r_on_target. destruct (find_unit (c_target c) (units s)) as [u|].
    - destruct (Hf u) as (s' & L' & evs & E & Hn). rewrite E. do 4 eexists; split; [reflexivity | exact Hn].
    - do 4 eexists; split; [reflexivity | lia]. }
  destruct o; cbn [exec_op]; try (apply OT; intros u; auto).
  - destruct (find_unit id (units s)); do 4 eexists; split; try reflexivity; lia.
  - destruct ((rtype =? 1) || (rtype =? 2)); [apply OT; intros u; auto | do 4 eexists; split; [reflexivity | lia]].
  - destruct (sp s =? new_sp (sp s) amount); [do 4 eexists; split; [reflexivity | lia]|].
    use_emit HT Hk. do 4 eexists; split; [reflexivity | lia].
Qed.

Lemma exec_list_total rs k : rtotal rs k -> forall sc s L, (n_scripts L <= k)%nat ->
  exists s' L' evs, exec_list rs s L sc = Some (s', L', evs) /\ (n_scripts L' <= n_scripts L)%nat.
Proof.
  intros HT. induction sc as [|o r IH]; intros s L Hk; cbn [exec_list].
  - do 3 eexists; split; [reflexivity | lia].
  - destruct (exec_op_total rs k s L o HT Hk) as (s1 & L1 & e1 & err & E1 & H1). rewrite E1.
    destruct (IH s1 L1 ltac:(lia)) as (s2 & L2 & e2 & E2 & H2). rewrite E2.
    do 3 eexists; split; [reflexivity | lia].
Qed.

Lemma run_script_total fuel : rtotal (run_script fuel) fuel.
Proof.
  induction fuel as [|f IH]; intros s L sc C.
  - destruct C as [-> | C]; [|lia]. do 3 eexists; split; [reflexivity | lia].
  - destruct sc as [|o r]; [do 3 eexists; split; [reflexivity | lia]|].
    destruct C as [C | C]; [discriminate|].
    change (run_script (S f) s L (o :: r)) with (exec_list (run_script f) s L (o :: r)).
    apply (exec_list_total (run_script f) f IH); lia.
Qed.

(* fuel >= the number of queued scripts: no history runs out of fuel *)
Theorem fuel_suffices fuel : forall ops s L, (n_scripts L <= fuel)%nat -> rrun fuel s L ops <> None.
Proof.
  induction ops as [|o r IH]; intros s L Hk; cbn [rrun]; [discriminate|].
  unfold rstep.
  destruct (exec_op_total (run_script fuel) fuel s L o (run_script_total fuel) Hk) as (s1 & L1 & e1 & err & E1 & H1).
  rewrite E1. specialize (IH s1 L1 ltac:(lia)).
  destruct (rrun fuel s1 L1 r) as [[[s2 L2] rs]|]; [discriminate | contradiction].
Qed.

(* ------------------------------------------------------------------------------------ *)
(* Non-vacuity: a valid history that re-enters three levels deep                         *)
(* ------------------------------------------------------------------------------------ *)
(* the HPChange listener heals the unit the outer call is damaging; the StanceChange listener of the
   break gives energy, whose EnergyChange listener gives skill points, whose SPChange listener resets
   the stance of the same unit while the outer ModifyStance is still running *)
Definition redemo_L : lsn :=
  mkLs [[OSetHP (demo_call 7 1 2 false) 100 false]] []
       [[OModEnergy (demo_call 4 1 1 false) 70]] [] []
       [[OModSP 5 1 7]]
       [[OSetStance (demo_call 3 1 2 false) 1000]].
Definition redemo_ops : list op :=
  [ OAdd 1 1 50 100 60 60;
    OModHPRatio (demo_call 0 1 2 false) (-0.5) 1 0 true;
    OModStance (demo_call 2 1 2 false) (-60) ].

Definition redemo_events : list ev :=
  match rrun 4 init redemo_L redemo_ops with Some (_, _, rs) => revents rs | None => [] end.

Definition redemo_statement : Prop :=
  Forall op_ok redemo_ops /\ lsn_ok redemo_L /\ nobr redemo_L /\ n_scripts redemo_L = 4%nat /\
  (exists s' L' rs, rrun 4 init redemo_L redemo_ops = Some (s', L', rs)) /\
  rrun 2 init redemo_L redemo_ops = None /\         (* fuel below the nesting depth 3: the distinct outcome *)
  strip_evs redemo_events =
    [EHP 0 1 1 0.5 100 50 true; EHP 7 1 0.5 1 50 100 false;
     EBreak 2 1 2; EStance 2 1 2 60 0; EEnergy 4 1 1 50 100; ESP 5 1 3 5; EReset 3 1; EStance 3 1 2 0 60]%float /\
  q_evs QHP 1 redemo_events = [(1, 0.5); (0.5, 1)]%float /\
  q_evs QStance 1 redemo_events = [(60, 0); (0, 60)]%float /\
  n_break 1 redemo_events = 1%nat /\ n_reset 1 redemo_events = 1%nat /\ sp_evs redemo_events = [(3, 5)].

Lemma redemo_holds : redemo_statement.
Proof.
  split; [repeat constructor; vm_compute; reflexivity|].
  split; [unfold lsn_ok, queue_ok, script_ok, sop_ok; repeat split; repeat constructor; vm_compute; reflexivity|].
  split; [split; reflexivity|]. split; [reflexivity|].
  split.
  { destruct (rrun 4 init redemo_L redemo_ops) as [[[s' L'] rs]|] eqn:E; [|vm_compute in E; discriminate].
    eauto. }
  split; [vm_compute; reflexivity|].
  repeat split; vm_compute; reflexivity.
Qed.

(* ------------------------------------------------------------------------------------ *)
(* The two monitors of Model/AttrCheck.v on the witnesses: the monitor evaluated on every *)
(* implementation output accepts what today's code does, the property text rejects it    *)
(* ------------------------------------------------------------------------------------ *)
From SR Require Model.AttrCheck.

Definition wit_case (fuel : nat) (L : lsn) (ops : list op) : AttrCheck.case :=
  (L, ops, match rrun fuel init L ops with
           | Some (s, _, rs) => AttrCheck.Obs rs (dump s)
           | None => AttrCheck.Obs [] []
           end).

Definition monitors_on_witnesses : Prop :=
  AttrCheck.monitor_case (wit_case 2 wit_break_L wit_break_ops) = true /\
  AttrCheck.monitor_full (wit_case 2 wit_break_L wit_break_ops) = false /\
  AttrCheck.monitor_case (wit_case 2 wit_reset_L wit_reset_ops) = true /\
  AttrCheck.monitor_full (wit_case 2 wit_reset_L wit_reset_ops) = false /\
  (* and both accept the re-entrant history that breaks nothing *)
  AttrCheck.monitor_case (wit_case 4 redemo_L redemo_ops) = true /\
  AttrCheck.monitor_full (wit_case 4 redemo_L redemo_ops) = true.

Lemma monitors_on_witnesses_hold : monitors_on_witnesses.
Proof. repeat split; vm_compute; reflexivity. Qed.
