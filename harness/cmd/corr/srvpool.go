package main

// C15 / C19 on the REAL worker pool and sample endpoint of the HTTP server mode (pkg/servermode:
// pool.go workerpool.run / iter, run.go, sample.go generateLogs, handler.go latest), driven in
// this process through the server's own router (servermode.New(...).Router.ServeHTTP), i.e. through
// exactly the code a browser reaches.
//
// Input   SrvIn (RS ...) iterations workers flush_interval cfg_iterations rand_seed bad_sample
// Output  Srv status [("flag", bool) ...] progress_ok final_count_ok sample_before_ok sample_after_ok
//         | SrvSkip "why"   the reference itself did not produce a result
//         | SrvHung
//
// The pool draws its job seeds from the process-wide math/rand source (`rand.Int63()` in the
// seeding goroutine of workerpool.run, one per job, in order).  That source can be seeded
// (rand.Seed; this binary is built with //go:debug randseednop=0 and checks on every case that
// seeding is honoured), so the harness seeds it with K, draws the N job seeds, computes the
// reference -- every job run ALONE through simulation.Run with a fresh evaluator, aggregated with
// simulation.InitializeAggregators(N, cfg) / Add / Flush, where cfg is the configuration the
// server decodes from the request (its settings.iterations need NOT equal N) -- seeds the source
// with K again and posts the run request.  While the pool works, GET /results/{id} is polled:
// every progress report must carry a count that never decreases, never exceeds N, and equals the
// sum of the damage-per-cycle histogram (one value per iteration added); the report with
// done=true is compared with the reference statistic by statistic like clipool does (bit-exact,
// mean / SD up to 1e-9).  Before and after the pool run the same configuration is sent to
// POST /sample/{id} (optionally preceded by a sample request that FAILS: unknown light cone) and
// the returned gzip log must be the log of that run alone (same GzipLogger type, run in this
// process): "the same whether the run is the first in its process or follows any number of
// other runs".

import (
	"bytes"
	"compress/gzip"
	"context"
	"encoding/json"
	"fmt"
	"io"
	"log/slog"
	"math/rand"
	"net/http"
	"net/http/httptest"
	"strconv"
	"strings"
	"time"

	"github.com/go-chi/chi/middleware"
	"github.com/simimpact/srsim/pkg/engine/logging"
	"github.com/simimpact/srsim/pkg/logic/gcs"
	"github.com/simimpact/srsim/pkg/logic/gcs/eval"
	"github.com/simimpact/srsim/pkg/model"
	"github.com/simimpact/srsim/pkg/servermode"
	"github.com/simimpact/srsim/pkg/simulation"
	"google.golang.org/protobuf/encoding/protojson"

	"verif/harness/term"
)

//go:debug randseednop=0

const srvRunTimeout = 90 * time.Second

func srvGen(r *term.Rng, idx int) term.T {
	_, a := term.Ctor(cliGen(r, idx))
	r = reseed(r, idx+7919)
	n := r.Range(8, 24)
	cfgIters := n
	switch r.Intn(4) {
	case 0:
		cfgIters = 0
	case 1:
		cfgIters = n + r.Range(1, 9)
	case 2:
		cfgIters = r.Range(1, n)
	}
	return term.C("SrvIn", a[0], term.Nat(n), term.Nat(r.Range(1, 8)), term.Nat(r.Range(0, 6)),
		term.Nat(cfgIters), term.I(int64(r.Range(1, 1<<30))), term.B(r.Bool()))
}

// the global source honours Seed: two seedings give the same stream
func globalRandSeedable() bool {
	rand.Seed(12345) //nolint:staticcheck // the server pool draws from the global source
	a, b := rand.Int63(), rand.Int63()
	rand.Seed(12345) //nolint:staticcheck
	return a == rand.Int63() && b == rand.Int63()
}

func newSrv(workers, flush int) *servermode.Server {
	// the request logger of chi prints to standard output, which carries the harness protocol
	middleware.DefaultLogger = func(next http.Handler) http.Handler { return next }
	s, err := servermode.New(servermode.WithDefaults(), func(c *servermode.Config) error {
		c.WorkerCount = workers
		c.FlushInterval = flush
		c.Timeout = 60 * time.Second
		c.Log = slog.New(slog.NewTextHandler(io.Discard, nil))
		return nil
	})
	if err != nil {
		panic(err)
	}
	return s
}

func srvDo(s *servermode.Server, method, path string, body []byte) *httptest.ResponseRecorder {
	req := httptest.NewRequest(method, path, bytes.NewReader(body))
	rec := httptest.NewRecorder()
	s.Router.ServeHTTP(rec, req)
	return rec
}

func gunzip(b []byte) (string, error) {
	z, err := gzip.NewReader(bytes.NewReader(b))
	if err != nil {
		return "", err
	}
	d, err := io.ReadAll(z)
	return string(d), err
}

// the log of the run alone, written by the server's own logger type
func srvReferenceLog(cfg *model.SimConfig, list *gcs.ActionList, seed uint64) (out string, err error) {
	defer func() {
		if r := recover(); r != nil {
			out, err = "", fmt.Errorf("panic: %v", r)
		}
	}()
	buf := bytes.NewBuffer(nil)
	lg, err := servermode.NewGzipLogger(buf)
	if err != nil {
		return "", err
	}
	_, err = simulation.Run(&simulation.RunOpts{
		Config:  cfg,
		Eval:    eval.New(context.TODO(), list.Program),
		Seed:    int64(seed),
		Loggers: []logging.Logger{lg},
	})
	if err != nil {
		return "", err
	}
	if err := lg.Flush(); err != nil {
		return "", err
	}
	return gunzip(buf.Bytes())
}

func srvSample(s *servermode.Server, id string, cfgJSON []byte, seed uint64) (string, int) {
	body, _ := json.Marshal(map[string]any{"config": string(cfgJSON), "seed": seed})
	rec := srvDo(s, "POST", "/sample/"+id, body)
	if rec.Code != http.StatusOK {
		return "", rec.Code
	}
	txt, err := gunzip(rec.Body.Bytes())
	if err != nil {
		return "", -1
	}
	return txt, rec.Code
}

var lastSrvSkipped, lastSrvPolls, lastSrvProgress int

func srvRun(in term.T) term.T {
	lastSrvSkipped, lastSrvPolls, lastSrvProgress = 0, 0, 0
	name, a := term.Ctor(in)
	if name != "SrvIn" {
		panic("not a srvpool input: " + name)
	}
	if !globalRandSeedable() {
		panic("the process-wide math/rand source ignores Seed (GODEBUG randseednop): the server pool's job seeds cannot be reproduced")
	}
	spec := decodeSpec(a[0])
	iters, workers, flush := int(term.Int(a[1])), int(term.Int(a[2])), int(term.Int(a[3]))
	cfgIters, k, badSample := int(term.Int(a[4])), term.Int(a[5]), term.Bool(a[6])
	if iters < 1 {
		iters = 1
	}
	if workers < 1 {
		workers = 1
	}
	if spec.cfg.Settings == nil {
		spec.cfg.Settings = &model.SimulatorSettings{}
	}
	spec.cfg.Settings.Iterations = uint32(cfgIters)
	cfgJSON, err := spec.cfg.MarshalJSON()
	if err != nil {
		panic(err)
	}
	skip := func(why string) term.T {
		lastSrvSkipped = 1
		return term.C("SrvSkip", term.S(sanitize(why)))
	}
	ref := new(model.SimConfig)
	if err := ref.UnmarshalJSON(cfgJSON); err != nil {
		panic(err)
	}
	lg, ok := ref.Logic.(*model.SimConfig_Gcsl)
	if !ok {
		return skip("configuration without a gcsl script")
	}
	list, err := parseScript(lg.Gcsl)
	if err != nil {
		return skip("script does not parse: " + err.Error())
	}
	sampleSeed := uint64(spec.seed)
	wantLog, err := srvReferenceLog(ref, list, sampleSeed)
	if err != nil {
		return skip("reference log: " + err.Error())
	}

	// the job seeds the pool is going to draw, and the reference statistics
	rand.Seed(k) //nolint:staticcheck
	seeds := make([]int64, iters)
	for i := range seeds {
		seeds[i] = rand.Int63()
	}
	aggs, err := simulation.InitializeAggregators(iters, ref)
	if err != nil {
		return skip("aggregators: " + err.Error())
	}
	for i, js := range seeds {
		res, err := runJobAlone(ref, list, js)
		if err != nil {
			return skip(fmt.Sprintf("reference: job %d (seed %d): %v", i, js, err))
		}
		aggs.Add(res)
	}
	want := aggs.Flush()

	s := newSrv(workers, flush)
	id := "case"

	// sample before the pool
	got1, _ := srvSample(s, id, cfgJSON, sampleSeed)
	sample1 := got1 == wantLog
	if badSample {
		// a sample request that fails after the run has started emitting events
		bad := new(model.SimConfig)
		_ = bad.UnmarshalJSON(cfgJSON)
		if len(bad.Characters) > 0 {
			if bad.Characters[0].LightCone == nil {
				bad.Characters[0].LightCone = &model.LightCone{}
			}
			bad.Characters[0].LightCone.Key = "no_such_light_cone"
			bad.Characters[0].LightCone.Level = 1
			bad.Characters[0].LightCone.MaxLevel = 20
			bad.Characters[0].LightCone.Imposition = 1
			if bj, err := bad.MarshalJSON(); err == nil {
				srvSample(s, id, bj, sampleSeed)
				// ... and the good one right behind it
				again, _ := srvSample(s, id, cfgJSON, sampleSeed)
				sample1 = sample1 && again == wantLog
			}
		}
	}

	// the pool
	rand.Seed(k) //nolint:staticcheck
	body, _ := json.Marshal(map[string]any{"config": string(cfgJSON), "iterations": iters})
	rec := srvDo(s, "POST", "/run/"+id, body)
	status := 0
	if rec.Code != http.StatusOK {
		status = rec.Code
	}
	var final *model.SimResult
	progress := true
	lastCount := uint32(0)
	deadline := time.Now().Add(srvRunTimeout)
	for status == 0 {
		if time.Now().After(deadline) {
			status = 124
			break
		}
		time.Sleep(2 * time.Millisecond)
		rec := srvDo(s, "GET", "/results/"+id, nil)
		lastSrvPolls++
		var resp struct {
			Result string `json:"result"`
			Done   bool   `json:"done"`
			Error  string `json:"error"`
		}
		if rec.Code != http.StatusOK || json.Unmarshal(rec.Body.Bytes(), &resp) != nil {
			// a progress report read while the pool is writing may be unusable; the final one may not
			if rec.Code == http.StatusNotFound {
				status = 404
			}
			continue
		}
		if resp.Error != "" {
			status = 1
			break
		}
		res := new(model.SimResult)
		if err := (protojson.UnmarshalOptions{AllowPartial: true, DiscardUnknown: true}).Unmarshal([]byte(resp.Result), res); err != nil {
			if resp.Done {
				status = 2
				break
			}
			continue
		}
		if st := res.GetStatistics(); st != nil {
			lastSrvProgress++
			c := st.GetIterations()
			sum := uint32(0)
			for _, h := range st.GetTotalDamageDealtPerCycle().GetHist() {
				sum += h
			}
			if c < lastCount || c > uint32(iters) || (st.GetTotalDamageDealtPerCycle() != nil && sum != c) {
				progress = false
			}
			lastCount = c
		}
		if resp.Done {
			final = res
			break
		}
	}
	if status != 0 {
		return term.C("Srv", term.I(int64(status)), cliFlagsTerm(map[string]bool{}), term.B(progress), term.B(false),
			term.B(sample1), term.B(false))
	}
	fl := cliCompare(want, 0, final)
	fl["debug_seed"] = final.GetDebugSeed() != "" // drawn from crypto/rand: present, not comparable
	countOK := final.GetStatistics().GetIterations() == uint32(iters)

	got2, _ := srvSample(s, id, cfgJSON, sampleSeed)
	sample2 := got2 == wantLog
	return term.C("Srv", term.I(0), cliFlagsTerm(fl), term.B(progress), term.B(countOK), term.B(sample1), term.B(sample2))
}

func srvKinds(in term.T) map[string]int {
	_, a := term.Ctor(in)
	out := map[string]int{"cases": 1, "reference_failed": lastSrvSkipped, "polls": lastSrvPolls, "progress_reports": lastSrvProgress}
	iters, workers, flush, cfgIters := int(term.Int(a[1])), int(term.Int(a[2])), int(term.Int(a[3])), int(term.Int(a[4]))
	out["jobs"] = iters
	out["workers:"+strconv.Itoa(workers)]++
	out["flush_interval:"+strconv.Itoa(flush)]++
	switch {
	case cfgIters == iters:
		out["settings.iterations:equal"]++
	case cfgIters == 0:
		out["settings.iterations:absent"]++
	case cfgIters > iters:
		out["settings.iterations:larger"]++
	default:
		out["settings.iterations:smaller"]++
	}
	if term.Bool(a[6]) {
		out["failing_sample_first"]++
	}
	_, rs := term.Ctor(a[0])
	out["chars:"+strconv.Itoa(len(term.List(rs[0])))]++
	script := term.Str(rs[3])
	for _, ct := range term.List(rs[0]) {
		_, c := term.Ctor(ct)
		script += " " + term.Str(c[13])
	}
	if strings.Contains(script, "rand()") {
		out["script:rand"]++
	}
	return out
}

func init() {
	register("srvpool", component{gen: srvGen, run: srvRun, kinds: srvKinds,
		hung: func(term.T) term.T { return term.C("SrvHung") }})
}
