(* Obligations over the generated site tables (Gen/Sites.v, rewritten from the Go source on
   every check): they are closed by computation, so any change of the tables that matters —
   a new map range, an edited loop body, a reachable use of the global math/rand, of the clock
   or of the environment — makes this file fail to compile, for all inputs at once. *)
From Coq Require Import List String ZArith Bool Permutation.
From SR Require Import Base.SiteTypes Base.MapIter Proofs.MapIterProofs Gen.Sites Model.SitesAllow.
Import ListNotations.

(* ---- map-iteration sites ---- *)
Definition listed (s : map_site) : bool :=
  existsb (fun e => site_key_eqb (fst e) (key_of s)) known_order_dependent.

Definition class_proved (c : site_class) : bool :=
  match c with CUnclassified => false | _ => true end.

Definition site_ok (s : map_site) : bool := class_proved (ms_class s) || listed s.

(* the sites that are neither classified nor listed (must be empty) *)
Definition offending_sites : list map_site := filter (fun s => negb (site_ok s)) map_sites.

(* the table entries that name no unclassified site of the current tree (must be empty: a stale
   entry would silently allow a future site with the same key) *)
Definition stale_entries : list site_key :=
  map fst (filter (fun e => negb (existsb (fun s => site_key_eqb (fst e) (key_of s) && negb (class_proved (ms_class s))) map_sites))
             known_order_dependent).

(* two different sites never share a key *)
Fixpoint keys_distinct (l : list site_key) : bool :=
  match l with
  | [] => true
  | k :: r => negb (existsb (site_key_eqb k) r) && keys_distinct r
  end.

Lemma offending_sites_none : offending_sites = [].
Proof. vm_compute. reflexivity. Qed.

Lemma stale_entries_none : stale_entries = [].
Proof. vm_compute. reflexivity. Qed.

Lemma site_keys_distinct : keys_distinct (map key_of map_sites) = true.
Proof. vm_compute. reflexivity. Qed.

(* The statement of the schema theorem that stands behind each class. *)
Definition schema_statement (c : site_class) : Prop :=
  match c with
  | CCopy =>
      forall (K V : Type) (keqb : K -> K -> bool), (forall a b, keqb a b = true <-> a = b) ->
      forall m : @amap K V, wf m -> forall o1 o2, is_order m o1 -> is_order m o2 -> forall d,
        same_map keqb (range (fun d kv => set keqb (fst kv) (snd kv) d) o1 d)
                      (range (fun d kv => set keqb (fst kv) (snd kv) d) o2 d)
  | CInsertDistinct =>
      forall (K V K' V' : Type) (keqb' : K' -> K' -> bool), (forall a b, keqb' a b = true <-> a = b) ->
      forall (m : @amap K V) (h : K -> K') (g : K -> V -> V'), (forall k1 k2, h k1 = h k2 -> k1 = k2) -> wf m ->
      forall o1 o2, is_order m o1 -> is_order m o2 -> forall d,
        same_map keqb' (range (fun d kv => set keqb' (h (fst kv)) (g (fst kv) (snd kv)) d) o1 d)
                       (range (fun d kv => set keqb' (h (fst kv)) (g (fst kv) (snd kv)) d) o2 d)
  | CUpdatePerKey =>
      forall (K V K' V' : Type) (keqb' : K' -> K' -> bool), (forall a b, keqb' a b = true <-> a = b) ->
      forall (m : @amap K V) (h : K -> K') (u : K -> V -> option V' -> option V'),
        (forall k1 k2, h k1 = h k2 -> k1 = k2) -> wf m ->
      forall o1 o2, is_order m o1 -> is_order m o2 -> forall d,
        same_map keqb' (range (per_key_body keqb' h u) o1 d) (range (per_key_body keqb' h u) o2 d)
  | CDeleteAll =>
      forall (K V : Type) (keqb : K -> K -> bool), (forall a b, keqb a b = true <-> a = b) ->
      forall (m : @amap K V) o, is_order m o ->
      forall k, lookup keqb k (range (fun d kv => del keqb (fst kv) d) o m) = None
  | CAccCommAssoc =>
      forall (A B : Type) (op : B -> B -> B) (g : A -> B),
        (forall a b, op a b = op b a) -> (forall a b c, op (op a b) c = op a (op b c)) ->
      forall o1 o2 : list A, Permutation o1 o2 -> forall a0,
        fold_left (fun acc x => op acc (g x)) o1 a0 = fold_left (fun acc x => op acc (g x)) o2 a0
  | CCollectSorted =>
      forall (A : Type) (kf : A -> Z) (o1 o2 : list A),
        Permutation o1 o2 -> NoDup (map kf o1) -> isort kf o1 = isort kf o2
  | CUnclassified => False
  end.

Lemma schema_holds : forall c, class_proved c = true -> schema_statement c.
Proof.
  intros [] H; cbn [schema_statement]; try discriminate H.
  - intros K V keqb Hs. apply (range_copy keqb Hs).
  - intros K V K' V' keqb' Hs. apply (range_insert_distinct keqb' Hs).
  - intros K V K' V' keqb' Hs. apply (range_update_per_key keqb' Hs).
  - intros K V keqb Hs. apply (range_delete_all keqb Hs).
  - exact range_acc_comm_assoc.
  - intros A kf. apply range_collect_sorted.
Qed.

(* all_map_sites_classified: every `range` over a map (and every maps.Keys/Values/All
   iterator) in the non-test Go files under pkg/, internal/, cmd/ either is an instance of a
   loop schema PROVED independent of the iteration order, or is listed, by file, function,
   ordinal and body hash, in the reviewed table Model/SitesAllow.v *)
Definition all_map_sites_classified_statement : Prop :=
  forall s, In s map_sites ->
    (class_proved (ms_class s) = true /\ schema_statement (ms_class s)) \/
    In (key_of s) (map fst known_order_dependent).

Theorem all_map_sites_classified : all_map_sites_classified_statement.
Proof.
  intros s Hin.
  assert (Hok : site_ok s = true).
  { destruct (site_ok s) eqn:E; [reflexivity|].
    assert (Hoff : In s offending_sites).
    { unfold offending_sites. apply filter_In. split; [exact Hin|]. rewrite E. reflexivity. }
    rewrite offending_sites_none in Hoff. destruct Hoff. }
  unfold site_ok in Hok. apply orb_true_iff in Hok. destruct Hok as [Hc|Hl].
  - left. split; [exact Hc|apply schema_holds, Hc].
  - right. unfold listed in Hl. apply existsb_exists in Hl. destruct Hl as [e [He Heq]].
    apply in_map_iff. exists e. split; [|exact He].
    destruct e as [[[[f g] o] h] why]. unfold key_of in *. cbn [fst] in *.
    unfold site_key_eqb in Heq.
    repeat (apply andb_true_iff in Heq; destruct Heq as [Heq ?]).
    apply String.eqb_eq in Heq. apply String.eqb_eq in H1. apply Z.eqb_eq in H0. apply String.eqb_eq in H.
    subst. reflexivity.
Qed.

(* ---- ambient randomness, clock, environment, goroutines ---- *)
Definition allowed (a : ambient_site) : bool :=
  existsb (fun e => ambient_key_eqb (fst e) (akey_of a)) ambient_allow.

Definition offending_ambient : list ambient_site :=
  filter (fun a => as_reach a && negb (allowed a)) ambient_sites.

Definition stale_ambient : list ambient_key :=
  map fst (filter (fun e => negb (existsb (fun a => ambient_key_eqb (fst e) (akey_of a) && as_reach a) ambient_sites))
             ambient_allow).

Lemma offending_ambient_none : offending_ambient = [].
Proof. vm_compute. reflexivity. Qed.

Lemma stale_ambient_none : stale_ambient = [].
Proof. vm_compute. reflexivity. Qed.

(* no_ambient_randomness: no function reachable from simulation.Run uses a package-level
   math/rand function, crypto/rand, the clock, the environment or starts a goroutine, except
   the uses listed in Model/SitesAllow.v — so every random decision of a run goes through a
   *rand.Rand VALUE, and the only one a run creates is Simulation.Random = rand.New(NewSource(seed)) *)
Definition no_ambient_randomness_statement : Prop :=
  forall a, In a ambient_sites -> as_reach a = true -> allowed a = true.

Theorem no_ambient_randomness : no_ambient_randomness_statement.
Proof.
  intros a Hin Hr. destruct (allowed a) eqn:E; [reflexivity|].
  assert (Hoff : In a offending_ambient).
  { unfold offending_ambient. apply filter_In. split; [exact Hin|]. rewrite Hr, E. reflexivity. }
  rewrite offending_ambient_none in Hoff. destruct Hoff.
Qed.

(* non-vacuity: the tables are not empty (a translator that silently found nothing would
   make the obligations above trivially true) *)
Lemma tables_nonempty :
  (20 <=? Z.of_nat (List.length map_sites))%Z = true /\ (5 <=? Z.of_nat (List.length ambient_sites))%Z = true /\
  (500 <=? scanned_files)%Z = true /\ (1000 <=? reachable_functions)%Z = true.
Proof. vm_compute. repeat split; reflexivity. Qed.
