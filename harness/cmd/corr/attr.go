package main

import (
	"math"
	"strconv"
	"strings"

	"github.com/simimpact/srsim/pkg/engine/attribute"
	"github.com/simimpact/srsim/pkg/engine/event"
	"github.com/simimpact/srsim/pkg/engine/info"
	"github.com/simimpact/srsim/pkg/engine/logging"
	"github.com/simimpact/srsim/pkg/engine/prop"
	"github.com/simimpact/srsim/pkg/key"
	"github.com/simimpact/srsim/pkg/model"

	"verif/harness/term"
)

// ---- what the attribute service reads from the rest of the engine, scripted per call ----

type attrEnv struct {
	maxHP, regen, bonus    float64 // stats of the call's target
	omaxHP, oregen, obonus float64 // stats of every other unit
}

// attrEval is the modifier.Eval handed to attribute.New: the "modifier side" of a unit's
// stats is whatever the current call's env says (fresh maps on every call, NewStats mutates them).
type attrEval struct {
	target key.TargetID
	env    attrEnv
}

func (e *attrEval) EvalModifiers(target key.TargetID) *info.ModifierState {
	props := info.NewPropMap()
	if target == e.target {
		props[prop.HPBase] = e.env.maxHP
		props[prop.EnergyRegen] = e.env.regen
		props[prop.AllStanceDMGPercent] = e.env.bonus
	} else {
		props[prop.HPBase] = e.env.omaxHP
		props[prop.EnergyRegen] = e.env.oregen
		props[prop.AllStanceDMGPercent] = e.env.obonus
	}
	return &info.ModifierState{
		Props:     props,
		DebuffRES: info.NewDebuffRESMap(),
		Weakness:  info.NewWeaknessMap(),
		Flags:     nil,
		Counts:    map[model.StatusType]int{},
		Modifiers: nil,
	}
}

// listener slots, in the order of the model's record  mkLs l_hp l_limbo l_stance l_break l_reset l_energy l_sp
const (
	slotHP = iota
	slotLimbo
	slotStance
	slotBreak
	slotReset
	slotEnergy
	slotSP
	nSlots
)

type attrWorld struct {
	eval  *attrEval
	svc   attribute.Manager
	limbo bool
	evs   []term.T
	// per event of the service: the queue of scripts (lists of op terms) its listener still has to run
	queues [nSlots][]term.T
}

// react is what the one listener of every event does after recording the event: it writes down what the
// getters of the event's unit return right now, pops the next script of the slot and calls the REAL service
// again, from inside the outer call's Emit.  What the service reads from the rest of the engine (the scripted
// modifier.Eval, the LimboWaitHeal verdict) belongs to the call that is running: it is restored when a nested
// call returns.
func (w *attrWorld) react(slot int, id key.TargetID) {
	w.evs = append(w.evs, term.C("ESeen", w.snap(id)))
	q := w.queues[slot]
	if len(q) == 0 {
		return
	}
	w.queues[slot] = q[1:]
	for _, o := range term.List(q[0]) {
		env, tgt, limbo := w.eval.env, w.eval.target, w.limbo
		_, err := w.call(o)
		w.eval.env, w.eval.target, w.limbo = env, tgt, limbo
		w.evs = append(w.evs, term.C("ERet", term.I(errCode(err))))
	}
}

func keyOf(r key.Reason) int64 {
	n, err := strconv.ParseInt(string(r), 10, 64)
	if err != nil {
		panic("attr harness: event carries a key the harness never passed: " + string(r))
	}
	return n
}

func newAttrWorld() *attrWorld {
	w := &attrWorld{eval: &attrEval{}}
	sys := &event.System{}
	sys.HPChange.Subscribe(func(e event.HPChange) {
		w.evs = append(w.evs, term.C("EHP", term.I(keyOf(e.Key)), term.I(int64(e.Target)),
			term.F(e.OldHPRatio), term.F(e.NewHPRatio), term.F(e.OldHP), term.F(e.NewHP),
			term.B(e.IsHPChangeByDamage)))
		w.react(slotHP, e.Target)
	})
	sys.LimboWaitHeal.Subscribe(func(e event.LimboWaitHeal) bool {
		w.evs = append(w.evs, term.C("ELimbo", term.I(int64(e.Target))))
		w.react(slotLimbo, e.Target)
		return w.limbo
	}, 1)
	sys.EnergyChange.Subscribe(func(e event.EnergyChange) {
		w.evs = append(w.evs, term.C("EEnergy", term.I(keyOf(e.Key)), term.I(int64(e.Target)),
			term.I(int64(e.Source)), term.F(e.OldEnergy), term.F(e.NewEnergy)))
		w.react(slotEnergy, e.Target)
	})
	sys.StanceChange.Subscribe(func(e event.StanceChange) {
		w.evs = append(w.evs, term.C("EStance", term.I(keyOf(e.Key)), term.I(int64(e.Target)),
			term.I(int64(e.Source)), term.F(e.OldStance), term.F(e.NewStance)))
		w.react(slotStance, e.Target)
	})
	sys.StanceBreak.Subscribe(func(e event.StanceBreak) {
		w.evs = append(w.evs, term.C("EBreak", term.I(keyOf(e.Key)), term.I(int64(e.Target)),
			term.I(int64(e.Source))))
		w.react(slotBreak, e.Target)
	})
	sys.StanceReset.Subscribe(func(e event.StanceReset) {
		w.evs = append(w.evs, term.C("EReset", term.I(keyOf(e.Key)), term.I(int64(e.Target))))
		w.react(slotReset, e.Target)
	})
	sys.SPChange.Subscribe(func(e event.SPChange) {
		w.evs = append(w.evs, term.C("ESP", term.I(keyOf(e.Key)), term.I(int64(e.Source)),
			term.I(int64(e.OldSP)), term.I(int64(e.NewSP))))
		w.react(slotSP, e.Source)
	})
	w.svc = attribute.New(sys, w.eval)
	return w
}

func stateName(s info.TargetState) term.T {
	switch s {
	case info.Invalid:
		return term.C("Invalid")
	case info.Dead:
		return term.C("Dead")
	case info.Limbo:
		return term.C("Limbo")
	case info.Alive:
		return term.C("Alive")
	}
	panic("attr harness: unknown target state")
}

func (w *attrWorld) snap(id key.TargetID) term.T {
	s := w.svc
	return term.C("mkSnap", term.F(s.HPRatio(id)), term.F(s.Energy(id)), term.F(s.MaxEnergy(id)),
		term.F(s.Stance(id)), term.F(s.MaxStance(id)), stateName(s.State(id)),
		term.I(int64(s.LastAttacker(id))), term.I(int64(s.SP())))
}

func errCode(err error) int64 {
	switch {
	case err == nil:
		return 0
	case strings.HasPrefix(err.Error(), "unknown target"):
		return 1
	case strings.HasPrefix(err.Error(), "target base stats already registered"):
		return 2
	case strings.HasPrefix(err.Error(), "unknown ratio type"):
		return 3
	}
	return 99
}

type attrCall struct {
	key            key.Reason
	target, source key.TargetID
}

// mkCall (mkEnv maxHP regen bonus omaxHP oregen obonus) key target source limbo
func (w *attrWorld) enter(c term.T) attrCall {
	_, a := term.Ctor(c)
	_, e := term.Ctor(a[0])
	w.eval.env = attrEnv{term.Float(e[0]), term.Float(e[1]), term.Float(e[2]),
		term.Float(e[3]), term.Float(e[4]), term.Float(e[5])}
	ac := attrCall{
		key:    key.Reason(strconv.FormatInt(term.Int(a[1]), 10)),
		target: key.TargetID(term.Int(a[2])),
		source: key.TargetID(term.Int(a[3])),
	}
	w.eval.target = ac.target
	w.limbo = term.Bool(a[4])
	return ac
}

func (c attrCall) mod(amount float64) info.ModifyAttribute {
	return info.ModifyAttribute{Key: c.key, Target: c.target, Source: c.source, Amount: amount}
}

// call performs one op term on the real service and returns the error and the id whose getters are read
// after a top-level op
func (w *attrWorld) call(o term.T) (tgt key.TargetID, err error) {
	name, a := term.Ctor(o)
	switch name {
	case "OAdd":
		tgt = key.TargetID(term.Int(a[0]))
		err = w.svc.AddTarget(tgt, info.Attributes{
			Level:         1,
			BaseStats:     nil,
			BaseDebuffRES: nil,
			Weakness:      nil,
			HPRatio:       term.Float(a[1]),
			Energy:        term.Float(a[2]),
			MaxEnergy:     term.Float(a[3]),
			Stance:        term.Float(a[4]),
			MaxStance:     term.Float(a[5]),
		})
	case "OSetHP":
		c := w.enter(a[0])
		tgt = c.target
		err = w.svc.SetHP(c.mod(term.Float(a[1])), term.Bool(a[2]))
	case "OModHPAmount":
		c := w.enter(a[0])
		tgt = c.target
		err = w.svc.ModifyHPByAmount(c.mod(term.Float(a[1])), term.Bool(a[2]))
	case "OModHPRatio":
		c := w.enter(a[0])
		tgt = c.target
		err = w.svc.ModifyHPByRatio(info.ModifyHPByRatio{
			Key: c.key, Target: c.target, Source: c.source,
			Ratio:     term.Float(a[1]),
			RatioType: model.ModifyHPRatioType(term.Int(a[2])),
			Floor:     term.Float(a[3]),
		}, term.Bool(a[4]))
	case "OSetStance":
		c := w.enter(a[0])
		tgt = c.target
		err = w.svc.SetStance(c.mod(term.Float(a[1])))
	case "OModStance":
		c := w.enter(a[0])
		tgt = c.target
		err = w.svc.ModifyStance(c.mod(term.Float(a[1])))
	case "OSetEnergy":
		c := w.enter(a[0])
		tgt = c.target
		err = w.svc.SetEnergy(c.mod(term.Float(a[1])))
	case "OModEnergy":
		c := w.enter(a[0])
		tgt = c.target
		err = w.svc.ModifyEnergy(c.mod(term.Float(a[1])))
	case "OModEnergyFixed":
		c := w.enter(a[0])
		tgt = c.target
		err = w.svc.ModifyEnergyFixed(c.mod(term.Float(a[1])))
	case "OModSP":
		tgt = key.TargetID(term.Int(a[1]))
		err = w.svc.ModifySP(info.ModifySP{
			Key:    key.Reason(strconv.FormatInt(term.Int(a[0]), 10)),
			Source: tgt,
			Amount: int(term.Int(a[2])),
		})
	default:
		panic("attr harness: unknown op " + name)
	}
	return tgt, err
}

// input: (mkLs <7 queues of scripts>, <top-level ops>)
func attrInput(in term.T) (queues []term.T, ops []term.T) {
	parts := term.TupleItems(in)
	if len(parts) != 2 {
		panic("attr harness: input is not a pair (listeners, ops)")
	}
	name, qs := term.Ctor(parts[0])
	if name != "mkLs" || len(qs) != nSlots {
		panic("attr harness: malformed listener table")
	}
	return qs, term.List(parts[1])
}

func runAttr(in term.T) term.T {
	logging.InitLoggers()
	w := newAttrWorld()
	qs, ops := attrInput(in)
	for i := 0; i < nSlots; i++ {
		w.queues[i] = term.List(qs[i])
	}
	results := []term.T{}
	for _, o := range ops {
		w.evs = nil
		w.limbo = false
		tgt, err := w.call(o)
		results = append(results, term.C("mkRes", term.L(w.evs...), term.I(errCode(err)), w.snap(tgt)))
	}
	final := []term.T{}
	for id := 1; id <= 4; id++ {
		final = append(final, w.snap(key.TargetID(id)))
	}
	return term.C("Obs", term.L(results...), term.L(final...))
}

// ---- generator ----

// per-unit facts the generator remembers so that amounts can be exact boundaries
type genUnit struct {
	id                   int64
	maxHP                float64
	maxEnergy, maxStance float64
}

func pickF(r *term.Rng, xs ...float64) float64 { return xs[r.Intn(len(xs))] }

// a finite amount: half of the time a boundary of [0,hi] (exact, one ulp off, overshooting
// both ways, signed zeros), otherwise small "round" numbers whose sums hit the bounds exactly
func genAmount(r *term.Rng, hi float64) float64 {
	v := genAmountRaw(r, hi)
	if math.IsInf(v, 0) || math.IsNaN(v) {
		return hi
	}
	return v
}

func genAmountRaw(r *term.Rng, hi float64) float64 {
	switch r.Intn(10) {
	case 0:
		return pickF(r, 0, math.Copysign(0, -1))
	case 1:
		return pickF(r, hi, -hi)
	case 2:
		return pickF(r, math.Nextafter(hi, math.Inf(1)), math.Nextafter(hi, math.Inf(-1)),
			-math.Nextafter(hi, math.Inf(1)), -math.Nextafter(hi, math.Inf(-1)))
	case 3:
		return pickF(r, 2*hi, -2*hi, hi/2, -hi/2, hi+1, -(hi + 1))
	case 4:
		return pickF(r, math.MaxFloat64, -math.MaxFloat64, 1e308, -1e308, 5e-324, -5e-324, 1e-9, -1e-9)
	case 5, 6:
		return float64(r.Range(-12, 12)) * 10
	case 7:
		return float64(r.Range(-8, 8)) * 0.25 * hi
	case 8:
		return float64(r.Range(-40, 40)) * 0.125
	default:
		return (r.Float01()*3 - 1.5) * (hi + 1)
	}
}

func genScale(r *term.Rng) float64 {
	// energy regen / stance damage bonus: 0 most of the time so that sums stay exact
	switch r.Intn(8) {
	case 0:
		return pickF(r, 0.5, 0.25, 1)
	case 1:
		return pickF(r, -1, -0.5, -2, math.Copysign(0, -1))
	case 2:
		return pickF(r, 0.194, 0.1, 1e300, -1e300, 1e-300)
	default:
		return 0
	}
}

func genMaxHP(r *term.Rng) float64 {
	return pickF(r, 100, 100, 100, 1000, 1, 3, 0.1, 1234.5678, 5e-324, 1e-300, 1e300, math.MaxFloat64)
}

// attrGen is the state of one generated case
type attrGen struct {
	r      *term.Rng
	ids    []int64
	nUnits int
	units  map[int64]*genUnit
}

func (g *attrGen) unit(tid int64) *genUnit {
	if u, ok := g.units[tid]; ok {
		return u
	}
	return &genUnit{id: tid, maxHP: 100, maxEnergy: 100, maxStance: 60}
}

// one call of kind 0 hp, 1 energy, 2 stance, 3 sp on unit tid; [amt] draws the amounts
func (g *attrGen) op(tid int64, kind int, amt func(r *term.Rng, hi float64) float64) term.T {
	r := g.r
	u := g.unit(tid)
	src := int64(r.Range(1, 4))
	maxHP := u.maxHP
	if r.Chance(1, 6) {
		maxHP = genMaxHP(r) // max HP changed since the last call
	}
	// The stance damage bonus is the same for every unit during a call: whose bonus scales
	// ModifyStance (engine.go documents the source's, the code read the target's) is
	// property C04's subject, and C07 must hold either way.  Max HP and energy regen of the
	// other units differ from the target's, so reading the wrong party's stats is seen.
	bonus := genScale(r)
	env := term.C("mkEnv", term.F(maxHP), term.F(genScale(r)), term.F(bonus),
		term.F(pickF(r, 7, 50, 1e6)), term.F(pickF(r, 0.3, 2, -0.75)), term.F(bonus))
	call := term.C("mkCall", env, term.I(int64(r.Intn(4))), term.I(tid), term.I(src), term.B(r.Chance(1, 3)))
	switch kind {
	case 0:
		switch r.Intn(4) {
		case 0:
			return term.C("OSetHP", call, term.F(amt(r, maxHP)), term.B(r.Bool()))
		case 1:
			return term.C("OModHPAmount", call, term.F(amt(r, maxHP)), term.B(r.Bool()))
		default:
			ratio := pickF(r, -0.1, -0.25, -0.5, -0.5, -0.75, -1, -1, -2, 0.1, 0.25, 0.5, 1, 2, 0,
				math.Copysign(0, -1), -0.999, -1e-9, 1e308, -1e308)
			if r.Chance(1, 6) {
				ratio = r.Float01()*4 - 2
			}
			floor := pickF(r, 0, 0, 0, 1, 1, maxHP/10, maxHP/4, maxHP/2, maxHP, 2*maxHP, -1, -maxHP/2, -1e9,
				-math.MaxFloat64, math.MaxFloat64, math.Copysign(0, -1))
			if math.IsInf(floor, 0) {
				floor = maxHP
			}
			rt := int64(r.Range(1, 2))
			if r.Chance(1, 25) {
				rt = int64(pickF(r, 0, 3, -1))
			}
			return term.C("OModHPRatio", call, term.F(ratio), term.I(rt), term.F(floor), term.B(r.Bool()))
		}
	case 1:
		name := term.Pick(r, []string{"OSetEnergy", "OModEnergy", "OModEnergyFixed", "OModEnergyFixed"})
		return term.C(name, call, term.F(amt(r, u.maxEnergy)))
	case 2:
		name := term.Pick(r, []string{"OSetStance", "OModStance", "OModStance"})
		return term.C(name, call, term.F(amt(r, u.maxStance)))
	default:
		a := int64(r.Range(-3, 3))
		if r.Chance(1, 5) {
			a = term.Pick(r, []int64{5, -5, 6, -6, 100, -100, math.MaxInt64, math.MinInt64,
				math.MaxInt64 - 4, math.MinInt64 + 1})
		}
		return term.C("OModSP", term.I(int64(r.Intn(4))), term.I(src), term.I(a))
	}
}

// amounts of calls issued from listeners: the bounds and the middle of [0,hi] (so that a listener undoes,
// repeats or anticipates what the outer call is doing), signed so that Modify* crosses them both ways
func scriptAmount(r *term.Rng, hi float64) float64 {
	if r.Chance(1, 4) {
		return genAmount(r, hi)
	}
	return pickF(r, 0, 0, hi, hi, -hi, -hi, hi/2, -hi/2, hi/4, 2*hi, -2*hi, math.Copysign(0, -1))
}

// the quantity an event slot is about (kind numbering of attrGen.op)
var slotKind = [nSlots]int{slotHP: 0, slotLimbo: 0, slotStance: 2, slotBreak: 2, slotReset: 2, slotEnergy: 1, slotSP: 3}

// listener scripts: per slot a queue of 0-3 scripts of mostly 0-2 calls; at most [budget] scripts per case
// (every listener invocation consumes one, so the nesting depth and the recorded output stay small).
// A script mostly works on the hot unit (the one the top-level calls work on) and on the quantity its
// event is about: it re-triggers the same event, undoes / anticipates the outer call's change, or uses the
// same key again.
func (g *attrGen) listeners(hot int64, focus int) term.T {
	r := g.r
	budget := r.Range(1, 9)
	qs := make([][]term.T, nSlots)
	for budget > 0 {
		sl := r.Intn(nSlots)
		if focus < 4 && r.Chance(2, 3) {
			// a slot whose event the focused quantity fires
			switch focus {
			case 0:
				sl = term.Pick(r, []int{slotHP, slotHP, slotLimbo})
			case 1:
				sl = slotEnergy
			case 2:
				sl = term.Pick(r, []int{slotStance, slotBreak, slotBreak, slotReset})
			default:
				sl = slotSP
			}
		}
		if len(qs[sl]) >= 3 {
			budget--
			continue
		}
		n := term.Pick(r, []int{0, 1, 1, 1, 2, 2, 3})
		sc := []term.T{}
		for i := 0; i < n; i++ {
			kind := slotKind[sl]
			if r.Chance(1, 4) {
				kind = r.Intn(4)
			}
			tid := hot
			if r.Chance(1, 6) {
				tid = int64(r.Range(1, 4))
			}
			sc = append(sc, g.op(tid, kind, scriptAmount))
		}
		qs[sl] = append(qs[sl], term.L(sc...))
		budget--
	}
	ls := make([]term.T, nSlots)
	for i := range qs {
		ls[i] = term.L(qs[i]...)
	}
	return term.C("mkLs", ls...)
}

func genAttr(r *term.Rng, idx int) term.T {
	g := &attrGen{r: r, ids: []int64{1, 2, 3}, units: map[int64]*genUnit{}}
	ops := []term.T{}
	addUnit := func(id int64) {
		u := &genUnit{id: id, maxHP: genMaxHP(r)}
		u.maxEnergy = pickF(r, 0, 100, 100, 120, 140, 5, 0.5)
		u.maxStance = pickF(r, 0, 30, 60, 60, 90, 1, 0.25)
		hp := pickF(r, 1, 1, 1, 0.5, 0.25, 0, math.Copysign(0, -1), -1, 5e-324, 0.999)
		en := u.maxEnergy
		switch r.Intn(4) {
		case 0:
			en = 0
		case 1:
			en = u.maxEnergy / 2
		case 2:
			en = u.maxEnergy + 10 // AddTarget clamps
		}
		st := u.maxStance
		switch r.Intn(4) {
		case 0:
			st = 0
		case 1:
			st = u.maxStance / 2
		}
		if _, dup := g.units[id]; !dup {
			g.units[id] = u
		}
		ops = append(ops, term.C("OAdd", term.I(id), term.F(hp), term.F(en), term.F(u.maxEnergy),
			term.F(st), term.F(u.maxStance)))
	}
	g.nUnits = r.Range(1, 3)
	for i := 0; i < g.nUnits; i++ {
		addUnit(g.ids[i])
	}
	// a case concentrates on few quantities so that consecutive calls chain
	focus := r.Intn(5) // 0 hp, 1 energy, 2 stance, 3 sp, 4 everything
	// two cases in three have re-entrant listeners; they have fewer top-level calls, most of them on one
	// unit, which is also the unit the listener scripts work on
	reentrant := !r.Chance(1, 3)
	hot := term.Pick(r, g.ids[:g.nUnits])
	nops := r.Range(2, 30)
	if reentrant {
		nops = r.Range(1, 12)
	}
	for len(ops) < g.nUnits+nops {
		if r.Chance(1, 25) {
			addUnit(term.Pick(r, g.ids)) // late or duplicate registration
			continue
		}
		tid := term.Pick(r, g.ids[:g.nUnits])
		if reentrant && r.Chance(2, 3) {
			tid = hot
		}
		if r.Chance(1, 20) {
			tid = int64(r.Range(1, 4)) // possibly unknown
		}
		kind := focus
		if focus == 4 || r.Chance(1, 5) {
			kind = r.Intn(4)
		}
		amt := genAmount
		if reentrant && r.Chance(1, 2) {
			amt = scriptAmount
		}
		ops = append(ops, g.op(tid, kind, amt))
	}
	ls := term.C("mkLs", term.L(), term.L(), term.L(), term.L(), term.L(), term.L(), term.L())
	if reentrant {
		ls = g.listeners(hot, focus)
	}
	return term.Tup(ls, term.L(ops...))
}

func kindsAttr(in term.T) map[string]int {
	m := map[string]int{}
	qs, ops := attrInput(in)
	for _, o := range ops {
		n, a := term.Ctor(o)
		m[n]++
		if n == "OModHPRatio" {
			if term.Float(a[3]) < 0 {
				m["ratio_negative_floor"]++
			} else if term.Float(a[3]) > 0 {
				m["ratio_positive_floor"]++
			}
		}
	}
	names := [nSlots]string{"hp", "limbo", "stance", "break", "reset", "energy", "sp"}
	total := 0
	for i, q := range qs {
		for _, sc := range term.List(q) {
			total++
			m["script_"+names[i]]++
			m["script_ops"] += len(term.List(sc))
		}
	}
	if total > 0 {
		m["case_with_listeners"]++
	}
	return m
}

func init() {
	register("attr", component{gen: genAttr, run: runAttr, kinds: kindsAttr})
}
