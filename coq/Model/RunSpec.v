(* Run description terms exchanged with the harness components `isolation` (C15) and `sweep`
   (C20): a team of characters with equipment, enemies, cycle limit, gcs script, seed --
   everything by name and number -- and the observation of one execution of simulation.Run.
   See harness/cmd/corr/content.go for the Go side. *)
From Coq Require Import List ZArith Bool String.
From SR Require Import Base.CaseLib Base.GlobalTypes.
Import ListNotations.
Open Scope Z_scope.

Inductive relspec := Rel (key : string) (pieces : Z).
Inductive lcspec := LC (key : string) (level maxlevel imposition : Z).
Inductive chspec :=
  Ch (key : string) (level maxlevel eidolon : Z) (traces : list string)
     (attack skill ult talent : Z) (cone : lcspec) (relics : list relspec) (energy hp : Z)
     (script : string).          (* the character's fragment of the gcs script *)
Inductive enspec :=
  En (key : string) (level hp atk spd : Z) (attack : string) (hits dmg : Z) (dtype : string)
     (weak : list Z)
     (rank stance : Z).          (* enemy rank override (0 = the enemy's own) and base toughness (0 = none given) *)
Inductive runspec :=
  RS (chars : list chspec) (enemies : list enspec) (cycles : Z) (script : string) (seed : Z).

(* status 0 = an iteration result was returned, 1 = an error was returned, 2 = panic,
   3 = watchdog abort (event count / wall time), 4 = the script does not parse;
   events = number of events logged; loghash covers every field of every event; reshash the
   iteration result; last = type name of the last event logged; msg = error / panic text *)
Inductive obs := Obs (status events loghash reshash : Z) (last msg : string).

Definition ob_status (o : obs) : Z := let '(Obs s _ _ _ _ _) := o in s.
Definition ob_events (o : obs) : Z := let '(Obs _ n _ _ _ _) := o in n.
Definition ob_last (o : obs) : string := let '(Obs _ _ _ _ l _) := o in l.

(* equality of everything the properties talk about (the message text is diagnostic only) *)
Definition obs_eqb (a b : obs) : bool :=
  let '(Obs s n h r l _) := a in
  let '(Obs s' n' h' r' l' _) := b in
  (s =? s') && (n =? n') && (h =? h') && (r =? r') && str_eqb l l'.

Definition ch_key (c : chspec) : string := let '(Ch k _ _ _ _ _ _ _ _ _ _ _ _ _) := c in k.
Definition ch_cone (c : chspec) : string :=
  let '(Ch _ _ _ _ _ _ _ _ _ (LC k _ _ _) _ _ _ _) := c in k.
Definition ch_relics (c : chspec) : list string :=
  let '(Ch _ _ _ _ _ _ _ _ _ _ rs _ _ _) := c in map (fun r => let '(Rel k _) := r in k) rs.
Definition en_key (e : enspec) : string := let '(En k _ _ _ _ _ _ _ _ _ _ _) := e in k.
