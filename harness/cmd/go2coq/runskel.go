package main

// RunSkeleton: the source-to-Coq translator for the RUN LOOP SKELETON of pkg/simulation — the "way 1" tie of
// DESIGN.md section 2 for run.go (Run, initialize, startBattle, engage, beginTurn, phase1, action, phase2, endTurn,
// exitCheck), action.go (InsertAction / InsertAbility / InsertUlt, ultCheck, executeQueue, executeAction, executeUlt,
// executeInsert, clearActionTargets) and death.go (deathCheck, kill, deathEvent).
//
//	go2coq RunSkeleton -repo <path>  > coq/Gen/RunSkeleton.v
//
// The output is DATA (types in coq/Model/SimSkeleton.v), not Gallina code: for EVERY function declared in the three
// files, in file and source order, its parameter and result lists (as text) and the ORDERED list of the steps of
// its body.  No statement is skipped: a statement is either one of the shapes below or the translator exits 1 naming
// file:line.  Expressions (conditions, arguments, event payloads, right-hand sides) are kept as normalised source
// text (go/printer, white space collapsed), so a changed guard, argument, payload field or next state changes the table.
//
//	SkEmit "X" [payload]           sim.Event.X.Emit(event.X{Field: expr, ...})   payload = ["Field: expr"; ...]
//	SkCall "f" [args]              any other call used as a statement           (sim.deathCheck(false), sim.Modifier.Tick(..), ...)
//	SkBind [lhs] tok "f" [args]    lhs := f(args) | lhs = f(args)               (one call on the right-hand side)
//	SkAssign [lhs] tok [rhs]       any other assignment, x++ / x-- (tok "++" / "--", rhs [])
//	SkVar "x" "T"                  var x T
//	SkIf [init] "cond" then else   if [init;] cond { then } [else { else }]     (else-if = an else holding one SkIf)
//	SkFor [init] "cond" [post] body      for [init]; [cond]; [post] { body }
//	SkRange [key; value] tok "over" body for key, value := range over { body }
//	SkSwitch "tag" [(["case exprs"], body); ...]   switch [tag] { case a, b: ... default: ... }   (default = ["default"]; no init, no fallthrough)
//	SkContinue | SkBreak           without label
//	SkReturnCall "f" [args]        return f(args)                                (one call whose callee is not on the pure list: a tail call)
//	SkReturn [values]              any other return
//
// PURITY GATE.  A call NESTED inside an expression (a condition, an argument, a payload field, a right-hand side that is
// not itself a single call, a returned value) must resolve (go/types) to a builtin, a type conversion or a function on
// the list `pureCalls` below (queries of the simulation and its services that have no effect on the battle); any other
// nested call is refused.  So an effectful call can only ever appear as a step of its own.  A function literal may only
// appear as the value of a composite-literal field (the `Execute:` closures of the Insert* functions); its text is part
// of the table, its body is not executed where it stands and is therefore not gated.
//
// Also emitted: `consts`, the value of every integer constant that occurs in the translated functions as a qualified
// identifier (info.ActionEnd, info.InsertAbilityPhase1, model.BehaviorFlag_DISABLE_ACTION, ...), as computed by go/types.
//
// NOT TRANSLATED (hand-written in Model/Sim.v, tied by correspondence only): everything the called functions do that
// is not in the three files (the services: turn manager, attribute service, modifier manager, queue, character and
// enemy managers, the event system, sim.createSnapshot, sim.CanUseUlt, sim.IsValid / IsCharacter / IsEnemy / onField ...).

import (
	"fmt"
	"go/ast"
	"go/constant"
	"go/token"
	"go/types"
	"sort"
	"strings"

	"golang.org/x/tools/go/packages"
)

var runSkelFiles = []string{"run.go", "action.go", "death.go"}

// calls that may be nested inside an expression: queries without an effect on the battle state
var pureCalls = map[string]bool{
	"(*github.com/simimpact/srsim/pkg/simulation.Simulation).IsValid":              true,
	"(*github.com/simimpact/srsim/pkg/simulation.Simulation).IsCharacter":          true,
	"(*github.com/simimpact/srsim/pkg/simulation.Simulation).IsEnemy":              true,
	"(*github.com/simimpact/srsim/pkg/simulation.Simulation).HasBehaviorFlag":      true,
	"(*github.com/simimpact/srsim/pkg/simulation.Simulation).onField":              true,
	"(*github.com/simimpact/srsim/pkg/simulation.Simulation).kill":                 true,
	"(github.com/simimpact/srsim/pkg/engine/attribute.Getter).State":               true,
	"(github.com/simimpact/srsim/pkg/engine/attribute.Getter).Stance":              true,
	"(github.com/simimpact/srsim/pkg/engine/attribute.Getter).MaxStance":           true,
	"(github.com/simimpact/srsim/pkg/engine/attribute.Getter).LastAttacker":        true,
	"(github.com/simimpact/srsim/pkg/engine/turn.Manager).TotalAV":                 true,
	"(github.com/simimpact/srsim/pkg/engine/queue.Handler).IsEmpty":                true,
	"(*github.com/simimpact/srsim/pkg/engine/queue.Handler).IsEmpty":               true,
	"(*github.com/simimpact/srsim/pkg/engine/target/character.Manager).Characters": true,
	"(*github.com/simimpact/srsim/pkg/engine/target/enemy.Manager).Enemies":        true,
	"(*github.com/simimpact/srsim/pkg/model.SimConfig).GetSettings":                true,
	"(*github.com/simimpact/srsim/pkg/model.SimulatorSettings).GetCycleLimit":      true,
	"(github.com/simimpact/srsim/pkg/model.AttackType).String":                     true,
	"fmt.Errorf":      true,
	"strings.ToLower": true,
}

type rsgen struct {
	src    *fsrc
	pkg    *packages.Package
	info   *types.Info
	consts map[string]string
	// the three fields below are set by other users of the step translator (stacking.go); zero = RunSkeleton
	pure        map[string]bool // calls allowed nested inside an expression (nil = pureCalls)
	failNote    string          // "<Generator>: " prefix and trailing hint of fail (empty = RunSkeleton's)
	localConsts bool            // also record integer constants of the translated package named by a bare identifier
}

func (g *rsgen) fail(n ast.Node, f string, a ...any) {
	if g.failNote != "" {
		die("%s", fmt.Sprintf(g.failNote, g.src.pos(n), fmt.Sprintf(f, a...)))
	}
	die("RunSkeleton: %s: %s\n  (pkg/simulation/{run,action,death}.go left the shapes the run-skeleton translator recognises; see the head of harness/cmd/go2coq/runskel.go)",
		g.src.pos(n), fmt.Sprintf(f, a...))
}

func (g *rsgen) text(n ast.Node) string { return nodeText(g.src.fset, n) }

// gate checks every call nested in e (e itself included) and records constants; returns the text of e
func (g *rsgen) gate(e ast.Expr) string {
	if e == nil {
		return ""
	}
	g.walkExpr(e, false)
	return g.text(e)
}

func (g *rsgen) walkExpr(e ast.Expr, inLitField bool) {
	switch x := e.(type) {
	case nil:
		return
	case *ast.FuncLit:
		if !inLitField {
			g.fail(x, "function literal outside a composite-literal field")
		}
		return
	case *ast.CallExpr:
		g.checkPure(x)
		g.walkExpr(x.Fun, false)
		for _, a := range x.Args {
			g.walkExpr(a, false)
		}
	case *ast.CompositeLit:
		for _, el := range x.Elts {
			if kv, ok := el.(*ast.KeyValueExpr); ok {
				g.walkExpr(kv.Value, true)
			} else {
				g.walkExpr(el, false)
			}
		}
	case *ast.SelectorExpr:
		g.noteConst(x)
		g.walkExpr(x.X, false)
	case *ast.Ident:
		if g.localConsts {
			if c, ok := g.info.Uses[x].(*types.Const); ok && c.Pkg() == g.pkg.Types && c.Val().Kind() == constant.Int {
				g.consts[x.Name] = c.Val().ExactString()
			}
		}
	case *ast.BasicLit:
	case *ast.BinaryExpr:
		g.walkExpr(x.X, false)
		g.walkExpr(x.Y, false)
	case *ast.UnaryExpr:
		if x.Op == token.ARROW {
			g.fail(x, "channel receive")
		}
		g.walkExpr(x.X, false)
	case *ast.ParenExpr:
		g.walkExpr(x.X, false)
	case *ast.IndexExpr:
		g.walkExpr(x.X, false)
		g.walkExpr(x.Index, false)
	case *ast.SliceExpr:
		g.walkExpr(x.X, false)
		g.walkExpr(x.Low, false)
		g.walkExpr(x.High, false)
		g.walkExpr(x.Max, false)
	case *ast.StarExpr:
		g.walkExpr(x.X, false)
	case *ast.ArrayType, *ast.MapType:
	default:
		g.fail(e, "expression form %T", e)
	}
}

func (g *rsgen) noteConst(x *ast.SelectorExpr) {
	tv, ok := g.info.Types[x]
	if !ok || tv.Value == nil || tv.Value.Kind() != constant.Int {
		return
	}
	if id, ok := x.X.(*ast.Ident); ok {
		if _, isPkg := g.info.Uses[id].(*types.PkgName); isPkg {
			g.consts[g.text(x)] = tv.Value.ExactString()
		}
	}
}

func (g *rsgen) calleeName(c *ast.CallExpr) (name string, pure bool) {
	if tv, ok := g.info.Types[c.Fun]; ok && tv.IsType() {
		return "conversion", true
	}
	var id *ast.Ident
	switch f := c.Fun.(type) {
	case *ast.Ident:
		id = f
	case *ast.SelectorExpr:
		id = f.Sel
	default:
		return g.text(c.Fun), false
	}
	switch o := g.info.Uses[id].(type) {
	case *types.Builtin:
		return o.Name(), true
	case *types.Func:
		if g.pure != nil {
			return o.FullName(), g.pure[o.FullName()]
		}
		return o.FullName(), pureCalls[o.FullName()]
	}
	return g.text(c.Fun), false
}

func (g *rsgen) checkPure(c *ast.CallExpr) {
	if name, pure := g.calleeName(c); !pure {
		g.fail(c, "call of %s nested inside an expression: not on the list of effect-free queries (an effectful call must be a statement of its own)", name)
	}
}

func (g *rsgen) args(c *ast.CallExpr) string {
	out := []string{}
	for _, a := range c.Args {
		t := g.gate(a)
		out = append(out, t)
	}
	if c.Ellipsis.IsValid() && len(out) > 0 && !strings.HasSuffix(out[len(out)-1], "...") {
		out[len(out)-1] += "..."
	}
	return rsStrList(out)
}

func rsIn(s string) string { return strings.ReplaceAll(s, "\n", "\n  ") }

func rsStrList(p []string) string {
	q := make([]string, len(p))
	for i, s := range p {
		q[i] = coqStr(s)
	}
	return "[" + strings.Join(q, "; ") + "]"
}

// callFun: text of the callee; the receiver chain must itself be call-free or pure
func (g *rsgen) callFun(c *ast.CallExpr) string {
	g.walkExpr(c.Fun, false)
	return g.text(c.Fun)
}

// sim.Event.X.Emit(event.X{...})
func (g *rsgen) emitShape(c *ast.CallExpr) (string, string, bool) {
	sel, ok := c.Fun.(*ast.SelectorExpr)
	if !ok || sel.Sel.Name != "Emit" {
		return "", "", false
	}
	ev, ok := sel.X.(*ast.SelectorExpr)
	if !ok {
		return "", "", false
	}
	if evs, ok := ev.X.(*ast.SelectorExpr); !ok || g.text(evs) != "sim.Event" {
		return "", "", false
	}
	if len(c.Args) != 1 {
		g.fail(c, "Emit with %d arguments", len(c.Args))
	}
	lit, ok := c.Args[0].(*ast.CompositeLit)
	if !ok || g.text(lit.Type) != "event."+ev.Sel.Name {
		g.fail(c, "Emit whose argument is not the composite literal event.%s{...}", ev.Sel.Name)
	}
	fields := []string{}
	for _, el := range lit.Elts {
		kv, ok := el.(*ast.KeyValueExpr)
		if !ok {
			g.fail(el, "positional field in an event payload")
		}
		g.walkExpr(kv.Value, true)
		fields = append(fields, g.text(kv.Key)+": "+g.text(kv.Value))
	}
	return ev.Sel.Name, rsStrList(fields), true
}

func (g *rsgen) exprList(es []ast.Expr) string {
	out := []string{}
	for _, e := range es {
		out = append(out, g.gate(e))
	}
	return rsStrList(out)
}

func (g *rsgen) simple(s ast.Stmt) []string {
	if s == nil {
		return nil
	}
	return g.stmt(s)
}

func (g *rsgen) block(b *ast.BlockStmt) string {
	if b == nil {
		return "[]"
	}
	return g.steps(b.List)
}

func (g *rsgen) steps(l []ast.Stmt) string {
	out := []string{}
	for _, s := range l {
		out = append(out, g.stmt(s)...)
	}
	return rsList(out)
}

// a list of steps: short lists on one line, longer ones one step per line (indentation is added by rsIndent)
func rsList(out []string) string {
	if len(out) == 0 {
		return "[]"
	}
	one := "[" + strings.Join(out, "; ") + "]"
	if len(out) == 1 && len(one) <= 100 && !strings.Contains(one, "\n") {
		return one
	}
	for i := range out {
		out[i] = strings.ReplaceAll(out[i], "\n", "\n  ")
	}
	return "[ " + strings.Join(out, ";\n  ") + " ]"
}

func (g *rsgen) stmt(s ast.Stmt) []string {
	switch x := s.(type) {
	case *ast.ExprStmt:
		c, ok := x.X.(*ast.CallExpr)
		if !ok {
			g.fail(s, "expression statement that is not a call")
		}
		if ev, payload, ok := g.emitShape(c); ok {
			return []string{fmt.Sprintf("SkEmit %s %s", coqStr(ev), payload)}
		}
		return []string{fmt.Sprintf("SkCall %s %s", coqStr(g.callFun(c)), g.args(c))}
	case *ast.AssignStmt:
		tok := x.Tok.String()
		if len(x.Rhs) == 1 {
			if c, ok := x.Rhs[0].(*ast.CallExpr); ok {
				return []string{fmt.Sprintf("SkBind %s %s %s %s", g.exprList(x.Lhs), coqStr(tok), coqStr(g.callFun(c)), g.args(c))}
			}
		}
		return []string{fmt.Sprintf("SkAssign %s %s %s", g.exprList(x.Lhs), coqStr(tok), g.exprList(x.Rhs))}
	case *ast.IncDecStmt:
		return []string{fmt.Sprintf("SkAssign %s %s []", g.exprList([]ast.Expr{x.X}), coqStr(x.Tok.String()))}
	case *ast.DeclStmt:
		gd, ok := x.Decl.(*ast.GenDecl)
		if !ok || gd.Tok != token.VAR {
			g.fail(s, "declaration statement other than var")
		}
		out := []string{}
		for _, sp := range gd.Specs {
			vs := sp.(*ast.ValueSpec)
			if len(vs.Values) != 0 || vs.Type == nil {
				g.fail(s, "var with an initialiser or without a type")
			}
			for _, n := range vs.Names {
				out = append(out, fmt.Sprintf("SkVar %s %s", coqStr(n.Name), coqStr(g.text(vs.Type))))
			}
		}
		return out
	case *ast.IfStmt:
		init := rsList(g.simple(x.Init))
		els := "[]"
		switch e := x.Else.(type) {
		case nil:
		case *ast.BlockStmt:
			els = g.block(e)
		case *ast.IfStmt:
			els = rsList(g.stmt(e))
		default:
			g.fail(s, "else branch of unknown form")
		}
		return []string{fmt.Sprintf("SkIf %s %s\n  %s\n  %s", init, coqStr(g.gate(x.Cond)), rsIn(g.block(x.Body)), rsIn(els))}
	case *ast.ForStmt:
		init := rsList(g.simple(x.Init))
		post := rsList(g.simple(x.Post))
		return []string{fmt.Sprintf("SkFor %s %s %s\n  %s", init, coqStr(g.gate(x.Cond)), post, rsIn(g.block(x.Body)))}
	case *ast.RangeStmt:
		kv := []string{}
		if x.Key != nil {
			kv = append(kv, g.text(x.Key))
		}
		if x.Value != nil {
			kv = append(kv, g.text(x.Value))
		}
		tok := ""
		if x.Tok != token.ILLEGAL {
			tok = x.Tok.String()
		}
		return []string{fmt.Sprintf("SkRange %s %s %s\n  %s", rsStrList(kv), coqStr(tok), coqStr(g.gate(x.X)), rsIn(g.block(x.Body)))}
	case *ast.SwitchStmt:
		if x.Init != nil {
			g.fail(s, "switch with an init statement")
		}
		cases := []string{}
		for _, cs := range x.Body.List {
			cc := cs.(*ast.CaseClause)
			lab := `["default"]`
			if cc.List != nil {
				lab = g.exprList(cc.List)
			}
			for _, b := range cc.Body {
				if br, ok := b.(*ast.BranchStmt); ok && br.Tok == token.FALLTHROUGH {
					g.fail(b, "fallthrough")
				}
			}
			cases = append(cases, fmt.Sprintf("(%s,\n  %s)", lab, rsIn(g.steps(cc.Body))))
		}
		return []string{fmt.Sprintf("SkSwitch %s\n  %s", coqStr(g.gate(x.Tag)), rsIn(rsList(cases)))}
	case *ast.BranchStmt:
		if x.Label != nil {
			g.fail(s, "labelled branch")
		}
		switch x.Tok {
		case token.CONTINUE:
			return []string{"SkContinue"}
		case token.BREAK:
			return []string{"SkBreak"}
		}
		g.fail(s, "branch statement %s", x.Tok)
	case *ast.ReturnStmt:
		if len(x.Results) == 1 {
			if c, ok := x.Results[0].(*ast.CallExpr); ok {
				if _, pure := g.calleeName(c); !pure {
					return []string{fmt.Sprintf("SkReturnCall %s %s", coqStr(g.callFun(c)), g.args(c))}
				}
			}
		}
		return []string{fmt.Sprintf("SkReturn %s", g.exprList(x.Results))}
	}
	g.fail(s, "statement form %T", s)
	return nil
}

func (g *rsgen) fieldList(fl *ast.FieldList) string {
	out := []string{}
	if fl != nil {
		for _, f := range fl.List {
			t := g.text(f.Type)
			if len(f.Names) == 0 {
				out = append(out, t)
			}
			for _, n := range f.Names {
				out = append(out, n.Name+" "+t)
			}
		}
	}
	return rsStrList(out)
}

func genRunSkeleton(root string) string {
	src := loadFormulas(root, "./pkg/simulation")
	p := src.pkg("pkg/simulation")
	g := &rsgen{src: src, pkg: p, info: p.TypesInfo, consts: map[string]string{}}

	byFile := map[string]*ast.File{}
	for _, f := range p.Syntax {
		fn := src.fset.Position(f.Pos()).Filename
		if r, err := filepathRel(root, fn); err == nil {
			fn = r
		}
		byFile[fn] = f
	}
	var b strings.Builder
	b.WriteString(`(* GENERATED by harness/cmd/go2coq RunSkeleton from pkg/simulation/run.go, action.go, death.go of the repository
   under verification.  Do not edit: tools/check.py and tools/setup.sh regenerate this file on every run.
   A first-order description of every function of the three files: the ordered steps of its body, expressions as
   normalised source text (types: Model/SimSkeleton.v).  Proofs/RunSkeletonProofs.v proves that this table IS the
   pinned table SimSkeleton.expected and that the interpretation of its state functions is the run loop of the
   hand-written model Model/Sim.v. *)
From Coq Require Import List ZArith String.
From SR Require Import Model.SimSkeleton.
Import ListNotations.
Open Scope Z_scope.
Open Scope string_scope.

`)
	names := []string{}
	for _, base := range runSkelFiles {
		rel := "pkg/simulation/" + base
		f := byFile[rel]
		if f == nil {
			die("RunSkeleton: %s is not part of package simulation any more", rel)
		}
		for _, d := range f.Decls {
			fd, ok := d.(*ast.FuncDecl)
			if !ok {
				continue
			}
			if fd.Body == nil {
				g.fail(fd, "function without a body")
			}
			name := fd.Name.Name
			recv := ""
			if fd.Recv != nil {
				if len(fd.Recv.List) != 1 || len(fd.Recv.List[0].Names) != 1 {
					g.fail(fd, "receiver list")
				}
				recv = fd.Recv.List[0].Names[0].Name + " " + g.text(fd.Recv.List[0].Type)
			}
			if fd.Type.TypeParams != nil {
				g.fail(fd, "generic function")
			}
			def := "f_" + name
			names = append(names, def)
			fmt.Fprintf(&b, "(* %s: func %s *)\nDefinition %s : fn :=\n  mkFn %s %s %s %s %s\n    %s.\n\n",
				src.pos(fd), name, def, coqStr(base), coqStr(name), coqStr(recv),
				g.fieldList(fd.Type.Params), g.fieldList(fd.Type.Results), strings.ReplaceAll(g.steps(fd.Body.List), "\n", "\n    "))
		}
	}
	fmt.Fprintf(&b, "Definition table : list fn :=\n  [%s].\n\n", strings.Join(names, "; "))

	keys := make([]string, 0, len(g.consts))
	for k := range g.consts {
		keys = append(keys, k)
	}
	sort.Strings(keys)
	rows := []string{}
	for _, k := range keys {
		rows = append(rows, fmt.Sprintf("(%s, (%s))", coqStr(k), g.consts[k]))
	}
	fmt.Fprintf(&b, "(* integer constants named in the translated functions, valued by go/types *)\nDefinition consts : list (string * Z) :=\n  [%s].\n", strings.Join(rows, ";\n   "))
	return b.String()
}
