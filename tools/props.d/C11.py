CONFIG = {
    "id": "C11",
    "coq_targets": ["Props/C11.v", "Model/SimCheck.v"],
    "prop_files": ["Props/C11.v"],
    "gen": [],
    "components": [{
        "name": "sim", "modules": ["Base.NumOps", "Model.Turn", "Model.Sim", "Model.SimCheck"],
        "check": "check_case", "monitor": "monitor_c11", "model_out": "monitor_detail",
        "case_type": "case", "ops_path": None, "mismatch_is_violation": False,
        "n_quick": 900, "n_thorough": 12000, "shard": 150,
    }],
    "rule": "scripted battles on the REAL simulation.Simulation: 1-4 registered harness characters (6 kinds: speeds, SP "
            "costs, target types, a Skill.CanUse / Ult.CanUse check of their own), 1-5 harness enemies (HP 50-400, speeds incl. ties), 5-14 content scripts of engine calls "
            "(attacks qualified/unqualified with lethal and scratch damage on any unit incl. dead and unknown ids, SetHP, "
            "insert abilities with real priorities and abort flags, extra actions, energy, SP, flag modifiers, gauge "
            "changes, revive switches, samples of Characters()/Enemies()/turn order), per-unit action queues, listener "
            "slots (BattleStart, ActionEnd, HitEnd, TargetDeath, HPChange, AttackStart, the OnPhase1 / OnPhase2 modifier "
            "ticks, LimboWaitHeal verdict), decision sequences of the "
            "script callbacks incl. invalid targets and ult requests, cycle limit 0-4, insert budget 0-12; distinct = "
            "distinct input term",
    "trusted": ["hits of harness content are 'plain' (no DEF/RES/stance/shield/crit), so a hit's total is its flat damage; the "
                "damage formula itself is C04",
                "listener scripts never open or close an attack bracket (legal use of the API, enforced by the model as a "
                "distinct outcome and respected by the generator); they may add hits to an attack that is open",
                "the turn manager part is Model/Turn.v at binary64 (property C02)"],
    "assumptions": ["content uses the engine API legally: an attack bracket is opened (first qualified attack) and closed (EndAttack) only from action / ult / insert bodies"],
    "manifest": {
        "level_text": "Kernel-checked theorems about the model, for all configs, scripts and decision sequences. Run level: the trace of every run that ends (result or error return) is accepted by the decision monitor `decision_ok` that is evaluated on every real trace: after the script's answer the content call of that character is a skill exactly when a skill was decided and the engine did not fall back, the fallback to the default attack only follows a decided skill of the same character, and the primary target of an action or ultimate belongs to the class the ability's target type asks for and has not been announced dead (invariants: unit records keep the static fields of their description, the living lists hold only units of their side that were not announced; found on the way: a named target must still be on the field, model repaired to match the code). Per function: the action started for an alive character is the decided type or the default attack when the skill's cost is not available, a skill needs its cost, the primary target is what the decided rule selects (First = head of the living candidates of the right side; LowestHP / LowestHPRatio = the FIRST candidate with the smallest key: every candidate before it has a strictly larger key, none after it a smaller one, given non-NaN HP values; a named unit only if alive, on the field and of the right class), skill points stay in [0,5], an ultimate is queued only for a character the script asked for whose energy is full and queuing zeroes the energy. Not stated at run level: the skill-point and ultimate clauses (they are not part of the trace monitor).",
        "level_note": "Coq kernel; hand-written model Model/Sim.v tied by whole-trace correspondence; content is scripted harness "
                      "content registered through the exported Register functions; internal/* content is not modelled.",
        "technique": 'Coq proofs over whole runs (frame principle over all content scripts, C08 dead-set invariant reused, relation composed over queue, turns and start) + decision / target-rule / SP / ult lemmas + whole-trace correspondence + decision monitor',
        "design_ref": "DESIGN.md section 7, C11",
    },
}
