(* Model of pkg/engine/attribute/{add,modify,event,attribute}.go (the attribute service:
   HP ratio, energy, stance/toughness per unit, the team's skill points) together with the
   events of pkg/engine/event/attribute.go it emits.  Executable; no proofs here.

   What the service reads from the rest of the engine is an input of every call:
     * [e_maxHP]  = what  s.Stats(target).MaxHP()  returns during the call,
     * [e_regen]  = what  s.Stats(target).EnergyRegen()  returns,
     * [e_bonus]  = the ALL_STANCE_DMG_PERCENT that ModifyStance scales with (the code reads
                    it from the stats of the target, engine.go documents the source's: whose it
                    is belongs to property C04; the generated cases give every unit the same
                    bonus during a call, so this model holds for either reading),
   (the stats of the call's TARGET: that is the only id the code ever asks for; the
   [e_o*] fields are the stats every OTHER unit would have during the call — the model does
   not read them, the harness serves them for every other id so that code reading the wrong
   party's stats is seen), and
     * [c_limbo]  = the answer of the listeners of the cancelable LimboWaitHeal event.
   float64 is Coq's primitive binary64 float: Go's  a > b  is  [ltb b a],  a == b  is [eqb a b]. *)
From Coq Require Import List ZArith Bool Floats.
Import ListNotations.
Open Scope Z_scope.

(* info.TargetState *)
Inductive lstate := Invalid | Dead | Limbo | Alive.

Record unit_ := mkUnit {
  u_hp : float;          (* attributes.HPRatio *)
  u_energy : float;
  u_maxEnergy : float;
  u_stance : float;
  u_maxStance : float;
  u_state : lstate;
  u_last : Z }.          (* lastAttacker *)

Record state := mkSt { units : list (Z * unit_); sp : Z }.

Definition init : state := mkSt [] 3.

Record env := mkEnv {
  e_maxHP : float; e_regen : float; e_bonus : float;
  e_omaxHP : float; e_oregen : float; e_obonus : float }.

Record call := mkCall {
  c_env : env;
  c_key : Z;             (* key.Reason, the harness prints it as a decimal string *)
  c_target : Z;
  c_source : Z;
  c_limbo : bool }.

Inductive op :=
| OAdd (id : Z) (hp energy maxEnergy stance maxStance : float)
| OSetHP (c : call) (amount : float) (dmg : bool)
| OModHPAmount (c : call) (amount : float) (dmg : bool)
| OModHPRatio (c : call) (ratio : float) (rtype : Z) (floor : float) (dmg : bool)
| OSetStance (c : call) (amount : float)
| OModStance (c : call) (amount : float)
| OSetEnergy (c : call) (amount : float)
| OModEnergy (c : call) (amount : float)
| OModEnergyFixed (c : call) (amount : float)
| OModSP (key source amount : Z).

(* what the getters of attribute.go return for one id (see [snapshot]) *)
Record snap := mkSnap {
  g_hp : float; g_energy : float; g_maxEnergy : float; g_stance : float; g_maxStance : float;
  g_state : lstate; g_last : Z; g_sp : Z }.

Inductive ev :=
| EHP (key target : Z) (oldR newR oldHP newHP : float) (dmg : bool)
| ELimbo (target : Z)                       (* LimboWaitHeal reached its listeners *)
| EEnergy (key target source : Z) (oldE newE : float)
| EStance (key target source : Z) (oldS newS : float)
| EBreak (key target source : Z)
| EReset (key target : Z)
| ESP (key source oldSP newSP : Z)
(* not events of the service, but what the recording listener of the harness writes down:
   [ESeen g] directly after every event = the getters of the event's unit (the source for an
   SPChange) read when the listener is entered, i.e. BEFORE the listener's script runs;
   [ERet err] = the error code a call issued from inside a listener returned.  The flat model
   below ([step], [run]: listeners only record) produces neither. *)
| ESeen (g : snap)
| ERet (err : Z).

(* error returned by the call: 0 = nil, 1 = unknown target, 2 = target already registered,
   3 = unknown ratio type *)
Definition ENone := 0.
Definition EUnknownTarget := 1.
Definition EDupTarget := 2.
Definition EBadRatioType := 3.

(* ---- the unit table (Go: map[key.TargetID]*attrTarget) ---- *)
Fixpoint find_unit (id : Z) (us : list (Z * unit_)) : option unit_ :=
  match us with
  | [] => None
  | (k, u) :: r => if k =? id then Some u else find_unit id r
  end.

Fixpoint set_unit (id : Z) (u : unit_) (us : list (Z * unit_)) : list (Z * unit_) :=
  match us with
  | [] => []
  | (k, v) :: r => if k =? id then (k, u) :: r else (k, v) :: set_unit id u r
  end.

Definition set_hp (u : unit_) (x : float) :=
  mkUnit x (u_energy u) (u_maxEnergy u) (u_stance u) (u_maxStance u) (u_state u) (u_last u).
Definition set_energy (u : unit_) (x : float) :=
  mkUnit (u_hp u) x (u_maxEnergy u) (u_stance u) (u_maxStance u) (u_state u) (u_last u).
Definition set_stance (u : unit_) (x : float) :=
  mkUnit (u_hp u) (u_energy u) (u_maxEnergy u) x (u_maxStance u) (u_state u) (u_last u).
Definition set_state (u : unit_) (s : lstate) :=
  mkUnit (u_hp u) (u_energy u) (u_maxEnergy u) (u_stance u) (u_maxStance u) s (u_last u).
Definition set_last (u : unit_) (a : Z) :=
  mkUnit (u_hp u) (u_energy u) (u_maxEnergy u) (u_stance u) (u_maxStance u) (u_state u) a.

(* if x > hi { hi } else if x < 0 { 0 } else x *)
Definition clampTo (hi x : float) : float :=
  if ltb hi x then hi else if ltb x 0 then 0%float else x.

(* ---- add.go ---- *)
Definition add_unit (hp energy maxEnergy stance maxStance : float) (id : Z) : unit_ :=
  let energy' := if ltb maxEnergy energy then maxEnergy else energy in
  let hp' := if leb hp 0 then 1%float else hp in
  mkUnit hp' energy' maxEnergy stance maxStance Alive id.

(* ---- event.go: emitHPChangeEvents; [u] already carries the new ratio ---- *)
Definition emit_hp (c : call) (u : unit_) (oldR newR maxHP : float) (dmg : bool) : unit_ * list ev :=
  if eqb oldR newR then (u, [])
  else
    let u1 := if dmg then set_last u (c_source c) else u in
    let e := EHP (c_key c) (c_target c) oldR newR (maxHP * oldR) (maxHP * newR) dmg in
    match u_state u1 with
    | Dead => (u1, [e])                                    (* death is final *)
    | _ =>
      if ltb 0 newR then (set_state u1 Alive, [e])
      else (set_state u1 (if c_limbo c then Limbo else Dead), [e; ELimbo (c_target c)])
    end.

(* ---- modify.go: the new HP ratio of each of the three HP mutators ---- *)
Definition new_hp_set (maxHP amount : float) : float :=
  clampTo 1 (amount / maxHP).

Definition new_hp_amount (maxHP cur amount : float) : float :=
  clampTo 1 ((cur * maxHP + amount) / maxHP).

(* rtype: 1 = MAX_HP, 2 = CURRENT_HP *)
Definition hp_ratio_raw (cur ratio : float) (rtype : Z) : float :=
  if rtype =? 2 then (cur + ratio * cur)%float else (cur + ratio)%float.

Definition new_hp_ratio (maxHP cur ratio : float) (rtype : Z) (floor : float) : float :=
  let r := hp_ratio_raw cur ratio rtype in
  let r' := if ltb (r * maxHP) floor then (floor / maxHP)%float else r in
  clampTo 1 r'.

Definition do_hp (c : call) (u : unit_) (newR : float) (dmg : bool) : unit_ * list ev :=
  emit_hp c (set_hp u newR) (u_hp u) newR (e_maxHP (c_env c)) dmg.

(* ---- SetStance (ModifyStance computes the amount and calls it) ---- *)
Definition do_stance (c : call) (u : unit_) (amount : float) : unit_ * list ev :=
  let a := clampTo (u_maxStance u) amount in
  if eqb (u_stance u) a then (u, [])
  else
    let pre :=
      if eqb a 0 then [EBreak (c_key c) (c_target c) (c_source c)]
      else if eqb (u_stance u) 0 then [EReset (c_key c) (c_target c)]
      else [] in
    (set_stance u a, pre ++ [EStance (c_key c) (c_target c) (c_source c) (u_stance u) a]).

(* ---- SetEnergy (ModifyEnergy / ModifyEnergyFixed compute the amount and call it) ---- *)
Definition do_energy (c : call) (u : unit_) (amount : float) : unit_ * list ev :=
  let a := clampTo (u_maxEnergy u) amount in
  (set_energy u a,
   if eqb (u_energy u) a then [] else [EEnergy (c_key c) (c_target c) (c_source c) (u_energy u) a]).

(* Go's int is int64: [s.sp += data.Amount] wraps *)
Definition wrap_int64 (z : Z) : Z := (z + 2 ^ 63) mod 2 ^ 64 - 2 ^ 63.
Definition new_sp (old amount : Z) : Z :=
  let s := wrap_int64 (old + amount) in
  if 5 <? s then 5 else if s <? 0 then 0 else s.

(* a per-unit call: unknown target => error, state untouched, no events *)
Definition on_target (s : state) (c : call) (f : unit_ -> unit_ * list ev) : state * list ev * Z :=
  match find_unit (c_target c) (units s) with
  | None => (s, [], EUnknownTarget)
  | Some u => let (u', evs) := f u in (mkSt (set_unit (c_target c) u' (units s)) (sp s), evs, ENone)
  end.

Definition step (s : state) (o : op) : state * list ev * Z :=
  match o with
  | OAdd id hp en me stc ms =>
      match find_unit id (units s) with
      | Some _ => (s, [], EDupTarget)
      | None => (mkSt (units s ++ [(id, add_unit hp en me stc ms id)]) (sp s), [], ENone)
      end
  | OSetHP c amount dmg =>
      on_target s c (fun u => do_hp c u (new_hp_set (e_maxHP (c_env c)) amount) dmg)
  | OModHPAmount c amount dmg =>
      on_target s c (fun u => do_hp c u (new_hp_amount (e_maxHP (c_env c)) (u_hp u) amount) dmg)
  | OModHPRatio c ratio rtype floor dmg =>
      if (rtype =? 1) || (rtype =? 2) then
        on_target s c (fun u =>
          do_hp c u (new_hp_ratio (e_maxHP (c_env c)) (u_hp u) ratio rtype floor) dmg)
      else
        (s, [], match find_unit (c_target c) (units s) with
                | None => EUnknownTarget | Some _ => EBadRatioType end)
  | OSetStance c amount => on_target s c (fun u => do_stance c u amount)
  | OModStance c amount =>
      on_target s c (fun u => do_stance c u (u_stance u + amount * (1 + e_bonus (c_env c)))%float)
  | OSetEnergy c amount => on_target s c (fun u => do_energy c u amount)
  | OModEnergy c amount =>
      on_target s c (fun u => do_energy c u (u_energy u + amount * (1 + e_regen (c_env c)))%float)
  | OModEnergyFixed c amount =>
      on_target s c (fun u => do_energy c u (u_energy u + amount)%float)
  | OModSP key source amount =>
      let n := new_sp (sp s) amount in
      (mkSt (units s) n, if sp s =? n then [] else [ESP key source (sp s) n], ENone)
  end.

(* ---- the getters of attribute.go for one id ---- *)

Definition snapshot (s : state) (id : Z) : snap :=
  match find_unit id (units s) with
  | Some u => mkSnap (u_hp u) (u_energy u) (u_maxEnergy u) (u_stance u) (u_maxStance u)
                     (u_state u) (u_last u) (sp s)
  | None => mkSnap 0 0 0 0 0 Invalid id (sp s)
  end.

(* the id whose getters the harness reads after an op *)
Definition op_target (o : op) : Z :=
  match o with
  | OAdd id _ _ _ _ _ => id
  | OSetHP c _ _ | OModHPAmount c _ _ | OModHPRatio c _ _ _ _
  | OSetStance c _ | OModStance c _ | OSetEnergy c _ | OModEnergy c _ | OModEnergyFixed c _ => c_target c
  | OModSP _ source _ => source
  end.

Record res := mkRes { r_evs : list ev; r_err : Z; r_snap : snap }.

Fixpoint run (s : state) (ops : list op) : state * list res :=
  match ops with
  | [] => (s, [])
  | o :: r =>
      let '(s1, evs, err) := step s o in
      let (s2, rs) := run s1 r in
      (s2, mkRes evs err (snapshot s1 (op_target o)) :: rs)
  end.

(* the ids dumped at the end of a case *)
Definition dump_ids : list Z := [1; 2; 3; 4].
Definition dump (s : state) : list snap := map (snapshot s) dump_ids.

(* ==================================================================================== *)
(* RE-ENTRANT LISTENERS.                                                                 *)
(* Real content code reacts to the service's events from inside listeners: it calls the  *)
(* service again while the outer call is still running.  Listener behaviour is DATA: for *)
(* each of the seven events the service emits a slot holds a queue of scripts, a script  *)
(* is a list of the service's own operations.  When the service emits an event the       *)
(* (one) listener of that event records it, pops the slot's next script (an exhausted    *)
(* queue behaves as the empty script) and runs it; the service then continues the outer  *)
(* call with whatever the Go code continues with: a value it re-reads from the unit      *)
(* table is read from the state the listeners left, a Go LOCAL computed before the       *)
(* emission keeps its stale value.  Nesting is bounded by fuel: running a non-empty      *)
(* script costs one unit, out of fuel is the distinct outcome [None] (the real listeners *)
(* need no fuel: every script run consumes one entry of a finite queue).                 *)
(* ==================================================================================== *)

Definition script := list op.

(* one queue of scripts per event of the service *)
Record lsn := mkLs {
  l_hp : list script;        (* event.HPChange *)
  l_limbo : list script;     (* event.LimboWaitHeal (cancelable; the verdict is [c_limbo] of the emitting call) *)
  l_stance : list script;    (* event.StanceChange *)
  l_break : list script;     (* event.StanceBreak *)
  l_reset : list script;     (* event.StanceReset *)
  l_energy : list script;    (* event.EnergyChange *)
  l_sp : list script }.      (* event.SPChange *)

Definition no_lsn : lsn := mkLs [] [] [] [] [] [] [].

Inductive slot := LHP | LLimbo | LStance | LBreak | LReset | LEnergy | LSP.

Definition pop_q (q : list script) : script * list script :=
  match q with [] => ([], []) | sc :: r => (sc, r) end.

Definition pop_slot (L : lsn) (sl : slot) : script * lsn :=
  match sl with
  | LHP => let (sc, r) := pop_q (l_hp L) in
           (sc, mkLs r (l_limbo L) (l_stance L) (l_break L) (l_reset L) (l_energy L) (l_sp L))
  | LLimbo => let (sc, r) := pop_q (l_limbo L) in
           (sc, mkLs (l_hp L) r (l_stance L) (l_break L) (l_reset L) (l_energy L) (l_sp L))
  | LStance => let (sc, r) := pop_q (l_stance L) in
           (sc, mkLs (l_hp L) (l_limbo L) r (l_break L) (l_reset L) (l_energy L) (l_sp L))
  | LBreak => let (sc, r) := pop_q (l_break L) in
           (sc, mkLs (l_hp L) (l_limbo L) (l_stance L) r (l_reset L) (l_energy L) (l_sp L))
  | LReset => let (sc, r) := pop_q (l_reset L) in
           (sc, mkLs (l_hp L) (l_limbo L) (l_stance L) (l_break L) r (l_energy L) (l_sp L))
  | LEnergy => let (sc, r) := pop_q (l_energy L) in
           (sc, mkLs (l_hp L) (l_limbo L) (l_stance L) (l_break L) (l_reset L) r (l_sp L))
  | LSP => let (sc, r) := pop_q (l_sp L) in
           (sc, mkLs (l_hp L) (l_limbo L) (l_stance L) (l_break L) (l_reset L) (l_energy L) r)
  end.

(* the outcome of a piece of execution: the state and listener queues it leaves and the events
   recorded meanwhile, in the order the listeners were entered; [None] = out of fuel *)
Definition outcome := option (state * lsn * list ev).

(* runs a popped listener script one nesting level deeper *)
Definition runner := state -> lsn -> script -> outcome.

(* write through the pointer  s.targets[id]  (units are never removed) *)
Definition upd_unit (s : state) (id : Z) (f : unit_ -> unit_) : state :=
  match find_unit id (units s) with
  | Some u => mkSt (set_unit id (f u) (units s)) (sp s)
  | None => s
  end.

Definition cur_state (s : state) (id : Z) : lstate :=
  match find_unit id (units s) with Some u => u_state u | None => Invalid end.
Definition cur_stance (s : state) (id : Z) : float :=
  match find_unit id (units s) with Some u => u_stance u | None => 0%float end.

Section Exec.
  Variable rs : runner.

  (* handler.Emit: the listener records the event and what the getters of unit [id] return at
     that moment, then runs the slot's next script *)
  Definition emit_ev (s : state) (L : lsn) (sl : slot) (e : ev) (id : Z) : outcome :=
    let (sc, L1) := pop_slot L sl in
    match rs s L1 sc with
    | None => None
    | Some (s2, L2, evs) => Some (s2, L2, e :: ESeen (snapshot s id) :: evs)
    end.

  (* event.go: emitHPChangeEvents.  The new ratio is ALREADY stored; [oldR], [newR], [maxHP]
     are Go locals.  After the HPChange listeners the code re-reads the unit's state, but
     decides alive / dead from the local [newR]. *)
  Definition r_emit_hp (s : state) (L : lsn) (c : call) (oldR newR maxHP : float) (dmg : bool) : outcome :=
    let t := c_target c in
    if eqb oldR newR then Some (s, L, [])
    else
      let s1 := if dmg then upd_unit s t (fun u => set_last u (c_source c)) else s in
      match emit_ev s1 L LHP (EHP (c_key c) t oldR newR (maxHP * oldR) (maxHP * newR) dmg) t with
      | None => None
      | Some (s2, L2, evs) =>
          match cur_state s2 t with
          | Dead => Some (s2, L2, evs)                          (* death is final *)
          | _ =>
            if ltb 0 newR then Some (upd_unit s2 t (fun u => set_state u Alive), L2, evs)
            else
              (* the state is Dead while the LimboWaitHeal listeners run *)
              let s3 := upd_unit s2 t (fun u => set_state u Dead) in
              match emit_ev s3 L2 LLimbo (ELimbo t) t with
              | None => None
              | Some (s4, L4, evs') =>
                  Some (if c_limbo c then upd_unit s4 t (fun u => set_state u Limbo) else s4,
                        L4, evs ++ evs')
              end
          end
      end.

  (* SetHP / ModifyHPByAmount / ModifyHPByRatio: the ratio is stored, then the events go out *)
  Definition r_do_hp (s : state) (L : lsn) (c : call) (u : unit_) (newR : float) (dmg : bool) : outcome :=
    r_emit_hp (upd_unit s (c_target c) (fun u' => set_hp u' newR)) L c (u_hp u) newR (e_maxHP (c_env c)) dmg.

  (* SetStance: the guard and the decision break / reset use the stance at entry; StanceBreak /
     StanceReset go out BEFORE the new stance is stored; [prev := attr.Stance] is read after
     their listeners ran; StanceChange goes out unconditionally *)
  Definition r_do_stance (s : state) (L : lsn) (c : call) (u : unit_) (amount : float) : outcome :=
    let t := c_target c in
    let a := clampTo (u_maxStance u) amount in
    if eqb (u_stance u) a then Some (s, L, [])
    else
      match (if eqb a 0 then emit_ev s L LBreak (EBreak (c_key c) t (c_source c)) t
             else if eqb (u_stance u) 0 then emit_ev s L LReset (EReset (c_key c) t) t
             else Some (s, L, [])) with
      | None => None
      | Some (s1, L1, pre) =>
          let prev := cur_stance s1 t in
          let s2 := upd_unit s1 t (fun u' => set_stance u' a) in
          match emit_ev s2 L1 LStance (EStance (c_key c) t (c_source c) prev a) t with
          | None => None
          | Some (s3, L3, evs) => Some (s3, L3, pre ++ evs)
          end
      end.

  (* SetEnergy: stored first, EnergyChange only when the value changed *)
  Definition r_do_energy (s : state) (L : lsn) (c : call) (u : unit_) (amount : float) : outcome :=
    let t := c_target c in
    let a := clampTo (u_maxEnergy u) amount in
    let s1 := upd_unit s t (fun u' => set_energy u' a) in
    if eqb (u_energy u) a then Some (s1, L, [])
    else emit_ev s1 L LEnergy (EEnergy (c_key c) t (c_source c) (u_energy u) a) t.

  Definition r_on_target (s : state) (L : lsn) (c : call) (f : unit_ -> outcome)
    : option (state * lsn * list ev * Z) :=
    match find_unit (c_target c) (units s) with
    | None => Some (s, L, [], EUnknownTarget)
    | Some u => match f u with
                | None => None
                | Some (s', L', evs) => Some (s', L', evs, ENone)
                end
    end.

  (* one call of the service, listeners included *)
  Definition exec_op (s : state) (L : lsn) (o : op) : option (state * lsn * list ev * Z) :=
    match o with
    | OAdd id hp en me stc ms =>
        match find_unit id (units s) with
        | Some _ => Some (s, L, [], EDupTarget)
        | None => Some (mkSt (units s ++ [(id, add_unit hp en me stc ms id)]) (sp s), L, [], ENone)
        end
    | OSetHP c amount dmg =>
        r_on_target s L c (fun u => r_do_hp s L c u (new_hp_set (e_maxHP (c_env c)) amount) dmg)
    | OModHPAmount c amount dmg =>
        r_on_target s L c (fun u => r_do_hp s L c u (new_hp_amount (e_maxHP (c_env c)) (u_hp u) amount) dmg)
    | OModHPRatio c ratio rtype floor dmg =>
        if (rtype =? 1) || (rtype =? 2) then
          r_on_target s L c (fun u =>
            r_do_hp s L c u (new_hp_ratio (e_maxHP (c_env c)) (u_hp u) ratio rtype floor) dmg)
        else
          Some (s, L, [], match find_unit (c_target c) (units s) with
                          | None => EUnknownTarget | Some _ => EBadRatioType end)
    | OSetStance c amount => r_on_target s L c (fun u => r_do_stance s L c u amount)
    | OModStance c amount =>
        r_on_target s L c (fun u => r_do_stance s L c u (u_stance u + amount * (1 + e_bonus (c_env c)))%float)
    | OSetEnergy c amount => r_on_target s L c (fun u => r_do_energy s L c u amount)
    | OModEnergy c amount =>
        r_on_target s L c (fun u => r_do_energy s L c u (u_energy u + amount * (1 + e_regen (c_env c)))%float)
    | OModEnergyFixed c amount =>
        r_on_target s L c (fun u => r_do_energy s L c u (u_energy u + amount)%float)
    | OModSP key source amount =>
        let n := new_sp (sp s) amount in
        let s1 := mkSt (units s) n in
        if sp s =? n then Some (s1, L, [], ENone)
        else match emit_ev s1 L LSP (ESP key source (sp s) n) source with
             | None => None
             | Some (s2, L2, evs) => Some (s2, L2, evs, ENone)
             end
    end.

  (* the body of a listener: its calls in order; the listener writes down what each returned *)
  Fixpoint exec_list (s : state) (L : lsn) (ops : script) : outcome :=
    match ops with
    | [] => Some (s, L, [])
    | o :: r =>
        match exec_op s L o with
        | None => None
        | Some (s1, L1, e1, err) =>
            match exec_list s1 L1 r with
            | None => None
            | Some (s2, L2, e2) => Some (s2, L2, e1 ++ ERet err :: e2)
            end
        end
    end.
End Exec.

Fixpoint run_script (fuel : nat) : runner :=
  fun s L sc =>
    match sc with
    | [] => Some (s, L, [])
    | _ => match fuel with
           | O => None
           | S f => exec_list (run_script f) s L sc
           end
    end.

Definition rstep (fuel : nat) (s : state) (L : lsn) (o : op) : option (state * lsn * list ev * Z) :=
  exec_op (run_script fuel) s L o.

(* a history: top-level calls in order, the listener queues threaded through *)
Fixpoint rrun (fuel : nat) (s : state) (L : lsn) (ops : list op) : option (state * lsn * list res) :=
  match ops with
  | [] => Some (s, L, [])
  | o :: r =>
      match rstep fuel s L o with
      | None => None
      | Some (s1, L1, evs, err) =>
          match rrun fuel s1 L1 r with
          | None => None
          | Some (s2, L2, rs) => Some (s2, L2, mkRes evs err (snapshot s1 (op_target o)) :: rs)
          end
      end
  end.

(* total number of scripts still queued: fuel above it is never exhausted *)
Definition n_scripts (L : lsn) : nat :=
  (length (l_hp L) + length (l_limbo L) + length (l_stance L) + length (l_break L) +
   length (l_reset L) + length (l_energy L) + length (l_sp L))%nat.
