(* Shared syntax-tree type of the gcs scripting language: a mirror of
   pkg/logic/gcs/ast/{item.go, expr.go, stmt.go}.  Used by the parser model (C13, C14) and the
   evaluator model (C12).  Nothing parser- or evaluator-specific lives here; no proofs.

   Conventions
   * one constructor per Go node type, fields in the Go declaration order;
   * source positions are NOT part of the tree: the embedded [Pos] of every node and the
     [Pos]/[Line] fields of the [ast.Token]s stored inside nodes are dropped (no property talks
     about them; the lexer model keeps them in its own token record);
   * a Go [nil] interface value is an explicit constructor: [ENil] for a nil [ast.Expr],
     [SNil] for a nil [ast.Stmt], [BNil] for a nil [*ast.BlockStmt].  A nil [ast.Node] inside
     a block list (the parser appends the nil expression of an empty statement) is
     [NExpr ENil];
   * [int64] is [Z], [float64] is the primitive [float] (bit-exact, see Base/CaseLib.v);
   * Go strings are Coq [string]s, i.e. byte strings; the harness writes a string that is not
     plain printable ASCII as [hx "<hex digits>"];
   * the Go map [MapExpr.Fields] is an association list sorted by key ([string_ltb], bytewise),
     keys unique - the order-free canonical form of a map.

   Go serialiser: harness/cmd/corr/gcsast.go, [astToTerm]. *)
From Coq Require Import List ZArith Bool String Ascii Floats.
From SR Require Import Base.CaseLib.
Import ListNotations.
Open Scope Z_scope.

(* ---- ast/item.go: TokenType, in declaration order (iota) ---- *)
Inductive toktype :=
| ItemError | ItemEOF | ItemTerminateLine | ItemAssign | ItemComma
| ItemLeftParen | ItemRightParen | ItemLeftSquareParen | ItemRightSquareParen
| ItemLeftBrace | ItemRightBrace | ItemColon | ItemPlus | ItemMinus | ItemAsterisk
| ItemForwardSlash
| ItemLogicOP | LogicNot | LogicAnd | LogicOr
| ItemCompareOp | OpEqual | OpNotEqual | OpGreaterThan | OpGreaterThanOrEqual
| OpLessThan | OpLessThanOrEqual | ItemDot
| ItemTypes | ItemIdentifier | ItemNumber | ItemBool | ItemString | ItemNull
| ItemKeyword | KeywordLet | KeywordWhile | KeywordIf | KeywordElse | KeywordFn
| KeywordSwitch | KeywordCase | KeywordDefault | KeywordBreak | KeywordContinue
| KeywordFallthrough | KeywordReturn | KeywordFor.

(* the Go integer value of a TokenType *)
Definition toktype_code (t : toktype) : Z :=
  match t with
  | ItemError => 0 | ItemEOF => 1 | ItemTerminateLine => 2 | ItemAssign => 3 | ItemComma => 4
  | ItemLeftParen => 5 | ItemRightParen => 6 | ItemLeftSquareParen => 7
  | ItemRightSquareParen => 8 | ItemLeftBrace => 9 | ItemRightBrace => 10 | ItemColon => 11
  | ItemPlus => 12 | ItemMinus => 13 | ItemAsterisk => 14 | ItemForwardSlash => 15
  | ItemLogicOP => 16 | LogicNot => 17 | LogicAnd => 18 | LogicOr => 19
  | ItemCompareOp => 20 | OpEqual => 21 | OpNotEqual => 22 | OpGreaterThan => 23
  | OpGreaterThanOrEqual => 24 | OpLessThan => 25 | OpLessThanOrEqual => 26 | ItemDot => 27
  | ItemTypes => 28 | ItemIdentifier => 29 | ItemNumber => 30 | ItemBool => 31
  | ItemString => 32 | ItemNull => 33
  | ItemKeyword => 34 | KeywordLet => 35 | KeywordWhile => 36 | KeywordIf => 37
  | KeywordElse => 38 | KeywordFn => 39 | KeywordSwitch => 40 | KeywordCase => 41
  | KeywordDefault => 42 | KeywordBreak => 43 | KeywordContinue => 44
  | KeywordFallthrough => 45 | KeywordReturn => 46 | KeywordFor => 47
  end.

Definition toktype_eqb (a b : toktype) : bool := toktype_code a =? toktype_code b.

(* ast.Token as stored inside tree nodes: type and text (Pos and Line dropped) *)
Record token := Tok { t_typ : toktype; t_val : string }.

(* ast/stmt.go: CtrlTyp *)
Inductive ctrltyp := InvalidCtrl | CtrlBreak | CtrlContinue | CtrlFallthrough.

(* ---- ast/expr.go and ast/stmt.go ---- *)
Inductive expr :=
| ENil                                                  (* nil ast.Expr *)
| ENum (ival : Z) (fval : float) (isfloat : bool)        (* NumberLit{IntVal, FloatVal, IsFloat} *)
| EStr (v : string)                                     (* StringLit{Value}: text incl. quotes *)
| EBool (v : bool)                                      (* BoolLit{Value} (never built by the parser) *)
| ENull                                                 (* NullLit *)
| EFuncLit (args : list string) (body : block)          (* FuncLit{Args []*Ident, Body} *)
| EIdent (v : string)                                   (* Ident{Value} *)
| ECall (f : expr) (args : list expr)                   (* CallExpr{Fun, Args} *)
| EUnary (op : token) (r : expr)                        (* UnaryExpr{Op, Right} *)
| EBinary (l : expr) (r : expr) (op : token)            (* BinaryExpr{Left, Right, Op} *)
| EMap (arr : list expr) (fields : list (string * expr)) (* MapExpr{Array, Fields} *)
with stmt :=
| SNil                                                  (* nil ast.Stmt *)
| SBlock (b : block)                                    (* *BlockStmt used as a statement *)
| SAssign (id : token) (v : expr)                       (* AssignStmt{Ident, Val} *)
| SLet (id : token) (v : expr)                          (* LetStmt{Ident, Val} *)
| SReturn (v : expr)                                    (* ReturnStmt{Val} *)
| SCtrl (t : ctrltyp)                                   (* CtrlStmt{Typ} *)
| SIf (c : expr) (ifb : block) (els : stmt)             (* IfStmt{Condition, IfBlock, ElseBlock} *)
| SSwitch (c : expr) (cases : list casestmt) (def : block) (* SwitchStmt{Condition, Cases, Default} *)
| SCase (c : casestmt)                                  (* a *CaseStmt used as a statement *)
| SFn (funval : token) (args : list string) (body : block) (* FnStmt{FunVal, Args, Body} *)
| SWhile (c : expr) (body : block)                      (* WhileStmt{Condition, WhileBlock} *)
| SFor (init : stmt) (cond : expr) (post : stmt) (body : block) (* ForStmt{Init, Cond, Post, Body} *)
with casestmt :=
| Case (c : expr) (body : block)                        (* CaseStmt{Condition, Body} *)
with node :=                                            (* ast.Node inside BlockStmt.List *)
| NExpr (e : expr)
| NStmt (s : stmt)
with block :=
| BNil                                                  (* nil *BlockStmt *)
| Block (l : list node).                                (* BlockStmt{List} *)

(* a program is the top-level block ([gcs.ActionList.Program]) *)
Definition program := block.

(* ---- strings ---- *)
Definition ascii_code (a : ascii) : Z := Z.of_N (N_of_ascii a).
Definition ascii_of_code (z : Z) : ascii := ascii_of_N (Z.to_N z).

Fixpoint string_bytes (s : string) : list Z :=
  match s with
  | EmptyString => []
  | String a r => ascii_code a :: string_bytes r
  end.
Fixpoint bytes_string (l : list Z) : string :=
  match l with
  | [] => EmptyString
  | b :: r => String (ascii_of_code b) (bytes_string r)
  end.

Definition hexval (a : ascii) : Z :=
  let c := ascii_code a in
  if (48 <=? c) && (c <=? 57) then c - 48
  else if (97 <=? c) && (c <=? 102) then c - 87
  else if (65 <=? c) && (c <=? 70) then c - 55 else 0.
(* bytes written as pairs of hex digits *)
Fixpoint hex_bytes (s : string) : list Z :=
  match s with
  | String a (String b r) => (16 * hexval a + hexval b) :: hex_bytes r
  | _ => []
  end.
(* [hx "616263" = "abc"]: how the harness writes byte strings that are not printable ASCII *)
Definition hx (s : string) : string := bytes_string (hex_bytes s).

Definition string_eqb (a b : string) : bool := String.eqb a b.

(* bytewise lexicographic order = Go's [<] on strings *)
Fixpoint string_ltb (a b : string) : bool :=
  match a, b with
  | _, EmptyString => false
  | EmptyString, String _ _ => true
  | String x a', String y b' =>
      let cx := ascii_code x in let cy := ascii_code y in
      if cx <? cy then true else if cy <? cx then false else string_ltb a' b'
  end.

(* insertion into the canonical form of a Go map: [m[k] = v] *)
Fixpoint fields_set {A} (k : string) (v : A) (m : list (string * A)) : list (string * A) :=
  match m with
  | [] => [(k, v)]
  | (k', v') :: r =>
      if string_eqb k k' then (k, v) :: r
      else if string_ltb k k' then (k, v) :: m
      else (k', v') :: fields_set k v r
  end.

(* ---- structural equality (floats by bit pattern) ---- *)
Definition token_eqb (a b : token) : bool :=
  toktype_eqb (t_typ a) (t_typ b) && string_eqb (t_val a) (t_val b).

Definition ctrl_eqb (a b : ctrltyp) : bool :=
  match a, b with
  | InvalidCtrl, InvalidCtrl | CtrlBreak, CtrlBreak | CtrlContinue, CtrlContinue
  | CtrlFallthrough, CtrlFallthrough => true
  | _, _ => false
  end.

Fixpoint expr_eqb (a b : expr) {struct a} : bool :=
  match a, b with
  | ENil, ENil => true
  | ENum i f s, ENum i' f' s' => (i =? i') && feqb_bits f f' && Bool.eqb s s'
  | EStr v, EStr v' => string_eqb v v'
  | EBool v, EBool v' => Bool.eqb v v'
  | ENull, ENull => true
  | EFuncLit ar bd, EFuncLit ar' bd' => list_eqb string_eqb ar ar' && block_eqb bd bd'
  | EIdent v, EIdent v' => string_eqb v v'
  | ECall f ar, ECall f' ar' =>
      expr_eqb f f' &&
      (fix go (x y : list expr) : bool :=
         match x, y with
         | [], [] => true
         | p :: x', q :: y' => expr_eqb p q && go x' y'
         | _, _ => false
         end) ar ar'
  | EUnary o r, EUnary o' r' => token_eqb o o' && expr_eqb r r'
  | EBinary l r o, EBinary l' r' o' => expr_eqb l l' && expr_eqb r r' && token_eqb o o'
  | EMap ar fs, EMap ar' fs' =>
      (fix go (x y : list expr) : bool :=
         match x, y with
         | [], [] => true
         | p :: x', q :: y' => expr_eqb p q && go x' y'
         | _, _ => false
         end) ar ar' &&
      (fix gof (x y : list (string * expr)) : bool :=
         match x, y with
         | [], [] => true
         | (k, p) :: x', (k', q) :: y' => string_eqb k k' && expr_eqb p q && gof x' y'
         | _, _ => false
         end) fs fs'
  | _, _ => false
  end
with stmt_eqb (a b : stmt) {struct a} : bool :=
  match a, b with
  | SNil, SNil => true
  | SBlock x, SBlock y => block_eqb x y
  | SAssign i v, SAssign i' v' => token_eqb i i' && expr_eqb v v'
  | SLet i v, SLet i' v' => token_eqb i i' && expr_eqb v v'
  | SReturn v, SReturn v' => expr_eqb v v'
  | SCtrl t, SCtrl t' => ctrl_eqb t t'
  | SIf c x e, SIf c' x' e' => expr_eqb c c' && block_eqb x x' && stmt_eqb e e'
  | SSwitch c cs d, SSwitch c' cs' d' =>
      expr_eqb c c' &&
      (fix go (x y : list casestmt) : bool :=
         match x, y with
         | [], [] => true
         | p :: x', q :: y' => case_eqb p q && go x' y'
         | _, _ => false
         end) cs cs' && block_eqb d d'
  | SCase c, SCase c' => case_eqb c c'
  | SFn fv ar bd, SFn fv' ar' bd' =>
      token_eqb fv fv' && list_eqb string_eqb ar ar' && block_eqb bd bd'
  | SWhile c x, SWhile c' x' => expr_eqb c c' && block_eqb x x'
  | SFor i c p x, SFor i' c' p' x' =>
      stmt_eqb i i' && expr_eqb c c' && stmt_eqb p p' && block_eqb x x'
  | _, _ => false
  end
with case_eqb (a b : casestmt) {struct a} : bool :=
  match a, b with
  | Case c x, Case c' x' => expr_eqb c c' && block_eqb x x'
  end
with node_eqb (a b : node) {struct a} : bool :=
  match a, b with
  | NExpr e, NExpr e' => expr_eqb e e'
  | NStmt s, NStmt s' => stmt_eqb s s'
  | _, _ => false
  end
with block_eqb (a b : block) {struct a} : bool :=
  match a, b with
  | BNil, BNil => true
  | Block x, Block y =>
      (fix go (x y : list node) : bool :=
         match x, y with
         | [], [] => true
         | p :: x', q :: y' => node_eqb p q && go x' y'
         | _, _ => false
         end) x y
  | _, _ => false
  end.
