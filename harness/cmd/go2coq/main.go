// go2coq regenerates coq/Gen/*.v from the Go source of the repository under verification.
//
//	go2coq Sites -repo <path>      site tables for property C01 (printed on stdout)
//	go2coq Sites -repo <path> -text    the same tables as plain text (for reading)
//	go2coq Globals -repo <path>    package-level variables, their writers, Register call sites
//	                               (properties C15 and C20; globals.go)
//	go2coq Formulas | FormulasInfo | FormulasAttr | FormulasHeal | FormulasShield | FormulasTurn | FormulasQueue -repo <path>
//	                               the pure leaf formulas and constant tables translated into Gallina
//	                               (formulas.go, formulas_specs.go; these load only the packages they translate)
//	go2coq DispatchTable -repo <path>  the modifier manager's listener dispatch (pkg/engine/modifier/listener.go) as a
//	                               first-order table: Subscribe wiring, walks, gates, callbacks (dispatch.go)
//	go2coq HandlersTable -repo <path>  Subscribe / Emit of the four event handlers (pkg/engine/event/handler) and
//	                               logging.Log / InitLoggers as a first-order table (handlers.go)
//	go2coq RunSkeleton -repo <path>    the run loop of pkg/simulation (run.go, action.go, death.go) as a first-order
//	                               table: per function the ordered steps of its body - emits, checks, drains, guards,
//	                               next states (runskel.go)
//
// It loads every package under ./pkg, ./internal and ./cmd of the repository with full type
// information (golang.org/x/tools/go/packages; test files and files excluded by build
// constraints such as the `//go:build ignore` generator programs are not part of the build and
// are not loaded) and fails (exit 1) when a package does not type-check: a table computed from
// a tree that does not compile would be meaningless.
package main

import (
	"flag"
	"fmt"
	"os"
	"path/filepath"
	"sort"
	"strings"

	"golang.org/x/tools/go/packages"
)

const modulePath = "github.com/simimpact/srsim"

func die(f string, a ...any) {
	fmt.Fprintf(os.Stderr, "go2coq: "+f+"\n", a...)
	os.Exit(1)
}

func main() {
	if len(os.Args) < 2 {
		die("usage: go2coq <Gen> -repo <path> [-text]")
	}
	gen := os.Args[1]
	fs := flag.NewFlagSet("go2coq", flag.ExitOnError)
	repo := fs.String("repo", "/repo", "repository root")
	text := fs.Bool("text", false, "plain-text listing instead of Coq")
	_ = fs.Parse(os.Args[2:])
	root, err := filepath.Abs(*repo)
	if err != nil {
		die("%v", err)
	}
	if r, err := filepath.EvalSymlinks(root); err == nil {
		root = r
	}
	switch gen {
	case "Sites":
		w := load(root)
		w.buildGraph()
		w.collectSites()
		if *text {
			w.printText(os.Stdout)
		} else {
			w.printCoq(os.Stdout)
		}
	case "Globals":
		fmt.Print(genGlobals(root))
	case "Formulas", "FormulasInfo", "FormulasAttr", "FormulasHeal", "FormulasShield", "FormulasTurn", "FormulasQueue":
		fmt.Print(genFormulas(root, gen))
	case "Dispatch", "DispatchTable":
		fmt.Print(genDispatch(root))
	case "Handlers", "HandlersTable":
		fmt.Print(genHandlers(root))
	case "RunSkeleton":
		fmt.Print(genRunSkeleton(root))
	case "Stacking", "StackingTable":
		fmt.Print(genStacking(root))
	default:
		die("unknown generator %q", gen)
	}
}

func load(root string) *world {
	cfg := &packages.Config{
		Mode: packages.NeedName | packages.NeedFiles | packages.NeedSyntax | packages.NeedTypes |
			packages.NeedTypesInfo | packages.NeedImports | packages.NeedDeps,
		Dir: root,
		Env: append(os.Environ(), "GOFLAGS=-mod=mod", "GOPROXY=off", "GOSUMDB=off", "GOTOOLCHAIN=local"),
	}
	pkgs, err := packages.Load(cfg, "./pkg/...", "./internal/...", "./cmd/...")
	if err != nil {
		die("loading packages: %v", err)
	}
	bad := []string{}
	packages.Visit(pkgs, nil, func(p *packages.Package) {
		if !strings.HasPrefix(p.PkgPath, modulePath) {
			return
		}
		for _, e := range p.Errors {
			bad = append(bad, fmt.Sprintf("%s: %v", p.PkgPath, e))
		}
	})
	if len(bad) > 0 {
		sort.Strings(bad)
		die("the repository does not type-check:\n  %s", strings.Join(bad, "\n  "))
	}
	sort.Slice(pkgs, func(i, j int) bool { return pkgs[i].PkgPath < pkgs[j].PkgPath })
	w := &world{root: root, pkgs: pkgs}
	return w
}
