CONFIG = {
    "id": "C07",
    "coq_targets": ["Gen/FormulasInfo.v", "Gen/FormulasAttr.v", "Proofs/FormulasAttrProofs.v",
                    "Props/C07.v", "Model/AttrCheck.v"],
    "prop_files": ["Props/C07.v"],
    "gen": ["FormulasInfo", "FormulasAttr"],
    "components": [{
        "name": "attr", "modules": ["Model.Attr", "Model.AttrCheck"],
        "check": "check_case", "monitor": "monitor_case", "model_out": "model_out",
        "case_type": "case",
        "ops_path": [1],            # the input term is (listener scripts, top-level calls)
        "n_quick": 1200, "n_thorough": 20000, "shard": 100,
    }],
    "rule": "input = (listener scripts, top-level calls) on the real attribute.New service (real event.System, scripted "
            "modifier.Eval). Top-level: op lists of 2-33 calls: "
            "AddTarget (1-3 units from the id pool {1,2,3}, late and duplicate registrations, id 4 never registered), "
            "SetHP / ModifyHPByAmount / ModifyHPByRatio (both ratio types and invalid ones, floors 0, 1, fractions and "
            "multiples of max HP, negative and huge floors), SetEnergy / ModifyEnergy / ModifyEnergyFixed, SetStance / "
            "ModifyStance, ModifySP (incl. int64 extremes); amounts half from boundary values (0, -0, exactly max, one ulp "
            "above/below, -max, 2*max, MaxFloat64, 5e-324) and half small round numbers whose sums hit the bounds exactly; "
            "per-call max HP / energy regen for the target and different ones for every other unit, one stance bonus for all "
            "units (whose bonus scales ModifyStance is C04); a LimboWaitHeal verdict that cancels in a third of the calls; "
            "most cases focus on one quantity so that consecutive calls chain. "
            "RE-ENTRANT LISTENERS (two cases in three): the harness subscribes ONE listener to each of the seven events "
            "(HPChange, LimboWaitHeal, StanceChange, StanceBreak, StanceReset, EnergyChange, SPChange); it records the event, "
            "records what the getters of the event's unit return at that moment (ESeen), pops the next script of the event's "
            "queue and calls the REAL service again from inside the outer call's Emit (recording each nested return code, "
            "ERet); 1-9 scripts per case spread over the seven queues (two thirds in the queues of the events the focused "
            "quantity fires), 0-3 calls per script (mostly 0-2), five calls in six on the hot unit the top-level calls work on "
            "and three in four on the quantity the event is about (so a listener re-triggers its own event, undoes or "
            "anticipates the outer call's change: amounts 0, max, -max, max/2, 2*max; same key numbers 0-3); nesting as "
            "deep as the queued scripts allow (every invocation consumes one), 1-12 top-level calls in "
            "those cases; about 6 % of the generated cases hit the known StanceBreak / StanceReset finding (accepted by "
            "monitor_case, rejected by monitor_full). Everything derives from one splitmix64 state; a case is non-trivial "
            "when distinct as an input term",
    "trusted": [
        "TRANSLATED from the Go source on every run and proved equal to the model at binary64 (Gen/FormulasAttr.v, "
        "Gen/FormulasInfo.v; Proofs/FormulasAttrProofs.v; theorem C07_model_formulas_are_the_source): AddTarget "
        "(energy cap, HP ratio default), SetHP, ModifyHPByAmount, ModifyHPByRatio (both ratio types, the floor, "
        "the error outcome for another type), the [0,1] clamp, SetStance and SetEnergy clamps, ModifyStance / "
        "ModifyEnergy / ModifyEnergyFixed amounts (and WHOSE stats they read: the whitelisted assignment stats := "
        "s.Stats(data.Source) resp. data.Target), ModifySP (64-bit wrap, clamp to [0,5]), the initial 3 skill "
        "points",
        "still HAND-WRITTEN (correspondence only): the unknown-target error paths, emitHPChangeEvents (state "
        "machine, one event per change), StanceBreak / StanceReset announcements, the getters, and the ORDER of "
        "stores, emissions and re-reads inside every mutator (Model/Attr.v, section RE-ENTRANT LISTENERS: what is "
        "already stored when Emit is called, which value is a Go local computed before the emission - newRatio in "
        "emitHPChangeEvents, the clamped amount and the break / reset decision in SetStance - and which is re-read "
        "after the listeners ran - the unit's life state, prev := attr.Stance)",
        "listener behaviour is DATA: per event a queue of scripts of the service's own operations, run by the model "
        "at the point of Emit with fuel for the nesting depth; the theorems quantify over all tables of scripts and "
        "all fuel with the out-of-fuel outcome excluded by hypothesis, and C07_fuel_suffices proves it unreachable "
        "for fuel >= the number of queued scripts (the correspondence uses one more). Not covered: listeners that "
        "do something else than calling the attribute service (they cannot touch its state), more than one "
        "listener per event (the scripts of several listeners of one event run one after the other: the same as "
        "one listener running the concatenation, except that later listeners receive the event value computed "
        "before the earlier ones ran - true of any synchronous event system and visible in the model as the event "
        "followed by its reading), AddTarget from inside a listener (scripts are the eight mutators)",
        "the harness restores the scripted modifier.Eval environment and LimboWaitHeal verdict of the outer call "
        "when a nested call returns (no mutator reads stats after an emission today; checked by reading, and a "
        "mutator that did would read the OUTER call's stats in the model)",
        "translator (harness/cmd/go2coq formulas.go, formulas_specs.go): trusted are the Go front end "
        "(go/packages, go/types, go/constant), the fixed whitelist and accessor tables (which Go field / method is "
        "which model accessor), the statement translation listed at the top of formulas.go, and that lit N n d "
        "(the correctly rounded quotient of two integers below 2^53) is the binary64 the Go compiler stores for "
        "the literal n/d; the translator fails closed (unknown construct, added or missing assignment, changed "
        "signature: go2coq exits 1 and the check reports a broken translator obligation)",
        "for functions that mix effects and arithmetic only the whitelisted statements are translated (the "
        "statements of one block that assign the named variables, their number fixed; every other assignment to "
        "those variables or to the inputs must be whitelisted verbatim): the ORDER of effects around the "
        "arithmetic (event emissions, service calls, which unit receives the energy) stays hand-written and is "
        "tied by correspondence only","what the service reads from the rest of the engine (Stats(target).MaxHP(), EnergyRegen(), "
                "AllStanceDMGPercent) is an input of every call: the harness serves it through a scripted modifier.Eval "
                "(HPBase = max HP, no percent/flat part), the modifier side itself is property C06",
                "key.Reason is represented by small integers printed as decimal strings"],
    "assumptions": ["units are registered (AddTarget) with attributes in range: HP ratio <= 1 (non-positive becomes 1), "
                    "0 <= energy, 0 <= finite max energy, 0 <= stance <= finite max stance; AddTarget itself does not validate",
                    "amounts, ratios, floors, energy regen and stance damage bonus are finite; max HP is finite and positive "
                    "- for top-level calls and for every call in a listener script",
                    "listeners MAY call the attribute service from inside its events (any nesting). KNOWN FINDING kept in "
                    "the code (C07-reentrant-stance-break, theorem C07_reentrant_full_refuted): a StanceBreak / "
                    "StanceReset listener that changes the stance of the same unit makes the announcing SetStance report a "
                    "StanceChange with old == new and has one zero crossing announced twice; the full property text is "
                    "proved for every history in which no listener reacts to StanceBreak / StanceReset "
                    "(C07_reentrant_partial), whatever all other listeners do",
                    "with re-entrant listeners 'the value before / after the call' is read as: the change events of a unit "
                    "and quantity, in the order they reach the listeners, lead from the value before the history (or call) "
                    "to the value after it, and the new value of an event is the stored value when the event reaches its "
                    "listeners; the exactly-one-event-per-changed-quantity form holds for calls during which no listener "
                    "script runs (C07_ranges_and_reports + C07_no_listeners_is_one_call_without_interference)",
                    "the chain property compares values with float64 == (a stored +0 may be reported as -0 and vice versa)",
                    "the unit's life state (Alive / Limbo / Dead) is not part of C07: after a re-entrant HPChange listener it "
                    "is decided from the ratio computed before the listeners ran (modelled as it is, corpus cases "
                    "reentrant_hp_listener_*.json)"],
    "manifest": {
        "level_text": "Translator tie (way 1): every clamp and update expression of attribute/add.go and attribute/modify.go is regenerated from the Go source on every run (go2coq FormulasAttr) and proved EQUAL to the model's expressions at binary64; "
                      "Kernel-checked theorems at the binary64 level (Flocq facts about primitive floats) over an "
                      "executable Gallina model of the attribute service: ranges as an invariant of all call sequences, "
                      "exactly-one-event-iff-changed with old/new = before/after for every call, event chains, break/reset "
                      "announcements; RE-ENTRANT LISTENERS are part of the model (scripts per event, run at the point of Emit, "
                      "any nesting): for all scripts and fuel the ranges hold in every state a listener sees, the change events "
                      "of a unit and quantity lead from the value before to the value after with new = stored value at "
                      "delivery, HP / energy / SP events always report changes; the full text incl. StanceChange and exact "
                      "break / reset counts is proved when no listener reacts to StanceBreak / StanceReset and REFUTED (vm_compute "
                      "witnesses replayed on the Go code, known finding C07-reentrant-stance-break) otherwise; "
                      "tied to the Go code by exact (bit-level) correspondence of events, errors, getters after every call and "
                      "getters at every event delivery on generated re-entrant histories plus an independent monitor of the "
                      "property on the implementation's output (monitor_case = what is proved of today's code, monitor_full = "
                      "the property text).",
        "level_note": "go2coq FormulasAttr translator + kernel-checked equalities generated = model; "
                      "Coq kernel; hand-written model Model/Attr.v of the repaired code (two fix: commits in "
                      "ModifyHPByRatio); stats of the target are per-call inputs.",
        "technique": "source-to-Coq translation of the formulas with equality proofs + "
                     "Coq proof (invariant + per-call specification, induction over op lists; for re-entrant listeners a "
                     "compositional segment invariant proved by induction on fuel and scripts, refutation by vm_compute) + "
                     "model/implementation correspondence + runtime monitor",
        "design_ref": "DESIGN.md section 7, C07",
    },
}
