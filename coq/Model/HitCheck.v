(* Correspondence checker for Model/Hit.v (component "hit", property C04): runs the model at
   the binary64 instance on the harness's input and compares the whole observable trace
   (AttackStart/End, HitStart, the random draw, ShieldRemoved/ShieldChange, HPChange,
   LimboWaitHeal, StanceBreak/Reset/Change, EnergyChange, HitEnd with every reported factor,
   then the getters of every unit after every operation) bit for bit. *)
From Coq Require Import List ZArith Bool String Floats.
From SR Require Import Base.CaseLib Model.CombatCore Model.CombatCheck Model.Hit.
Import ListNotations.
Open Scope Z_scope.

Definition hcase := (list (uspec F) * list Z * list float * list (aop F) * obs)%type.

Definition hit_model_out (c : hcase) : option (list (item F)) :=
  let '(us, limbo, draws, ops, _) := c in
  match arun F break_float (init_world F us limbo draws) ops with
  | Some (_, tr) => Some tr
  | None => None
  end.

Definition hit_check_case (c : hcase) : bool :=
  let '(_, _, _, _, o) := c in
  match hit_model_out c, o with
  | Some tr, Ok tr' => list_eqb item_eqb tr tr'
  | None, HarnessPanic _ => true       (* BreakBaseDamage indexed outside its table *)
  | _, _ => false
  end.

(* ------------------------------------------------------------------------------------ *)
(* Monitor: the property's own predicate on what the implementation reported.            *)
(* ------------------------------------------------------------------------------------ *)

Definition spec_of (us : list (uspec F)) (id : Z) : option (uspec F) :=
  find (fun u => match u with USpec i _ _ _ _ _ _ _ _ _ => i =? id end) us.
Definition spec_char (us : list (uspec F)) (id : Z) : bool :=
  match spec_of us id with Some (USpec _ ch _ _ _ _ _ _ _ _) => ch | None => false end.
Definition spec_weak (us : list (uspec F)) (id dt : Z) : bool :=
  match spec_of us id with Some (USpec _ _ _ _ _ _ _ _ wk _) => existsb (Z.eqb dt) wk | None => false end.

Definition nf (l : list float) (n : nat) : float := nth n l nan.

(* the reported factors multiply (left to right, as the code does) to the reported total;
   shield damage is total minus HP damage; the documented clamps hold (a NaN passes: both
   comparisons are false); crit damage is 1 unless critical *)
Definition hit_end_ok (vals : list float) (crit : bool) : bool :=
  let total := (nf vals 0 * nf vals 1 * nf vals 2 * nf vals 3 * nf vals 4 * nf vals 5 * nf vals 6 * nf vals 7)%float in
  Nat.eqb (List.length vals) 12 &&
  feqb_bits (nf vals 8) total &&
  feqb_bits (nf vals 10) (nf vals 8 - nf vals 9)%float &&
  negb (2 <? nf vals 2)%float && negb (nf vals 2 <? 1 - 9 / 10)%float &&       (* resistance in [0.1, 2] *)
  negb (7 / 2 <? nf vals 3)%float &&                                             (* vulnerability <= 3.5 *)
  (feqb_bits (nf vals 4) 1 || feqb_bits (nf vals 4) (9 / 10)%float) &&           (* toughness 1.0 / 0.9 *)
  negb (nf vals 6 <? 1 / 100)%float &&                                           (* reduction >= 0.01 *)
  (crit || feqb_bits (nf vals 7) 1).

(* events of the hits of one attack, in order; [pure]/[atype] of the open hit come from its
   HitStart record *)
Fixpoint mon_hit_events (us : list (uspec F)) (open : option (Z * Z * Z * Z * bool * bool)) (evs : list (item F)) : bool :=
  match evs with
  | [] => match open with None => true | Some _ => false end
  | e :: r =>
      match open, e with
      | None, IAttackStart _ _ _ atype _ => is_qualified atype && mon_hit_events us None r
      | None, IHitStart _ _ att def atype dtype _ _ pure _ =>
          mon_hit_events us (Some (att, def, atype, dtype, pure, false)) r
      | Some (att, def, atype, dtype, pure, drawn), IDraw _ =>
          (* a draw only for an eligible hit, at most one *)
          negb drawn && negb ((atype =? atDOT) || (atype =? atELEMENT) || pure) &&
          mon_hit_events us (Some (att, def, atype, dtype, pure, true)) r
      | Some (att, def, _, _, _, _), IShieldRemoved _ t => (t =? def) && mon_hit_events us open r
      | Some (att, def, _, _, _, _), IShieldChange t _ _ _ _ _ => (t =? def) && mon_hit_events us open r
      | Some (att, def, _, _, _, _), IHPChange _ t _ _ _ _ dmg => (t =? def) && dmg && mon_hit_events us open r
      | Some (att, def, _, _, _, _), ILimbo t _ => (t =? def) && mon_hit_events us open r
      (* toughness is removed only from a defender weak to the hit's element *)
      | Some (att, def, _, dtype, _, _), IStanceChange _ t s _ _ =>
          (t =? def) && (s =? att) && spec_weak us def dtype && mon_hit_events us open r
      | Some (att, def, _, dtype, _, _), IStanceBreak _ t s =>
          (t =? def) && (s =? att) && spec_weak us def dtype && mon_hit_events us open r
      | Some (att, def, _, dtype, _, _), IStanceReset _ t =>
          (t =? def) && spec_weak us def dtype && mon_hit_events us open r
      (* energy goes to the attacking character, or to the defender when the attacker is not one *)
      | Some (att, def, _, _, _, _), IEnergyChange _ t s _ _ =>
          (t =? (if spec_char us att then att else def)) && (s =? att) && mon_hit_events us open r
      | Some (att, def, atype, dtype, pure, drawn), IHitEnd _ _ att' def' atype' dtype' vals crit _ =>
          (att' =? att) && (def' =? def) && (atype' =? atype) && (dtype' =? dtype) &&
          hit_end_ok vals crit &&
          (* exactly one draw iff eligible; critical only if eligible *)
          Bool.eqb drawn (negb ((atype =? atDOT) || (atype =? atELEMENT) || pure)) &&
          (negb crit || drawn) &&
          mon_hit_events us None r
      | _, _ => false
      end
  end.

Fixpoint mon_aops (us : list (uspec F)) (nunits : nat) (ops : list (aop F)) (prev tr : list (item F)) : bool :=
  match ops with
  | [] => match tr with [] => true | _ => false end
  | o :: rest =>
      let '(evs, tr1) := take_while (fun it => negb (is_unit_item it)) tr in
      let units := firstn nunits tr1 in
      let tr2 := skipn nunits tr1 in
      Nat.eqb (List.length units) nunits && forallb is_unit_item units &&
      match o with
      | AAttack _ _ source ts _ _ _ _ _ _ _ _ _ _ =>
          match ts with
          | [] => match evs with [] => list_eqb item_eqb units prev | _ => false end
          | _ => if unit_state prev source =? stAlive then mon_hit_events us None evs
                 else match evs with [] => list_eqb item_eqb units prev | _ => false end
          end
      | _ => true
      end && mon_aops us nunits rest units tr2
  end.

Definition hit_monitor_case (c : hcase) : bool :=
  let '(us, limbo, _, ops, o) := c in
  match o with
  | Ok tr => let iu := initial_units us limbo in mon_aops us (List.length iu) ops iu tr
  | HarnessPanic _ => true       (* nothing was reported; the check decides whether a panic is expected *)
  end.
