(* C15 -- Runs are isolated from each other.
   Only statements, [exact] and [Print Assumptions] live here. *)
From Coq Require Import List ZArith String.
From SR Require Import Base.GlobalTypes Gen.Globals Model.GlobalsAllow Model.Runs
                       Proofs.RunsProofs Proofs.GlobalsProofs.
Import ListNotations.

(* For every system of runs (any number), every schedule (any order, any interleaving, any
   length) and every run: if steps read the globals only through a part that no step writes,
   the run ends exactly where it ends alone, and the part it reads is unchanged. *)
Theorem C15_runs_isolated_under_frame_condition : C15_statement.
Proof. exact C15_holds. Qed.
Print Assumptions C15_runs_isolated_under_frame_condition.

Theorem C15_interleaving_invariance :
  forall (P G RO : Type) (sys : system P G) (ro : G -> RO),
    reads_only_ro P G RO sys ro -> never_writes_ro P G RO sys ro ->
    forall g0 sched i, priv_after sys g0 sched i = alone sys g0 i (steps_of i sched).
Proof. exact interleaving_invariance. Qed.
Print Assumptions C15_interleaving_invariance.

Theorem C15_schedule_independence :
  forall (P G RO : Type) (sys : system P G) (ro : G -> RO),
    reads_only_ro P G RO sys ro -> never_writes_ro P G RO sys ro ->
    forall g0 s1 s2 i, steps_of i s1 = steps_of i s2 ->
      priv_after sys g0 s1 i = priv_after sys g0 s2 i.
Proof. exact schedule_independence. Qed.
Print Assumptions C15_schedule_independence.

(* The converse, in the shape of logging.loggers: two schedules of two runs, same steps, but
   run 0's own logger collects its two events in one and nothing in the other. *)
Theorem C15_shared_logger_list_refuted :
  exists s1 s2,
    steps_of 0 s1 = steps_of 0 s2 /\ steps_of 1 s1 = steps_of 1 s2 /\
    logger_result s1 0%nat = [(0%nat, 1%Z); (0%nat, 2%Z)] /\
    logger_result s2 0%nat = [] /\
    logger_result s2 1%nat = [(0%nat, 1%Z); (0%nat, 2%Z); (1%nat, 1%Z); (1%nat, 2%Z)] /\
    priv_after logger_sys logger_g0 s1 0%nat <> priv_after logger_sys logger_g0 s2 0%nat.
Proof. exact shared_logger_list_breaks_isolation. Qed.
Print Assumptions C15_shared_logger_list_refuted.

(* The tie to the Go source: obligations over the generated table Gen/Globals.v. *)
Theorem C15_no_reachable_global_writes_partial :
  forall w, In w global_writes -> gw_reach w = true -> gw_init w = false ->
            allowed w = true \/ is_known_shared w = true.
Proof. exact no_reachable_global_writes_partial_forall. Qed.
Print Assumptions C15_no_reachable_global_writes_partial.

Theorem C15_no_reachable_global_writes_refuted :
  exists w, In w global_writes /\ gw_reach w = true /\ gw_init w = false /\
            allowed w = false /\ gw_var w = "loggers"%string /\ gw_kind w = "assign"%string.
Proof. exact no_reachable_global_writes_refuted. Qed.
Print Assumptions C15_no_reachable_global_writes_refuted.

Theorem C15_no_register_outside_init : register_outside_init register_calls = [].
Proof. exact no_register_outside_init. Qed.
Print Assumptions C15_no_register_outside_init.

Theorem C15_catalogs_written_at_init_only : forallb catalog_row_ok global_writes = true.
Proof. exact catalogs_written_at_init_only. Qed.
Print Assumptions C15_catalogs_written_at_init_only.

(* non-vacuity: a system that satisfies the frame condition with a non-trivial read part, and
   the generated table saw the program and its entry points *)
Theorem C15_nonvacuous_frame :
  (reads_only_ro Z (Z * Z) Z demo_sys fst /\ never_writes_ro Z (Z * Z) Z demo_sys fst) /\
  priv_after demo_sys (10%Z, 0%Z) [0; 1; 1; 0; 1]%nat 1%nat = 31%Z.
Proof. exact demo_nonvacuous. Qed.

Theorem C15_nonvacuous_table :
  Nat.leb 100 gen_packages = true /\ Nat.leb 1000 gen_reachable_functions = true /\
  Nat.leb 100 (List.length global_vars) = true /\ Nat.leb 100 (List.length register_calls) = true /\
  existsb (fun r => str_eqb r "pkg/simulation.Run") run_roots = true /\
  existsb (fun r => str_eqb r "cmd/srsim.(*pool).worker") run_roots = true /\
  existsb (fun r => str_eqb r "pkg/servermode.(*workerpool).iter") run_roots = true /\
  existsb is_catalog global_writes = true.
Proof. exact table_nonvacuous. Qed.
