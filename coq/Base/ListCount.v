(* List facts shared by the modifier proofs (C05, C06): counting occurrences as integers
   (so that multiset arguments are linear arithmetic), sublists, sorted lists. *)
From Coq Require Import List ZArith Bool Lia Sorting.Sorted Arith.
Import ListNotations.
Open Scope Z_scope.

(* ------------------------------------------------------------------ *)
(* Counting                                                             *)
(* ------------------------------------------------------------------ *)

Definition c (l : list Z) (x : Z) : Z := Z.of_nat (count_occ Z.eq_dec l x).

Lemma c_nil x : c [] x = 0. Proof. reflexivity. Qed.
Lemma c_nonneg l x : 0 <= c l x. Proof. unfold c. lia. Qed.
Lemma c_cons y l x : c (y :: l) x = (if Z.eq_dec y x then 1 else 0) + c l x.
Proof. unfold c. cbn. destruct (Z.eq_dec y x); lia. Qed.
Lemma c_app l1 l2 x : c (l1 ++ l2) x = c l1 x + c l2 x.
Proof. induction l1 as [|y l1 IH]; [reflexivity|]. cbn [app]. rewrite !c_cons, IH. lia. Qed.
Lemma c_in l x : 0 < c l x <-> In x l.
Proof.
  unfold c. split; intros H.
  - apply (count_occ_In Z.eq_dec). lia.
  - apply (count_occ_In Z.eq_dec) in H. lia.
Qed.
Lemma c_notin l x : ~ In x l -> c l x = 0.
Proof. intros H. pose proof (c_nonneg l x). destruct (Z.eq_dec (c l x) 0); [assumption|]. exfalso. apply H, c_in. lia. Qed.

(* ---- sublists ---- *)
Inductive sublist {A} : list A -> list A -> Prop :=
| sub_nil l : sublist [] l
| sub_keep x l1 l2 : sublist l1 l2 -> sublist (x :: l1) (x :: l2)
| sub_skip x l1 l2 : sublist l1 l2 -> sublist l1 (x :: l2).

Lemma sublist_refl {A} (l : list A) : sublist l l.
Proof. induction l; constructor; assumption. Qed.

Lemma sublist_in {A} (l1 l2 : list A) x : sublist l1 l2 -> In x l1 -> In x l2.
Proof. induction 1; cbn; intros Hx; [destruct Hx| |]; intuition. Qed.

Lemma sublist_map {A B} (f : A -> B) l1 l2 : sublist l1 l2 -> sublist (map f l1) (map f l2).
Proof. induction 1; cbn; constructor; assumption. Qed.

Lemma sublist_Forall {A} (P : A -> Prop) l1 l2 : sublist l1 l2 -> Forall P l2 -> Forall P l1.
Proof. intros Hs Hf. rewrite Forall_forall in *. intros x Hx. eapply Hf, sublist_in; eassumption. Qed.

Lemma sublist_SS {A} (Rl : A -> A -> Prop) l1 l2 : sublist l1 l2 -> StronglySorted Rl l2 -> StronglySorted Rl l1.
Proof.
  induction 1; intros Hs; [constructor| |].
  - inversion Hs; subst. constructor; [auto|]. eapply sublist_Forall; eassumption.
  - inversion Hs; subst. auto.
Qed.

Lemma sublist_NoDup {A} (l1 l2 : list A) : sublist l1 l2 -> NoDup l2 -> NoDup l1.
Proof.
  induction 1; intros Hn; [constructor| |].
  - inversion Hn; subst. constructor; [|auto]. intros Hx. eapply sublist_in in Hx; [|eassumption]. contradiction.
  - inversion Hn; subst. auto.
Qed.

Lemma sublist_filter {A} (p : A -> bool) l : sublist (filter p l) l.
Proof. induction l as [|a l IH]; cbn; [constructor|]. destruct (p a); constructor; assumption. Qed.

Lemma sublist_nil_r {A} (l : list A) : sublist l [] -> l = [].
Proof. inversion 1; reflexivity. Qed.

(* a sorted list included in a sorted list is a sublist of it *)
Lemma sorted_incl_sublist : forall l2 l1,
  StronglySorted Z.lt l1 -> StronglySorted Z.lt l2 -> incl l1 l2 -> sublist l1 l2.
Proof.
  induction l2 as [|b l2 IH]; intros l1 H1 H2 Hi.
  - destruct l1 as [|a l1]; [constructor|]. exfalso. apply (Hi a). left. reflexivity.
  - destruct l1 as [|a l1]; [constructor|].
    inversion H1 as [|? ? H1' F1]; subst. inversion H2 as [|? ? H2' F2]; subst.
    rewrite Forall_forall in F1, F2.
    destruct (Z.eq_dec a b) as [->|Hne].
    + apply sub_keep. apply IH; auto. intros y Hy.
      destruct (Hi y (or_intror Hy)) as [<-|Hy']; [|exact Hy']. specialize (F1 _ Hy). lia.
    + apply sub_skip. apply IH; auto. intros y Hy.
      assert (Ha : In a l2) by (destruct (Hi a (or_introl eq_refl)) as [E|E]; [congruence|exact E]).
      destruct (Hi y Hy) as [<-|Hy']; [|exact Hy'].
      destruct Hy as [->|Hy]; [congruence|]. specialize (F1 _ Hy). specialize (F2 _ Ha). lia.
Qed.

Lemma sorted_split n : forall l, StronglySorted Z.lt l ->
  l = filter (fun x => x <? n) l ++ filter (fun x => n <=? x) l.
Proof.
  induction l as [|a l IH]; intros Hs; [reflexivity|].
  inversion Hs as [|? ? Hs' Hf]; subst. cbn [filter].
  destruct (a <? n) eqn:E1.
  - assert (E2 : (n <=? a) = false) by lia. rewrite E2. cbn. f_equal. apply IH, Hs'.
  - assert (E2 : (n <=? a) = true) by lia. rewrite E2.
    assert (E3 : filter (fun x => x <? n) l = []).
    { rewrite Forall_forall in Hf. clear IH Hs Hs'. induction l as [|y l IHl]; [reflexivity|]. cbn.
      assert (a < y) by (apply Hf; left; reflexivity).
      assert (E : (y <? n) = false) by lia. rewrite E. apply IHl. intros z Hz. apply Hf. right. exact Hz. }
    assert (E4 : filter (fun x => n <=? x) l = l).
    { rewrite Forall_forall in Hf. clear IH Hs Hs' E3. induction l as [|y l IHl]; [reflexivity|]. cbn.
      assert (a < y) by (apply Hf; left; reflexivity).
      assert (E : (n <=? y) = true) by lia. rewrite E. f_equal. apply IHl. intros z Hz. apply Hf. right. exact Hz. }
    rewrite E3, E4. reflexivity.
Qed.

Lemma c_filter_split {A} (f : A -> Z) (p : A -> bool) l x :
  c (map f l) x = c (map f (filter p l)) x + c (map f (filter (fun a => negb (p a)) l)) x.
Proof.
  induction l as [|a l IH]; [reflexivity|]. cbn. destruct (p a); cbn; rewrite !c_cons, IH; lia.
Qed.

Lemma ss_snoc l n : StronglySorted Z.lt l -> Forall (fun x => x < n) l -> StronglySorted Z.lt (l ++ [n]).
Proof.
  induction l as [|a l IH]; intros Hs Hf; cbn.
  - repeat constructor.
  - inversion Hs; subst. inversion Hf; subst. constructor; [auto|].
    apply Forall_app; split; [assumption|]. repeat constructor. assumption.
Qed.

Lemma NoDup_app_snoc {A} (l : list A) x : NoDup l -> ~ In x l -> NoDup (l ++ [x]).
Proof.
  induction l as [|a l IH]; intros Hn Hx; cbn; [repeat constructor; tauto|].
  inversion Hn; subst. constructor.
  - intros Hi. apply in_app_or in Hi. destruct Hi as [Hi|[Hi|[]]]; [contradiction|]. apply Hx. left. symmetry. exact Hi.
  - apply IH; [assumption|]. intros Hi. apply Hx. right. exact Hi.
Qed.

