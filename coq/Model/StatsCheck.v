(* Correspondence checker for Model/Stats.v (repaired code: aliasing = false): after every
   operation the attached tags and a fresh engine.Stats of every unit, and at every PReadAll a
   dump of the caller's descriptions, of every instance handle and of every kept snapshot,
   are compared with what the implementation returned (floats bit for bit). *)
From Coq Require Import List ZArith Bool String Floats.
From SR Require Import Base.CaseLib Model.Stats.
Import ListNotations.
Open Scope Z_scope.

Inductive obs := Obs6 (l : list obs6) | HarnessPanic (msg : string).
Definition case := (world6 * list op6 * obs)%type.

Definition model_out (c : case) : list obs6 :=
  let '(w, ops, _) := c in run6 false w (init6 w) ops.

Definition view_eqb (a b : view) : bool :=
  list_eqb feqb_bits (v_props a) (v_props b) && list_eqb feqb_bits (v_dres a) (v_dres b) &&
  list_eqb Bool.eqb (v_weak a) (v_weak b) && list_eqb Bool.eqb (v_flags a) (v_flags b) &&
  list_eqb Z.eqb (v_counts a) (v_counts b) && feqb_bits (v_atk a) (v_atk b) && feqb_bits (v_hp a) (v_hp b).

Definition triple_eqb (a b : list float * list float * list bool) : bool :=
  let '(a1, a2, a3) := a in let '(b1, b2, b3) := b in
  list_eqb feqb_bits a1 b1 && list_eqb feqb_bits a2 b2 && list_eqb Bool.eqb a3 b3.

Definition dump_eqb (a b : dump) : bool :=
  list_eqb triple_eqb (dm_descs a) (dm_descs b) &&
  list_eqb (fun x y => (fst x =? fst y) && triple_eqb (snd x) (snd y)) (dm_insts a) (dm_insts b) &&
  list_eqb view_eqb (dm_snaps a) (dm_snaps b).

Definition uview_eqb (a b : list Z * view) : bool := list_eqb Z.eqb (fst a) (fst b) && view_eqb (snd a) (snd b).

Definition obs6_eqb (a b : obs6) : bool :=
  list_eqb uview_eqb (fst a) (fst b) && option_eqb dump_eqb (snd a) (snd b).

Definition check_case (c : case) : bool :=
  let '(_, _, o) := c in
  match o with
  | Obs6 l => list_eqb obs6_eqb (model_out c) l
  | HarnessPanic _ => false
  end.

(* Monitor (on the implementation's answers alone): ownership and privacy.
   - an operation that only touches the caller's description, a kept snapshot, or reads
     (PDescSet, PSnap, PSnapAddP, PSnapAddD, PReadAll) leaves the stats of every unit as they were;
   - an operation on an instance handle leaves the stats of every unit the instance is not
     attached to as they were;
   - between two dumps, a description changes only if a PDescSet named it, an instance only if
     a PInst... named it, a kept snapshot only if a PSnapAdd... named it.                     *)
Definition zin (x : Z) (l : list Z) : bool := existsb (Z.eqb x) l.

Definition units_same (touch : option Z) (prev cur : list (list Z * view)) : bool :=
  list_eqb (fun a b =>
              match touch with
              | Some tag => if zin tag (fst b) || zin tag (fst a) then true else uview_eqb a b
              | None => uview_eqb a b
              end) prev cur.

Definition op_touch (o : op6) : option (option Z) :=   (* None: may change stats freely *)
  match o with
  | PAdd _ _ | PRemove _ _ | PRemoveSelf _ => None
  | PInstAddP t _ _ | PInstSetP t _ _ | PInstAddD t _ _ | PInstAddW t _ | PInstDelW t _ => Some (Some t)
  | _ => Some None
  end.

Fixpoint nth_same {A} (eqb : A -> A -> bool) (skip : list nat) (i : nat) (a b : list A) : bool :=
  match a, b with
  | x :: a', y :: b' => (existsb (Nat.eqb i) skip || eqb x y) && nth_same eqb skip (S i) a' b'
  | [], _ => true
  | _ :: _, [] => false
  end.

Definition touched_descs (ops : list op6) : list nat :=
  flat_map (fun o => match o with PDescSet d _ _ _ => [d] | _ => [] end) ops.
Definition touched_snaps (ops : list op6) : list nat :=
  flat_map (fun o => match o with PSnapAddP k _ _ | PSnapAddD k _ _ => [k] | _ => [] end) ops.
Definition touched_insts (ops : list op6) : list Z :=
  flat_map (fun o => match o with
                     | PInstAddP t _ _ | PInstSetP t _ _ | PInstAddD t _ _ | PInstAddW t _ | PInstDelW t _ => [t]
                     | _ => [] end) ops.

Definition dumps_ok (since : list op6) (a b : dump) : bool :=
  nth_same triple_eqb (touched_descs since) 0 (dm_descs a) (dm_descs b) &&
  nth_same view_eqb (touched_snaps since) 0 (dm_snaps a) (dm_snaps b) &&
  forallb (fun x => zin (fst x) (touched_insts since) ||
                    match find (fun y => fst y =? fst x) (dm_insts b) with
                    | Some y => triple_eqb (snd x) (snd y)
                    | None => false
                    end) (dm_insts a).

Fixpoint monitor6 (prev : option (list (list Z * view))) (lastdump : option dump) (since : list op6)
         (ops : list op6) (l : list obs6) : bool :=
  match ops, l with
  | o :: ops', (uv, dm) :: l' =>
      (match prev, op_touch o with
       | Some p, Some touch => units_same touch p uv
       | _, _ => true
       end) &&
      (match dm with
       | Some d =>
           (match lastdump with Some d0 => dumps_ok since d0 d | None => true end) &&
           monitor6 (Some uv) (Some d) [] ops' l'
       | None => monitor6 (Some uv) lastdump (since ++ [o]) ops' l'
       end)
  | [], [] => true
  | _, _ => false
  end.

Definition monitor_case (c : case) : bool :=
  let '(_, ops, o) := c in
  match o with
  | Obs6 l => monitor6 None None [] ops l
  | HarnessPanic _ => false
  end.
