(* C20 -- Valid configurations run to completion without crashing.
   Only statements, [exact] and [Print Assumptions] live here.

   What is proved is about the ENGINE models (catalog lookups, run loop).  The content under
   internal/ (characters, light cones, relic sets) is not modelled: for it the property is
   explored by the sweep component of the check (every registered character / light cone /
   relic set on the real simulation.Run with panic recovery and an event-count watchdog). *)
From Coq Require Import List ZArith String.
From SR Require Import Base.CaseLib Model.RunSpec Model.Catalog Model.Sim Proofs.SweepProofs.
Import ListNotations.

(* (1) a configuration is accepted iff all its names are in their catalogs; one that names an
   unknown character / light cone / relic set / enemy is rejected with an error naming a key
   outside the catalog; (2) for every content script, decision source and fuel the run-loop
   model never returns without Termination: it ends with Termination as its last event, with
   an error, or out of fuel. *)
Theorem C20_engine_accepts_or_rejects_and_ends_with_termination : C20_statement.
Proof. exact C20_holds. Qed.
Print Assumptions C20_engine_accepts_or_rejects_and_ends_with_termination.

Theorem C20_unknown_key_rejected :
  forall cs r, all_names_known cs r = false -> exists e, setup cs r = Some e /\ names_outside cs e.
Proof. exact unknown_key_rejected. Qed.
Print Assumptions C20_unknown_key_rejected.

(* the cycle limit bounds the battle clock: every turn that lets the battle continue has
   passed the exit check (both sides standing, clock below the limit), and the check stops the
   run at or above the limit or when a side is wiped out.  NOT proved: a bound on the number of
   turns or events (see Proofs/SweepProofs.v). *)
Theorem C20_run_terminates_within_partial : C20_termination_partial_statement.
Proof. exact C20_termination_partial. Qed.
Print Assumptions C20_run_terminates_within_partial.

Theorem C20_nonvacuous :
  setup demo_cat demo_ok = None /\
  setup demo_cat demo_bad = Some (BadCone "nosuchcone") /\
  (exists s, start demo_cfg 50 = Stop s /\ (10 <=? List.length (trace s))%nat = true).
Proof. exact demo_nonvacuous. Qed.
