package main

import (
	"github.com/simimpact/srsim/pkg/engine/target/enemy"

	"verif/harness/term"
)

func genSim(r *term.Rng, idx int) term.T {
	nc := r.Range(1, 4)
	ne := r.Range(1, 5)
	if r.Chance(1, 4) {
		ne = r.Range(1, 2)
	}
	if r.Chance(1, 25) {
		// a side (or both) without any unit: a valid configuration, the battle is decided at once
		switch r.Intn(3) {
		case 0:
			nc = 0
		case 1:
			ne = 0
		default:
			nc, ne = 0, 0
		}
	}
	n := nc + ne
	idN, idC := n, nc // upper ends of the id ranges drawn below (an id beyond the battle is an unknown unit)
	if idN < 1 {
		idN = 1
	}
	if idC < 1 {
		idC = 1
	}
	hpScale := enemy.Curve(enemy.Curve1)[1].HPScaling
	nscripts := r.Range(6, 15)
	anyID := func() int64 {
		if r.Chance(1, 30) {
			return 99
		}
		return int64(r.Range(1, idN))
	}
	tsel := func() term.T {
		switch r.Intn(6) {
		case 0:
			return term.C("TSelfSel")
		case 1:
			return term.C("TPrimary")
		default:
			return term.C("TId", term.I(anyID()))
		}
	}
	dmgs := []float64{10, 50, 100, 250, 400, 1000, 2000, 0.1, 33.3, 0}
	fracs := []float64{0, 0, 0.25, 0.5, 1, 1}
	prios := []int64{45, 48, 55, 75, 75, 115, 175, 500, 500}
	flags := []int64{1, 3, 100}
	// scripts [0, nbody) are bodies of actions / ults / inserts; scripts [nbody, nscripts) are run
	// from listeners and must not open or close an attack bracket (legal use of the API)
	// scripts [natk0, nscripts) are run only from the AttackStart listener, i.e. inside an attack that is
	// already open: there a qualified attack is legal too (it adds hits to the open attack)
	natk := r.Range(0, 2)
	natk0 := nscripts - natk
	nbody := natk0 - r.Range(1, 3)
	listener := false
	atkListener := false
	genOp := func() term.T {
		k := r.Intn(24)
		if listener && k == 7 {
			k = 23
		}
		// rare but important shapes
		if r.Chance(1, 40) {
			// an attack on every unit of the battle, lethal: both sides may be wiped at once
			ts := []term.T{}
			for u := 1; u <= n; u++ {
				ts = append(ts, term.C("TId", term.I(int64(u))))
			}
			return term.C("SAttack", term.I(int64(r.Range(1, 9))), term.L(ts...), term.B(!listener), term.F(2000))
		}
		if listener && r.Chance(1, 5) {
			// a listener that kills outright (a chain reaction between two death checks), often a unit
			// that has something queued
			return term.C("SSetHP", term.C("TId", term.I(int64(r.Range(1, idN)))), term.F(0))
		}
		if listener && r.Chance(1, 8) {
			ab := []term.T{}
			return term.C("SInsertAbility", term.I(int64(r.Range(1, 9))), term.I(term.Pick(r, prios)), term.C("TId", term.I(int64(r.Range(1, idN)))), term.L(ab...), term.Nat(r.Intn(nbody)))
		}
		if r.Chance(1, 14) {
			// a heal with a flat value: of the living, of units at zero HP awaiting revival, of the dead
			ts := []term.T{}
			for j := r.Range(1, 3); j > 0; j-- {
				ts = append(ts, tsel())
			}
			return term.C("SHeal", term.L(ts...), term.F(term.Pick(r, []float64{10, 100, 400, 2000, 0.1, 0})))
		}
		switch {
		case k < 7:
			ts := []term.T{}
			for j := r.Range(0, 3); j > 0; j-- {
				ts = append(ts, tsel())
			}
			if len(ts) == 0 && r.Chance(3, 4) {
				ts = append(ts, tsel())
			}
			return term.C("SAttack", term.I(int64(r.Range(1, 9))), term.L(ts...), term.B((!listener || atkListener) && r.Chance(3, 4)), term.F(term.Pick(r, dmgs)))
		case k < 8:
			return term.C("SEndAttack")
		case k < 11:
			return term.C("SSetHP", tsel(), term.F(term.Pick(r, fracs)))
		case k < 15:
			ab := []term.T{}
			for _, f := range flags {
				if r.Chance(1, 4) {
					ab = append(ab, term.I(f))
				}
			}
			return term.C("SInsertAbility", term.I(int64(r.Range(1, 9))), term.I(term.Pick(r, prios)), tsel(), term.L(ab...), term.Nat(r.Intn(nbody)))
		case k < 17:
			return term.C("SInsertAction", tsel())
		case k < 19:
			return term.C("SModEnergy", tsel(), term.F(term.Pick(r, []float64{50, 100, 120, -30, 10, 49.95, 99.99, 0.04})))
		case k < 20:
			return term.C("SModSP", term.I(int64(r.Range(-3, 3))))
		case k < 21:
			if r.Bool() {
				return term.C("SAddFlag", tsel(), term.I(term.Pick(r, flags)))
			}
			return term.C("SRemoveFlag", tsel(), term.I(term.Pick(r, flags)))
		case k < 22:
			return term.C("SGaugeNorm", tsel(), term.F(term.Pick(r, []float64{-0.5, -1, -2, 0.25, 0.5})))
		case k < 23:
			return term.C("SSetRevivable", tsel(), term.B(r.Chance(2, 3)))
		default:
			return term.C("SSample")
		}
	}
	scripts := []term.T{}
	for i := 0; i < nscripts; i++ {
		listener = i >= nbody
		atkListener = i >= natk0
		ops := []term.T{}
		for j := r.Range(0, 5); j > 0; j-- {
			ops = append(ops, genOp())
		}
		if r.Chance(1, 3) {
			ops = append(ops, term.C("SSample"))
		}
		scripts = append(scripts, term.L(ops...))
	}
	// one battle in five with characters: the BattleStart script only queues insert abilities (equal and distinct
	// priorities, a source that may be dead by then, abort flags) - the harness issues such a script before the
	// battle starts
	preBattle := nc > 0 && r.Chance(1, 5)
	if preBattle {
		ops := []term.T{}
		for j := r.Range(1, 4); j > 0; j-- {
			ab := []term.T{}
			if r.Chance(1, 5) {
				ab = append(ab, term.I(term.Pick(r, flags)))
			}
			ops = append(ops, term.C("SInsertAbility", term.I(int64(r.Range(1, 9))), term.I(term.Pick(r, prios)),
				term.C("TId", term.I(int64(r.Range(1, idC)))), term.L(ab...), term.Nat(r.Intn(nbody))))
		}
		scripts[nbody] = term.L(ops...)
	}
	// aimed scenarios (one battle in ten each, when there is room for them):
	//  limboUlt: an insert ability (priority 45) whose body puts character 1 into limbo (revivable, HP 0) is
	//            queued by every action while the script asks for character 1's ultimate at every check: the
	//            ultimate (priority 500) is taken while its source is held at zero HP - not dead, not flagged
	//  limboEnd: the phase-2 tick listener makes the acting unit revivable, takes its HP to zero and queues an
	//            insert of that unit AFTER the last drain of the turn: the turn-end death check announces the
	//            unit dead and the next drain must drop its insert
	limboUlt := !preBattle && nc > 0 && nbody >= 2 && r.Chance(1, 10)
	limboEnd := !preBattle && !limboUlt && nc > 0 && natk0-nbody >= 1 && r.Chance(1, 10)
	if limboUlt {
		scripts[0] = term.L(term.C("SInsertAbility", term.I(1), term.I(45), term.C("TId", term.I(1)), term.L(), term.Nat(1)))
		scripts[1] = term.L(term.C("SSetRevivable", term.C("TId", term.I(1)), term.B(true)),
			term.C("SSetHP", term.C("TId", term.I(1)), term.F(0)))
	}
	if limboEnd {
		scripts[nbody] = term.L(term.C("SSetRevivable", term.C("TSelfSel"), term.B(true)),
			term.C("SSetHP", term.C("TSelfSel"), term.F(0)),
			term.C("SInsertAbility", term.I(2), term.I(term.Pick(r, prios)), term.C("TSelfSel"), term.L(), term.Nat(r.Intn(nbody))))
	}
	ids := func(k int) term.T {
		out := []term.T{}
		if limboUlt {
			return term.L(term.Nat(0), term.Nat(0), term.Nat(r.Intn(nbody)))
		}
		for ; k > 0; k-- {
			out = append(out, term.Nat(r.Intn(nbody)))
		}
		return term.L(out...)
	}
	lids := func(k int) term.T {
		out := []term.T{}
		for ; k > 0; k-- {
			out = append(out, term.Nat(nbody+r.Intn(natk0-nbody)))
		}
		return term.L(out...)
	}
	aids := func(k int) term.T {
		out := []term.T{}
		for ; k > 0 && natk > 0; k-- {
			out = append(out, term.Nat(natk0+r.Intn(natk)))
		}
		return term.L(out...)
	}
	tt := func(code int) term.T {
		return []term.T{term.C("TEnemies"), term.C("TAllies"), term.C("TSelf")}[code]
	}
	// answers of a character's own Skill.CanUse / Ult.CanUse check (non-empty exactly for the kinds that
	// register one), indexed by the number of action scripts the unit has left
	checks := func(has bool) term.T {
		out := []term.T{}
		if has {
			for j := r.Range(1, 7); j > 0; j-- {
				out = append(out, term.B(r.Chance(2, 3)))
			}
		}
		return term.L(out...)
	}
	units := []term.T{}
	for i := 0; i < nc; i++ {
		kind := r.Intn(len(charKinds))
		k := charKinds[kind]
		en0 := term.Pick(r, []float64{0, 0, 50, k.maxEnergy, k.maxEnergy, 500, k.maxEnergy - 0.05, k.maxEnergy * 0.9999})
		if limboUlt && i == 0 {
			en0 = k.maxEnergy
		}
		code := func(t interface{ String() string }) int {
			switch t.String() {
			case "ENEMIES":
				return 0
			case "ALLIES":
				return 1
			}
			return 2
		}
		units = append(units, term.C("mkUD", term.I(int64(kind)), term.B(true), term.F(k.spd), term.F(k.hp), term.F(k.maxEnergy),
			term.F(en0), term.I(int64(k.spNeed)), term.I(int64(k.spAdd)), tt(code(k.ttA)), tt(code(k.ttS)), tt(code(k.ttU)), ids(r.Range(0, 6)),
			checks(k.skillCheck), checks(k.ultCheck)))
	}
	for i := 0; i < ne; i++ {
		hp := term.Pick(r, []float64{50, 100, 200, 400})
		spd := term.Pick(r, []float64{80, 100, 100, 150, 60})
		units = append(units, term.C("mkUD", term.I(int64(hp)), term.B(false), term.F(spd), term.F(hp*hpScale), term.F(0),
			term.F(0), term.I(0), term.I(0), term.C("TEnemies"), term.C("TEnemies"), term.C("TEnemies"), ids(r.Range(0, 6)), term.L(), term.L()))
	}
	next := []term.T{}
	for c := 1; c <= nc; c++ {
		ds := []term.T{}
		for j := r.Range(0, 8); j > 0; j-- {
			evl := int64(100 + r.Intn(3))
			if r.Chance(1, 4) {
				evl = anyID()
			}
			ds = append(ds, term.C("mkDec", term.I(term.Pick(r, []int64{0, 0, 1, 1, 1, 2})), term.I(evl)))
		}
		next = append(next, term.Tup(term.I(int64(c)), term.L(ds...)))
	}
	ults := []term.T{}
	for j := r.Range(0, 40); j > 0; j-- {
		reqs := []term.T{}
		if limboUlt {
			reqs = append(reqs, term.C("mkUR", term.I(1), term.I(3), term.I(int64(100+r.Intn(3)))))
		} else if r.Chance(1, 3) {
			for q := r.Range(1, 2); q > 0; q-- {
				tgt := int64(r.Range(1, idC))
				if r.Chance(1, 40) {
					tgt = anyID()
				}
				typ := int64(3)
				if r.Chance(1, 10) {
					typ = 4
				}
				evl := int64(100 + r.Intn(3))
				if r.Chance(1, 5) {
					evl = anyID()
				}
				reqs = append(reqs, term.C("mkUR", term.I(tgt), term.I(typ), term.I(evl)))
			}
		}
		ults = append(ults, term.L(reqs...))
	}
	// the content's listeners are subscribed by the first character's Create: a battle without characters has none
	ln := func(k int) int {
		if nc == 0 {
			return 0
		}
		return k
	}
	phase2Slot := func(t term.T) term.T {
		if limboEnd {
			return term.L(term.Nat(nbody), term.Nat(nbody), term.Nat(nbody))
		}
		return t
	}
	battleSlot := func(t term.T) term.T {
		if preBattle {
			return term.L(term.Nat(nbody))
		}
		return t
	}
	return term.C("mkCfg", term.L(units...), term.L(scripts...), term.L(next...), term.L(ults...),
		battleSlot(lids(ln(r.Range(0, 1)))), lids(ln(r.Range(0, 4))), lids(ln(r.Range(0, 4))), lids(ln(r.Range(0, 4))), lids(ln(r.Range(0, 3))),
		lids(ln(r.Range(0, 3))), phase2Slot(lids(ln(r.Range(0, 3)))), aids(ln(r.Range(0, 3))),
		term.I(int64(r.Range(0, 4))), term.I(int64(r.Range(0, 12))))
}

func kindsSim(in term.T) map[string]int {
	m := map[string]int{}
	_, a := term.Ctor(in)
	for _, s := range term.List(a[1]) {
		for _, o := range term.List(s) {
			n, _ := term.Ctor(o)
			m[n]++
		}
	}
	m["units"] += len(term.List(a[0]))
	return m
}
