(* C16 — Shields have the documented strength and absorb in parallel.
   Only statements, [exact] and [Print Assumptions] live here. *)
From Coq Require Import List ZArith Reals.
From SR Require Import Model.Shield Proofs.ShieldProofs.
From SR Require Proofs.FormulasShieldProofs.
Import ListNotations.

(* the whole property (see Proofs/ShieldProofs.v, Part 4, for the five clauses) *)
Theorem C16_shields : C16_statement.
Proof. exact C16_holds. Qed.
Print Assumptions C16_shields.

(* after any history each unit carries at most one shield per key, for every numeric instance *)
Theorem C16_one_shield_per_key :
  forall (N : Type) (O : NumOps N) (ops : list (op N)) u,
    NoDup (keys (get_sh (exec O (init (N := N)) ops) u)).
Proof. intros N O ops u. apply exec_wf, wf_init. Qed.
Print Assumptions C16_one_shield_per_key.

(* each call meets its specification from any state with unique keys *)
Theorem C16_each_call_meets_spec :
  forall (N : Type) (O : NumOps N) (w : world N) (o : op N), wf w -> step_spec O w o (step O w o).
Proof. exact @step_meets_spec. Qed.
Print Assumptions C16_each_call_meets_spec.

(* strength = (sum of coefficient * named stat + flat) * (1 + shielder's bonus) * (1 + target's taken bonus),
   for a formula map listed in any order; each term reads the party the formula names *)
Theorem C16_strength_is_documented :
  forall f flat src tgt mx, NoDup (map fst f) ->
    strength ROps f flat src tgt mx =
    ((sum_terms src tgt mx f + flat) * (1 + s_boost src) * (1 + s_taken tgt))%R.
Proof. exact strength_documented_R. Qed.
Print Assumptions C16_strength_is_documented.

Theorem C16_terms_read_the_named_party :
  forall src tgt mx v,
    term_R src tgt mx (FAtk, v) = (v * Rmax 0 (s_atk src))%R /\
    term_R src tgt mx (FDef, v) = (v * Rmax 0 (s_def src))%R /\
    term_R src tgt mx (FHp, v) = (v * Rmax 0 (s_hp src))%R /\
    term_R src tgt mx (FTgtHp, v) = (v * Rmax 0 (s_hp tgt))%R /\
    term_R src tgt mx (FTotalShield, v) = (v * mx)%R /\
    term_R src tgt mx (FInvalid, v) = 0%R.
Proof. exact term_R_reads. Qed.
Print Assumptions C16_terms_read_the_named_party.

Theorem C16_strength_nonnegative :
  forall f flat src tgt mx, NoDup (map fst f) -> (0 <= mx)%R ->
    (forall kv, In kv f -> (0 <= snd kv)%R) -> (0 <= flat)%R ->
    (-1 <= s_boost src)%R -> (-1 <= s_taken tgt)%R ->
    (0 <= strength ROps f flat src tgt mx)%R.
Proof. exact strength_nonneg_R. Qed.
Print Assumptions C16_strength_nonnegative.

(* binary64: the damage passed on is never negative, surviving shields are strictly positive *)
Theorem C16_float_signs :
  forall (w : world PrimFloat.float) tgt d, get_sh w tgt <> [] -> PrimFloat.leb d PrimFloat.zero = false ->
    let r := do_absorb FOps w tgt d in
    let w' := fst (fst r) in let out := snd r in
    PrimFloat.ltb out PrimFloat.zero = false /\
    (forall k hp, In (k, hp) (get_sh w' tgt) ->
       PrimFloat.leb hp PrimFloat.zero = false /\
       (PrimFloat.is_nan hp = false -> PrimFloat.ltb PrimFloat.zero hp = true)).
Proof. exact absorb_F. Qed.
Print Assumptions C16_float_signs.

(* The translator tie: the order of the formula terms, the strength formula of AddShield and the
   loop of AbsorbDamage are, for every numeric instance and every argument, EQUAL to the definitions
   go2coq generates from shield/add.go and shield/absorb.go (Gen/FormulasShield.v; the conjunction
   is spelled out in Proofs/FormulasShieldProofs.v, C16_formulas_statement). *)
Theorem C16_model_formulas_are_the_source : FormulasShieldProofs.C16_formulas_statement.
Proof. exact FormulasShieldProofs.C16_formulas_hold. Qed.
Print Assumptions C16_model_formulas_are_the_source.

Theorem C16_nonvacuous :
  get_sh (exec FOps (init (N := PrimFloat.float)) demo_ops) 1%Z = demo_shields_after /\
  step FOps (exec FOps (init (N := PrimFloat.float)) (removelast demo_ops)) (last demo_ops (ORemove 0%Z 0%Z)) =
    (exec FOps (init (N := PrimFloat.float)) demo_ops, demo_last_events, demo_last_return) /\
  length demo_ops = 7%nat.
Proof. exact demo_runs. Qed.
