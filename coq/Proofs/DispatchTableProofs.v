(* The translator tie of the listener dispatch: the table go2coq generates from
   pkg/engine/modifier/listener.go (Gen/DispatchTable.v), interpreted by Model/DispatchInterp.v, IS the
   hand-written model Model/Dispatch.v - for every world and every event of listener.go.

   General part: the interpreter's walks are the model's [walk] / [run_slots] / [walk_limbo].
   Table part: per event constructor, the generated table resolves to the model's slots. *)
From Coq Require Import List ZArith Bool String Lia.
From SR Require Import Model.Dispatch Model.DispatchInterp Gen.DispatchTable.
Import ListNotations.
Open Scope Z_scope.

(* ------------------------------------------------------------------------------------------ *)
(* walks without `return true` are the model's slots *)

Definition nonstop_call (c : rcall) : Prop := rc_stop c = false.
Definition nonstop (x : rwalk) : Prop := Forall nonstop_call (rw_calls x).

(* the callbacks a resolved walk tries on every instance: those whose gate is open *)
Definition ks_of (cs : list rcall) : list (cb * Z) :=
  flat_map (fun c => if rc_on c then [(rc_cb c, rc_arg c)] else []) cs.
Definition slot_of (x : rwalk) : slot := mkSlot (rw_unit x) (rw_skip x) (ks_of (rw_calls x)).

Lemma run_calls_plain : forall ans cs i w, Forall nonstop_call cs ->
  run_calls ans cs i w = (let '(c, w') := invoke_all (ks_of cs) i w in (c, w', false)).
Proof.
  intros ans cs; induction cs as [|c r IH]; intros i w Hns.
  - reflexivity.
  - inversion Hns as [|c0 r0 Hc Hr]; subst c0 r0. unfold nonstop_call in Hc.
    cbn [run_calls]. unfold ks_of; cbn [flat_map]; fold (ks_of r).
    destruct (rc_on c) eqn:Hon.
    + rewrite andb_true_r. cbn [app invoke_all]. unfold invoke.
      destruct (has i (rc_cb c)) eqn:Hhas.
      * destruct (do_actions i w (script_of i (rc_cb c))) as [c1 w1].
        rewrite Hc. cbn [andb]. rewrite (IH i w1 Hr).
        destruct (invoke_all (ks_of r) i w1) as [c2 w2]. reflexivity.
      * rewrite (IH i w Hr). destruct (invoke_all (ks_of r) i w) as [c2 w2]. reflexivity.
    + rewrite andb_false_r. cbn [app]. apply IH; exact Hr.
Qed.

Lemma run_copy_plain : forall ans skip cs copy w, Forall nonstop_call cs ->
  run_copy ans skip cs copy w = (let '(c, w') := walk skip (ks_of cs) copy w in (c, w', false)).
Proof.
  intros ans skip cs copy; induction copy as [|i r IH]; intros w Hns.
  - reflexivity.
  - cbn [run_copy walk]. unfold visit.
    destruct (skip && negb (c_snap (i_cfg i))) eqn:Hskip.
    + rewrite (IH w Hns). destruct (walk skip (ks_of cs) r w) as [c2 w2]. reflexivity.
    + rewrite (run_calls_plain ans cs i w Hns).
      destruct (invoke_all (ks_of cs) i w) as [c1 w1].
      rewrite (IH w1 Hns). destruct (walk skip (ks_of cs) r w1) as [c2 w2]. reflexivity.
Qed.

Lemma run_walks_plain : forall ans ws w, Forall nonstop ws ->
  run_walks ans ws w = (let '(c, w') := run_slots w (map slot_of ws) in (c, w', false)).
Proof.
  intros ans ws; induction ws as [|x r IH]; intros w Hns.
  - reflexivity.
  - inversion Hns as [|x0 r0 Hx Hr]; subst x0 r0.
    cbn [run_walks map run_slots].
    change (run_slot w (slot_of x)) with (walk (rw_skip x) (ks_of (rw_calls x)) (attached w (rw_unit x)) w).
    rewrite (run_copy_plain ans (rw_skip x) (rw_calls x) (attached w (rw_unit x)) w Hx).
    destruct (walk (rw_skip x) (ks_of (rw_calls x)) (attached w (rw_unit x)) w) as [c1 w1].
    rewrite (IH w1 Hr). destruct (run_slots w1 (map slot_of r)) as [c2 w2]. reflexivity.
Qed.

(* the walk whose callback result ends the function is the model's [walk_limbo] *)
Lemma run_copy_limbo : forall yes copy w,
  run_copy (fun i => existsb (Z.eqb (i_id i)) yes) false [mkRCall OnLimboWaitHeal true 0 true] copy w
  = walk_limbo yes copy w.
Proof.
  intros yes copy; induction copy as [|i r IH]; intros w.
  - reflexivity.
  - cbn [run_copy walk_limbo andb run_calls rc_cb rc_on rc_arg rc_stop]. unfold invoke.
    destruct (has i OnLimboWaitHeal) eqn:Hhas; cbn [andb].
    + destruct (do_actions i w (script_of i OnLimboWaitHeal)) as [c1 w1].
      destruct (existsb (Z.eqb (i_id i)) yes) eqn:Hyes.
      * reflexivity.
      * rewrite (IH w1). destruct (walk_limbo yes r w1) as [[c2 w2] v].
        rewrite app_nil_r. reflexivity.
    + rewrite (IH w). destruct (walk_limbo yes r w) as [[c2 w2] v]. reflexivity.
Qed.

(* ------------------------------------------------------------------------------------------ *)
(* from a resolved handler to the model's [run_event] *)

Definition not_limbo (e : event) : Prop := match e with ELimbo _ _ => False | _ => True end.

Lemma interp_plain : forall t e w h ws,
  handler_of t e = Some h -> resolve h e = Some ws -> Forall nonstop ws -> h_final h = None ->
  not_limbo e -> map slot_of ws = slots_of e ->
  interp t e w = Some (run_event w e).
Proof.
  intros t e w h ws Hh Hr Hns Hfin Hnl Hslots.
  unfold interp. rewrite Hh, Hr. rewrite (run_walks_plain (answer e) ws w Hns). rewrite Hslots.
  unfold verdict_of; rewrite Hfin.
  destruct e; try (exfalso; exact Hnl);
    unfold run_event, value_of;
    match goal with |- context [run_slots ?a ?b] => destruct (run_slots a b) as [cs w'] end; reflexivity.
Qed.

Ltac plain_event h0 :=
  let h := constr:(h0) in
  intros; eapply (interp_plain _ _ _ h);
  [ tryif reflexivity then idtac
    else fail 0 "the Subscribe table of listener.go no longer wires this event to" h
  | tryif (cbv - [is_qualified]; reflexivity) then idtac
    else fail 0 "a field path of" h "is not a field of the model's event (Model/DispatchInterp.v)"
  | tryif once (solve [repeat first [apply Forall_nil | apply Forall_cons | reflexivity]]) then idtac
    else fail 0 h "now uses the result of a callback"
  | tryif reflexivity then idtac else fail 0 h "now returns a value"
  | exact I
  | unfold slots_of, hitStart, hitEnd;
    try match goal with |- context [is_qualified ?ty] => destruct (is_qualified ty) end;
    tryif reflexivity then idtac
    else fail 0 "the walks / roles / gates / callbacks generated from" h "differ from Model/Dispatch.v" ].

(* ------------------------------------------------------------------------------------------ *)
(* the table, event by event: for all worlds and all fields of the event *)

Lemma t_actionStart : forall w o, interp table (EActionStart o) w = Some (run_event w (EActionStart o)).
Proof. plain_event h_actionStart. Qed.
Lemma t_actionEnd : forall w o ts, interp table (EActionEnd o ts) w = Some (run_event w (EActionEnd o ts)).
Proof. plain_event h_actionEnd. Qed.
Lemma t_hpChange : forall w t, interp table (EHPChange t) w = Some (run_event w (EHPChange t)).
Proof. plain_event h_hpChange. Qed.
Lemma t_targetDeath : forall w t k, interp table (ETargetDeath t k) w = Some (run_event w (ETargetDeath t k)).
Proof. plain_event h_targetDeath. Qed.
Lemma t_energyChange : forall w t s, interp table (EEnergyChange t s) w = Some (run_event w (EEnergyChange t s)).
Proof. plain_event h_energyChange. Qed.
Lemma t_stanceChange : forall w t s, interp table (EStanceChange t s) w = Some (run_event w (EStanceChange t s)).
Proof. plain_event h_stanceChange. Qed.
Lemma t_stanceBreak : forall w t s, interp table (EStanceBreak t s) w = Some (run_event w (EStanceBreak t s)).
Proof. plain_event h_stanceBreak. Qed.
Lemma t_stanceReset : forall w t, interp table (EStanceReset t) w = Some (run_event w (EStanceReset t)).
Proof. plain_event h_stanceBreakEnd. Qed.
Lemma t_breakExtend : forall w t, interp table (EBreakExtend t) w = Some (run_event w (EBreakExtend t)).
Proof. plain_event h_breakExtend. Qed.
Lemma t_shieldAdded : forall w t s, interp table (EShieldAdded t s) w = Some (run_event w (EShieldAdded t s)).
Proof. plain_event h_shieldAdded. Qed.
Lemma t_shieldRemoved : forall w t, interp table (EShieldRemoved t) w = Some (run_event w (EShieldRemoved t)).
Proof. plain_event h_shieldRemoved. Qed.
Lemma t_hitStart : forall w a d ty sn v,
  interp table (EHitStart a d ty sn v) w = Some (run_event w (EHitStart a d ty sn v)).
Proof. plain_event h_hitStart. Qed.
Lemma t_hitEnd : forall w a d ty sn, interp table (EHitEnd a d ty sn) w = Some (run_event w (EHitEnd a d ty sn)).
Proof. plain_event h_hitEnd. Qed.
Lemma t_healStart : forall w h t sn v,
  interp table (EHealStart h t sn v) w = Some (run_event w (EHealStart h t sn v)).
Proof. plain_event h_healStart. Qed.
Lemma t_healEnd : forall w h t sn, interp table (EHealEnd h t sn) w = Some (run_event w (EHealEnd h t sn)).
Proof. plain_event h_healEnd. Qed.

(* the attack events walk over a LIST of targets *)
Lemma nonstop_map : forall (f : Z -> rwalk) us, (forall u, nonstop (f u)) -> Forall nonstop (map f us).
Proof.
  intros f us Hf; induction us as [|u r IH]; cbn [map]; constructor; [apply Hf | exact IH].
Qed.

Lemma t_attackStart : forall w a ts ty,
  interp table (EAttackStart a ts ty) w = Some (run_event w (EAttackStart a ts ty)).
Proof.
  intros w a ts ty. eapply (interp_plain _ _ _ h_attackStart).
  - reflexivity.
  - cbv - [map app]; reflexivity.
  - cbn [app]. constructor; [repeat constructor|]. rewrite app_nil_r.
    apply nonstop_map; intros u; repeat constructor.
  - reflexivity.
  - exact I.
  - cbn [app]. rewrite app_nil_r. cbn [map]. rewrite map_map. reflexivity.
Qed.
Lemma t_attackEnd : forall w a ts ty,
  interp table (EAttackEnd a ts ty) w = Some (run_event w (EAttackEnd a ts ty)).
Proof.
  intros w a ts ty. eapply (interp_plain _ _ _ h_attackEnd).
  - reflexivity.
  - cbv - [map app]; reflexivity.
  - cbn [app]. constructor; [repeat constructor|]. rewrite app_nil_r.
    apply nonstop_map; intros u; repeat constructor.
  - reflexivity.
  - exact I.
  - cbn [app]. rewrite app_nil_r. cbn [map]. rewrite map_map. reflexivity.
Qed.

(* limboWaitHeal: the first callback answering true ends the walk and the function with true; else false *)
Lemma t_limbo : forall w t yes, interp table (ELimbo t yes) w = Some (run_event w (ELimbo t yes)).
Proof.
  intros w t yes. unfold interp.
  replace (handler_of table (ELimbo t yes)) with (Some h_limboWaitHeal) by reflexivity.
  replace (resolve h_limboWaitHeal (ELimbo t yes))
    with (Some [mkRWalk t false [mkRCall OnLimboWaitHeal true 0 true]]) by reflexivity.
  cbn [run_walks rw_skip rw_calls rw_unit].
  change (answer (ELimbo t yes)) with (fun i : inst => existsb (Z.eqb (i_id i)) yes).
  rewrite (run_copy_limbo yes (attached w t) w).
  unfold run_event. destruct (walk_limbo yes (attached w t) w) as [[cs w'] v].
  destruct v; rewrite ?app_nil_r; reflexivity.
Qed.

(* ------------------------------------------------------------------------------------------ *)
(* summary *)

(* the events of listener.go (Manager.Tick is tick.go: not an engine event, not translated) *)
Definition from_listener_go (e : event) : bool := match e with ETick _ _ => false | _ => true end.

Definition dispatch_table_statement : Prop :=
  forall w e, from_listener_go e = true -> interp table e w = Some (run_event w e).
Theorem dispatch_table_is_model : dispatch_table_statement.
Proof.
  intros w e He; destruct e; try discriminate He.
  - apply t_actionStart. - apply t_actionEnd. - apply t_hpChange. - apply t_limbo.
  - apply t_targetDeath. - apply t_energyChange. - apply t_stanceChange. - apply t_stanceBreak.
  - apply t_stanceReset. - apply t_breakExtend. - apply t_shieldAdded. - apply t_shieldRemoved.
  - apply t_attackStart. - apply t_attackEnd. - apply t_hitStart. - apply t_hitEnd.
  - apply t_healStart. - apply t_healEnd.
Qed.

(* the projections the model's theorems are about *)
Corollary dispatch_table_calls : forall w e, from_listener_go e = true ->
  option_map (fun r => fst (fst (fst r))) (interp table e w) = Some (dispatch w e).
Proof. intros w e He. rewrite (dispatch_table_is_model w e He). reflexivity. Qed.

(* the event kinds each property uses (C04's role table is about every event of listener.go) *)
Definition c17_event (e : event) : bool :=
  match e with EHealStart _ _ _ _ | EHealEnd _ _ _ | EHPChange _ => true | _ => false end.
Definition c08_event (e : event) : bool :=
  match e with ELimbo _ _ | ETargetDeath _ _ | EHPChange _ => true | _ => false end.

(* the priorities of the subscriptions: the manager reacts to LimboWaitHeal and HealStart AFTER the
   listeners of default priority (priority handlers run in ascending order); every other event is a
   plain handler (subscription order) *)
Definition expected_priorities : list (string * Z) := [("LimboWaitHeal"%string, 100); ("HealStart"%string, 100)].
Theorem subscription_priorities : priorities table = expected_priorities.
Proof. reflexivity. Qed.

(* every event of the model is wired to exactly one method, and no method is wired that the model
   does not know *)
Definition model_event_names : list string :=
  map ev_name [EActionStart 0; EActionEnd 0 []; EHPChange 0; ELimbo 0 []; ETargetDeath 0 0; EEnergyChange 0 0;
               EStanceChange 0 0; EStanceBreak 0 0; EStanceReset 0; EBreakExtend 0; EShieldAdded 0 0;
               EShieldRemoved 0; EAttackStart 0 [] 0; EAttackEnd 0 [] 0; EHitStart 0 0 0 false 0;
               EHitEnd 0 0 0 false; EHealStart 0 0 false 0; EHealEnd 0 0 false].
Theorem subscribed_events_are_the_models : map sub_event (t_subs table) = model_event_names.
Proof. reflexivity. Qed.

(* the callback enumeration of the model is the field list of modifier.Listeners *)
Theorem listeners_fields_are_the_models : listeners_fields = all_cbs.
Proof. reflexivity. Qed.

Definition c04_statement : Prop :=
  (forall w e, from_listener_go e = true -> interp table e w = Some (run_event w e)) /\
  listeners_fields = all_cbs /\
  map sub_event (t_subs table) = model_event_names.
Theorem c04_holds : c04_statement.
Proof.
  split; [exact dispatch_table_is_model|].
  split; [exact listeners_fields_are_the_models | exact subscribed_events_are_the_models].
Qed.

Definition c17_statement : Prop :=
  (forall w e, c17_event e = true -> interp table e w = Some (run_event w e)) /\
  priorities table = expected_priorities.
Theorem c17_holds : c17_statement.
Proof.
  split; [|exact subscription_priorities].
  intros w e He; apply dispatch_table_is_model; destruct e; try discriminate He; reflexivity.
Qed.

Definition c08_statement : Prop :=
  (forall w e, c08_event e = true -> interp table e w = Some (run_event w e)) /\
  priorities table = expected_priorities.
Theorem c08_holds : c08_statement.
Proof.
  split; [|exact subscription_priorities].
  intros w e He; apply dispatch_table_is_model; destruct e; try discriminate He; reflexivity.
Qed.

(* non-vacuity: the interpreter runs the table on a concrete world (two instances on the attacker, one
   on the defender, a qualified hit outside snapshot state): six calls, as the model says *)
Definition demo_cfg : cfg := mkCfg all_cbs false [].
Definition demo_world : world := mk_world [demo_cfg] [1; 2] [(1, 0%nat); (2, 0%nat); (1, 0%nat)].
Example demo_interp :
  option_map (fun r => List.length (fst (fst (fst r)))) (interp table (EHitStart 1 2 0 false 7) demo_world) = Some 6%nat.
Proof. vm_compute. reflexivity. Qed.
