CONFIG = {
    "id": "C09",
    "coq_targets": ["Model/SweepCheck.v", "Props/C09.v", "Model/SimCheck.v"],
    "prop_files": ["Props/C09.v"],
    "gen": ["Globals"],
    "components": [{
        "name": "sim", "modules": ["Base.NumOps", "Model.Turn", "Model.Sim", "Model.SimCheck"],
        "check": "check_case", "monitor": "monitor_c09", "model_out": "monitor_detail",
        "case_type": "case", "ops_path": None, "mismatch_is_violation": False,
        "n_quick": 900, "n_thorough": 12000, "shard": 150,
    }, {
        # real content: every registered character / light cone / relic set with generated builds, scripts, seeds and
        # enemies (the C20 sweep); the harness recomputes the result from the logged hits, the Termination and the
        # series (Go side, content.go resultClause) - shields, crits, DoTs, follow-ups, revives all occur here
        "name": "sweep", "modules": ["Base.GlobalTypes", "Model.RunSpec", "Model.Catalog", "Model.SweepCheck"],
        "check": "check_c09", "monitor": "monitor_c09", "model_out": "model_out",
        "case_type": "case", "ops_path": None,
        "n_quick": 200, "n_thorough": 8000, "shard": 200,
    }],
    "rule": "scripted battles on the REAL simulation.Simulation: 1-4 registered harness characters (6 kinds: speeds, SP "
            "costs, target types, a Skill.CanUse / Ult.CanUse check of their own), 1-5 harness enemies (HP 50-400, speeds incl. ties), 5-14 content scripts of engine calls "
            "(attacks qualified/unqualified with lethal and scratch damage on any unit incl. dead and unknown ids, SetHP, "
            "insert abilities with real priorities and abort flags, extra actions, energy, SP, flag modifiers, gauge "
            "changes, revive switches, samples of Characters()/Enemies()/turn order), per-unit action queues, listener "
            "slots (BattleStart, ActionEnd, HitEnd, TargetDeath, HPChange, AttackStart, the OnPhase1 / OnPhase2 modifier "
            "ticks, LimboWaitHeal verdict), decision sequences of the "
            "script callbacks incl. invalid targets and ult requests, cycle limit 0-4, insert budget 0-12; distinct = "
            "distinct input term",
    "trusted": ["hits of harness content are 'plain' (no DEF/RES/stance/shield/crit), so a hit's total is its flat damage; the "
                "damage formula itself is C04",
                "listener scripts never open or close an attack bracket (legal use of the API, enforced by the model as a "
                "distinct outcome and respected by the generator); they may add hits to an attack that is open",
                "the turn manager part is Model/Turn.v at binary64 (property C02)"],
    "assumptions": ["content uses the engine API legally: an attack bracket is opened (first qualified attack) and closed (EndAttack) only from action / ult / insert bodies"],
    "manifest": {
        "level_text": "Kernel-checked theorems about the model, for every configuration, content script set, decision sequence and run length (run level = about every terminated run `start cfg fuel = Stop s`): (a) the two totals are the left-to-right binary64 sums, from 0, of the total damage of the hits whose defender is an enemy / a character of the battle, over a list that is a permutation of the logged hits (the order in which the statistics subscriber saw them: it runs before the content's HitEnd listener, the log line is written after it, so nested hits are summed in a different order than logged; hits on ids that are not units count on neither side); without a content HitEnd listener the sums are over the log order itself; (b) the two per-cycle series always have equal length >= 1; when the clock's cycle index never decreases from one turn start to the next (decidable on the trace) both end at the totals, and when moreover no hit total is negative or NaN both are non-decreasing in the binary64 order (float-level proof: x <= x + d for x, d >= 0); (c) the total action value is the clock of the last turn start and is carried by the final Termination; the run continues past an exit check iff both sides have living units and floor(clock/100) < limit, and the result is, unchanged, the outcome of the first exit check that fails (state + the one Termination, reason loss, else win, else timeout); for configurations that describe characters first the Termination's reason agrees with the deaths announced in the trace (`reason_ok`), and under the four assumptions (characters first, no HitEnd listener, monotone cycle index, non-negative hits) the whole trace monitor `monitor_c09` accepts every terminated model run. Not proved: that the cycle index is monotone for every configuration (it is for positive speeds at the level of the reals, C02); per-function facts (exit decision, hit bookkeeping) as before.",
        "level_note": "Coq kernel; hand-written model Model/Sim.v tied by whole-trace correspondence; content is scripted harness "
                      "content registered through the exported Register functions; internal/* content is not modelled.",
        "technique": 'Coq proofs over whole runs (frame principle over all content scripts with hit completion as one step, relation composed over queue, turns and start; binary64 order facts via Flocq) + whole-trace correspondence + result monitor',
        "design_ref": "DESIGN.md section 7, C09",
    },
}
