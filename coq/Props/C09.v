(* C09 — Runs stop exactly at an exit condition and the result adds up. *)
From Coq Require Import List ZArith Bool.
From SR Require Import Base.CaseLib Base.NumOps Model.Turn Model.Sim Model.SimProtocol Proofs.SimProofs Proofs.SimResult.
Import ListNotations.

(* the exit check: loss when no character is left, otherwise win when no enemy is left,
   otherwise timeout iff floor(clock / 100) has reached the cycle limit, otherwise continue *)
Theorem C09_exit_check_reason : forall cfg s,
  match chars s, enemies s with
  | [], _ => exit_check cfg s = Stop (emit s [VTermination 1 (total_av s)])
  | _ :: _, [] => exit_check cfg s = Stop (emit s [VTermination 2 (total_av s)])
  | _ :: _, _ :: _ =>
      if reached_limit cfg s then exit_check cfg s = Stop (emit s [VTermination 3 (total_av s)])
      else exit_check cfg s = Ok s
  end.
Proof. exact exit_check_reason. Qed.
Print Assumptions C09_exit_check_reason.

(* every run that returns a result stopped at an exit check: its last event is the Termination
   carrying the battle clock, which is the total action value of the result *)
Theorem C09_total_av_is_clock : forall cfg fuel s, start cfg fuel = Stop s ->
  exists r, last (trace s) VInitialize = VTermination r (total_av s).
Proof. exact result_av_is_clock. Qed.
Print Assumptions C09_total_av_is_clock.

(* the hit subscriber: totals grow by exactly the hit's damage on the defender's side, the two
   per-cycle series keep equal lengths and the current cycle's entry holds the running total *)
Theorem C09_hit_recording : record_hit_statement.
Proof. exact record_hit_spec. Qed.
Print Assumptions C09_hit_recording.

(* exactly one Termination and nothing after it (from the protocol theorem) *)
Theorem C09_stops_once : forall cfg fuel s, start cfg fuel = Stop s -> one_termination (trace s) = true.
Proof. intros cfg fuel s H. apply protocol_one_termination. exact (C03_holds cfg fuel s H). Qed.
Print Assumptions C09_stops_once.

Theorem C09_nonvacuous :
  match start demo_cfg 200 with
  | Stop s => result_ok 1 2 (trace s) (res s) (total_av s)
  | _ => false
  end = true.
Proof. vm_compute. reflexivity. Qed.
