(* Names used by the harness-written case files (components "heal" and "hit"): the
   constructors of Model/CombatCore.v at the binary64 instance.  Imported last by a case
   file, so that a float literal [(f64 bits)] is accepted where the model says [num N]. *)
From SR Require Import Model.CombatCore.

Notation USpec := (@USpec FloatNum).
Notation AProp := (@AProp FloatNum).
Notation ATermSet := (@ATermSet FloatNum).
Notation ATermDel := (@ATermDel FloatNum).
Notation AFlatSet := (@AFlatSet FloatNum).
Notation AFlatAdd := (@AFlatAdd FloatNum).
Notation ARemap := (@ARemap FloatNum).
Notation IHealStart := (@IHealStart FloatNum).
Notation IHealEnd := (@IHealEnd FloatNum).
Notation IHPChange := (@IHPChange FloatNum).
Notation ILimbo := (@ILimbo FloatNum).
Notation IStanceChange := (@IStanceChange FloatNum).
Notation IStanceBreak := (@IStanceBreak FloatNum).
Notation IStanceReset := (@IStanceReset FloatNum).
Notation IEnergyChange := (@IEnergyChange FloatNum).
Notation IShieldRemoved := (@IShieldRemoved FloatNum).
Notation IShieldChange := (@IShieldChange FloatNum).
Notation IAttackStart := (@IAttackStart FloatNum).
Notation IAttackEnd := (@IAttackEnd FloatNum).
Notation IDraw := (@IDraw FloatNum).
Notation IHitStart := (@IHitStart FloatNum).
Notation IHitEnd := (@IHitEnd FloatNum).
Notation IUnit := (@IUnit FloatNum).
