CONFIG = {
    "id": "C16",
    "coq_targets": ["Gen/FormulasShield.v", "Proofs/FormulasShieldProofs.v",
                    "Props/C16.v", "Model/ShieldCheck.v"],
    "prop_files": ["Props/C16.v"],
    "gen": ["FormulasShield"],
    "components": [{
        "name": "shield", "modules": ["Model.Shield", "Model.ShieldCheck"],
        "check": "check_case", "monitor": "monitor_case", "model_out": "model_out",
        "case_type": "case",
        "ops_path": [2],            # (unit pool, key pool, ops)
        "n_quick": 1000, "n_thorough": 30000, "shard": 250,
    }],
    "rule": "op lists of 5-40 calls (serve a stat vector; AddShield with 0-5 formula terms, flat value, source and "
            "target from 3 units, key from 4; RemoveShield; AbsorbDamage) on the real shield.Manager with a real "
            "event.System and a fake attribute.Getter returning real info.Stats; 60% of the damage amounts aimed at a "
            "present shield (exactly its strength, one ulp below/above, half, above the strongest), the rest from "
            "{0,-0,negative,small,large,denormal}; stats/coefficients/bonuses from small pools incl. 0 and negative "
            "ones; after every call all events (all fields), the return value and IsShielded/MaxShield/HasShield of "
            "every unit and key are compared bit-exactly; a case is non-trivial when distinct as an input term",
    "trusted": [
        "TRANSLATED from the Go source on every run and proved equal to the model for every numeric instance and "
        "every argument (Gen/FormulasShield.v; Proofs/FormulasShieldProofs.v; theorem "
        "C16_model_formulas_are_the_source): shieldFormulaOrder, the strength formula of AddShield (per-key "
        "switch, flat value, ShieldBoost of the source, ShieldTaken of the target; the loop is checked to have the "
        "shape for k in order { v, ok := m[k]; if !ok {continue}; switch k {case K: acc += v * e} }), "
        "AbsorbDamage's loop body (both math.Dim uses, lowest remainder, strongest remaining shield) and its "
        "initial values; the fold of the generated body is proved to be what do_absorb computes",
        "still HAND-WRITTEN (correspondence only): replace-or-append in AddShield, removal of exhausted shields "
        "and the events, RemoveShield, the getters; the table model.ShieldFormula value -> constructor of "
        "Shield.fkind is part of the translator (checked against the constants' current values); the shield "
        "model's stats record carries ATK/DEF/HP base, ShieldBoost and ShieldTaken only (source.ATK() is statcalc "
        "of the base value)",
        "translator (harness/cmd/go2coq formulas.go, formulas_specs.go): trusted are the Go front end "
        "(go/packages, go/types, go/constant), the fixed whitelist and accessor tables (which Go field / method is "
        "which model accessor), the statement translation listed at the top of formulas.go, and that lit N n d "
        "(the correctly rounded quotient of two integers below 2^53) is the binary64 the Go compiler stores for "
        "the literal n/d; the translator fails closed (unknown construct, added or missing assignment, changed "
        "signature: go2coq exits 1 and the check reports a broken translator obligation)",
        "for functions that mix effects and arithmetic only the whitelisted statements are translated (the "
        "statements of one block that assign the named variables, their number fixed; every other assignment to "
        "those variables or to the inputs must be whitelisted verbatim): the ORDER of effects around the "
        "arithmetic (event emissions, service calls, which unit receives the energy) stays hand-written and is "
        "tied by correspondence only","algebraic clauses (strength formula, 'what exceeds the strongest shield') are proved for the same "
                "definitions instantiated at the real numbers (NumOps section); the binary64 instance is what is "
                "executed and corresponded; at binary64 the sign clauses are proved from FloatAxioms and the min/max "
                "duality is checked on every implementation trace by the monitor (finite values)",
                "math.Dim is modelled as `v := x - y; if v <= 0 {0} else {v}` (its Go 1.23 source)",
                "info.Stats.ATK/DEF/HP of the fake getter are statCalc(base, 0, 0+0), written into the model"],
    "assumptions": ["the formula map of a shield has distinct keys (it is a Go map)",
                    "strictly-positive survivors / non-negative strength need non-NaN inputs; a shield added with a "
                    "negative or NaN strength (negative coefficients or bonuses below -1) stays until the next absorb"],
    "manifest": {
        "level_text": "Translator tie (way 1): the strength formula of AddShield and the loop body of AbsorbDamage are regenerated from shield/add.go and shield/absorb.go on every run (go2coq FormulasShield) and proved EQUAL to the model's definitions for all inputs; "
                      "Kernel-checked theorems over an executable Gallina model of the shield manager (all sequences of "
                      "add/remove/absorb, every numeric instance for the structural clauses, reals for the algebra, "
                      "binary64 for the signs), tied to the Go code by bit-exact correspondence on generated histories "
                      "and a trace monitor on the implementation.",
        "level_note": "go2coq FormulasShield translator + kernel-checked equalities generated = model; "
                      "Coq kernel; hand-written model Model/Shield.v; correspondence harness; IEEE rounding gap between "
                      "the binary64 and real instances for the strength formula and the min/max duality.",
        "technique": "source-to-Coq translation of the formulas with equality proofs + "
                     "Coq proof (invariant over op lists, NumOps instances at float and R) + model/implementation "
                     "correspondence + monitor",
        "design_ref": "DESIGN.md section 7, C16",
    },
}
