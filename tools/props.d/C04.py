CONFIG = {
    "id": "C04",
    "coq_targets": ["Model/DispatchInterp.v", "Gen/DispatchTable.v", "Proofs/DispatchTableProofs.v", "Gen/FormulasInfo.v", "Gen/FormulasAttr.v", "Gen/Formulas.v", "Proofs/FormulasInfoProofs.v", "Proofs/FormulasAttrCoreProofs.v", "Proofs/FormulasProofs.v",
                    "Props/C04.v", "Model/HitCheck.v", "Model/HitTerms.v", "Model/DispatchCheck.v", "Proofs/DispatchProofs.v", "Model/StatsCheck.v"],
    "prop_files": ["Props/C04.v"],
    "gen": ["FormulasInfo", "FormulasAttr", "Formulas", "DispatchTable"],
    "components": [{
        "name": "hit",
        # HitTerms last: it gives the case files the constructors at the binary64 instance
        "modules": ["Model.CombatCore", "Model.CombatCheck", "Model.Hit", "Model.HitCheck", "Model.HitTerms"],
        "check": "hit_check_case", "monitor": "hit_monitor_case", "model_out": "hit_model_out",
        "case_type": "hcase",
        "ops_path": [3],
        "n_quick": 808, "n_thorough": 40400, "shard": 202,
    }, {
        # the modifier manager's LISTENER DISPATCH (listener.go): which unit's callbacks an event reaches, in which
        # order, how often (Model/Dispatch.v; role table Model/DispatchSpec.v)
        "name": "dispatch_hit",
        "modules": ["Model.Dispatch", "Model.DispatchSpec", "Model.DispatchCheck"],
        "check": "check_case", "monitor": "monitor_case", "model_out": "model_out",
        "case_type": "case",
        "ops_path": [3],            # input = (catalog, valid units, attaches, events)
        "n_quick": 400, "n_thorough": 20000, "shard": 100,
    }, {
        # the stats snapshot a hit reads (info/stats.go is an anchor of C04): base attributes + modifier state, base
        # maps never written by a snapshot, weaknesses as the union (Model/Stats.v, shared with C06:
        # tools/props.d/C06.py describes the component)
        "name": "stats", "modules": ["Model.Stats", "Model.StatsCheck"],
        "check": "check_case", "monitor": "monitor_case", "model_out": "model_out",
        "case_type": "case", "ops_path": [1],
        "n_quick": 200, "n_thorough": 4000, "shard": 40,
    }],
    "rule": "2-4 units (id pool 1..4 plus one unregistered id; characters and enemies) with generated HP/ATK/DEF "
            "base/percent/flat/convert, crit chance/damage, damage bonuses, RES and PEN per element, damage taken per element, "
            "damage reduction, fatigue, break effect, energy regeneration, toughness-damage bonus, level (every row of the break "
            "table in each shard, and levels outside it), stance/max stance, energy/max energy, weaknesses; 2-7 operations: "
            "attacks (1-3 targets incl. repeated, dead and unknown ones; all attack and damage types incl. invalid ones; 0-4 "
            "formula terms; flat damage; pure flag; hit ratio incl. 0 and negative; 0-3 HitStart listener adjustments of either "
            "snapshot / formula map / flat damage / map replacement), EndAttack, shields (strength aimed at the total of the next "
            "hit: equal, one ulp either side, half, double; several shields; same key replaced), direct HP changes; the crit draw "
            "is scripted (multiples of 2^-53 from a small pool, crit chances equal to / one ulp either side of the draws); half of "
            "the property values come from a boundary pool (every literal of damage.go/hit.go/heal.go and the clamp bounds with "
            "their two binary64 neighbours, zero, negatives); all randomness from one splitmix64 state; a case is non-trivial when "
            "distinct as an input term || Component dispatch_hit (the modifier manager's listener dispatch, pkg/engine/modifier/listener.go + the two listener walks of tick.go, through the REAL modifier.NewManager over a fake engine with a real event.System): per case 2-4 modifier configs registered with the real modifier.Register (Stacking Multiple; half of them with EVERY field of modifier.Listeners set, the others with a random half of the fields - a nil field must be skipped; a third with CanModifySnapshot), every set field recording (field name, instance tag, Instance.Owner(), target argument); the six callbacks of the mutable events (OnBeforeDealHeal / OnBeforeBeingHeal on *HealStart, the four OnBefore*Hit* on *info.Hit) also rewrite one number of the event as v -> (2v + tag + 1) mod 1000003, read back after Emit; 2-4 valid units out of ids 1..4 in random order, 0-3 instances each attached in interleaved order incl. several of one config, an attach to an invalid unit now and then; in half of the cases the configs carry SCRIPTS for callbacks that are in play in the case's events (RemoveSelf of itself / of another tag, AddModifier on some unit or on the owner) that run inside the dispatch; in half of those config 0 has every callback and, for most callbacks in play, the script [RemoveSelf; AddModifier(owner, config 0)] or [RemoveSelf], and most instances are of config 0, so that nearly every walk runs over a list that changes under it; 3-20 events emitted through the real event.System: attacks of 1-3 targets as AttackStart, per target HitStart [HPChange] [StanceChange [StanceBreak]] [EnergyChange] [LimboWaitHeal [TargetDeath]] HitEnd, AttackEnd, attack types 0..10 (two in five DOT / PURSUED / ELEMENT_DAMAGE), snapshot flag 1 in 4; hits outside an attack (unqualified, half in snapshot state); ActionStart / ActionEnd, TargetDeath, EnergyChange, StanceChange / Break / Reset, BreakExtend, ShieldAdded / Removed, HPChange, LimboWaitHeal, Manager.Tick of phases 3 (ModifierPhase1), 8 (ModifierPhase2) and others; unit ids of every role drawn independently (self-heal / attacker among the targets / attacker = defender / repeated targets / killer = victim arise often) and one time in 14 an id the engine does not know.  Compared per event: the exact call sequence, the LimboWaitHeal verdict returned by Emit, the number read back, and the (tag, config) lists of every unit afterwards.",
    "trusted": [
        'listener dispatch, TRANSLATED from the Go source on every run (go2coq DispatchTable -> Gen/DispatchTable.v; interpreter Model/DispatchInterp.v; Proofs/DispatchTableProofs.v; theorem C04_dispatch_is_the_source): the Subscribe wiring of (*Manager).subscribe (which event field of event.System is wired to which method, with which priority; the function is the only one of the package calling Subscribe and is called exactly once) and, for each of the 18 subscribed methods of listener.go, the locals `qualified := e...IsQualified()` / `snapshot := e...UseSnapshot` (field paths), the walks `for _, mod := range mgr.itr(<role expression>)` resp. `for _, t := range e.Targets { for _, mod := range mgr.itr(t) ... }` in source order, per walk whether `if snapshot && !mod.modifySnapshot { continue }` guards the body, the callbacks `f := mod.listeners.K; if f != nil [&& qualified] { f(mod [, e | e.Target]) }` in source order, the early `if result { return true }` and the closing `return false` of limboWaitHeal, and the field list of modifier.Listeners.  The interpretation of the generated table is proved EQUAL to Model/Dispatch.run_event (calls, verdict, read-back number, world afterwards) for every world and every event; so a changed role expression, callback field, order of walks or of callbacks, a dropped or added gate, a changed wiring or priority breaks a kernel-checked obligation for all inputs; any statement outside the recognised shapes (head of harness/cmd/go2coq/dispatch.go) makes go2coq exit 1 (broken translator obligation).  (*Manager).itr is checked to be verbatim make + copy + return',
        'listener dispatch, still HAND-WRITTEN / trusted under the translator tie: callbacks are data (has = the Listeners field is non-nil, script_of / do_actions = what the harness callback does, c_snap = Instance.modifySnapshot, the recorded call, the number the six mutating harness callbacks rewrite), `attached` = mgr.targets[unit] with mgr.itr a copy of it taken when the walk starts, the table in Model/DispatchInterp.v saying which constructor argument of the model event is which Go field path (record projections: Attacker, Defender, Hit.AttackType.IsQualified(), Healer.ID(), Info.Target, ...), the event system that delivers an event to the subscribed method (C18) and that a priority-100 listener runs after the default-priority ones; NOT translated: emitAdd / emitRemove / emitDispel / emitExtendDuration / emitExtendCount / emitPropertyChange (the model has no event for them; it records OnAdd / OnRemove only as the consequence of a script attach / detach) and the OnPhase1 / OnPhase2 walks of tick.go (ETick) - those stay tied by correspondence only; the translator itself (go/packages, go/types front end and the shape matcher of dispatch.go)',
        "TRANSLATED from the Go source on every run and proved equal to the model for every NumOps instance and "
        "every argument (Gen/FormulasInfo.v, Gen/FormulasAttr.v, Gen/Formulas.v; Proofs/Formulas*Proofs.v; "
        "theorems C04_model_formulas_are_the_source, C04_perform_hit_is_the_source): damage.go baseDamage (per-key "
        "switch; the summation loop is checked to have the shape for k in slices.Sorted(maps.Keys(m)) { v := m[k]; "
        "switch k {case K: acc += v * e} } and mapped to the model's fold over sorted keys), bonusDamage, defMult, "
        "res, vul, toughness, damageReduce, crit (eligibility and draw < CritChance), critDmg; hit.go performHit: "
        "base, fatigue, the eight factors and their left-to-right product, the HP / stance / energy amounts and "
        "the IsWeakTo guard, newHit's hit-ratio default; stats.go statCalc, GetProperty, ID, Level, "
        "CurrentHPRatio, Stance, MaxHP, HP, ATK, DEF, CurrentHP, CritChance, CritDamage, HealBoost, EnergyRegen, "
        "BreakEffect, DamagePercent, DamageRES; map.go PropMap.Modify; prop.go "
        "DamagePercent/DamageRES/DamagePEN/DamageTaken with their four tables; model.AttackType.IsQualified; "
        "attribute AddTarget (energy cap, HP ratio default), ModifyHPByAmount (new HP, ratio, clamp), SetStance "
        "clamp, ModifyStance amount (reads the SOURCE's stats), SetEnergy clamp, ModifyEnergy amount (reads the "
        "TARGET's stats); shield AbsorbDamage's loop body and initial values; tables/constants: BreakBaseDamage "
        "(every row bit for bit), every prop.Property code, DamageType / AttackType / DamageFormula / TargetState "
        "values",
        "still HAND-WRITTEN (correspondence only): Attack / EndAttack, the order of effects in performHit and the "
        "routing of the energy to attacker or defender, emitHPChangeEvents (death is final, limbo), the removal of "
        "exhausted shields, the event records",
        "translator (harness/cmd/go2coq formulas.go, formulas_specs.go): trusted are the Go front end "
        "(go/packages, go/types, go/constant), the fixed whitelist and accessor tables (which Go field / method is "
        "which model accessor), the statement translation listed at the top of formulas.go, and that lit N n d "
        "(the correctly rounded quotient of two integers below 2^53) is the binary64 the Go compiler stores for "
        "the literal n/d; the translator fails closed (unknown construct, added or missing assignment, changed "
        "signature: go2coq exits 1 and the check reports a broken translator obligation)",
        "for functions that mix effects and arithmetic only the whitelisted statements are translated (the "
        "statements of one block that assign the named variables, their number fixed; every other assignment to "
        "those variables or to the inputs must be whitelisted verbatim): the ORDER of effects around the "
        "arithmetic (event emissions, service calls, which unit receives the energy) stays hand-written and is "
        "tied by correspondence only",
        "the Go map of formula terms is traversed in the model in ascending key order: the generator keeps at most two float "
        "addends after the initial 0 (order independent in binary64), or, in the 'dyadic' third of the cases, up to four terms "
        "whose partial sums are all exact; over the reals the sum is proved order independent (baseDamage_perm)",
        "clauses (d)-(f) of C04_statement are about the same Gallina definitions instantiated at the real numbers (RNum): IEEE "
        "rounding between the two instances is not covered by a theorem, the binary64 instance is compared bit for bit",
        "math/rand: Float64 = float64(Int63())/2^63 of a scripted Source; the property needs only which draw is used and how many",
        "the modifier evaluation (property vector of a unit) and engine.Target.IsCharacter are harness fakes; the attribute "
        "service, the shield manager, the event system and the combat manager are the real ones; the break table is transcribed "
        "into Model/Hit.v (every row is exercised in each shard)",
        "the toughness-damage bonus and the energy regeneration are read by the attribute service from the CURRENT stats of "
        "the attacker / receiver, not from the hit's (listener-adjustable) snapshot; the model says so",
        'listener dispatch (Model/Dispatch.v, hand-written from listener.go function by function; since the translator tie: proved equal to the interpretation of the table go2coq generates from listener.go, and exact correspondence as before): `mgr.itr(unit)` is a copy of the attached list taken when the loop starts (Go `range` over a fresh slice), so a walk is modelled over the list as it was when the walk began; callbacks are data: the recording harness callbacks with their scripts (RemoveSelf, AddModifier with Stacking Multiple, no stats, no duration, no chance); OnAdd is always installed by the harness (it is the only way to learn the *Instance of a fresh attach) and recorded only when the config has it; the expiry pass of Manager.Tick removes nothing for such instances and is not modelled',
        'the role table (Model/DispatchSpec.v: for every field of modifier.Listeners the triggering event, the role whose modifiers receive it, qualified-only and snapshot gates, argument) is a hand transcription of the doc comments of modifier.Listeners and Config.CanModifySnapshot; a unit listed twice among the targets of an attack plays the role twice (the code calls its callbacks once per occurrence; the doc comments do not say otherwise)',
        "the dispatch monitor evaluates the role table on the calls the implementation made, against the attached lists the implementation itself reported before the event (never running the model).  In every case: per call (event kind, role of the owner, argument, qualified / snapshot gate, the instance has the callback), the read-back number = fold of the adjustments, LimboWaitHeal in full (candidates up to the first true, verdict = disjunction) and, per callback kind of the event's FIRST role (all kinds of a single-role event), call list = table - these hold of the model in every world (first_role_any_world, limbo_any_world); when no config of the case carries a script also the whole table per kind, the role order across kinds and the All-then-plain pairing.  Calls of later roles in scripted cases (the second walk sees the lists the first walk's scripts left) are checked by the exact correspondence only",
    ],
    "assumptions": [
        "stat vectors are finite binary64 values; HitStart listeners adjust the hit through Stats.AddProperty, the formula "
        "map and the flat damage (they do not start further attacks from inside the listener)",
        'dispatch theorems: the full role table (clauses a-g) is stated for worlds whose callbacks only record; for callbacks that detach / attach modifiers during the dispatch the theorem is per walk (each walk visits the eligible instances attached when it started), plus the full table for single-walk events and LimboWaitHeal; callbacks do not emit engine events from inside a dispatch',
    ],
    "manifest": {
        "level_text": "Translator tie (way 1) of the listener dispatch: pkg/engine/modifier/listener.go (Subscribe wiring with priorities, walks, role expressions, snapshot / qualified / nil gates, callback order, the early return of limboWaitHeal) is regenerated as a first-order table on every run (go2coq DispatchTable) and its interpretation is proved EQUAL to the dispatch model for all worlds and events; Translator tie (way 1): the leaf formulas, clamps, comparisons, parties and tables of damage.go / hit.go / stats.go / map.go / prop.go / break.gen.go and the attribute and shield arithmetic a hit uses are regenerated from the Go source on every run (go2coq Formulas*) and proved EQUAL to the model definitions for all inputs; "
                      "Kernel-checked theorems over an executable Gallina model of damage.go, performHit/newHit, Attack/EndAttack, "
                      "the attribute service's HP/stance/energy updates and shield absorption (party and crit clauses at every "
                      "arithmetic instance, clamps at the binary64 level, factor formulas / products / splits at the real "
                      "instance), tied to the Go code by exact bit-for-bit trace correspondence and an independent monitor."
                      " Listener dispatch: kernel-checked role table of the modifier callbacks (which unit's instances an event reaches, exactly once per role occurrence and eligible instance, in attachment / role / target order, qualified and snapshot gates, LimboWaitHeal verdict = disjunction; for all worlds and events, per walk also when callbacks detach / attach modifiers) over an executable model of listener.go, tied to the real modifier.Manager by exact call-sequence correspondence and a role-table monitor on recorded calls.",
        "level_note": "go2coq DispatchTable translator + interpreter Model/DispatchInterp.v + kernel-checked equality generated table = Model/Dispatch.v; hand-written model Model/Dispatch.v + role table Model/DispatchSpec.v (listener.go), correspondence component dispatch_hit; go2coq Formulas* translator + kernel-checked equalities generated = model; "
                      "Coq kernel; hand-written model Model/CombatCore.v + Model/Hit.v; correspondence harness against the real "
                      "combat manager, attribute service, shield manager and event system; reals vs binary64 gap named in trusted.",
        "technique": "source-to-Coq translation of listener.go into a dispatch table with an interpreter and equality proofs (induction over attached lists and walks, computation per event kind) + Coq proof of the dispatch role table (induction over attached lists, target lists and walks; case analysis over the 19 events x 39 callbacks) + source-to-Coq translation of the formulas with equality proofs + "
                     "Coq proof (case analysis, lra over the reals, induction over shields and formula terms) + "
                     "model/implementation correspondence + trace monitor",
        "design_ref": "DESIGN.md section 7, C04",
    },
}
