(* C09, run level: for every configuration, content, decision sequence and fuel, the result of a
   terminated run of the whole-simulation model adds up, and the run stopped at the first exit check
   that failed.

   The statistics subscriber ([record_hit]) runs when a hit's HitEnd is EMITTED, before the content's
   HitEnd listener; [VHitEnd] is logged when the emission COMPLETES.  With nested hits (a HitEnd
   listener that attacks) the order of summation differs from the order of the log, and binary64
   addition is not associative.  So the statement is: there is a list of the recorded hits, a
   permutation of the logged ones (the order of recording), whose enemy / character totals summed
   left to right from 0 are exactly the two totals of the result.  Without a HitEnd listener the two
   orders coincide.

   The relation [Gr s s' seg L] between simulation states carries the logged segment, the list of
   recorded hits with the cycle index every hit was recorded under, the clock, the sides of the
   units, the living lists (they lose exactly the announced units) and the HitEnd listener slot; it
   is reflexive and transitive, every content script respects it (frame principle of
   Proofs/SimFrame2.v, instance [Gc]), and every function of the run loop respects it ([G]).
   From it: the totals (a), the per-cycle series (b: structure always; last = total under a
   monotone cycle index; monotone under non-negative hits, at the binary64 level), the clock (c),
   the reason of the Termination in terms of the announced deaths, and the acceptance of the whole
   C09 trace monitor under the assumptions it needs. *)
From Coq Require Import List ZArith Bool Floats Lia Permutation.
From SR Require Import Base.CaseLib Base.NumOps Base.FloatFactsAttr Model.Turn Model.Sim Model.SimProtocol
  Proofs.SimProofs Proofs.SimDeath Proofs.SimDeathTrace Proofs.SimFrame2 Proofs.SimFloat Proofs.SimResult.
Import ListNotations.
Open Scope Z_scope.

(* ------------------------------------------------------------------ *)
(* Vocabulary                                                           *)
(* ------------------------------------------------------------------ *)
(* the logged hits: defender and total damage of every VHitEnd, in log order *)
Fixpoint hit_ends (tr : list ev) : list (Z * float) :=
  match tr with
  | [] => []
  | VHitEnd _ d t _ :: r => (d, t) :: hit_ends r
  | _ :: r => hit_ends r
  end.

(* the battle clock as the trace shows it: the total of the last TurnStart (c before the first) *)
Fixpoint last_tot (c : float) (tr : list ev) : float :=
  match tr with
  | [] => c
  | VTurnStart _ _ tot _ :: r => last_tot tot r
  | _ :: r => last_tot c r
  end.

(* statistics.go: cycle = max 0 (ceil(clock / 100) - 1) *)
Definition cyc_ix (x : float) : nat := Z.to_nat (Z.max 0 (ceil_div100 x - 1)).

(* the cycle index of the clock never goes down from one turn start to the next (checkable on a
   trace; it holds when every turn's elapsed action value is >= 0, property C02) *)
Fixpoint cycles_mono_from (c : float) (tr : list ev) : bool :=
  match tr with
  | [] => true
  | VTurnStart _ _ tot _ :: r => (cyc_ix c <=? cyc_ix tot)%nat && cycles_mono_from tot r
  | _ :: r => cycles_mono_from c r
  end.
Definition cycles_mono (tr : list ev) : bool := cycles_mono_from 0%float tr.

(* which side a defender is on, None for an id that is not a unit of the battle *)
Definition side (s : sim) (id : Z) : option bool :=
  match get_unit (units s) id with Some u => Some (uchar u) | None => None end.

(* a recorded hit: the cycle index at the time of recording, the defender, the total damage *)
Definition hitrec : Type := (nat * (Z * float))%type.

(* statistics.go's HitEnd subscriber as a function on the result record *)
Definition rec1 (sd : Z -> option bool) (r : result) (h : hitrec) : result :=
  match sd (fst (snd h)) with
  | None => r
  | Some c =>
      let n := fst h in
      let t := snd (snd h) in
      let dealt := if c then r_dealt r else PrimFloat.add (r_dealt r) t in
      let taken := if c then PrimFloat.add (r_taken r) t else r_taken r in
      mkRes dealt taken (set_nth_f (pad_to (r_dealt_cyc r) (S n) 0%float) n dealt)
                        (set_nth_f (pad_to (r_taken_cyc r) (S n) 0%float) n taken)
  end.

Definition fsum (l : list float) : float := fold_left PrimFloat.add l 0%float.

(* lo <= i1 <= i2 <= ... <= hi *)
Fixpoint incr (lo : nat) (l : list nat) (hi : nat) : Prop :=
  match l with
  | [] => (lo <= hi)%nat
  | i :: r => (lo <= i)%nat /\ incr i r hi
  end.

(* events that neither complete a hit, nor start a turn, nor announce a death *)
Definition plain (e : ev) : bool :=
  match e with VHitEnd _ _ _ _ | VTurnStart _ _ _ _ | VTargetDeath _ _ => false | _ => true end.

(* ------------------------------------------------------------------ *)
(* Small facts                                                          *)
(* ------------------------------------------------------------------ *)
Lemma hit_ends_app a b : hit_ends (a ++ b) = hit_ends a ++ hit_ends b.
Proof. induction a as [|e a IH]; [reflexivity|]. destruct e; cbn [app hit_ends]; rewrite ?IH; reflexivity. Qed.

Lemma last_tot_app a : forall c b, last_tot c (a ++ b) = last_tot (last_tot c a) b.
Proof. induction a as [|e a IH]; intros c b; [reflexivity|]. destruct e; cbn [app last_tot]; apply IH. Qed.

Lemma cycles_mono_app a : forall c b,
  cycles_mono_from c (a ++ b) = cycles_mono_from c a && cycles_mono_from (last_tot c a) b.
Proof.
  induction a as [|e a IH]; intros c b; [reflexivity|].
  destruct e; cbn [app cycles_mono_from last_tot]; rewrite ?IH; try reflexivity.
  rewrite andb_assoc. reflexivity.
Qed.

Lemma plain_hit_ends l : forallb plain l = true -> hit_ends l = [].
Proof.
  induction l as [|e l IH]; [reflexivity|]. cbn [forallb]. intros H. apply andb_prop in H. destruct H as [He Hl].
  destruct e; try discriminate; cbn [hit_ends]; apply IH; exact Hl.
Qed.

Lemma plain_last_tot l c : forallb plain l = true -> last_tot c l = c.
Proof.
  revert c. induction l as [|e l IH]; intros c; [reflexivity|]. cbn [forallb]. intros H. apply andb_prop in H. destruct H as [He Hl].
  destruct e; try discriminate; cbn [last_tot]; apply IH; exact Hl.
Qed.

Lemma content_ev_plain l : forallb content_ev l = true -> forallb plain l = true.
Proof.
  induction l as [|e l IH]; [reflexivity|]. cbn [forallb]. intros H. apply andb_prop in H. destruct H as [He Hl].
  rewrite (IH Hl), andb_true_r. destruct e; try discriminate; reflexivity.
Qed.

Lemma incr_lo a b l c : (a <= b)%nat -> incr b l c -> incr a l c.
Proof. destruct l as [|i r]; cbn [incr]; [lia|]. intros H [H1 H2]. split; [lia|exact H2]. Qed.

Lemma incr_hi l : forall a b c, incr a l b -> (b <= c)%nat -> incr a l c.
Proof. induction l as [|i r IH]; intros a b c; cbn [incr]; [lia|]. intros [H1 H2] H. split; [exact H1|eapply IH; eassumption]. Qed.

Lemma incr_app l1 : forall a b l2 c, incr a l1 b -> incr b l2 c -> incr a (l1 ++ l2) c.
Proof.
  induction l1 as [|i r IH]; intros a b l2 c; cbn [incr app].
  - intros H1 H2. eapply incr_lo; eassumption.
  - intros [H1 H2] H3. split; [exact H1|]. eapply IH; eassumption.
Qed.

Lemma incr_le l : forall a b, incr a l b -> (a <= b)%nat.
Proof. induction l as [|i r IH]; intros a b; cbn [incr]; [lia|]. intros [H1 H2]. specialize (IH _ _ H2). lia. Qed.

Lemma rec1_ext sd sd' r h : (forall id, sd id = sd' id) -> rec1 sd r h = rec1 sd' r h.
Proof. intros E. unfold rec1. rewrite E. reflexivity. Qed.

Lemma fold_rec1_ext sd sd' (E : forall id, sd id = sd' id) : forall L r,
  fold_left (rec1 sd) L r = fold_left (rec1 sd') L r.
Proof. induction L as [|h L IH]; intros r; [reflexivity|]. cbn [fold_left]. rewrite (rec1_ext sd sd' r h E). apply IH. Qed.

(* the turn model: only StartTurn moves the clock, to the value it reports *)
Lemma turn_modnorm_total (t : tstate F) id amt : total (fst (Turn.step F t (@OModNorm F id amt))) = total t.
Proof.
  cbn [Turn.step]. destruct (Turn.find (order t) id); [|reflexivity].
  unfold do_set_gauge. destruct (Turn.find (order t) id); [|reflexivity].
  destruct (negb _); [reflexivity|]. destruct (_ =? _); reflexivity.
Qed.

Lemma turn_remove_total (t : tstate F) id : total (fst (Turn.step F t (@ORemove F id))) = total t.
Proof. cbn [Turn.step]. destruct (Turn.find (order t) id); reflexivity. Qed.

Lemma turn_reset_total (t : tstate F) : total (fst (Turn.step F t (@OReset F))) = total t.
Proof.
  cbn [Turn.step]. destruct (negb (active t)); [reflexivity|].
  destruct (Turn.find (order t) (atarget t)); [|reflexivity].
  destruct (negb _); reflexivity.
Qed.

Lemma turn_start_total (t t' : tstate F) id av st tot :
  Turn.step F t (@OStart F) = (t', [EStart id av st tot]) -> tot = total t'.
Proof.
  cbn [Turn.step]. destruct (active t); [discriminate|].
  destruct (resort F t (order t)); [discriminate|].
  destruct (negb _); [discriminate|]. intros H. inversion H; subst. reflexivity.
Qed.

Lemma fold_set_speed_total ivs : forall (t : tstate F),
  total (fold_left (fun st (iv : Z * float) => set_speed F st (fst iv) (snd iv)) ivs t) = total t.
Proof. induction ivs as [|iv ivs IH]; intros t; cbn [fold_left]; [reflexivity|]. rewrite IH. reflexivity. Qed.

Lemma turn_add_total l : total (fst (Turn.step F (Turn.init F) (@OAdd F l))) = 0%float.
Proof. cbn [Turn.step fst total set_order]. rewrite fold_set_speed_total. reflexivity. Qed.

(* sides: a record replaced by one with the same static fields *)
Lemma side_upd s u u0 : get_unit (units s) (uid u) = Some u0 -> static u = static u0 ->
  forall id, side (upd_unit s u) id = side s id.
Proof.
  intros G St id. unfold side. cbn [units upd_unit set_units].
  destruct (Z.eq_dec id (uid u)) as [->|Hne].
  - rewrite (get_put_same (units s) u) by (eexists; exact G). rewrite G. unfold static in St. f_equal. congruence.
  - rewrite (get_put_other _ _ _ Hne). reflexivity.
Qed.

Lemma side_units s s' : units s' = units s -> forall id, side s' id = side s id.
Proof. intros E id. unfold side. rewrite E. reflexivity. Qed.

(* the statistics subscriber changes the result record only, as [rec1] says *)
Lemma record_hit_spec2 s d t :
  units (record_hit s d t) = units s /\ turn (record_hit s d t) = turn s /\ trace (record_hit s d t) = trace s /\
  res (record_hit s d t) = rec1 (side s) (res s) (cyc_ix (total_av s), (d, t)).
Proof.
  unfold record_hit, rec1, side. cbn [fst snd]. destruct (get_unit (units s) d) as [u|]; repeat split; reflexivity.
Qed.

(* ------------------------------------------------------------------ *)
(* The relation                                                         *)
(* ------------------------------------------------------------------ *)
(* no entry is left in the content's HitEnd listener slot *)
Definition no_he (s : sim) : Prop := nth (slot_ix LHitEnd) (lslots s) [] = [].

(* [s'] is reached from [s] by logging [seg], having recorded the hits [L] (with the cycle index of
   each); the living lists lose exactly the units announced in [seg]; when no HitEnd listener is
   left the hits were recorded in the order of the log *)
Record Gr (s s' : sim) (seg : list ev) (L : list hitrec) : Prop := mkGr {
  g_trace : trace s' = trace s ++ seg;
  g_perm : Permutation (map snd L) (hit_ends seg);
  g_side : forall id, side s' id = side s id;
  g_clock : total_av s' = last_tot (total_av s) seg;
  g_res : res s' = fold_left (rec1 (side s)) L (res s);
  g_incr : cycles_mono_from (total_av s) seg = true -> incr (cyc_ix (total_av s)) (map fst L) (cyc_ix (total_av s'));
  g_chars : forall i, In i (chars s') <-> In i (chars s) /\ ~ In i (ann seg);
  g_enemies : forall i, In i (enemies s') <-> In i (enemies s) /\ ~ In i (ann seg);
  g_exact : no_he s -> map snd L = hit_ends seg /\ no_he s' }.

Definition G (s s' : sim) : Prop := exists seg L, Gr s s' seg L.
(* content: nobody is announced *)
Definition Gc (s s' : sim) : Prop := exists seg L, Gr s s' seg L /\ ann seg = [].

Lemma G_of_Gc s s' : Gc s s' -> G s s'.
Proof. intros (x & L & R & _). exists x, L. exact R. Qed.

Lemma Gr_refl s : Gr s s [] [].
Proof.
  constructor.
  - rewrite app_nil_r. reflexivity.
  - constructor.
  - reflexivity.
  - reflexivity.
  - reflexivity.
  - intros _. cbn [incr map]. lia.
  - intros i. cbn [ann]. tauto.
  - intros i. cbn [ann]. tauto.
  - intros H. split; [reflexivity|exact H].
Qed.

Lemma Gr_trans a b c x y L1 L2 : Gr a b x L1 -> Gr b c y L2 -> Gr a c (x ++ y) (L1 ++ L2).
Proof.
  intros [Tx Px Sx Cx Rx Ix Hx Ex Xx] [Ty Py Sy Cy Ry Iy Hy Ey Xy]. constructor.
  - rewrite Ty, Tx, app_assoc. reflexivity.
  - rewrite map_app, hit_ends_app. apply Permutation_app; assumption.
  - intros id. rewrite Sy. apply Sx.
  - rewrite Cy, Cx, last_tot_app. reflexivity.
  - rewrite Ry, Rx, fold_left_app. apply fold_rec1_ext. exact Sx.
  - rewrite cycles_mono_app. intros H. apply andb_prop in H. destruct H as [H1 H2].
    rewrite map_app. eapply incr_app; [apply Ix; exact H1|]. apply Iy. rewrite Cx. exact H2.
  - intros i. rewrite Hy, Hx, ann_app, in_app_iff. tauto.
  - intros i. rewrite Ey, Ex, ann_app, in_app_iff. tauto.
  - intros H. destruct (Xx H) as [E1 H1]. destruct (Xy H1) as [E2 H2].
    split; [|exact H2]. rewrite map_app, hit_ends_app. f_equal; [exact E1|exact E2].
Qed.

Lemma G_refl s : G s s.
Proof. exists [], []. apply Gr_refl. Qed.
Lemma G_trans a b c : G a b -> G b c -> G a c.
Proof. intros (x & L1 & R1) (y & L2 & R2). exists (x ++ y), (L1 ++ L2). eapply Gr_trans; eassumption. Qed.
Lemma Gc_refl s : Gc s s.
Proof. exists [], []. split; [apply Gr_refl|reflexivity]. Qed.
Lemma Gc_trans a b c : Gc a b -> Gc b c -> Gc a c.
Proof.
  intros (x & L1 & R1 & A1) (y & L2 & R2 & A2). exists (x ++ y), (L1 ++ L2).
  split; [eapply Gr_trans; eassumption|rewrite ann_app, A1, A2; reflexivity].
Qed.

Lemma plain_ann l : forallb plain l = true -> ann l = [].
Proof.
  induction l as [|e l IH]; [reflexivity|]. cbn [forallb]. intros H. apply andb_prop in H. destruct H as [He Hl].
  destruct e; try discriminate; cbn [ann]; apply IH; exact Hl.
Qed.

(* a step that logs only plain events and keeps sides, clock, statistics, lists and listener slots *)
Lemma Gc_plain s s' l : trace s' = trace s ++ l -> forallb plain l = true ->
  (forall id, side s' id = side s id) -> total_av s' = total_av s -> res s' = res s ->
  chars s' = chars s -> enemies s' = enemies s -> lslots s' = lslots s -> Gc s s'.
Proof.
  intros T P Sd C R Hc He Hs. exists l, []. split; [|apply plain_ann; exact P]. constructor.
  - exact T.
  - rewrite (plain_hit_ends l P). constructor.
  - exact Sd.
  - rewrite (plain_last_tot l _ P). exact C.
  - exact R.
  - intros _. cbn [incr map]. rewrite C. lia.
  - intros i. rewrite Hc, (plain_ann l P). cbn [In]. tauto.
  - intros i. rewrite He, (plain_ann l P). cbn [In]. tauto.
  - intros H. split; [rewrite (plain_hit_ends l P); reflexivity|unfold no_he in *; rewrite Hs; exact H].
Qed.

Lemma Gc_quiet s s' : trace s' = trace s -> units s' = units s -> turn s' = turn s -> res s' = res s ->
  chars s' = chars s -> enemies s' = enemies s -> lslots s' = lslots s -> Gc s s'.
Proof.
  intros T U Tu R Hc He Hs.
  apply (Gc_plain s s' []); [rewrite app_nil_r; exact T|reflexivity|apply side_units; exact U| |exact R|exact Hc|exact He|exact Hs].
  unfold total_av. rewrite Tu. reflexivity.
Qed.

Lemma Gc_emit_plain s l : forallb plain l = true -> Gc s (emit s l).
Proof. intros P. apply (Gc_plain s (emit s l) l); auto. Qed.

Lemma Gc_emit s l : forallb content_ev l = true -> Gc s (emit s l).
Proof. intros H. apply Gc_emit_plain, content_ev_plain, H. Qed.

Lemma Gc_sample s : Gc s (emit s [VSample (chars s) (enemies s) (turn_ids s)]).
Proof. apply Gc_emit_plain. reflexivity. Qed.

Lemma Gc_upd s u u0 : get_unit (units s) (uid u) = Some u0 -> static u = static u0 ->
  (ust u0 = Dead -> ust u = Dead) -> Gc s (upd_unit s u).
Proof.
  intros Gu St _. apply (Gc_plain s (upd_unit s u) []); try reflexivity.
  - cbn [trace upd_unit set_units]. rewrite app_nil_r. reflexivity.
  - apply (side_upd s u u0 Gu St).
Qed.

Lemma Gc_same s s' : units s' = units s -> chars s' = chars s -> enemies s' = enemies s ->
  turn s' = turn s -> trace s' = trace s -> res s' = res s -> lslots s' = lslots s -> Gc s s'.
Proof. intros U Hc He Tu T R Hs. apply Gc_quiet; assumption. Qed.

(* a change of the turn order that keeps the clock *)
Lemma Gc_set_turn s t' : total t' = total (turn s) -> Gc s (set_turn s t').
Proof.
  intros E. apply (Gc_plain s (set_turn s t') []); try reflexivity.
  - cbn [trace set_turn]. rewrite app_nil_r. reflexivity.
  - exact E.
Qed.

Lemma Gc_gauge s id amt : Gc s (set_turn s (fst (Turn.step F (turn s) (@OModNorm F id amt)))).
Proof. apply Gc_set_turn. apply turn_modnorm_total. Qed.

(* listener slots *)
Lemma nth_set_nth_l : forall (l : list (list nat)) n m v, n <> m -> nth m (set_nth_l l n v) [] = nth m l [].
Proof.
  induction l as [|x l IH]; intros n m v H; [reflexivity|]. destruct n as [|n]; destruct m as [|m]; cbn [set_nth_l nth]; try reflexivity.
  - congruence.
  - apply IH. congruence.
Qed.

Lemma pop_slot_fields s x : let s1 := snd (pop_slot s x) in
  units s1 = units s /\ chars s1 = chars s /\ enemies s1 = enemies s /\ turn s1 = turn s /\ trace s1 = trace s /\ res s1 = res s.
Proof. unfold pop_slot. destruct (nth (slot_ix x) (lslots s) []); cbn [snd]; repeat split; reflexivity. Qed.

Lemma pop_slot_none s x : fst (pop_slot s x) = None -> snd (pop_slot s x) = s.
Proof. unfold pop_slot. destruct (nth (slot_ix x) (lslots s) []); [reflexivity|discriminate]. Qed.

Lemma pop_slot_some_he s i : fst (pop_slot s LHitEnd) = Some i -> ~ no_he s.
Proof. unfold pop_slot, no_he. destruct (nth (slot_ix LHitEnd) (lslots s) []); [discriminate|]. intros _ H. discriminate. Qed.

Lemma pop_slot_no_he s x : no_he s -> no_he (snd (pop_slot s x)).
Proof.
  unfold pop_slot, no_he. intros H. destruct (nth (slot_ix x) (lslots s) []) as [|i r] eqn:E; [exact H|].
  cbn [snd lslots set_slots]. destruct x; try (rewrite nth_set_nth_l by (cbn; congruence); exact H).
Qed.

Lemma Gc_slot s x : Gc s (snd (pop_slot s x)).
Proof.
  destruct (pop_slot_fields s x) as (U & Hc & He & Tu & T & R).
  exists [], []. split; [|reflexivity]. constructor.
  - rewrite app_nil_r. exact T.
  - constructor.
  - apply side_units. exact U.
  - cbn [last_tot]. unfold total_av. rewrite Tu. reflexivity.
  - exact R.
  - intros _. cbn [incr map]. unfold total_av. rewrite Tu. lia.
  - intros i. rewrite Hc. cbn [ann In]. tauto.
  - intros i. rewrite He. cbn [ann In]. tauto.
  - intros H. split; [reflexivity|apply pop_slot_no_he; exact H].
Qed.

(* the completion of a hit: recorded first, logged after the listener.  [s5] is the state after the
   statistics (and the slot look-up), [s'] the state the listener left *)
Lemma Gr_hit s s5 s' x L a d t h :
  units s5 = units s -> chars s5 = chars s -> enemies s5 = enemies s -> turn s5 = turn s -> trace s5 = trace s ->
  res s5 = rec1 (side s) (res s) (cyc_ix (total_av s), (d, t)) ->
  Gr s5 s' x L ->
  (no_he s -> (d, t) :: map snd L = hit_ends x ++ [(d, t)] /\ no_he s') ->
  Gr s (emit s' [VHitEnd a d t h]) (x ++ [VHitEnd a d t h]) ((cyc_ix (total_av s), (d, t)) :: L).
Proof.
  intros U Hc He Tu T R [Tx Px Sx Cx Rx Ix Hx Ex Xx] EX.
  assert (Sd : forall id, side s5 id = side s id) by (apply side_units; exact U).
  assert (C : total_av s5 = total_av s) by (unfold total_av; rewrite Tu; reflexivity).
  constructor.
  - cbn [trace emit]. rewrite Tx, T, app_assoc. reflexivity.
  - rewrite hit_ends_app. cbn [map snd hit_ends]. apply Permutation_cons_app. rewrite app_nil_r. exact Px.
  - intros id. change (side s' id = side s id). rewrite Sx. apply Sd.
  - change (total_av (emit s' [VHitEnd a d t h])) with (total_av s'). rewrite Cx, C, last_tot_app. reflexivity.
  - cbn [res emit fold_left]. rewrite Rx, R. apply fold_rec1_ext. exact Sd.
  - rewrite cycles_mono_app. cbn [cycles_mono_from]. rewrite andb_true_r. intros H.
    cbn [map fst incr]. split; [lia|].
    change (total_av (emit s' [VHitEnd a d t h])) with (total_av s'). rewrite <- C. apply Ix. rewrite C. exact H.
  - intros i. change (chars (emit s' [VHitEnd a d t h])) with (chars s'). rewrite Hx, Hc, ann_app. cbn [ann]. rewrite app_nil_r. tauto.
  - intros i. change (enemies (emit s' [VHitEnd a d t h])) with (enemies s'). rewrite Ex, He, ann_app. cbn [ann]. rewrite app_nil_r. tauto.
  - intros H. destruct (EX H) as [E1 E2]. split; [rewrite hit_ends_app; cbn [map snd hit_ends]; exact E1|exact E2].
Qed.

Lemma ann_hit x a d t h : ann x = [] -> ann (x ++ [VHitEnd a d t h]) = [].
Proof. intros H. rewrite ann_app, H. reflexivity. Qed.

Lemma Gc_hit_none s a d t h : fst (pop_slot (record_hit s d t) LHitEnd) = None ->
  Gc s (emit (snd (pop_slot (record_hit s d t) LHitEnd)) [VHitEnd a d t h]).
Proof.
  intros HN. rewrite (pop_slot_none _ _ HN).
  destruct (record_hit_spec2 s d t) as (U & Tu & T & R).
  exists ([] ++ [VHitEnd a d t h]), [(cyc_ix (total_av s), (d, t))]. split; [|reflexivity].
  assert (RC : chars (record_hit s d t) = chars s) by (unfold record_hit; destruct (get_unit (units s) d); reflexivity).
  assert (RE : enemies (record_hit s d t) = enemies s) by (unfold record_hit; destruct (get_unit (units s) d); reflexivity).
  apply (Gr_hit s (record_hit s d t) (record_hit s d t) [] [] a d t h U RC RE Tu T R (Gr_refl _)).
  intros H. split; [reflexivity|]. unfold no_he, record_hit in *. destruct (get_unit (units s) d); exact H.
Qed.

Lemma Gc_hit_some s (i : nat) s' a d t h : fst (pop_slot (record_hit s d t) LHitEnd) = Some i ->
  Gc (snd (pop_slot (record_hit s d t) LHitEnd)) s' -> Gc s (emit s' [VHitEnd a d t h]).
Proof.
  intros HS (x & L & R & A).
  destruct (record_hit_spec2 s d t) as (U & Tu & T & Rr).
  destruct (pop_slot_fields (record_hit s d t) LHitEnd) as (U5 & Hc5 & He5 & Tu5 & T5 & R5).
  exists (x ++ [VHitEnd a d t h]), ((cyc_ix (total_av s), (d, t)) :: L). split; [|apply ann_hit; exact A].
  assert (RC : chars (record_hit s d t) = chars s) by (unfold record_hit; destruct (get_unit (units s) d); reflexivity).
  assert (RE : enemies (record_hit s d t) = enemies s) by (unfold record_hit; destruct (get_unit (units s) d); reflexivity).
  apply (Gr_hit s (snd (pop_slot (record_hit s d t) LHitEnd)) s' x L a d t h);
    [congruence|congruence|congruence|congruence|congruence|congruence|exact R|].
  intros H. exfalso. apply (pop_slot_some_he _ _ HS). unfold no_he, record_hit in *. destruct (get_unit (units s) d); exact H.
Qed.

(* ------------------------------------------------------------------ *)
(* Every function of the run loop respects the relation                 *)
(* ------------------------------------------------------------------ *)
Section Totals.
  Variable cfg : config.

  Definition Gc_exec_ops := Q2_exec_ops cfg Gc Gc_refl Gc_trans Gc_emit Gc_sample Gc_upd Gc_same Gc_slot Gc_gauge Gc_hit_none Gc_hit_some.
  Definition Gc_run_slot := Q2_run_slot cfg Gc Gc_refl Gc_trans Gc_emit Gc_sample Gc_upd Gc_same Gc_slot Gc_gauge Gc_hit_none Gc_hit_some.
  Definition Gc_run_body := Q2_run_body cfg Gc Gc_refl Gc_trans Gc_emit Gc_sample Gc_upd Gc_same Gc_slot Gc_gauge Gc_hit_none Gc_hit_some.
  Definition Gc_pop_act := Q2_pop_act cfg Gc Gc_refl Gc_upd.
  Definition Gc_mod_sp := Q2_mod_sp Gc Gc_refl Gc_trans Gc_emit Gc_same.
  Definition Gc_mod_energy := Q2_mod_energy Gc Gc_refl Gc_trans Gc_emit Gc_upd.
  Definition Gc_set_energy := Q2_set_energy Gc Gc_refl Gc_trans Gc_emit Gc_upd.

  Lemma G_run_slot fuel s x self p s' : run_slot cfg fuel s x self p = Some s' -> G s s'.
  Proof. intros H. eapply G_of_Gc, Gc_run_slot; exact H. Qed.
  Lemma G_run_body fuel s self p sc endev sl s' :
    run_body cfg fuel s self p sc endev sl = Some s' -> exists s1, G s s1 /\ s' = emit s1 [endev].
  Proof. intros H. destruct (Gc_run_body _ _ _ _ _ _ _ _ H) as (s1 & Q1 & E). exists s1. split; [apply G_of_Gc; exact Q1|exact E]. Qed.
  Lemma G_pop_act s id : G s (snd (pop_act cfg s id)).
  Proof. apply G_of_Gc, Gc_pop_act. Qed.
  Lemma G_mod_sp s a : G s (mod_sp s a). Proof. apply G_of_Gc, Gc_mod_sp. Qed.
  Lemma G_mod_energy s id a : G s (mod_energy_fixed s id a). Proof. apply G_of_Gc, Gc_mod_energy. Qed.
  Lemma G_set_energy s id a : G s (set_energy s id a). Proof. apply G_of_Gc, Gc_set_energy. Qed.
  Lemma G_emit_plain s l : forallb plain l = true -> G s (emit s l).
  Proof. intros H. apply G_of_Gc, Gc_emit_plain, H. Qed.
  Lemma G_quiet s s' : trace s' = trace s -> units s' = units s -> turn s' = turn s -> res s' = res s ->
    chars s' = chars s -> enemies s' = enemies s -> lslots s' = lslots s -> G s s'.
  Proof. intros. apply G_of_Gc, Gc_quiet; assumption. Qed.
  Lemma G_set_turn s t' : total t' = total (turn s) -> G s (set_turn s t').
  Proof. intros H. apply G_of_Gc, Gc_set_turn, H. Qed.

  Definition gdo (s : sim) (o : outcome) : Prop :=
    match o with Ok s' | Stop s' | Err s' => G s s' | OutOfFuel => True end.
  Definition gda (s : sim) (a : aout) : Prop :=
    match a with AOk s' | AErr s' | ACrash s' => G s s' | AFuel => True end.

  Lemma gdo_after s s1 o : G s s1 -> gdo s1 o -> gdo s o.
  Proof. intros H1 H2. destruct o; cbn [gdo] in *; auto; eapply G_trans; eassumption. Qed.
  Lemma gda_after s s1 a : G s s1 -> gda s1 a -> gda s a.
  Proof. intros H1 H2. destruct a; cbn [gda] in *; auto; eapply G_trans; eassumption. Qed.

  (* ---- death check ---- *)
  Lemma Gr_death_event s id k : ~ In id (chars s) -> ~ In id (enemies s) ->
    Gr s (emit s [VTargetDeath id k]) [VTargetDeath id k] [].
  Proof.
    intros Hc He. constructor.
    - reflexivity.
    - constructor.
    - reflexivity.
    - reflexivity.
    - reflexivity.
    - intros _. cbn [incr map]. change (total_av (emit s [VTargetDeath id k])) with (total_av s). lia.
    - intros i. cbn [chars emit ann In]. split; [intros H; split; [exact H|intros [<-|[]]; contradiction]|tauto].
    - intros i. cbn [enemies emit ann In]. split; [intros H; split; [exact H|intros [<-|[]]; contradiction]|tauto].
    - intros H. split; [reflexivity|exact H].
  Qed.

  Lemma announce_Gr fuel : forall ids s s', announce cfg fuel s ids = Some s' ->
    (forall id, In id ids -> ~ In id (chars s) /\ ~ In id (enemies s)) ->
    exists seg L, Gr s s' seg L /\ ann seg = ids.
  Proof.
    induction ids as [|id ids IH]; intros s s' H Hoff; cbn [announce] in H.
    - inversion H; subst. exists [], []. split; [apply Gr_refl|reflexivity].
    - pose proof (turn_remove_total (turn s) id) as TR.
      destruct (Turn.step F (turn s) (@ORemove F id)) as [t' outs]. cbn [fst] in TR.
      match type of H with match run_slot _ _ (emit ?x ?e) _ _ _ with _ => _ end = _ => set (s2 := x) in *; set (ds := e) in * end.
      destruct (run_slot cfg fuel (emit s2 ds) LDeath id _) as [s3|] eqn:ER; [|discriminate].
      match type of H with announce _ _ (emit _ [VTargetDeath _ ?k]) _ = _ => set (killer := k) in * end.
      assert (C3 : Gc s s3).
      { eapply Gc_trans; [apply (Gc_set_turn s t' TR)|].
        eapply Gc_trans; [apply Gc_mod_energy|].
        eapply Gc_trans; [apply (Gc_emit_plain s2 ds); reflexivity|].
        eapply Gc_run_slot. exact ER. }
      destruct C3 as (x & L1 & R1 & A1).
      assert (Hc3 : forall i, In i (chars s3) -> In i (chars s)) by (intros i Hi; apply (g_chars _ _ _ _ R1) in Hi; tauto).
      assert (He3 : forall i, In i (enemies s3) -> In i (enemies s)) by (intros i Hi; apply (g_enemies _ _ _ _ R1) in Hi; tauto).
      destruct (Hoff id (or_introl eq_refl)) as [Oc Oe].
      pose proof (Gr_death_event s3 id killer (fun Hi => Oc (Hc3 _ Hi)) (fun Hi => Oe (He3 _ Hi))) as R2.
      destruct (IH _ _ H) as (y & L2 & R3 & A3).
      { intros i Hi. destruct (Hoff i (or_intror Hi)) as [Pc Pe]. cbn [chars enemies emit]. split; intros Q; [apply Pc, Hc3, Q|apply Pe, He3, Q]. }
      exists ((x ++ [VTargetDeath id killer]) ++ y), ((L1 ++ []) ++ L2).
      split; [eapply Gr_trans; [eapply Gr_trans; [exact R1|exact R2]|exact R3]|].
      rewrite !ann_app, A1, A3. reflexivity.
  Qed.

  Lemma death_check_G fuel s k s' : death_check cfg fuel s k = Some s' -> G s s'.
  Proof.
    unfold death_check. set (K := should_kill s k). set (nK := fun i => negb (K i)).
    set (s1 := set_lists s (filter nK (chars s)) (filter nK (enemies s))).
    intros H. destruct (announce_Gr fuel _ _ _ H) as (seg & L & [Tx Px Sx Cx Rx Ix Hx Ex Xx] & A).
    { intros id Hin. apply in_app_or in Hin. cbn [chars enemies s1 set_lists].
      destruct Hin as [Hin|Hin]; split; apply (filter_neg_disj K _ id Hin). }
    exists seg, L. constructor; try assumption.
    - intros i. rewrite Hx, A. cbn [chars s1 set_lists]. rewrite filter_In, in_app_iff, !filter_In. unfold nK.
      destruct (K i); cbn [negb]; intuition congruence.
    - intros i. rewrite Ex, A. cbn [enemies s1 set_lists]. rewrite filter_In, in_app_iff, !filter_In. unfold nK.
      destruct (K i); cbn [negb]; intuition congruence.
  Qed.

  (* ---- ult check, exit check ---- *)
  Lemma ult_reqs_G : forall reqs s, gdo s (ult_reqs s reqs).
  Proof.
    induction reqs as [|r reqs IH]; intros s; cbn [ult_reqs gdo]; [apply G_refl|].
    destruct (get_unit (units s) (ur_target r)) as [u|]; [|apply G_refl].
    destruct (negb (uchar u)); [apply G_refl|].
    destruct (can_ult u); [|apply IH].
    eapply gdo_after; [|apply IH].
    eapply G_trans; [|apply G_set_energy]. apply G_quiet; reflexivity.
  Qed.

  Lemma ult_check_G s : gdo s (ult_check s).
  Proof.
    unfold ult_check.
    destruct (ults_q s) as [|x r];
      (eapply gdo_after; [|apply ult_reqs_G]);
      (eapply G_trans; [|apply G_emit_plain; reflexivity]); apply G_quiet; reflexivity.
  Qed.

  Lemma exit_check_G s : gdo s (exit_check cfg s).
  Proof.
    destruct (exit_check_cases cfg s) as [E|(r & E)]; rewrite E; cbn [gdo]; [apply G_refl|].
    apply G_emit_plain. reflexivity.
  Qed.

  (* ---- actions ---- *)
  Lemma action_tail_G fuel s id atype ins k p sc s4 s' endev :
    plain endev = true ->
    pop_act cfg (emit s [VActionStart id atype ins]) id = (sc, s4) ->
    run_body cfg fuel (emit s4 [VCall k id p]) id p sc endev (Some LActionEnd) = Some s' ->
    G s s'.
  Proof.
    intros Hend EPA EB.
    eapply G_trans; [apply (G_emit_plain s [VActionStart id atype ins]); reflexivity|].
    apply G_trans with s4.
    { replace s4 with (snd (pop_act cfg (emit s [VActionStart id atype ins]) id)) by (rewrite EPA; reflexivity).
      apply G_pop_act. }
    eapply G_trans; [apply (G_emit_plain s4 [VCall k id p]); reflexivity|].
    destruct (G_run_body _ _ _ _ _ _ _ _ EB) as (s1 & Q1 & ->).
    eapply G_trans; [exact Q1|]. apply G_emit_plain. cbn [forallb]. rewrite Hend. reflexivity.
  Qed.

  Lemma execute_action_G fuel s id ins : gda s (execute_action cfg fuel s id ins).
  Proof.
    unfold execute_action.
    destruct (get_unit (units s) id) as [u|]; [|apply G_refl].
    destruct (ust u); try apply G_refl.
    destruct (uchar u).
    - destruct (pop_next (next_q s) id) as [d q] eqn:EN.
      set (s1 := emit (set_next s q) [VNextAction id (dc_type d) (dc_eval d)]) in *.
      assert (E1 : G s s1).
      { eapply G_trans; [apply (G_quiet s (set_next s q)); reflexivity|apply G_emit_plain; reflexivity]. }
      destruct ((dc_type d =? 1) && negb (can_skill u s1)) eqn:ED.
      + set (s2 := emit s1 [VDefaultAction id]) in *.
        assert (E2 : G s s2) by (eapply G_trans; [exact E1|apply G_emit_plain; reflexivity]).
        destruct (evaluate s2 id 100 (utt_a u)) as [p|]; [|exact E2].
        destruct (pop_act cfg _ id) as [sc s4] eqn:EPA.
        match goal with |- gda _ (match ?x with _ => _ end) => destruct x as [s6|] eqn:EB; [|exact I] end.
        cbn [gda]. eapply G_trans; [exact E2|]. eapply G_trans; [apply G_mod_sp|].
        eapply action_tail_G; [|exact EPA|exact EB]; reflexivity.
      + destruct (evaluate s1 id (dc_eval d) (if dc_type d =? 1 then utt_s u else utt_a u)) as [p|]; [|exact E1].
        destruct (pop_act cfg _ id) as [sc s4] eqn:EPA.
        match goal with |- gda _ (match ?x with _ => _ end) => destruct x as [s6|] eqn:EB; [|exact I] end.
        cbn [gda]. eapply G_trans; [exact E1|]. eapply G_trans; [apply G_mod_sp|].
        eapply action_tail_G; [|exact EPA|exact EB]; reflexivity.
    - destruct (chars s); [apply G_refl|].
      destruct (pop_act cfg _ id) as [sc s4] eqn:EPA.
      match goal with |- gda _ (match ?x with _ => _ end) => destruct x as [s6|] eqn:EB; [|exact I] end.
      cbn [gda]. eapply G_trans; [apply G_mod_sp|].
      eapply action_tail_G; [|exact EPA|exact EB]; reflexivity.
  Qed.

  Lemma execute_ult_G fuel s r : gda s (execute_ult cfg fuel s r).
  Proof.
    unfold execute_ult.
    destruct (get_unit (units s) (ur_target r)) as [u|]; [|apply G_refl].
    destruct (negb (uchar u)); [apply G_refl|].
    destruct (negb (ur_type r =? 3)); [apply G_refl|].
    destruct (evaluate s (ur_target r) (ur_eval r) (utt_u u)) as [p|]; [|apply G_refl].
    destruct (pop_act cfg _ (ur_target r)) as [sc s4] eqn:EPA.
    match goal with |- gda _ (match ?x with _ => _ end) => destruct x as [s6|] eqn:EB; [|exact I] end.
    cbn [gda]. eapply action_tail_G; [|exact EPA|exact EB]; reflexivity.
  Qed.

  Lemma execute_task_G fuel s t : gda s (execute_task cfg fuel s t).
  Proof.
    unfold execute_task. destruct (t_kind t) as [key prio abort body| |r].
    - match goal with |- gda _ (match ?x with _ => _ end) => destruct x as [s2|] eqn:EB; [|exact I] end.
      cbn [gda]. eapply G_trans; [apply (G_emit_plain s [VInsertStart key (t_src t) prio]); reflexivity|].
      destruct (G_run_body _ _ _ _ _ _ _ _ EB) as (s1 & Q1 & ->).
      eapply G_trans; [exact Q1|]. apply G_emit_plain. reflexivity.
    - pose proof (execute_action_G fuel s (t_src t) true) as HA.
      destruct (execute_action cfg fuel s (t_src t) true); exact HA.
    - apply execute_ult_G.
  Qed.

  (* ---- the queue ---- *)
  Lemma pop_G s t s1 : pop s = Some (t, s1) -> G s s1.
  Proof. unfold pop. destruct (queue s); [discriminate|]. intros H. inversion H; subst. apply G_quiet; reflexivity. Qed.

  Lemma drain_G : forall fuel s, gdo s (drain cfg fuel s).
  Proof.
    induction fuel as [|f IH]; intros s; cbn [drain]; [exact I|].
    destruct (pop s) as [[t s1]|] eqn:EP; [|apply G_refl].
    pose proof (pop_G _ _ _ EP) as L1.
    assert (Hrec : gdo s (drain cfg f s1)) by (eapply gdo_after; [exact L1|apply IH]).
    destruct (_ || _); [apply exit_check_G|].
    destruct (match state_of s1 (t_src t) with Some Dead => true | _ => false end); [exact Hrec|].
    destruct (negb (existsb _ _)); [exact Hrec|].
    destruct (has_flag s1 (t_src t) (t_abort t)); [exact Hrec|].
    pose proof (execute_task_G f s1 t) as HT.
    destruct (execute_task cfg f s1 t) as [s2|s2|s2|]; cbn [gdo gda] in *; auto;
      try (eapply G_trans; eassumption).
    destruct (death_check cfg f s2 false) as [s3|] eqn:ED; cbn [gdo]; auto.
    assert (L3 : G s s3).
    { eapply G_trans; [exact L1|]. eapply G_trans; [exact HT|]. eapply death_check_G. exact ED. }
    eapply gdo_after; [exact L3|].
    pose proof (exit_check_G s3) as HE.
    destruct (exit_check_cases cfg s3) as [E|(r & E)]; rewrite E in *; [|exact HE].
    pose proof (ult_check_G s3) as HU.
    destruct (ult_check s3) as [s5|s5|s5|]; cbn [gdo] in *; auto.
    eapply gdo_after; [exact HU|apply IH].
  Qed.

  Lemma execute_queue_G fuel s b : gdo s (execute_queue cfg fuel s b).
  Proof.
    unfold execute_queue. pose proof (ult_check_G s) as HU.
    destruct (ult_check s) as [s1|s1|s1|]; cbn [gdo] in *; auto.
    destruct (b && negb (is_char s1 (active_id s1))); (eapply gdo_after; [exact HU|]); [apply exit_check_G|apply drain_G].
  Qed.

  (* ---- a turn ---- *)
  Lemma reset_events_plain outs : forallb plain (reset_events outs ++ [VPhase2Start]) = true.
  Proof.
    rewrite forallb_app. cbn [forallb plain]. rewrite !andb_true_r. unfold reset_events.
    induction outs as [|o r IH]; [reflexivity|]. cbn [flat_map]. rewrite forallb_app, IH, andb_true_r. destruct o; reflexivity.
  Qed.

  Lemma phase2_G fuel s : gdo s (phase2 cfg fuel s).
  Proof.
    unfold phase2. pose proof (turn_reset_total (turn s)) as TR.
    destruct (Turn.step F (turn s) (@OReset F)) as [t2 outs2]. cbn [fst] in TR.
    set (s1 := emit (set_turn s t2) _).
    assert (E1 : G s s1).
    { eapply G_trans; [apply (G_set_turn s t2 TR)|]. apply G_emit_plain. apply reset_events_plain. }
    eapply gdo_after; [exact E1|].
    pose proof (execute_queue_G fuel s1 false) as HQ.
    destruct (execute_queue cfg fuel s1 false) as [s6|s6|s6|]; cbn [gdo] in *; auto.
    destruct (run_slot cfg fuel s6 LPhase2 (active_id s6) (active_id s6)) as [s6'|] eqn:ER2; cbn [gdo]; auto.
    destruct (death_check cfg fuel (emit s6' [VPhase2End]) true) as [s8|] eqn:ED; cbn [gdo]; auto.
    eapply gdo_after; [|apply exit_check_G].
    eapply G_trans; [exact HQ|].
    eapply G_trans; [eapply G_run_slot; exact ER2|].
    eapply G_trans; [apply (G_emit_plain s6' [VPhase2End]); reflexivity|].
    eapply G_trans; [eapply death_check_G; exact ED|].
    apply G_emit_plain. reflexivity.
  Qed.

  (* the only step that moves the clock: to the value the TurnStart event carries *)
  Lemma G_turn_start s t' id av st tot : Turn.step F (turn s) (@OStart F) = (t', [EStart id av st tot]) ->
    G s (emit (set_active (set_turn s t') id) [VTurnStart id av tot (map (fun x => (fst (fst x), snd (fst x))) st)]).
  Proof.
    intros ES. pose proof (turn_start_total _ _ _ _ _ _ ES) as ET.
    eexists [_], []. constructor.
    - reflexivity.
    - constructor.
    - intros i. reflexivity.
    - cbn [last_tot]. unfold total_av. cbn [turn emit set_active set_turn]. symmetry. exact ET.
    - reflexivity.
    - cbn [cycles_mono_from map incr]. rewrite andb_true_r. intros H. apply Nat.leb_le in H.
      unfold total_av at 2. cbn [turn emit set_active set_turn]. rewrite <- ET. exact H.
    - intros i. cbn [chars emit set_active set_turn ann In]. tauto.
    - intros i. cbn [enemies emit set_active set_turn ann In]. tauto.
    - intros H. split; [reflexivity|exact H].
  Qed.

  Lemma one_turn_G fuel s : gdo s (one_turn cfg fuel s).
  Proof.
    unfold one_turn.
    destruct (Turn.step F (turn s) (@OStart F)) as [t' outs] eqn:ES.
    destruct outs as [|o [|? ?]]; [apply G_refl| |destruct o; apply G_refl]. destruct o; try apply G_refl.
    destruct (match get_unit (units s) id with Some _ => false | None => true end); [apply G_refl|].
    pose proof (G_turn_start s t' id av st tot ES) as S1.
    set (s1 := emit (set_active (set_turn s t') id) _) in *.
    eapply gdo_after; [exact S1|].
    destruct (run_slot cfg fuel (emit s1 [VPhase1Start]) LPhase1 id id) as [s2|] eqn:ER1; cbn [gdo]; auto.
    destruct (death_check cfg fuel s2 false) as [s3|] eqn:ED; cbn [gdo]; auto.
    assert (L13 : G s1 s3).
    { eapply G_trans; [apply (G_emit_plain s1 [VPhase1Start]); reflexivity|].
      eapply G_trans; [eapply G_run_slot; exact ER1|]. eapply death_check_G. exact ED. }
    eapply gdo_after; [exact L13|].
    destruct (has_flag s3 id [FLAG_DISABLE_ACTION]); [apply phase2_G|].
    destruct (is_enemy s3 id && has_flag s3 id [FLAG_BREAK_EXTEND]).
    { eapply gdo_after; [apply (G_emit_plain s3 [VBreakExtend id]); reflexivity|apply phase2_G]. }
    pose proof (execute_queue_G fuel s3 true) as HQ.
    destruct (execute_queue cfg fuel s3 true) as [s4|s4|s4|]; cbn [gdo] in *; auto.
    eapply gdo_after; [exact HQ|].
    eapply gdo_after; [apply (G_emit_plain s4 [VPhase1End]); reflexivity|].
    pose proof (execute_action_G fuel (emit s4 [VPhase1End]) id false) as HA.
    destruct (execute_action cfg fuel (emit s4 [VPhase1End]) id false) as [s5|s5|s5|]; cbn [gdo gda] in *; auto.
    destruct (death_check cfg fuel s5 false) as [s5'|] eqn:ED2; cbn [gdo]; auto.
    eapply gdo_after; [|apply phase2_G].
    eapply G_trans; [exact HA|]. eapply death_check_G. exact ED2.
  Qed.

  Lemma turns_G : forall fuel s, gdo s (turns cfg fuel s).
  Proof.
    induction fuel as [|f IH]; intros s; cbn [turns]; [exact I|].
    pose proof (one_turn_G f s) as H1.
    destruct (one_turn cfg f s) as [s'|s'|s'|]; cbn [gdo] in *; auto.
    eapply gdo_after; [exact H1|apply IH].
  Qed.

  (* ---- the whole run ---- *)
  Definition init_events (tr : list ev) : Prop :=
    exists cs es o, tr = [VInitialize; VCharactersAdded cs; VEnemiesAdded es; VTurnTargetsAdded o].

  Record init_state (s0 : sim) : Prop := mkInit {
    i_trace : init_events (trace s0);
    i_clock : total_av s0 = 0%float;
    i_res : res s0 = mkRes 0 0 [0%float] [0%float];
    i_units : units s0 = mk_units (c_units cfg) 1;
    i_chars : chars s0 = map uid (filter uchar (mk_units (c_units cfg) 1));
    i_enemies : enemies s0 = map uid (filter (fun u => negb (uchar u)) (mk_units (c_units cfg) 1));
    i_he : nth (slot_ix LHitEnd) (lslots s0) [] = c_on_hit_end cfg }.

  Lemma start_G fuel s : start cfg fuel = Stop s -> exists s0, G s0 s /\ init_state s0.
  Proof.
    unfold start.
    set (us := mk_units (c_units cfg) 1).
    set (cs := map uid (filter uchar us)). set (es := map uid (filter (fun u => negb (uchar u)) us)).
    set (l := map (fun id => (id, Turn.lookup F _ id)) (cs ++ es)).
    pose proof (turn_add_total l) as TA.
    destruct (Turn.step F (Turn.init F) (@OAdd F l)) as [t1 outs]. cbn [fst] in TA.
    set (s0 := mkSim us cs es 3 t1 [] 0 0 None _ _ _ _ _ _).
    intros H. exists s0.
    split; [|constructor; try reflexivity; [exists cs, es, (map u_id (order t1)); reflexivity|exact TA]].
    destruct (run_slot cfg fuel s0 LBattle 0 0) as [s1|] eqn:ER; [|discriminate].
    eapply G_trans; [eapply G_run_slot; exact ER|].
    eapply G_trans; [apply (G_emit_plain s1 [VBattleStart]); reflexivity|].
    pose proof (execute_queue_G fuel (emit s1 [VBattleStart]) true) as HQ.
    destruct (execute_queue cfg fuel (emit s1 [VBattleStart]) true) as [s2|s2|s2|]; try discriminate.
    - eapply G_trans; [exact HQ|]. pose proof (turns_G fuel s2) as HT. rewrite H in HT. exact HT.
    - inversion H; subst. exact HQ.
  Qed.
End Totals.

(* ------------------------------------------------------------------ *)
(* What the subscriber computes over a list of recorded hits            *)
(* ------------------------------------------------------------------ *)
(* the totals of the hits whose defender is a unit of side c, in list order *)
Definition hits_of (sd : Z -> option bool) (c : bool) (l : list (Z * float)) : list float :=
  map snd (filter (fun dt => match sd (fst dt) with Some c' => Bool.eqb c' c | None => false end) l).

Lemma fold_dealt sd : forall L r,
  r_dealt (fold_left (rec1 sd) L r) = fold_left PrimFloat.add (hits_of sd false (map snd L)) (r_dealt r).
Proof.
  induction L as [|h L IH]; intros r; [reflexivity|]. cbn [fold_left map]. rewrite IH. clear IH.
  destruct h as [n [d t]]. unfold rec1, hits_of. cbn [fst snd filter].
  destruct (sd d) as [[|]|]; cbn [Bool.eqb map fold_left snd r_dealt]; reflexivity.
Qed.

Lemma fold_taken sd : forall L r,
  r_taken (fold_left (rec1 sd) L r) = fold_left PrimFloat.add (hits_of sd true (map snd L)) (r_taken r).
Proof.
  induction L as [|h L IH]; intros r; [reflexivity|]. cbn [fold_left map]. rewrite IH. clear IH.
  destruct h as [n [d t]]. unfold rec1, hits_of. cbn [fst snd filter].
  destruct (sd d) as [[|]|]; cbn [Bool.eqb map fold_left snd r_taken]; reflexivity.
Qed.

(* ---- one entry of a per-cycle series: pad to the cycle, write the running total ---- *)
Definition updz (z : float) (l : list float) (n : nat) (v : float) : list float := set_nth_f (pad_to l (S n) z) n v.

Lemma updz_nil : forall n z v, updz z [] n v = repeat z n ++ [v].
Proof.
  induction n as [|n IH]; intros z v; [reflexivity|].
  change (updz z [] (S n) v) with (z :: updz z [] n v). rewrite IH. reflexivity.
Qed.

Lemma updz_cons z x r n v : updz z (x :: r) (S n) v = x :: updz x r n v.
Proof. reflexivity. Qed.

Lemma updz_cons0 z x r v : updz z (x :: r) 0 v = v :: r.
Proof. unfold updz. cbn [pad_to set_nth_f]. reflexivity. Qed.

Lemma updz_length z l n v : length (updz z l n v) = Nat.max (length l) (S n).
Proof. unfold updz. rewrite set_nth_length, pad_to_length. reflexivity. Qed.

Lemma last_cons_ne (x : float) l d : l <> [] -> last (x :: l) d = last l d.
Proof. destruct l; [congruence|reflexivity]. Qed.

Lemma last_default (l : list float) a b : l <> [] -> last l a = last l b.
Proof.
  induction l as [|x l IH]; [congruence|]. intros _. destruct l as [|y l]; [reflexivity|].
  change (last (y :: l) a = last (y :: l) b). apply IH. discriminate.
Qed.

Lemma updz_ne z l n v : updz z l n v <> [].
Proof. intros E. pose proof (updz_length z l n v) as H. rewrite E in H. cbn [length] in H. lia. Qed.

Lemma updz_last : forall n l z v, (length l <= S n)%nat -> last (updz z l n v) 0%float = v.
Proof.
  induction n as [|n IH]; intros l z v H.
  - destruct l as [|x [|y r]]; [reflexivity|reflexivity|cbn [length] in H; lia].
  - destruct l as [|x r].
    + rewrite updz_nil. apply last_last.
    + rewrite updz_cons, last_cons_ne by apply updz_ne. apply IH. cbn [length] in H. lia.
Qed.

Lemma nondec_repeat z v : forall n, PrimFloat.leb z v = true -> nondecreasing (z :: repeat z n ++ [v]) = true.
Proof.
  intros n H. destruct (leb_nn _ _ H) as [Nz _].
  induction n as [|n IH]; cbn [repeat app nondecreasing].
  - rewrite H. reflexivity.
  - rewrite (leb_refl z Nz). exact IH.
Qed.

Lemma updz_nondec : forall n l z v, (length l <= S n)%nat -> nondecreasing (z :: l) = true ->
  PrimFloat.leb (last l z) v = true -> nondecreasing (z :: updz z l n v) = true.
Proof.
  induction n as [|n IH]; intros l z v H N Lv.
  - destruct l as [|x [|y r]]; [|cbn [length] in H|cbn [length] in H; lia].
    + cbn [last] in Lv. change (updz z [] 0 v) with [v]. cbn [nondecreasing]. rewrite Lv. reflexivity.
    + rewrite updz_cons0. cbn [nondecreasing last] in *. rewrite andb_true_r in N.
      rewrite (leb_trans_nn _ _ _ N Lv). reflexivity.
  - destruct l as [|x r].
    + rewrite updz_nil. apply nondec_repeat. exact Lv.
    + rewrite updz_cons. cbn [nondecreasing] in N. apply andb_prop in N. destruct N as [N1 N2].
      change (nondecreasing (z :: x :: updz x r n v)) with (PrimFloat.leb z x && nondecreasing (x :: updz x r n v)).
      rewrite N1. cbn [andb]. apply IH; [cbn [length] in H; lia|exact N2|].
      destruct r as [|y r']; [exact Lv|].
      change (last (x :: y :: r') z) with (last (y :: r') z) in Lv.
      rewrite (last_default (y :: r') x z) by discriminate. exact Lv.
Qed.

Lemma updz_nondec_top l n v : l <> [] -> (length l <= S n)%nat -> nondecreasing l = true ->
  PrimFloat.leb (last l 0%float) v = true -> nondecreasing (updz 0%float l n v) = true.
Proof.
  intros Hne H N Lv. destruct l as [|x r]; [congruence|]. destruct n as [|n].
  - destruct r as [|y r]; [reflexivity|cbn [length] in H; lia].
  - rewrite updz_cons.
    assert (Lv' : PrimFloat.leb (last r x) v = true).
    { destruct r as [|y r']; [exact Lv|]. change (last (x :: y :: r') 0%float) with (last (y :: r') 0%float) in Lv.
      rewrite (last_default (y :: r') x 0%float) by discriminate. exact Lv. }
    assert (N' : nondecreasing (x :: r) = true) by exact N.
    pose proof (updz_nondec n r x v) as P. cbn [length] in H.
    assert (Q : nondecreasing (x :: updz x r n v) = true) by (apply P; [lia|exact N'|exact Lv']).
    exact Q.
Qed.

(* ---- the shape of the two series ---- *)
Record SI (n : nat) (r : result) : Prop := mkSI {
  si_len : length (r_dealt_cyc r) = length (r_taken_cyc r);
  si_pos : (1 <= length (r_dealt_cyc r))%nat;
  si_bound : (length (r_dealt_cyc r) <= S n)%nat;
  si_ld : last (r_dealt_cyc r) 0%float = r_dealt r;
  si_lt : last (r_taken_cyc r) 0%float = r_taken r }.

Lemma SI_weaken n m r : SI n r -> (n <= m)%nat -> SI m r.
Proof. intros [A B C D E] H. constructor; auto. lia. Qed.

Lemma rec1_SI sd n m r dt : SI n r -> (n <= m)%nat -> SI m (rec1 sd r (m, dt)).
Proof.
  intros S0 H. unfold rec1. cbn [fst snd]. destruct (sd (fst dt)) as [c|]; [|apply (SI_weaken n m r S0 H)].
  destruct S0 as [A B C D E].
  set (dv := if c then r_dealt r else PrimFloat.add (r_dealt r) (snd dt)).
  set (tv := if c then PrimFloat.add (r_taken r) (snd dt) else r_taken r).
  change (set_nth_f (pad_to (r_dealt_cyc r) (S m) 0%float) m dv) with (updz 0%float (r_dealt_cyc r) m dv).
  change (set_nth_f (pad_to (r_taken_cyc r) (S m) 0%float) m tv) with (updz 0%float (r_taken_cyc r) m tv).
  constructor; cbn [r_dealt r_taken r_dealt_cyc r_taken_cyc].
  - rewrite !updz_length, A. reflexivity.
  - rewrite updz_length. lia.
  - rewrite updz_length. lia.
  - apply updz_last. lia.
  - apply updz_last. lia.
Qed.

Lemma fold_SI sd : forall L c c' r, incr c (map fst L) c' -> SI c r -> SI c' (fold_left (rec1 sd) L r).
Proof.
  induction L as [|h L IH]; intros c c' r; cbn [map incr fold_left].
  - intros H S0. eapply SI_weaken; eassumption.
  - destruct h as [m dt]. cbn [fst]. intros [H1 H2] S0. eapply IH; [exact H2|]. apply (rec1_SI sd c m r dt S0 H1).
Qed.

(* lengths alone need no assumption on the clock *)
Lemma rec1_len sd r h :
  length (r_dealt_cyc r) = length (r_taken_cyc r) /\ (1 <= length (r_dealt_cyc r))%nat ->
  length (r_dealt_cyc (rec1 sd r h)) = length (r_taken_cyc (rec1 sd r h)) /\ (1 <= length (r_dealt_cyc (rec1 sd r h)))%nat.
Proof.
  intros [A B]. unfold rec1. destruct (sd (fst (snd h))); [|auto]. cbn [r_dealt_cyc r_taken_cyc].
  rewrite !set_nth_length, !pad_to_length, A. split; [reflexivity|lia].
Qed.

Lemma fold_len sd : forall L r,
  length (r_dealt_cyc r) = length (r_taken_cyc r) /\ (1 <= length (r_dealt_cyc r))%nat ->
  length (r_dealt_cyc (fold_left (rec1 sd) L r)) = length (r_taken_cyc (fold_left (rec1 sd) L r)) /\
  (1 <= length (r_dealt_cyc (fold_left (rec1 sd) L r)))%nat.
Proof. induction L as [|h L IH]; intros r H; [exact H|]. cbn [fold_left]. apply IH. apply rec1_len. exact H. Qed.

(* ---- monotone series: non-negative hit damages ---- *)
Record NI (r : result) : Prop := mkNI {
  ni_d : nondecreasing (r_dealt_cyc r) = true;
  ni_t : nondecreasing (r_taken_cyc r) = true;
  ni_d0 : PrimFloat.leb 0 (r_dealt r) = true;
  ni_t0 : PrimFloat.leb 0 (r_taken r) = true }.

Lemma step_le x t (c : bool) : PrimFloat.leb 0 x = true -> PrimFloat.leb 0 t = true ->
  PrimFloat.leb x (if c then x else PrimFloat.add x t) = true /\ PrimFloat.leb 0 (if c then x else PrimFloat.add x t) = true.
Proof.
  intros Hx Ht. destruct c.
  - split; [apply leb_refl; apply (leb_nn _ _ Hx)|exact Hx].
  - pose proof (add_nonneg_le x t Hx Ht) as H. split; [exact H|]. apply (leb_trans_nn _ _ _ Hx H).
Qed.

Lemma rec1_NI sd n m r dt : SI n r -> (n <= m)%nat -> NI r -> PrimFloat.leb 0 (snd dt) = true -> NI (rec1 sd r (m, dt)).
Proof.
  intros [A B C D E] H [N1 N2 N3 N4] Ht. unfold rec1. cbn [fst snd]. destruct (sd (fst dt)) as [c|]; [|constructor; assumption].
  destruct (step_le (r_dealt r) (snd dt) c N3 Ht) as [Ld L0d].
  destruct (step_le (r_taken r) (snd dt) (negb c) N4 Ht) as [Lt L0t].
  set (dv := if c then r_dealt r else PrimFloat.add (r_dealt r) (snd dt)) in *.
  assert (Etv : (if negb c then r_taken r else PrimFloat.add (r_taken r) (snd dt)) =
                (if c then PrimFloat.add (r_taken r) (snd dt) else r_taken r)) by (destruct c; reflexivity).
  rewrite Etv in Lt, L0t.
  set (tv := if c then PrimFloat.add (r_taken r) (snd dt) else r_taken r) in *.
  change (set_nth_f (pad_to (r_dealt_cyc r) (S m) 0%float) m dv) with (updz 0%float (r_dealt_cyc r) m dv).
  change (set_nth_f (pad_to (r_taken_cyc r) (S m) 0%float) m tv) with (updz 0%float (r_taken_cyc r) m tv).
  constructor; cbn [r_dealt r_taken r_dealt_cyc r_taken_cyc]; [| |exact L0d|exact L0t].
  - apply updz_nondec_top; [intros E0; rewrite E0 in B; cbn [length] in B; lia|lia|exact N1|rewrite D; exact Ld].
  - apply updz_nondec_top; [intros E0; rewrite E0 in A; cbn [length] in A; lia|lia|exact N2|rewrite E; exact Lt].
Qed.

Lemma fold_NI sd : forall L c c' r, incr c (map fst L) c' -> SI c r -> NI r ->
  Forall (fun dt => PrimFloat.leb 0 (snd dt) = true) (map snd L) -> NI (fold_left (rec1 sd) L r).
Proof.
  induction L as [|h L IH]; intros c c' r; cbn [map incr fold_left]; [auto|].
  destruct h as [m dt]. cbn [fst snd]. intros [H1 H2] S0 N0 HF. inversion HF as [|? ? Hd HF']; subst.
  eapply IH; [exact H2|apply (rec1_SI sd c m r dt S0 H1)| |exact HF'].
  apply (rec1_NI sd c m r dt S0 H1 N0 Hd).
Qed.

(* ------------------------------------------------------------------ *)
(* The run-level statements                                             *)
(* ------------------------------------------------------------------ *)
Lemma is_enemy_side s id : is_enemy s id = match side s id with Some c => Bool.eqb c false | None => false end.
Proof. unfold is_enemy, side. destruct (get_unit (units s) id) as [u|]; [destruct (uchar u)|]; reflexivity. Qed.
Lemma is_char_side s id : is_char s id = match side s id with Some c => Bool.eqb c true | None => false end.
Proof. unfold is_char, side. destruct (get_unit (units s) id) as [u|]; [destruct (uchar u)|]; reflexivity. Qed.

Lemma filter_ext_in' {A} (f g : A -> bool) l : (forall x, f x = g x) -> filter f l = filter g l.
Proof. intros E. induction l as [|x l IH]; [reflexivity|]. cbn [filter]. rewrite E, IH. reflexivity. Qed.

(* what a terminated run is, in terms of the relation: the four initialisation events, then a
   segment with its recorded hits *)
Lemma run_shape cfg fuel s : start cfg fuel = Stop s ->
  exists (seg : list ev) (L : list hitrec) (sd : Z -> option bool) cs es o,
    trace s = [VInitialize; VCharactersAdded cs; VEnemiesAdded es; VTurnTargetsAdded o] ++ seg /\
    Permutation (map snd L) (hit_ends seg) /\
    (forall id, side s id = sd id) /\
    total_av s = last_tot 0%float seg /\
    res s = fold_left (rec1 sd) L (mkRes 0 0 [0%float] [0%float]) /\
    (cycles_mono_from 0%float seg = true -> incr (cyc_ix 0%float) (map fst L) (cyc_ix (total_av s))).
Proof.
  intros H. destruct (start_G cfg fuel s H) as (s0 & (seg & L & [T P Sd C R I _ _ _]) & [(cs & es & o & E0) C0 R0 _ _ _ _]).
  exists seg, L, (side s0), cs, es, o. rewrite C0 in *. rewrite R0 in R. rewrite E0 in T. auto 10.
Qed.

(* (a) the totals are the sums, in the order of recording, of the hits taken by enemies and by
   characters; the recorded hits are the logged hits up to order; hits on ids that are not units
   of the battle count on neither side *)
Definition C09_totals_statement : Prop := forall cfg fuel s, start cfg fuel = Stop s ->
  exists l : list (Z * float),
    Permutation l (hit_ends (trace s)) /\
    r_dealt (res s) = fsum (map snd (filter (fun dt => is_enemy s (fst dt)) l)) /\
    r_taken (res s) = fsum (map snd (filter (fun dt => is_char s (fst dt)) l)).

Theorem C09_totals_holds : C09_totals_statement.
Proof.
  intros cfg fuel s H. destruct (run_shape cfg fuel s H) as (seg & L & sd & cs & es & o & T & P & Sd & C & R & I).
  exists (map snd L). split; [rewrite T, hit_ends_app; exact P|].
  rewrite R, fold_dealt, fold_taken. cbn [r_dealt r_taken]. unfold fsum, hits_of. split; do 2 f_equal; apply filter_ext_in'; intros dt.
  - rewrite is_enemy_side, Sd. reflexivity.
  - rewrite is_char_side, Sd. reflexivity.
Qed.

(* (b) the per-cycle cumulative series: equal lengths >= 1 always; when the clock's cycle index never
   decreases from one turn start to the next, both end at the totals; when moreover no hit has a
   negative or NaN total, both are non-decreasing *)
Definition C09_series_statement : Prop := forall cfg fuel s, start cfg fuel = Stop s ->
  length (r_dealt_cyc (res s)) = length (r_taken_cyc (res s)) /\
  (1 <= length (r_dealt_cyc (res s)))%nat /\
  (cycles_mono (trace s) = true ->
     last (r_dealt_cyc (res s)) 0%float = r_dealt (res s) /\
     last (r_taken_cyc (res s)) 0%float = r_taken (res s) /\
     (forallb (fun dt => PrimFloat.leb 0 (snd dt)) (hit_ends (trace s)) = true ->
        nondecreasing (r_dealt_cyc (res s)) = true /\ nondecreasing (r_taken_cyc (res s)) = true)).

Theorem C09_series_holds : C09_series_statement.
Proof.
  intros cfg fuel s H. destruct (run_shape cfg fuel s H) as (seg & L & sd & cs & es & o & T & P & Sd & C & R & I).
  assert (L0 : length (r_dealt_cyc (mkRes 0 0 [0%float] [0%float])) = length (r_taken_cyc (mkRes 0 0 [0%float] [0%float])) /\
               (1 <= length (r_dealt_cyc (mkRes 0 0 [0%float] [0%float])))%nat) by (split; [reflexivity|cbn; lia]).
  destruct (fold_len sd L _ L0) as [Le Lp]. rewrite <- R in Le, Lp.
  split; [exact Le|]. split; [exact Lp|].
  unfold cycles_mono. rewrite T. cbn [app cycles_mono_from]. intros M. specialize (I M).
  assert (S0 : SI (cyc_ix 0%float) (mkRes 0 0 [0%float] [0%float])).
  { constructor; cbn [r_dealt r_taken r_dealt_cyc r_taken_cyc length last]; try reflexivity; lia. }
  pose proof (fold_SI sd L _ _ _ I S0) as S1. rewrite <- R in S1.
  split; [apply (si_ld _ _ S1)|]. split; [apply (si_lt _ _ S1)|].
  cbn [hit_ends]. intros HF.
  assert (N0 : NI (mkRes 0 0 [0%float] [0%float])) by (constructor; reflexivity).
  assert (HF' : Forall (fun dt : Z * float => PrimFloat.leb 0 (snd dt) = true) (map snd L)).
  { apply Forall_forall. intros dt Hin. rewrite forallb_forall in HF. apply HF.
    eapply Permutation_in; [exact P|exact Hin]. }
  pose proof (fold_NI sd L _ _ _ I S0 N0 HF') as N1. rewrite <- R in N1.
  split; [apply (ni_d _ N1)|apply (ni_t _ N1)].
Qed.

(* (c) the clock: the total action value of the result is the clock of the last turn start, and the
   final Termination event carries it *)
Definition C09_clock_statement : Prop := forall cfg fuel s, start cfg fuel = Stop s ->
  total_av s = last_tot 0%float (trace s) /\
  exists r, last (trace s) VInitialize = VTermination r (total_av s).

Theorem C09_clock_holds : C09_clock_statement.
Proof.
  intros cfg fuel s H. split; [|exact (result_av_is_clock cfg fuel s H)].
  destruct (run_shape cfg fuel s H) as (seg & L & sd & cs & es & o & T & P & Sd & C & R & I).
  rewrite T. cbn [app last_tot]. exact C.
Qed.

(* (a') without a content HitEnd listener nothing runs between the statistics and the log line of a
   hit, so the hits are recorded in log order: the totals are the left-to-right sums over the log *)
Definition C09_totals_log_order_statement : Prop := forall cfg fuel s, start cfg fuel = Stop s ->
  c_on_hit_end cfg = [] ->
  r_dealt (res s) = fsum (map snd (filter (fun dt => is_enemy s (fst dt)) (hit_ends (trace s)))) /\
  r_taken (res s) = fsum (map snd (filter (fun dt => is_char s (fst dt)) (hit_ends (trace s)))).

Theorem C09_totals_log_order_holds : C09_totals_log_order_statement.
Proof.
  intros cfg fuel s H HE.
  destruct (start_G cfg fuel s H) as (s0 & (seg & L & [T P Sd C R I _ _ X]) & [(cs & es & o & E0) C0 R0 _ _ _ He]).
  assert (N0 : no_he s0) by (unfold no_he; rewrite He; exact HE).
  destruct (X N0) as [EL _].
  rewrite T, E0, hit_ends_app. cbn [hit_ends app]. rewrite <- EL.
  rewrite R, R0, fold_dealt, fold_taken. cbn [r_dealt r_taken]. unfold fsum, hits_of. split; do 2 f_equal; apply filter_ext_in'; intros dt.
  - rewrite is_enemy_side, Sd. reflexivity.
  - rewrite is_char_side, Sd. reflexivity.
Qed.

(* the monitor's log-order sum is that sum *)
Lemma sum_hits_hit_ends f c : forall tr acc,
  fold_left (fun acc e => match e with
                          | VHitEnd _ d t _ => if Bool.eqb (f d) c then PrimFloat.add acc t else acc
                          | _ => acc end) tr acc =
  fold_left PrimFloat.add (map snd (filter (fun dt => Bool.eqb (f (fst dt)) c) (hit_ends tr))) acc.
Proof.
  induction tr as [|e tr IH]; intros acc; [reflexivity|].
  destruct e; cbn [fold_left hit_ends]; try apply IH.
  cbn [filter fst]. destruct (Bool.eqb (f def) c); cbn [map fold_left snd]; apply IH.
Qed.

(* ------------------------------------------------------------------ *)
(* The run stops at the first exit check that fails                     *)
(* ------------------------------------------------------------------ *)
(* exitCheck's floor(clock / 100) *)
Definition clock_cycle (x : float) : Z := ftoZ (PrimFloat.div x 100).

Section Stops.
  Variable cfg : config.

  (* what makes an exit check fail, with the reason it reports *)
  Definition exit_fails (s0 : sim) (r : Z) : Prop :=
    (chars s0 = [] /\ r = 1) \/
    (chars s0 <> [] /\ enemies s0 = [] /\ r = 2) \/
    (chars s0 <> [] /\ enemies s0 <> [] /\ c_cycle_limit cfg <= ftoZ (PrimFloat.div (total_av s0) 100) /\ r = 3).

  Definition stopped_at (s : sim) : Prop :=
    exists s0 r, exit_check cfg s0 = Stop s /\ s = emit s0 [VTermination r (total_av s0)] /\ exit_fails s0 r.

  Lemma exit_stopped_at s0 s : exit_check cfg s0 = Stop s -> stopped_at s.
  Proof.
    intros H. exists s0. pose proof (exit_check_reason cfg s0) as R. unfold reached_limit in R.
    destruct (chars s0) as [|c cs] eqn:Ec.
    - exists 1. rewrite R in H. inversion H; subst. split; [exact R|]. split; [reflexivity|]. left. auto.
    - destruct (enemies s0) as [|e es] eqn:Ee.
      + exists 2. rewrite R in H. inversion H; subst. split; [exact R|]. split; [reflexivity|]. right. left.
        repeat split; congruence.
      + destruct (c_cycle_limit cfg <=? ftoZ (PrimFloat.div (total_av s0) 100)) eqn:El; rewrite R in H; [|discriminate].
        exists 3. inversion H; subst. split; [exact R|]. split; [reflexivity|]. right. right.
        repeat split; try congruence. apply Z.leb_le. exact El.
  Qed.

  Lemma drain_stopped_at : forall fuel s s', drain cfg fuel s = Stop s' -> stopped_at s'.
  Proof.
    induction fuel as [|f IH]; intros s s' H; cbn [drain] in H; [discriminate|].
    destruct (pop s) as [[t s1]|]; [|discriminate].
    destruct (_ || _); [eapply exit_stopped_at; exact H|].
    destruct (match state_of s1 (t_src t) with Some Dead => true | _ => false end); [eapply IH; exact H|].
    destruct (negb (existsb _ _)); [eapply IH; exact H|].
    destruct (has_flag s1 (t_src t) (t_abort t)); [eapply IH; exact H|].
    destruct (execute_task cfg f s1 t) as [s2| | |]; try discriminate.
    destruct (death_check cfg f s2 false) as [s3|]; [|discriminate].
    destruct (exit_check cfg s3) as [s4|s4|s4|] eqn:EE; try discriminate.
    - destruct (ult_check s4) as [s5|s5|s5|] eqn:EU; try discriminate; [eapply IH; exact H|].
      exfalso. eapply ult_check_no_stop. exact EU.
    - inversion H; subst. eapply exit_stopped_at. exact EE.
  Qed.

  Lemma execute_queue_stopped_at fuel s b s' : execute_queue cfg fuel s b = Stop s' -> stopped_at s'.
  Proof.
    unfold execute_queue. destruct (ult_check s) as [s1|s1|s1|] eqn:EU; try discriminate.
    - destruct (b && _); [apply exit_stopped_at|apply drain_stopped_at].
    - intros _. exfalso. eapply ult_check_no_stop. exact EU.
  Qed.

  Lemma phase2_stopped_at fuel s s' : phase2 cfg fuel s = Stop s' -> stopped_at s'.
  Proof.
    unfold phase2. destruct (Turn.step F (turn s) _) as [t2 outs2].
    destruct (execute_queue cfg fuel _ false) as [s6|s6|s6|] eqn:EQ; try discriminate.
    - destruct (run_slot cfg fuel _ LPhase2 _ _); [|discriminate].
      destruct (death_check cfg fuel _ true); [apply exit_stopped_at|discriminate].
    - intros H. inversion H; subst. eapply execute_queue_stopped_at. exact EQ.
  Qed.

  Lemma one_turn_stopped_at fuel s s' : one_turn cfg fuel s = Stop s' -> stopped_at s'.
  Proof.
    unfold one_turn. destruct (Turn.step F (turn s) _) as [t' outs].
    destruct outs as [|o [|o2 outs]]; try discriminate; [|destruct o; discriminate]. destruct o; try discriminate.
    destruct (match get_unit (units s) id with Some _ => false | None => true end); [discriminate|].
    destruct (run_slot cfg fuel _ LPhase1 id id) as [s2|]; [|discriminate].
    destruct (death_check cfg fuel _ false) as [s3|]; [|discriminate].
    destruct (has_flag s3 id _); [apply phase2_stopped_at|].
    destruct (_ && _); [apply phase2_stopped_at|].
    destruct (execute_queue cfg fuel s3 true) as [s4|s4|s4|] eqn:EQ; try discriminate.
    - destruct (execute_action cfg fuel _ id false); try discriminate.
      destruct (death_check cfg fuel _ false); [apply phase2_stopped_at|discriminate].
    - intros H. inversion H; subst. eapply execute_queue_stopped_at. exact EQ.
  Qed.

  Lemma turns_stopped_at : forall fuel s s', turns cfg fuel s = Stop s' -> stopped_at s'.
  Proof.
    induction fuel as [|f IH]; intros s s' H; cbn [turns] in H; [discriminate|].
    destruct (one_turn cfg f s) as [s1|s1|s1|] eqn:E1; try discriminate.
    - eapply IH. exact H.
    - inversion H; subst. eapply one_turn_stopped_at. exact E1.
  Qed.

  Lemma start_stopped_at fuel s : start cfg fuel = Stop s -> stopped_at s.
  Proof.
    intros H. unfold start in H.
    destruct (Turn.step F (Turn.init F) _) as [t1 outs].
    destruct (run_slot cfg fuel _ LBattle 0 0) as [s1|]; [|discriminate].
    destruct (execute_queue cfg fuel _ true) as [s2|s2|s2|] eqn:EQ; try discriminate.
    - eapply turns_stopped_at. exact H.
    - inversion H; subst. eapply execute_queue_stopped_at. exact EQ.
  Qed.
End Stops.

(* the run continues past an exit check exactly while both sides have living units and
   floor(clock/100) is below the cycle limit; the result of a terminated run is, unchanged, the
   outcome of the first exit check that failed: the state it was made in plus the one Termination
   event, with reason loss (1) if no character is left, else win (2) if no enemy is left, else
   timeout (3) *)
Definition C09_stops_at_first_failing_check_statement : Prop :=
  (forall cfg s0 s1, exit_check cfg s0 = Ok s1 ->
     s1 = s0 /\ chars s0 <> [] /\ enemies s0 <> [] /\ ftoZ (PrimFloat.div (total_av s0) 100) < c_cycle_limit cfg) /\
  (forall cfg s0 r, exit_fails cfg s0 r -> exit_check cfg s0 = Stop (emit s0 [VTermination r (total_av s0)])) /\
  (forall cfg fuel s, start cfg fuel = Stop s ->
     exists s0 r, exit_check cfg s0 = Stop s /\ s = emit s0 [VTermination r (total_av s0)] /\ exit_fails cfg s0 r).

Theorem C09_stops_at_first_failing_check_holds : C09_stops_at_first_failing_check_statement.
Proof.
  split; [|split].
  - intros cfg s0 s1 H. unfold exit_check in H.
    destruct (chars s0) eqn:Ec; [cbn in H; discriminate|]. destruct (enemies s0) eqn:Ee; [cbn in H; discriminate|].
    destruct (c_cycle_limit cfg <=? ftoZ (PrimFloat.div (total_av s0) 100)) eqn:El; cbn in H; [discriminate|].
    inversion H; subst. repeat split; try discriminate. apply Z.leb_gt. exact El.
  - intros cfg s0 r F. pose proof (exit_check_reason cfg s0) as R. unfold reached_limit in R.
    destruct F as [[Hc ->]|[(Hc & He & ->)|(Hc & He & Hl & ->)]].
    + rewrite Hc in R. exact R.
    + destruct (chars s0); [congruence|]. rewrite He in R. exact R.
    + destruct (chars s0); [congruence|]. destruct (enemies s0); [congruence|].
      apply Z.leb_le in Hl. rewrite Hl in R. exact R.
  - intros cfg fuel s H. exact (start_stopped_at cfg fuel s H).
Qed.

(* ------------------------------------------------------------------ *)
(* The reason of the Termination and the C09 trace monitor               *)
(* ------------------------------------------------------------------ *)
(* the harness convention the monitor [reason_ok] / [result_ok] relies on: characters are described
   first, so that they get the ids 1..nc and the enemies nc+1..n *)
Definition chars_first (cfg : config) : Prop :=
  exists a b, c_units cfg = a ++ b /\ forallb d_char a = true /\ forallb (fun d => negb (d_char d)) b = true.

Lemma mk_units_side : forall ds k id,
  match get_unit (mk_units ds k) id with Some u => Some (uchar u) | None => None end =
  if k <=? id then match nth_error ds (Z.to_nat (id - k)) with Some d => Some (d_char d) | None => None end else None.
Proof.
  induction ds as [|d ds IH]; intros k id; cbn [mk_units get_unit].
  - destruct (k <=? id); [destruct (Z.to_nat (id - k))|]; reflexivity.
  - cbn [uid]. destruct (k =? id) eqn:E.
    + apply Z.eqb_eq in E. subst id. rewrite Z.leb_refl, Z.sub_diag. reflexivity.
    + apply Z.eqb_neq in E. rewrite IH. destruct (k <=? id) eqn:E1.
      * apply Z.leb_le in E1. assert (E2 : (k + 1 <=? id) = true) by (apply Z.leb_le; lia). rewrite E2.
        replace (Z.to_nat (id - k)) with (S (Z.to_nat (id - (k + 1)))) by lia. reflexivity.
      * apply Z.leb_gt in E1. assert (E2 : (k + 1 <=? id) = false) by (apply Z.leb_gt; lia). rewrite E2. reflexivity.
Qed.

Lemma get_unit_In : forall us u, NoDup (map uid us) -> In u us -> get_unit us (uid u) = Some u.
Proof.
  induction us as [|x us IH]; intros u Hn Hin; [destruct Hin|]. cbn [get_unit].
  cbn [map] in Hn. inversion Hn as [|? ? Hni Hn']; subst. destruct Hin as [->|Hin].
  - rewrite Z.eqb_refl. reflexivity.
  - destruct (uid x =? uid u) eqn:E; [|apply IH; assumption].
    apply Z.eqb_eq in E. exfalso. apply Hni. rewrite E. apply in_map. exact Hin.
Qed.

Lemma get_unit_mem : forall us id u, get_unit us id = Some u -> In u us /\ uid u = id.
Proof.
  induction us as [|x us IH]; intros id u; cbn [get_unit]; [discriminate|].
  destruct (uid x =? id) eqn:E.
  - intros H. inversion H; subst. split; [left; reflexivity|apply Z.eqb_eq; exact E].
  - intros H. destruct (IH _ _ H) as [H1 H2]. split; [right; exact H1|exact H2].
Qed.

(* the initial living lists are the units of each side *)
Lemma init_lists us (c : bool) i : NoDup (map uid us) ->
  In i (map uid (filter (fun u => Bool.eqb (uchar u) c) us)) <->
  match get_unit us i with Some u => Some (uchar u) | None => None end = Some c.
Proof.
  intros Hn. rewrite in_map_iff. split.
  - intros (u & <- & Hu). apply filter_In in Hu. destruct Hu as [Hu Hc]. rewrite (get_unit_In us u Hn Hu).
    f_equal. destruct (uchar u), c; try reflexivity; discriminate.
  - destruct (get_unit us i) as [u|] eqn:G; [|discriminate]. intros H. inversion H as [Hc].
    destruct (get_unit_mem _ _ _ G) as [Hin Hid]. exists u. split; [exact Hid|]. apply filter_In. split; [exact Hin|].
    rewrite Hc. destruct c; reflexivity.
Qed.

Lemma filter_uchar_eq us : filter uchar us = filter (fun u => Bool.eqb (uchar u) true) us.
Proof. apply filter_ext_in'. intros u. destruct (uchar u); reflexivity. Qed.
Lemma filter_nuchar_eq us : filter (fun u => negb (uchar u)) us = filter (fun u => Bool.eqb (uchar u) false) us.
Proof. apply filter_ext_in'. intros u. destruct (uchar u); reflexivity. Qed.

Section CharsFirst.
  Variable cfg : config.
  Variables a b : list udesc.
  Hypothesis Hu : c_units cfg = a ++ b.
  Hypothesis Ha : forallb d_char a = true.
  Hypothesis Hb : forallb (fun d => negb (d_char d)) b = true.

  Let nc : Z := Z.of_nat (length a).
  Let n : Z := Z.of_nat (length a + length b).

  Lemma nunits_eq : Z.of_nat (length (c_units cfg)) = n.
  Proof. rewrite Hu, app_length. reflexivity. Qed.

  Lemma nchars_eq : Z.of_nat (length (filter d_char (c_units cfg))) = nc.
  Proof.
    rewrite Hu, filter_app. unfold nc. f_equal. rewrite app_length.
    assert (E1 : filter d_char a = a).
    { clear Hu. induction a as [|d r IH]; [reflexivity|]. cbn [forallb] in Ha. apply andb_prop in Ha. destruct Ha as [H1 H2].
      cbn [filter]. rewrite H1, (IH H2). reflexivity. }
    assert (E2 : filter d_char b = []).
    { clear Hu. induction b as [|d r IH]; [reflexivity|]. cbn [forallb] in Hb. apply andb_prop in Hb. destruct Hb as [H1 H2].
      cbn [filter]. apply negb_true_iff in H1. rewrite H1. apply IH. exact H2. }
    rewrite E1, E2. cbn [length]. lia.
  Qed.

  (* the side of an id, from its position *)
  Lemma side_pos id :
    match get_unit (mk_units (c_units cfg) 1) id with Some u => Some (uchar u) | None => None end =
    if (1 <=? id) && (id <=? nc) then Some true else if (nc <? id) && (id <=? n) then Some false else None.
  Proof.
    rewrite mk_units_side, Hu. unfold nc, n.
    destruct (1 <=? id) eqn:E1; cbn [andb]; [|destruct (Z.of_nat (length a) <? id) eqn:E2; [apply Z.leb_gt in E1; apply Z.ltb_lt in E2; lia|reflexivity]].
    apply Z.leb_le in E1.
    destruct (id <=? Z.of_nat (length a)) eqn:E2.
    - apply Z.leb_le in E2. assert (Hlt : (Z.to_nat (id - 1) < length a)%nat) by lia.
      rewrite nth_error_app1 by exact Hlt.
      destruct (nth_error a (Z.to_nat (id - 1))) as [d|] eqn:EN; [|apply nth_error_None in EN; lia].
      rewrite forallb_forall in Ha. rewrite (Ha d (nth_error_In _ _ EN)). reflexivity.
    - apply Z.leb_gt in E2. assert (E3 : (Z.of_nat (length a) <? id) = true) by (apply Z.ltb_lt; lia). rewrite E3. cbn [andb].
      rewrite nth_error_app2 by lia.
      destruct (id <=? Z.of_nat (length a + length b)) eqn:E4.
      + apply Z.leb_le in E4.
        destruct (nth_error b (Z.to_nat (id - 1) - length a)) as [d|] eqn:EN; [|apply nth_error_None in EN; lia].
        rewrite forallb_forall in Hb. pose proof (Hb d (nth_error_In _ _ EN)) as Hd. apply negb_true_iff in Hd. rewrite Hd. reflexivity.
      + apply Z.leb_gt in E4.
        destruct (nth_error b (Z.to_nat (id - 1) - length a)) as [d|] eqn:EN; [|reflexivity].
        assert (Hlt : (Z.to_nat (id - 1) - length a < length b)%nat) by (apply nth_error_Some; congruence). lia.
  Qed.
End CharsFirst.

Lemma reason_ok_app c : forall x D y,
  reason_ok_from c D (x ++ y) = reason_ok_from c D x && reason_ok_from c (dead_after D x) y.
Proof.
  induction x as [|e x IH]; intros D y; [reflexivity|].
  unfold dead_after in *. destruct e; cbn [app reason_ok_from ann]; try apply IH.
  - rewrite IH. cbn [rev]. rewrite <- app_assoc. reflexivity.
  - rewrite IH, andb_assoc. reflexivity.
Qed.

Lemma reason_ok_noterm c : forall x D, forallb (fun e => negb (is_term e)) x = true -> reason_ok_from c D x = true.
Proof.
  induction x as [|e x IH]; intros D H; [reflexivity|]. cbn [forallb] in H. apply andb_prop in H. destruct H as [He Hx].
  destruct e; try discriminate; cbn [reason_ok_from]; apply IH; exact Hx.
Qed.

Lemma ids_range (n i : Z) : In i (map Z.of_nat (seq 1 (Z.to_nat n))) <-> 1 <= i <= n.
Proof.
  rewrite in_map_iff. split.
  - intros (k & <- & Hk). apply in_seq in Hk. lia.
  - intros H. exists (Z.to_nat i). split; [lia|]. apply in_seq. lia.
Qed.

Lemma zin_in x l : zin x l = true <-> In x l.
Proof.
  unfold zin. rewrite existsb_exists. split.
  - intros (y & Hy & E). apply Z.eqb_eq in E. subst. exact Hy.
  - intros H. exists x. split; [exact H|apply Z.eqb_refl].
Qed.

Lemma forallb_rev {A} (f : A -> bool) l : forallb f (rev l) = true -> forallb f l = true.
Proof. rewrite !forallb_forall. intros H x Hx. apply H. apply -> in_rev. exact Hx. Qed.

(* the reason reported by the one Termination: loss when every character has been announced dead,
   otherwise win when every enemy has, otherwise timeout with the cycle limit reached *)
Definition C09_reason_statement : Prop := forall cfg fuel s, start cfg fuel = Stop s -> chars_first cfg ->
  reason_ok cfg (trace s) = true.

Theorem C09_reason_holds : C09_reason_statement.
Proof.
  intros cfg fuel s H (a & b & Hu & Ha & Hb).
  destruct (start_G cfg fuel s H) as (s0 & (seg & L & R) & I0).
  destruct (start_stopped_at cfg fuel s H) as (s9 & r & _ & Es & F).
  pose proof (protocol_one_termination _ (C03_holds cfg fuel s H)) as OT.
  (* the trace: everything before the Termination holds no Termination *)
  assert (T9 : trace s = trace s9 ++ [VTermination r (total_av s9)]) by (rewrite Es; reflexivity).
  assert (NT : forallb (fun e => negb (is_term e)) (trace s9) = true).
  { unfold one_termination in OT. rewrite T9, rev_app_distr in OT. cbn [rev app] in OT.
    apply forallb_rev. rewrite forallb_forall in OT. apply forallb_forall. intros x Hx. specialize (OT x Hx).
    destruct x; try reflexivity. discriminate. }
  unfold reason_ok. rewrite T9, reason_ok_app, (reason_ok_noterm cfg _ _ NT). cbn [andb reason_ok_from]. rewrite andb_true_r.
  set (D := dead_after [] (trace s9)).
  (* announced = announced in the run's segment *)
  assert (HD : forall i, In i D <-> In i (ann seg)).
  { intros i. unfold D. rewrite in_dead_after.
    assert (E : ann (trace s) = ann seg).
    { rewrite (g_trace _ _ _ _ R). destruct (i_trace _ _ I0) as (cs & es & o & ->). rewrite ann_app. reflexivity. }
    rewrite T9, ann_app in E. cbn [ann] in E. rewrite app_nil_r in E. rewrite E. cbn [In]. tauto. }
  (* the living lists at the failing exit check *)
  assert (Nd : NoDup (map uid (mk_units (c_units cfg) 1))) by apply mk_units_nodup.
  assert (HC : forall i, In i (chars s9) <-> (1 <= i <= Z.of_nat (length a)) /\ ~ In i D).
  { intros i. replace (chars s9) with (chars s) by (rewrite Es; reflexivity).
    rewrite (g_chars _ _ _ _ R), (i_chars _ _ I0), filter_uchar_eq, (init_lists _ true i Nd), (side_pos cfg a b Hu Ha Hb), HD.
    destruct ((1 <=? i) && (i <=? Z.of_nat (length a))) eqn:E.
    - apply andb_prop in E. destruct E as [E1 E2]. apply Z.leb_le in E1. apply Z.leb_le in E2. intuition lia.
    - apply andb_false_iff in E. split.
      + intros [X _]. destruct ((Z.of_nat (length a) <? i) && (i <=? Z.of_nat (length a + length b))); discriminate.
      + intros [X _]. exfalso. destruct E as [E|E]; [apply Z.leb_gt in E|apply Z.leb_gt in E]; lia. }
  assert (HE : forall i, In i (enemies s9) <-> (Z.of_nat (length a) < i <= Z.of_nat (length a + length b)) /\ ~ In i D).
  { intros i. replace (enemies s9) with (enemies s) by (rewrite Es; reflexivity).
    rewrite (g_enemies _ _ _ _ R), (i_enemies _ _ I0), filter_nuchar_eq, (init_lists _ false i Nd), (side_pos cfg a b Hu Ha Hb), HD.
    destruct ((1 <=? i) && (i <=? Z.of_nat (length a))) eqn:E.
    - apply andb_prop in E. destruct E as [E1 E2]. apply Z.leb_le in E1. apply Z.leb_le in E2. split; [intros [X _]; discriminate|intros [X _]; lia].
    - destruct ((Z.of_nat (length a) <? i) && (i <=? Z.of_nat (length a + length b))) eqn:E'.
      + apply andb_prop in E'. destruct E' as [E1 E2]. apply Z.ltb_lt in E1. apply Z.leb_le in E2. intuition lia.
      + apply andb_false_iff in E'. split; [intros [X _]; discriminate|].
        intros [X _]. exfalso. destruct E' as [E'|E']; [apply Z.ltb_ge in E'|apply Z.leb_gt in E']; lia. }
  rewrite (nunits_eq cfg a b Hu), (nchars_eq cfg a b Hu Ha Hb).
  set (ids := map Z.of_nat (seq 1 (Z.to_nat (Z.of_nat (length a + length b))))).
  assert (AC : existsb (fun i => (i <=? Z.of_nat (length a)) && negb (zin i D)) ids = true <-> chars s9 <> []).
  { rewrite existsb_exists. split.
    - intros (i & Hi & Hc) E. apply ids_range in Hi. apply andb_prop in Hc. destruct Hc as [H1 H2].
      apply Z.leb_le in H1. apply negb_true_iff in H2.
      assert (X : In i (chars s9)) by (apply HC; split; [lia|]; intros Q; apply zin_in in Q; congruence).
      rewrite E in X. destruct X.
    - intros E. destruct (chars s9) as [|i rest] eqn:EC; [congruence|].
      assert (X : In i (i :: rest)) by (left; reflexivity). apply HC in X. destruct X as [X1 X2].
      exists i. split; [apply ids_range; lia|]. apply andb_true_intro. split; [apply Z.leb_le; lia|].
      apply negb_true_iff. destruct (zin i D) eqn:Q; [apply zin_in in Q; contradiction|reflexivity]. }
  assert (AE : existsb (fun i => (Z.of_nat (length a) <? i) && negb (zin i D)) ids = true <-> enemies s9 <> []).
  { rewrite existsb_exists. split.
    - intros (i & Hi & Hc) E. apply ids_range in Hi. apply andb_prop in Hc. destruct Hc as [H1 H2].
      apply Z.ltb_lt in H1. apply negb_true_iff in H2.
      assert (X : In i (enemies s9)) by (apply HE; split; [lia|]; intros Q; apply zin_in in Q; congruence).
      rewrite E in X. destruct X.
    - intros E. destruct (enemies s9) as [|i rest] eqn:EC; [congruence|].
      assert (X : In i (i :: rest)) by (left; reflexivity). apply HE in X. destruct X as [X1 X2].
      exists i. split; [apply ids_range; lia|]. apply andb_true_intro. split; [apply Z.ltb_lt; lia|].
      apply negb_true_iff. destruct (zin i D) eqn:Q; [apply zin_in in Q; contradiction|reflexivity]. }
  destruct F as [[Hc ->]|[(Hc & He & ->)|(Hc & He & Hl & ->)]].
  - destruct (existsb _ ids) eqn:X in |- *; [|reflexivity]. exfalso. apply (proj1 AC X). exact Hc.
  - rewrite (proj2 AC Hc). cbn [negb].
    destruct (existsb (fun i => (Z.of_nat (length a) <? i) && negb (zin i D)) ids) eqn:X in |- *; [|reflexivity].
    exfalso. apply (proj1 AE X). exact He.
  - rewrite (proj2 AC Hc), (proj2 AE He). cbn [negb]. apply Z.leb_le in Hl. rewrite Hl. reflexivity.
Qed.

(* ---- the whole C09 trace monitor, under the assumptions it needs ---- *)
Lemma feqb_bits_refl x : feqb_bits x x = true.
Proof. unfold feqb_bits. apply Z.eqb_refl. Qed.

Lemma hit_ends_filter (k : Z -> bool) : forall tr,
  hit_ends (filter (fun e => match e with VHitEnd _ d _ _ => k d | _ => true end) tr) =
  filter (fun dt => k (fst dt)) (hit_ends tr).
Proof.
  induction tr as [|e tr IH]; [reflexivity|]. destruct e; cbn [filter hit_ends]; try exact IH.
  cbn [fst]. destruct (k def); cbn [hit_ends]; rewrite IH; reflexivity.
Qed.

Lemma filter_filter' {A} (p q r : A -> bool) : (forall x, r x = q x && p x) -> forall l, filter p (filter q l) = filter r l.
Proof.
  intros E. induction l as [|x l IH]; [reflexivity|]. cbn [filter]. rewrite E.
  destruct (q x); cbn [andb filter]; [destruct (p x)|]; rewrite ?IH; reflexivity.
Qed.

(* the monitor evaluated on every real run (Model/SimCheck.v: monitor_c09) accepts every terminated
   model run of a configuration that describes its characters first and has no content HitEnd
   listener, provided the clock's cycle index never decreases and no hit has a negative or NaN
   total.  (Without the HitEnd-listener assumption the log-order sum of [result_ok] is not the
   total: [demo_cfg9] below.) *)
Definition C09_monitor_statement : Prop := forall cfg fuel s, start cfg fuel = Stop s ->
  chars_first cfg -> c_on_hit_end cfg = [] -> cycles_mono (trace s) = true ->
  forallb (fun dt => PrimFloat.leb 0 (snd dt)) (hit_ends (trace s)) = true ->
  one_termination (trace s) && reason_ok cfg (trace s) &&
  result_ok (Z.of_nat (length (filter d_char (c_units cfg)))) (Z.of_nat (length (c_units cfg))) (trace s) (res s) (total_av s) = true.

Theorem C09_monitor_holds : C09_monitor_statement.
Proof.
  intros cfg fuel s H CF HE CM NN.
  rewrite (protocol_one_termination _ (C03_holds cfg fuel s H)), (C09_reason_holds cfg fuel s H CF). cbn [andb].
  destruct (C09_totals_log_order_holds cfg fuel s H HE) as [Ed Et].
  destruct (C09_series_holds cfg fuel s H) as (Le & _ & Sr). destruct (Sr CM) as (Ld & Lt & Mn). destruct (Mn NN) as [Md Mt].
  destruct (result_av_is_clock cfg fuel s H) as (r & Lr).
  destruct CF as (a & b & Hu & Ha & Hb).
  destruct (start_G cfg fuel s H) as (s0 & (seg & L & R) & I0).
  unfold result_ok, last_f. rewrite Md, Mt, Le, Nat.eqb_refl, Ld, Lt, Lr, !feqb_bits_refl. cbn [andb]. rewrite !andb_true_r.
  rewrite (nunits_eq cfg a b Hu), (nchars_eq cfg a b Hu Ha Hb).
  unfold sum_hits. rewrite !sum_hits_hit_ends, !hit_ends_filter.
  (* sides by position *)
  assert (SP : forall id, side s id = if (1 <=? id) && (id <=? Z.of_nat (length a)) then Some true
                                       else if (Z.of_nat (length a) <? id) && (id <=? Z.of_nat (length a + length b)) then Some false else None).
  { intros id. rewrite (g_side _ _ _ _ R). unfold side. rewrite (i_units _ _ I0). apply (side_pos cfg a b Hu Ha Hb). }
  rewrite (filter_filter' _ _ (fun dt => is_enemy s (fst dt))).
  2: { intros dt. rewrite is_enemy_side, SP. cbn [fst].
       destruct (1 <=? fst dt) eqn:E1; destruct (fst dt <=? Z.of_nat (length a)) eqn:E2;
         destruct (Z.of_nat (length a) <? fst dt) eqn:E3; destruct (fst dt <=? Z.of_nat (length a + length b)) eqn:E4; cbn; try reflexivity;
         repeat match goal with
                | H : (_ <=? _) = true |- _ => apply Z.leb_le in H
                | H : (_ <=? _) = false |- _ => apply Z.leb_gt in H
                | H : (_ <? _) = true |- _ => apply Z.ltb_lt in H
                | H : (_ <? _) = false |- _ => apply Z.ltb_ge in H
                end; lia. }
  rewrite (filter_filter' _ _ (fun dt => is_char s (fst dt))).
  2: { intros dt. rewrite is_char_side, SP. cbn [fst].
       destruct (1 <=? fst dt) eqn:E1; destruct (fst dt <=? Z.of_nat (length a)) eqn:E2;
         destruct (Z.of_nat (length a) <? fst dt) eqn:E3; destruct (fst dt <=? Z.of_nat (length a + length b)) eqn:E4; cbn; try reflexivity;
         repeat match goal with
                | H : (_ <=? _) = true |- _ => apply Z.leb_le in H
                | H : (_ <=? _) = false |- _ => apply Z.leb_gt in H
                | H : (_ <? _) = true |- _ => apply Z.ltb_lt in H
                | H : (_ <? _) = false |- _ => apply Z.ltb_ge in H
                end; lia. }
  unfold fsum in Ed, Et. unfold sum_close. rewrite <- Ed, <- Et, !feqb_bits_refl. reflexivity.
Qed.

(* ------------------------------------------------------------------ *)
(* Non-vacuity witness                                                  *)
(* ------------------------------------------------------------------ *)
(* A character hits the enemy for 1e16; the content's HitEnd listener (one slot entry: script 2)
   makes the enemy hit itself twice for 1 INSIDE that hit; later the character hits for 2 and
   the enemy hits the character for 10; cycle limit 3.  The hits are recorded in the order
   1e16, 1, 1, ... and logged in the order 1, 1, 1e16, ...: the two binary64 sums differ. *)
Definition demo_cfg9 : config :=
  mkCfg
    [mkUD 0 true 100 1000 100 0 1 1 TEnemies TEnemies TEnemies [0%nat; 3%nat; 3%nat] [] [];
     mkUD 100 false 80 1e18 0 0 0 0 TEnemies TEnemies TEnemies [1%nat; 1%nat; 1%nat] [] []]
    [[SAttack 3 [TPrimary] true 1e16];
     [SAttack 4 [TId 1] true 10];
     [SAttack 5 [TSelfSel; TSelfSel] false 1];
     [SAttack 3 [TPrimary] true 2]]
    [] [] [] [] [2%nat] [] [] [] [] [] 3 4.

(* deepest nesting of hit brackets in a trace *)
Fixpoint hit_depth (d m : nat) (tr : list ev) : nat :=
  match tr with
  | [] => m
  | VHitStart _ _ :: r => hit_depth (S d) (Nat.max m (S d)) r
  | VHitEnd _ _ _ _ :: r => hit_depth (pred d) m r
  | _ :: r => hit_depth d m r
  end.

Definition demo_cfg9_recorded : list (Z * float) :=
  [(2, 1e16%float); (2, 1%float); (2, 1%float); (1, 10%float); (2, 2%float); (1, 10%float); (2, 2%float)].
