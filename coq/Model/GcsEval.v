(* Executable model of the IMPLEMENTATION of the gcs evaluator, pkg/logic/gcs/eval
   (eval.go, expr.go, stmt.go, op.go, obj.go, sysfunc.go, conditions.go, function.go, action.go),
   as the code is after these repairs (one `fix:` commit each, see corpus/C12/gcseval):
     arithmetic computes on the representation selected by isFloat; two integers are compared
     as integers; integer division by zero is an error; return inside while/for leaves the loop
     and the function; for reports errors of its init and post statements; register_*_cb reject
     callbacks with more than two parameters and evaluate their arguments once; call errors no
     longer print the callee with String(); a continue inside a switch case reaches the loop.

   * numbers are the Go struct number{ival, fval, isFloat} with all three fields, and every
     operator reads and writes exactly the fields op.go reads and writes;
   * a statement evaluates to an object that may be a retval or a ctrl ([sres]); expressions
     evaluate to plain objects only (the Go code never stores a retval/ctrl in a variable: every
     stored object comes out of evalExpr);
   * Go panics (evaluating a nil block; a failed type assertion on a validated argument) are
     [FPanic] outcomes; a dangling model address is [FDangling] (no Go counterpart);
   * fuel is a depth/iteration budget: every recursive call of the evaluator, every element of an
     argument list, every loop iteration costs one; [FFuel] is a distinct outcome.
   No proofs in this file. *)
From Coq Require Import List ZArith Bool String Floats.
From SR Require Import Base.CaseLib Model.GcsAst Model.GcsStore.
Import ListNotations.
Open Scope Z_scope.

Record inum := mkNum { ival : Z; fval : float; isf : bool }.

Notation obj := (value inum) (only parsing).
Inductive sres := RObj (o : obj) | RRet (o : obj) | RCtr (t : ctrltyp).

(* ---- op.go ---- *)
Definition ntob (v : inum) : bool :=
  if isf v then negb (PrimFloat.eqb (fval v) 0) else negb (ival v =? 0).
Definition otob (v : obj) : bool :=
  match v with VNum x => ntob x | VStr _ => true | _ => false end.
Definition bton (b : bool) : inum := if b then mkNum 1 1 false else mkNum 0 0 false.
Definition ntof (v : inum) : float := if isf v then fval v else Z2f (ival v).
Definition inumZ (i : Z) : inum := mkNum i (Z2f i) false.
Definition anyf (l r : inum) : bool := isf l || isf r.

Definition iand (l r : inum) : inum := bton (ntob l && ntob r).
Definition ior (l r : inum) : inum := bton (ntob l || ntob r).
Definition igt (l r : inum) : inum :=
  bton (if anyf l r then PrimFloat.ltb (ntof r) (ntof l) else ival r <? ival l).
Definition igte (l r : inum) : inum :=
  bton (if anyf l r then PrimFloat.leb (ntof r) (ntof l) else ival r <=? ival l).
Definition ilt (l r : inum) : inum :=
  bton (if anyf l r then PrimFloat.ltb (ntof l) (ntof r) else ival l <? ival r).
Definition ilte (l r : inum) : inum :=
  bton (if anyf l r then PrimFloat.leb (ntof l) (ntof r) else ival l <=? ival r).
Definition ieq (l r : inum) : inum :=
  bton (if anyf l r then PrimFloat.eqb (ntof l) (ntof r) else ival l =? ival r).
Definition ineq (l r : inum) : inum :=
  bton (if anyf l r then negb (PrimFloat.eqb (ntof l) (ntof r)) else negb (ival l =? ival r)).
Definition iadd (l r : inum) : inum :=
  if anyf l r then mkNum 0 (ntof l + ntof r) true else inumZ (wrap64 (ival l + ival r)).
Definition isub (l r : inum) : inum :=
  if anyf l r then mkNum 0 (ntof l - ntof r) true else inumZ (wrap64 (ival l - ival r)).
Definition imul (l r : inum) : inum :=
  if anyf l r then mkNum 0 (ntof l * ntof r) true else inumZ (wrap64 (ival l * ival r)).
Definition idiv (l r : inum) : res inum :=
  if anyf l r then Ok (mkNum 0 (ntof l / ntof r) true)
  else if ival r =? 0 then Fail (FErr EDivZero)
  else Ok (inumZ (wrap64 (Z.quot (ival l) (ival r)))).
Definition izero : inum := mkNum 0 0 false.

Definition ibinop (t : toktype) (a b : inum) : M inum obj :=
  match t with
  | LogicAnd => ret (VNum (iand a b))
  | LogicOr => ret (VNum (ior a b))
  | ItemPlus => ret (VNum (iadd a b))
  | ItemMinus => ret (VNum (isub a b))
  | ItemAsterisk => ret (VNum (imul a b))
  | ItemForwardSlash => match idiv a b with Ok x => ret (VNum x) | Fail f => fail f end
  | OpGreaterThan => ret (VNum (igt a b))
  | OpGreaterThanOrEqual => ret (VNum (igte a b))
  | OpEqual => ret (VNum (ieq a b))
  | OpNotEqual => ret (VNum (ineq a b))
  | OpLessThan => ret (VNum (ilt a b))
  | OpLessThanOrEqual => ret (VNum (ilte a b))
  | _ => ret VNull
  end.

Definition iunop (t : toktype) (x : inum) : obj :=
  match t with
  | LogicNot => VNum (ieq izero x)
  | ItemMinus => VNum (isub izero x)
  | _ => VNull
  end.

(* numbers made by builtins carry one representation only *)
Definition iof_int (z : Z) : inum := mkNum z 0 false.
Definition iof_float (f : float) : inum := mkNum 0 f true.

Definition of_raw (r : rawres) : M inum obj :=
  match r with
  | RBool b => ret (VNum (bton b))
  | RInt z => ret (VNum (iof_int z))
  | RFloat f => ret (VNum (iof_float f))
  | RIds l => a <- alloc_map (map (fun id => VNum (iof_int id)) l) [] ;; ret (VMap a)
  end.

Fixpoint bind_vals (lf : nat) (ps : list string) (vs : list obj) : M inum unit :=
  match ps, vs with
  | p :: ps', v :: vs' => set_local lf p (BVal v) ;;; bind_vals lf ps' vs'
  | _, _ => ret tt
  end.

Definition hd0 (l : list nat) : nat := match l with x :: _ => x | [] => O end.

Section WithEngine.
Variable eng : engine.

Fixpoint eval_expr (n : nat) (e : expr) (env : list nat) {struct n} : M inum obj :=
  match n with
  | O => fail FFuel
  | S n' =>
    match e with
    | ENil => ret VNull
    | ENum i f b => ret (VNum (mkNum i f b))
    | EStr s => ret (VStr (trim_quotes s))
    | EBool _ => ret VNull
    | ENull => ret VNull
    | EFuncLit ps body => ret (VFun ps body)
    | EIdent x => get_var env x
    | EUnary op r =>
        v <- eval_expr n' r env ;;
        match v with
        | VNum x => ret (iunop (t_typ op) x)
        | _ => err EType
        end
    | EBinary l r op =>
        vl <- eval_expr n' l env ;;
        vr <- eval_expr n' r env ;;
        match vl, vr with
        | VNum a, VNum b => ibinop (t_typ op) a b
        | _, _ => err EType
        end
    | ECall f args =>
        fv <- eval_expr n' f env ;;
        match fv with
        | VBif b => call_bif n' b args env
        | VFun ps body =>
            if Nat.eqb (List.length args) (List.length ps) then
              local <- alloc_frame env ;;
              bind_params n' ps args env (hd0 local) ;;;
              r <- eval_block n' body local ;;
              match r with
              | RRet v => ret v
              | RObj VNull => ret VNull
              | _ => err EBadReturn
              end
            else err EArity
        | _ => err ENotCallable
        end
    | EMap arr flds =>
        vs <- eval_exprs n' arr env ;;
        fs <- eval_fields n' flds env ;;
        a <- alloc_map vs fs ;;
        ret (VMap a)
    end
  end

with eval_exprs (n : nat) (es : list expr) (env : list nat) {struct n} : M inum (list obj) :=
  match n with
  | O => fail FFuel
  | S n' =>
    match es with
    | [] => ret []
    | e :: r => v <- eval_expr n' e env ;; vs <- eval_exprs n' r env ;; ret (v :: vs)
    end
  end

(* MapExpr.Fields is ranged over in Go map order; the canonical (sorted) order is used here and
   the generator keeps field expressions free of effects (the order dependence is C01's) *)
with eval_fields (n : nat) (fs : list (string * expr)) (env : list nat) {struct n}
  : M inum (list (string * obj)) :=
  match n with
  | O => fail FFuel
  | S n' =>
    match fs with
    | [] => ret []
    | (k, e) :: r => v <- eval_expr n' e env ;; vs <- eval_fields n' r env ;; ret ((k, v) :: vs)
    end
  end

(* evalCallExpr: param := evalExpr(c.Args[i], env); local.varMap[name] = &param *)
with bind_params (n : nat) (ps : list string) (args : list expr) (env : list nat) (lf : nat) {struct n}
  : M inum unit :=
  match n with
  | O => fail FFuel
  | S n' =>
    match ps, args with
    | p :: ps', a :: args' =>
        v <- eval_expr n' a env ;; set_local lf p (BVal v) ;;; bind_params n' ps' args' env lf
    | _, _ => ret tt
    end
  end

(* validateArguments after its length check: evaluate and type-check one argument at a time *)
with validate_loop (n : nat) (args : list expr) (tys : list ty) (env : list nat) {struct n}
  : M inum (list obj) :=
  match n with
  | O => fail FFuel
  | S n' =>
    match args, tys with
    | a :: args', t :: tys' =>
        v <- eval_expr n' a env ;;
        if ty_eqb (ty_of v) t then vs <- validate_loop n' args' tys' env ;; ret (v :: vs)
        else err EType
    | _, _ => ret []
    end
  end

with call_bif (n : nat) (b : bif) (args : list expr) (env : list nat) {struct n} : M inum obj :=
  match n with
  | O => fail FFuel
  | S n' =>
    let validate (tys : list ty) : M inum (list obj) :=
        if Nat.eqb (List.length args) (List.length tys) then validate_loop n' args tys env else err EArity in
    match b with
    | BPrint => vs <- eval_exprs n' args env ;; emit_print vs ;;; ret VNull
    | BType =>
        match args with
        | [a] => v <- eval_expr n' a env ;; ret (VStr (ty_name (ty_of v)))
        | _ => err EArity
        end
    | BRand => _ <- validate [] ;; f <- draw ;; ret (VNum (iof_float f))
    | BRandnorm => _ <- validate [] ;; fail FUnsupported
    | BSort =>
        vs <- validate [TyMap; TyFun] ;;
        match vs with
        | [VMap m; VFun ps body] =>
            match ps with
            | [p; q] =>
                local <- alloc_frame env ;;
                arr <- get_arr m ;;
                if Nat.ltb 20 (List.length arr) then fail FUnsupported
                else sort_outer n' m 1%nat (List.length arr) p q body local ;;; ret (VMap m)
            | _ => err EArity
            end
        | _ => fail (FPanic PTypeAssert)
        end
    | BFirst =>
        vs <- validate [TyMap] ;;
        match vs with
        | [VMap m] => arr <- get_arr m ;; ret (match arr with x :: _ => x | [] => VNull end)
        | _ => fail (FPanic PTypeAssert)
        end
    | BAny =>
        vs <- validate [TyMap; TyFun] ;;
        match vs with
        | [VMap m; VFun ps body] =>
            match ps with
            | [p] => local <- alloc_frame env ;; any_loop n' m O p body local
            | _ => err EArity
            end
        | _ => fail (FPanic PTypeAssert)
        end
    | BLen =>
        vs <- validate [TyMap] ;;
        match vs with
        | [VMap m] => arr <- get_arr m ;; ret (VNum (iof_int (Z.of_nat (List.length arr))))
        | _ => fail (FPanic PTypeAssert)
        end
    | BRegSkill | BRegUlt =>
        vs <- validate [TyNum; TyFun] ;;
        match vs with
        | [VNum t; VFun ps body] =>
            if Nat.ltb 2 (List.length ps) then err EArity
            else
              local <- alloc_frame env ;;
              bind_vals (hd0 local) ps vs ;;;
              (match b with
               | BRegSkill => reg_skill (mkCb (ival t) local body)
               | _ => reg_ult (mkCb (ival t) local body)
               end) ;;;
              ret VNull
        | _ => fail (FPanic PTypeAssert)
        end
    | BSetDefault =>
        vs <- validate [TyNum; TyAct] ;;
        match vs with
        | [VNum t; VAct ty ev] =>
            if acttype_eqb ty AAttack then set_default (ival t) (ty, ev) ;;; ret VNull
            else err EAction
        | _ => fail (FPanic PTypeAssert)
        end
    | BAction ty =>
        vs <- validate [TyNum] ;;
        match vs with
        | [VNum x] => ret (VAct ty (ival x))
        | _ => fail (FPanic PTypeAssert)
        end
    | BEng q =>
        vs <- validate (sig_tys (engq_sig q)) ;;
        let id := match vs with VNum x :: _ => ival x | _ => 0 end in
        let n2 := match vs with [_; VNum y] => ival y | _ => 0 end in
        let s2 := match vs with [_; VStr s] => s | _ => EmptyString end in
        let (calls, r) := eng_query q eng id n2 s2 in
        emit_calls calls ;;;
        match r with Ok raw => of_raw raw | Fail f => fail f end
    end
  end

(* sort.SliceStable on at most 20 elements is one insertion sort:
   for i := 1; i < n; i++ { for j := i; j > 0 && less(j, j-1); j-- { swap(j, j-1) } } *)
with sort_outer (n : nat) (m : nat) (i len : nat) (p q : string) (body : block) (local : list nat)
  {struct n} : M inum unit :=
  match n with
  | O => fail FFuel
  | S n' =>
    if Nat.ltb i len then
      sort_inner n' m i p q body local ;;; sort_outer n' m (S i) len p q body local
    else ret tt
  end

with sort_inner (n : nat) (m : nat) (j : nat) (p q : string) (body : block) (local : list nat)
  {struct n} : M inum unit :=
  match n with
  | O => fail FFuel
  | S n' =>
    match j with
    | O => ret tt
    | S j' =>
        (* less(j, j-1): the parameters are bound to the array slots themselves *)
        set_local (hd0 local) p (BSlot m j) ;;;
        set_local (hd0 local) q (BSlot m j') ;;;
        r <- eval_block n' body local ;;
        match r with
        | RRet v => if otob v then swap_arr m j j' ;;; sort_inner n' m j' p q body local else ret tt
        | _ => err ENoReturn
        end
    end
  end

(* any: for _, value := range m.array (elements read live, the parameter is a copy) *)
with any_loop (n : nat) (m : nat) (i : nat) (p : string) (body : block) (local : list nat)
  {struct n} : M inum obj :=
  match n with
  | O => fail FFuel
  | S n' =>
    arr <- get_arr m ;;
    match nth_error arr i with
    | None => ret (VNum (bton false))
    | Some v =>
        set_local (hd0 local) p (BVal v) ;;;
        r <- eval_block n' body local ;;
        match r with
        | RRet x => if otob x then ret (VNum (bton true)) else any_loop n' m (S i) p body local
        | _ => err ENoReturn
        end
    end
  end

with eval_stmt (n : nat) (s : stmt) (env : list nat) {struct n} : M inum sres :=
  match n with
  | O => fail FFuel
  | S n' =>
    match s with
    | SNil => ret (RObj VNull)
    | SBlock b => eval_block n' b env
    | SAssign id e => v <- eval_expr n' e env ;; assign_var env (t_val id) v ;;; ret (RObj v)
    | SLet id e => v <- eval_expr n' e env ;; declare env (t_val id) v ;;; ret (RObj VNull)
    | SReturn e => v <- eval_expr n' e env ;; ret (RRet v)
    | SCtrl t => ret (RCtr t)
    | SIf c b els =>
        v <- eval_expr n' c env ;;
        if otob v then eval_block n' b env
        else match els with SNil => ret (RObj VNull) | _ => eval_stmt n' els env end
    | SSwitch c cases def =>
        cv <- eval_expr n' c env ;;
        match cv with
        | VNull | VNum _ =>
            r <- eval_cases n' (match cv with VNum x => Some x | _ => None end) cases false false env ;;
            match r with
            | inl res => ret res
            | inr (ft, found) =>
                if negb found || ft then
                  match def with BNil => ret (RObj VNull) | _ => eval_block n' def env end
                else ret (RObj VNull)
            end
        | _ => err EType
        end
    | SCase _ => ret (RObj VNull)
    | SFn tok ps body => declare env (t_val tok) (VFun ps body) ;;; ret (RObj VNull)
    | SWhile c b => eval_while n' c b env
    | SFor init cond post body =>
        scope <- alloc_frame env ;;
        (match init with SNil => ret tt | _ => _ <- eval_stmt n' init scope ;; ret tt end) ;;;
        eval_for n' cond post body scope
    end
  end

(* the statements of a block, in the block's own scope *)
with eval_nodes (n : nat) (ns : list node) (scope : list nat) {struct n} : M inum sres :=
  match n with
  | O => fail FFuel
  | S n' =>
    match ns with
    | [] => ret (RObj VNull)
    | NExpr e :: r => _ <- eval_expr n' e scope ;; eval_nodes n' r scope
    | NStmt s :: r =>
        v <- eval_stmt n' s scope ;;
        match v with
        | RRet _ | RCtr _ => ret v
        | RObj _ => eval_nodes n' r scope
        end
    end
  end

with eval_block (n : nat) (b : block) (env : list nat) {struct n} : M inum sres :=
  match n with
  | O => fail FFuel
  | S n' =>
    match b with
    | BNil => fail (FPanic PNilBlock)
    | Block l => scope <- alloc_frame env ;; eval_nodes n' l scope
    end
  end

with eval_while (n : nat) (c : expr) (b : block) (env : list nat) {struct n} : M inum sres :=
  match n with
  | O => fail FFuel
  | S n' =>
    v <- eval_expr n' c env ;;
    if otob v then
      r <- eval_block n' b env ;;
      match r with
      | RRet _ => ret r
      | RCtr CtrlBreak => ret (RObj VNull)
      | _ => eval_while n' c b env
      end
    else ret (RObj VNull)
  end

with eval_for (n : nat) (cond : expr) (post : stmt) (body : block) (scope : list nat) {struct n}
  : M inum sres :=
  match n with
  | O => fail FFuel
  | S n' =>
    go <- (match cond with ENil => ret true | _ => v <- eval_expr n' cond scope ;; ret (otob v) end) ;;
    if go : bool then
      r <- eval_block n' body scope ;;
      match r with
      | RRet _ => ret r
      | RCtr CtrlBreak => ret (RObj VNull)
      | _ =>
          (match post with SNil => ret tt | _ => _ <- eval_stmt n' post scope ;; ret tt end) ;;;
          eval_for n' cond post body scope
      end
    else ret (RObj VNull)
  end

(* the loop over the cases of a switch: [inl r] the switch is done with r, [inr (ft, found)] fell
   out of the loop *)
with eval_cases (n : nat) (v : option inum) (cases : list casestmt) (ft found : bool) (env : list nat)
  {struct n} : M inum (sres + bool * bool) :=
  match n with
  | O => fail FFuel
  | S n' =>
    match cases with
    | [] => ret (inr (ft, found))
    | Case ce body :: rest =>
        cc <- eval_expr n' ce env ;;
        match cc with
        | VNum c =>
            let hit := match v with None => ntob c | Some x => ntob (ieq c x) end in
            if hit || ft then
              r <- eval_block n' body env ;;
              match r with
              | RCtr CtrlFallthrough => eval_cases n' v rest true true env
              | RCtr CtrlBreak => ret (inl (RObj VNull))
              | RCtr CtrlContinue => ret (inl r)      (* continue belongs to the enclosing loop *)
              | RCtr _ => eval_cases n' v rest ft true env
              | _ => ret (inl r)
              end
            else eval_cases n' v rest ft found env
        | _ => err EType
        end
    end
  end.

(* ---- action.go ---- *)
Definition eval_target (n : nat) (node : cbnode) (check : list acttype) : M inum (acttype * Z) :=
  r <- eval_block n (cb_body node) (cb_env node) ;;
  match r with
  | RRet (VAct ty ev) =>
      if acttype_eqb ty AInvalid then ret (AInvalid, 0)
      else if existsb (acttype_eqb ty) check then ret (ty, ev) else err EAction
  | RRet VNull => ret (AInvalid, 0)
  | RRet _ => err EAction
  | _ => err ENoReturn
  end.

Definition default_action (t : Z) : M inum (list (acttype * Z * Z)) :=
  fun s => match zassoc t (st_defaults s) with
           | Some (ty, ev) => (Ok [(ty, t, ev)], s)
           | None => (Fail (FErr EAction), s)
           end.

Fixpoint ult_loop (n : nat) (nodes : list cbnode) (acc : list (acttype * Z * Z))
  : M inum (list (acttype * Z * Z)) :=
  match nodes with
  | [] => ret acc
  | node :: r =>
      a <- eval_target n node [AUlt; AUltAttack; AUltSkill] ;;
      if acttype_eqb (fst a) AInvalid then ult_loop n r acc
      else ult_loop n r (acc ++ [(fst a, cb_target node, snd a)])
  end.

Definition do_call (n : nat) (c : cbcall) : M inum (list (acttype * Z * Z)) :=
  match c with
  | CNext t =>
      fun s => match zassoc t (st_skill s) with
               | None => (Fail (FErr EAction), s)
               | Some node =>
                   (a <- eval_target n node [AAttack; ASkill] ;;
                    if acttype_eqb (fst a) AInvalid then default_action t
                    else ret [(fst a, t, snd a)]) s
               end
  | CDefault t => default_action t
  | CUlt => fun s => ult_loop n (st_ult s) [] s
  end.

Definition stops (f : failure) : bool :=
  match f with FErr _ => false | _ => true end.

Fixpoint run_calls (n : nat) (cs : list cbcall) (s : state inum) : state inum :=
  match cs with
  | [] => s
  | c :: r =>
      let (res, s') := do_call n c s in
      let s'' := upd_trace s' (GCall res :: st_trace s') in
      match res with
      | Fail f => if stops f then s'' else run_calls n r s''
      | Ok _ => run_calls n r s''
      end
  end.

End WithEngine.

(* Eval.Init followed by the callback invocations: the chronological trace *)
Definition run_case (fuel : nat) (prog : block) (eng : engine) (draws : list Z) (calls : list cbcall)
  : list (gitem inum) :=
  let s0 := init_state iof_int eng draws in
  let (r, s1) := eval_block eng fuel prog [O] s0 in
  let s2 := upd_trace s1 (GInit (match r with Ok _ => None | Fail f => Some f end) :: st_trace s1) in
  let s3 := match r with Ok _ => run_calls eng fuel calls s2 | Fail _ => s2 end in
  rev (st_trace s3).
