(* C17 — Heals have the documented amount and never overheal.
   Only statements, [exact] and [Print Assumptions] live here. *)
From Coq Require Import List ZArith Reals.
From SR Require Import Model.CombatCore Model.Heal Proofs.CombatFacts Proofs.HealProofs.
From SR Require Proofs.FormulasHealProofs.
Import ListNotations.

Theorem C17_heals : C17_statement.
Proof. exact C17_holds. Qed.
Print Assumptions C17_heals.

(* the clauses by name *)
Theorem C17_dead_source_does_nothing :
  forall N w key source ts terms flat snapf adjs,
    ts = [] \/ is_alive N w source = false ->
    heal N w key source ts terms flat snapf adjs = (w, []).
Proof. exact heal_dead_source_nothing. Qed.
Print Assumptions C17_dead_source_does_nothing.

Theorem C17_amount_documented :
  forall healer target terms flat,
    heal_raw RNum healer target terms flat =
      ((flat + sumR (map (term_value healer target) terms))
       * (1 + (sget RNum healer pHealBoost + sget RNum healer pHealBoostConvert))
       * (1 + sget RNum target pHealTaken))%R.
Proof. exact heal_raw_R. Qed.
Print Assumptions C17_amount_documented.

Theorem C17_no_overheal_any_history :
  forall ops w, no_overheal w (fst (hrun FloatNum w ops)).
Proof. exact hrun_no_overheal. Qed.
Print Assumptions C17_no_overheal_any_history.

(* The translator tie: the heal amount, its split into applied and overflow, the stats it reads and
   the HP update are, for every NumOps instance and every argument, EQUAL to the definitions go2coq
   generates from combat/heal.go, info/stats.go, info/map.go and attribute/modify.go
   (Gen/FormulasHeal.v, Gen/FormulasInfo.v, Gen/FormulasAttr.v; the conjunction is spelled out in
   Proofs/FormulasHealProofs.v, C17_formulas_statement). *)
Theorem C17_model_formulas_are_the_source : FormulasHealProofs.C17_formulas_statement.
Proof. exact FormulasHealProofs.C17_formulas_hold. Qed.
Print Assumptions C17_model_formulas_are_the_source.

Theorem C17_nonvacuous : demo_statement.
Proof. exact demo_heal. Qed.

(* ------------------------------------------------------------------------------------------ *)
(* "after any adjustment heal listeners make": the heal listeners of content are MODIFIER callbacks,
   reached through the modifier manager's dispatch (pkg/engine/modifier/listener.go).  Model/Dispatch.v
   models that dispatch as the code is; Model/DispatchSpec.v is the role table of the doc comments of
   modifier.Listeners.  The definitions are spelled out in Proofs/DispatchProofs.v. *)
From SR Require Model.Dispatch Model.DispatchSpec Proofs.DispatchProofs.

(* heal dispatch: OnBeforeDealHeal / OnAfterDealHeal on the HEALER's instances, then
   OnBeforeBeingHeal / OnAfterBeingHeal on the RECEIVER's, each in attachment order, in snapshot state
   only on instances that may modify snapshots; the heal value read back is the fold of the
   callbacks' adjustments in that order *)
Theorem C17_heal_dispatch : DispatchProofs.heal_dispatch_statement.
Proof. exact DispatchProofs.heal_dispatch_holds. Qed.
Print Assumptions C17_heal_dispatch.

(* the role table for every event and every callback: exactly once per (role occurrence, eligible
   attached instance), on no other instance, in attachment / role order *)
Theorem C17_listener_role_table : DispatchProofs.role_table_statement.
Proof. exact DispatchProofs.role_table_holds. Qed.
Print Assumptions C17_listener_role_table.

(* every world, also when callbacks detach / attach modifiers during the dispatch; the LimboWaitHeal
   verdict is the disjunction of the answers *)
Theorem C17_dispatch_any_world : DispatchProofs.any_world_statement.
Proof. exact DispatchProofs.any_world_holds. Qed.
Print Assumptions C17_dispatch_any_world.

Example C17_dispatch_nonvacuous : DispatchProofs.demo_heal_statement.
Proof. exact DispatchProofs.demo_heal. Qed.
Example C17_dispatch_scripted_nonvacuous : DispatchProofs.demo_scripted_statement.
Proof. exact DispatchProofs.demo_scripted. Qed.
