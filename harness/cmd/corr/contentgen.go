package main

// Generator of run description terms (see content.go) from the REAL catalogs: teams of
// registered characters with any registered light cone (own path and foreign path), 0-2
// relic sets (2pc / 4pc), eidolon 0-6, trace choices, ability levels, levels with consistent
// max levels, 1-5 dummy enemies with varied parameters, a generated gcs script, a seed.

import (
	"fmt"
	"sort"
	"strings"

	"github.com/simimpact/srsim/pkg/model"

	"verif/harness/term"
)

type genOpts struct {
	forceChar  string // "" = random
	forceCone  string
	forceRelic string
	maxChars   int
	maxCycles  int
	// showcase: the forced character starts with full energy, always asks for its ultimate and its skill,
	// and faces 2-4 enemies of which one is frail (dies from any hit) and the others outlive the battle:
	// multi-hit abilities then lose a target in the middle of the ability
	showcase bool
	// team: keys of the line-up (set by genSpec): scripts may name a team mate as the target of an
	// ability that aims at allies
	team []string
}

var promoCaps = []int{20, 30, 40, 50, 60, 70, 80}
var levelPool = []int{1, 2, 19, 20, 21, 40, 59, 60, 70, 79, 80}

func genLevel(r *term.Rng) (lvl, maxLvl int) {
	if r.Bool() {
		lvl = term.Pick(r, levelPool)
	} else {
		lvl = r.Range(1, 80)
	}
	for _, c := range promoCaps {
		if c >= lvl {
			maxLvl = c
			break
		}
	}
	// exactly at a cap the unit may or may not have been ascended
	if lvl == maxLvl && maxLvl < 80 && r.Bool() {
		maxLvl += 10
	}
	return
}

var attackKinds = []string{"NONE", "SINGLE", "BOUNCE", "BLAST", "AOE"}
var damageTypes = []string{"PHYSICAL", "FIRE", "ICE", "THUNDER", "WIND", "QUANTUM", "IMAGINARY"}
var evaluators = []string{"First", "LowestHP", "LowestHPRatio"}

func genCond(r *term.Rng, self string) string {
	other := self
	switch r.Intn(14) {
	case 0:
		return fmt.Sprintf("skill_points() > %d", r.Intn(4))
	case 1:
		return fmt.Sprintf("energy(%s) >= %d", self, r.Intn(120))
	case 2:
		return fmt.Sprintf("hp_ratio(%s) < 0.%d", other, r.Range(1, 9))
	case 3:
		return fmt.Sprintf("ult_ready(%s)", other)
	case 4:
		return fmt.Sprintf("rand() < 0.%d", r.Range(1, 9))
	case 5:
		return fmt.Sprintf("len(enemies()) > %d", r.Intn(3))
	case 6:
		return fmt.Sprintf("skill_ready(%s)", self)
	case 7:
		return fmt.Sprintf("is_shielded(%s)", other)
	case 8:
		return "@weakness_broken(first(enemies()))"
	case 9:
		return fmt.Sprintf("max_energy(%s) > %d && is_alive(%s)", self, 100+r.Intn(40), other)
	case 10:
		return fmt.Sprintf("@has_weakness(first(enemies()), element(%s))", self)
	case 11:
		return fmt.Sprintf("modifier_count(%s, STATUS_BUFF) >= %d", self, r.Intn(3))
	case 12:
		return "@stance(first(enemies())) <= max_stance(first(enemies())) / 2"
	default:
		return fmt.Sprintf("len(characters()) >= %d || !is_valid(%d)", r.Range(1, 4), r.Range(1, 12))
	}
}

// ifThen renders `if cond { body }`; a condition that dereferences first(enemies()) (marked
// with a leading @) is guarded by a nested `if len(enemies()) > 0`, because gcs evaluates both
// operands of && and the script callbacks are also consulted when no enemy is left
func ifThen(cond, body string) string {
	if strings.HasPrefix(cond, "@") {
		return fmt.Sprintf("if len(enemies()) > 0 { if %s { %s } } ", cond[1:], body)
	}
	return fmt.Sprintf("if %s { %s } ", cond, body)
}

// genFragment: the part of a well-formed script that belongs to character c (default action,
// skill callback, usually an ult callback); it names no other character
func genFragment(r *term.Rng, c string, team []string) string {
	var sb strings.Builder
	ev := func() string { return term.Pick(r, evaluators) }
	fmt.Fprintf(&sb, "set_default_action(%s, attack(%s)); ", c, ev())
	// skill callback
	fmt.Fprintf(&sb, "register_skill_cb(%s, fn () { ", c)
	kind := r.Intn(5)
	if cc, ok := getCatalogs().charCfg[c]; ok && len(team) > 0 && cc.SkillInfo.Skill.TargetType == model.TargetType_ALLIES && r.Chance(1, 2) {
		// a concrete team mate as the target of a skill that aims at allies (guarded: a named target must be alive)
		m := term.Pick(r, team)
		fmt.Fprintf(&sb, "if is_alive(%s) { return skill(%s); } ", m, m)
		kind = 1
	}
	switch kind {
	case 0:
		fmt.Fprintf(&sb, "return skill(%s); ", ev())
	case 1:
		fmt.Fprintf(&sb, "return attack(%s); ", ev())
	case 2:
		sb.WriteString(ifThen(genCond(r, c), "return skill("+ev()+");"))
		fmt.Fprintf(&sb, "return attack(%s); ", ev())
	case 3:
		sb.WriteString(ifThen(genCond(r, c), "return attack("+ev()+");"))
		sb.WriteString(ifThen(genCond(r, c), "return skill("+ev()+");"))
		if r.Bool() {
			fmt.Fprintf(&sb, "if skill_points() > 3 { return skill(%s); } else { return attack(%s); } ", ev(), ev())
		} else {
			fmt.Fprintf(&sb, "return skill(%s); ", ev())
		}
	default:
		skip := ""
		if r.Bool() {
			// a three-clause loop whose body continues: the post statement must still run
			skip = fmt.Sprintf("if i == %d { continue; } ", r.Intn(2))
		}
		fmt.Fprintf(&sb, "let n = 0; for let i = 0; i < %d; i = i + 1 { %s%s} "+
			"if n > 0 { return skill(%s); } return attack(%s); ", r.Range(1, 3), skip,
			ifThen(genCond(r, c), "n = n + 1;"), ev(), ev())
	}
	sb.WriteString("}); ")
	// ult callback (sometimes absent)
	if r.Chance(5, 6) {
		fmt.Fprintf(&sb, "register_ult_cb(%s, fn () { ", c)
		switch r.Intn(3) {
		case 0:
			fmt.Fprintf(&sb, "return ult(%s); ", ev())
		case 1:
			sb.WriteString(ifThen(genCond(r, c), "return ult("+ev()+");"))
			sb.WriteString("return null; ")
		default:
			sb.WriteString(ifThen(genCond(r, c), "return ult("+ev()+");"))
			fmt.Fprintf(&sb, "if ult_ready(%s) { return ult(%s); } return null; ", c, ev())
		}
		sb.WriteString("}); ")
	}
	return strings.TrimSpace(sb.String())
}

// reseed decorrelates the per-case generator from its case index: main.go forks the case
// generator from ONE draw of the master generator, and term.NewRng(seed+1) is term.NewRng(seed)
// advanced by one draw, so without this case i of seed S+1 would equal case i+1 of seed S (the
// orchestrator shards with consecutive seeds)
func reseed(r *term.Rng, idx int) *term.Rng {
	z := r.U64() ^ (uint64(idx)+1)*0xD6E8FEB86659FD93
	z = (z ^ (z >> 32)) * 0xD6E8FEB86659FD93
	return term.NewRng(z ^ (z >> 32))
}

func pickDistinct(r *term.Rng, pool []string, n int) []string {
	idx := map[int]bool{}
	out := []string{}
	for len(out) < n && len(out) < len(pool) {
		i := r.Intn(len(pool))
		if idx[i] {
			continue
		}
		idx[i] = true
		out = append(out, pool[i])
	}
	return out
}

func genChar(r *term.Rng, contentCat *catalogs, k string, o genOpts) term.T {
	cfg := contentCat.charCfg[k]
	cones := contentCat.cones
	lvl, maxLvl := genLevel(r)
	// traces: keys of the character's trace table plus the three major traces
	tkeys := []string{"101", "102", "103"}
	for t := range cfg.Traces {
		if t != "101" && t != "102" && t != "103" {
			tkeys = append(tkeys, t)
		}
	}
	sort.Strings(tkeys)
	traces := []term.T{}
	switch r.Intn(3) {
	case 0: // all
		for _, t := range tkeys {
			traces = append(traces, term.S(t))
		}
	case 1: // random subset
		for _, t := range tkeys {
			if r.Bool() {
				traces = append(traces, term.S(t))
			}
		}
	}
	// light cone
	cone := o.forceCone
	if cone == "" {
		if r.Bool() {
			own := []string{}
			for _, c := range cones {
				if contentCat.coneCfg[c].Path == cfg.Path {
					own = append(own, c)
				}
			}
			if len(own) > 0 {
				cone = term.Pick(r, own)
			}
		}
		if cone == "" {
			cone = term.Pick(r, cones)
		}
	}
	clvl, cmax := genLevel(r)
	// relics
	rels := []term.T{}
	mk := func(k string, n int) term.T { return term.C("Rel", term.S(k), term.I(int64(n))) }
	if o.forceRelic != "" {
		rels = append(rels, mk(o.forceRelic, term.Pick(r, []int{2, 4})))
		if r.Bool() {
			rels = append(rels, mk(term.Pick(r, contentCat.relics), 2))
		}
	} else if len(contentCat.relics) > 0 {
		switch r.Intn(5) {
		case 0:
		case 1:
			rels = append(rels, mk(term.Pick(r, contentCat.relics), 4))
		case 2:
			rels = append(rels, mk(term.Pick(r, contentCat.relics), 2))
		case 3:
			two := pickDistinct(r, contentCat.relics, 2)
			for _, x := range two {
				rels = append(rels, mk(x, 2))
			}
		default:
			two := pickDistinct(r, contentCat.relics, 2)
			rels = append(rels, mk(two[0], 4))
			if len(two) > 1 {
				rels = append(rels, mk(two[1], 2))
			}
		}
	}
	energy := term.Pick(r, []int{0, 0, int(cfg.MaxEnergy / 2), int(cfg.MaxEnergy), int(cfg.MaxEnergy) + 50})
	hp := term.Pick(r, []int{100, 100, 100, 50, 1})
	if o.showcase && k == o.forceChar {
		ev := term.Pick(r, evaluators)
		frag := fmt.Sprintf("set_default_action(%s, attack(%s)); register_skill_cb(%s, fn () { return skill(%s); }); "+
			"register_ult_cb(%s, fn () { return ult(%s); });", k, ev, k, ev, k, ev)
		return term.C("Ch", term.S(k), term.I(int64(lvl)), term.I(int64(maxLvl)), term.I(int64(r.Intn(7))),
			term.L(traces...),
			term.I(int64(r.Range(1, 9))), term.I(int64(r.Range(1, 15))), term.I(int64(r.Range(1, 15))), term.I(int64(r.Range(1, 15))),
			term.C("LC", term.S(cone), term.I(int64(clvl)), term.I(int64(cmax)), term.I(int64(r.Range(1, 5)))),
			term.L(rels...), term.I(int64(cfg.MaxEnergy)), term.I(100), term.S(frag))
	}
	return term.C("Ch", term.S(k), term.I(int64(lvl)), term.I(int64(maxLvl)), term.I(int64(r.Intn(7))),
		term.L(traces...),
		term.I(int64(r.Range(1, 9))), term.I(int64(r.Range(1, 15))), term.I(int64(r.Range(1, 15))), term.I(int64(r.Range(1, 15))),
		term.C("LC", term.S(cone), term.I(int64(clvl)), term.I(int64(cmax)), term.I(int64(r.Range(1, 5)))),
		term.L(rels...), term.I(int64(energy)), term.I(int64(hp)), term.S(genFragment(r, k, o.team)))
}

func genEnemy(r *term.Rng, contentCat *catalogs) term.T {
	k := "dummy"
	if len(contentCat.enemies) > 0 {
		k = term.Pick(r, contentCat.enemies)
	}
	lvl := term.Pick(r, []int{1, 10, 50, 80, 90, 95})
	if r.Bool() {
		lvl = r.Range(1, 95)
	}
	hp := term.Pick(r, []int{1, 50, 300, 2000, 100000})
	atk := term.Pick(r, []int{1, 18, 500, 20000})
	spd := term.Pick(r, []int{40, 100, 100, 160, 300})
	ws := []term.T{}
	for d := 1; d <= 7; d++ {
		if r.Chance(1, 3) {
			ws = append(ws, term.I(int64(d)))
		}
	}
	return term.C("En", term.S(k), term.I(int64(lvl)), term.I(int64(hp)), term.I(int64(atk)), term.I(int64(spd)),
		term.S(term.Pick(r, attackKinds)), term.I(int64(term.Pick(r, []int{1, 2, 3, 0, 0}))), term.I(int64(term.Pick(r, []int{0, 50, 100, 400}))),
		term.S(term.Pick(r, damageTypes)), term.L(ws...),
		// rank override: every model.EnemyRank incl. the rare ones (0 = keep the enemy's own rank);
		// toughness small enough to be broken within a few hits (0 = none given)
		term.I(int64(term.Pick(r, []int{0, 0, 1, 2, 3, 4}))), term.I(int64(term.Pick(r, []int{0, 0, 10, 30, 90, 300}))))
}

func genSpec(r *term.Rng, o genOpts) term.T {
	contentCat := getCatalogs()
	if o.maxChars == 0 {
		o.maxChars = 4
	}
	if o.maxCycles == 0 {
		o.maxCycles = 4
	}
	n := r.Range(1, o.maxChars)
	team := []string{}
	if o.forceChar != "" {
		team = append(team, o.forceChar)
	}
	pool := contentCat.chars
	for len(team) < n {
		k := term.Pick(r, pool)
		dup := false
		for _, t := range team {
			if t == k {
				dup = true
			}
		}
		if !dup {
			team = append(team, k)
		}
	}
	// the forced character is not always first in the line-up
	if len(team) > 1 && r.Bool() {
		j := r.Intn(len(team))
		team[0], team[j] = team[j], team[0]
	}
	chars := []term.T{}
	o.team = team
	for _, k := range team {
		chars = append(chars, genChar(r, contentCat, k, o))
	}
	enemies := []term.T{}
	for i, ne := 0, r.Range(1, 5); i < ne; i++ {
		enemies = append(enemies, genEnemy(r, contentCat))
	}
	if o.showcase {
		enemies = enemies[:0]
		ne := r.Range(2, 4)
		frail := r.Intn(ne)
		for i := 0; i < ne; i++ {
			_, e := term.Ctor(genEnemy(r, contentCat))
			e = append([]term.T{}, e...)
			if i == frail {
				e[1], e[2] = term.I(1), term.I(int64(term.Pick(r, []int{1, 5}))) // level 1, HP 1 or 5
			} else {
				e[2] = term.I(100000)
			}
			enemies = append(enemies, term.C("En", e...))
		}
	}
	cycles := r.Range(1, o.maxCycles)
	if r.Chance(1, 12) {
		cycles = 0
	}
	if r.Chance(1, 40) {
		cycles = -1 // a configuration without a settings section
	}
	seed := int64(r.U64() >> 2)
	prelude := ""
	if r.Chance(1, 4) {
		prelude = "let turns = 0;"
	}
	if r.Chance(1, 6) {
		// a script may assign to any visible name, also to a built-in constant: that is a global of THIS
		// run's evaluator and must not be seen by any other run of the process
		prelude += " " + term.Pick(r, []string{"STATUS_BUFF = STATUS_DEBUFF;", "STATUS_DEBUFF = STATUS_BUFF;", "STATUS_BUFF = 0;"})
		prelude = strings.TrimSpace(prelude)
	}
	return term.C("RS", term.L(chars...), term.L(enemies...), term.I(int64(cycles)), term.S(prelude), term.I(seed))
}

func specTeam(spec term.T) []string {
	_, a := term.Ctor(spec)
	out := []string{}
	for _, ct := range term.List(a[0]) {
		_, c := term.Ctor(ct)
		out = append(out, term.Str(c[0]))
	}
	return out
}
