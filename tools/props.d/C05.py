CONFIG = {
    "id": "C05",
    "coq_targets": ["Model/StackingExpected.v", "Gen/StackingTable.v", "Model/StackingInterp.v", "Proofs/StackingTableProofs.v",
                    "Props/C05.v", "Model/ModifierCheck.v"],
    "prop_files": ["Props/C05.v"],
    "gen": ["StackingTable"],
    "components": [{
        "name": "modifier", "modules": ["Model.Modifier", "Model.ModifierCheck"],
        "check": "check_case", "monitor": "monitor_case", "model_out": "model_out",
        "case_type": "case",
        "ops_path": [3],            # input = (world, seed, depth, ops)
        "n_quick": 1200, "n_thorough": 20000, "shard": 100,
    }],
    "rule": "per case a catalog of 2-5 modifier configs (every stacking behaviour x tick moment x duration/count/"
            "max-count/count-add defaults x status type x dispellable x resist flag, each listener kind with a script of "
            "0-2 engine calls: add / remove / remove-from-source / remove-self / dispel / extend duration / extend count "
            "on owner, source or a fixed unit), registered under case-unique names with the real modifier.Register; "
            "3 units with effect-hit-rate / effect-res / debuff-res from a small pool; listener nesting depth 0-3; "
            "5-80 operations on the real modifier.NewManager over a fake engine: AddModifier (chance/resist path through "
            "a splitmix64 rand.Source; duration/count/max/count-add from small pools incl. 0 and -1; invalid target or "
            "source; unregistered name), RemoveModifier, RemoveModifierFromSource, Instance.RemoveSelf through a handle, "
            "DispelStatus first/last/random/invalid with counts 0,1,2,-1,5, ExtendDuration (-2..3), ExtendCount "
            "(-3..10), Tick at every phase (whole turns and single phases) - names, units and sources from pools of "
            "2-5 / 3 / 3 so that collisions are the norm. Compared after EVERY operation: result, the full attached "
            "list of every unit (instance tag, name, source, count, duration, in order) and the ordered stream of "
            "listener invocations and Modifier{Added,Resisted,Removed,Dispelled,ExtendedDuration,ExtendedCount} events "
            "with all fields (floats bit-exact). A case is non-trivial when distinct as an input term.",
    "trusted": [
        "stacking / removal / expiry logic, TRANSLATED from the Go source on every run (go2coq StackingTable -> Gen/StackingTable.v; "
        "step types Model/SimSkeleton.v; pinned table Model/StackingExpected.v; interpreter Model/StackingInterp.v; "
        "Proofs/StackingTableProofs.v; theorem C05_stacking_is_the_source): EVERY statement of AddModifier, attemptResist, unique, "
        "replaceBySource, replace, multiple, refresh, prolong, merge, stackCount (add.go), RemoveModifier, RemoveModifierFromSource, "
        "RemoveSelf, DispelStatus (remove.go), Tick, modifierPhaseEnd (tick.go) as an ordered step with lookup guards, count / "
        "duration updates, early returns and emit calls as normalised source text, plus the values of the stacking / tick-moment / "
        "phase constants; no statement is skipped, a statement or a nested effectful call outside the recognised shapes makes the "
        "translator fail closed. PINNED (table = hand-written expected table, reflexivity): all 16 functions. INTERPRETED (run over "
        "the model's own instance record / state and proved equal to the model for all inputs): stackCount = Modifier.stack_count; "
        "the `switch config.Stacking` of AddModifier with the helper it selects (unique, replaceBySource, replace, multiple, "
        "refresh, prolong, merge: lookup predicate, count and duration updates, surviving instance, emitExtendDuration, the "
        "newInstance flag) = Modifier.stack for every world, listener runner, state, unit, behaviour and incoming instance",
        "stacking logic, still HAND-WRITTEN / trusted under the translator tie: the denotation tables of Model/StackingInterp.v (which integer / "
        "predicate / state update a text stands for: `mod.name == instance.name` -> by_name, `.. && mod.source == instance.source` -> "
        "by_name_src, `mod.duration = / += instance.duration` -> upd .. w_dur, `mgr.targets[target][i] = instance` -> replace_first, "
        "mgr.emitExtendDuration -> emit_extdur, the append -> Modifier.append) and its reading of `range .. { if guard { .. return } }` "
        "as find_first; PINNED ONLY (their meaning as Modifier.add / attempt_resist / remove_by / remove_self / dispel / tick / "
        "phase_end, named per function in Model/StackingExpected.v, stays tied by correspondence): attemptResist, AddModifier around "
        "the switch, RemoveModifier, RemoveModifierFromSource, RemoveSelf, DispelStatus, Tick, modifierPhaseEnd; NOT translated: "
        "dispelIDs, newInstance, itr and the emit helpers",
        "stack counts are modelled as integers (the harness uses integral float64 counts below 2^53, for which "
        "float64 addition and comparison are exact; a non-integral count observed on the implementation is a mismatch)",
        "math/rand is modelled (Float64, int31n, Shuffle transcribed from Go 1.23 over a splitmix64 source supplied by the "
        "harness); the theorems do not depend on which instances a RANDOM dispel picks",
        "Go slices of *Instance are modelled as lists of tags into a heap of instance records; the listener scripts of "
        "the harness catalog stand for 'any listener code' (engine calls on owner/source/fixed units, nested to a depth bound)",
    ],
    "assumptions": [
        "listeners act through the manager API (add, remove, dispel, extend, RemoveSelf); they do not call Tick",
        "the order clauses identify an attached instance by its attachment slot: a Replace/ReplaceBySource puts the "
        "incoming instance into the slot of the one it swaps out, which leaves without an announcement (as documented)",
    ],
    "manifest": {
        "level_text": "Kernel-checked theorems over an executable Gallina model of the modifier manager (attached lists "
                      "as tag lists into an instance heap, listener scripts as data, any nesting depth), tied to the Go "
                      "code by exact correspondence of attached lists and event streams after every operation.",
        "level_note": "go2coq StackingTable translator (add.go, remove.go, tick.go -> step table) + pinned table "
                      "Model/StackingExpected.v + interpreter Model/StackingInterp.v (stackCount = Modifier.stack_count, switch + helpers = Modifier.stack); "
                      "Coq kernel; hand-written model Model/Modifier.v; correspondence harness over the real "
                      "modifier.NewManager; counts restricted to integers; math/rand transcribed.",
        "technique": "Coq proof (transition invariant with counting, induction over listener depth and op lists) + "
                     "model/implementation correspondence + trace monitor",
        "design_ref": "DESIGN.md section 7, C05",
    },
}
