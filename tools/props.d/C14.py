CONFIG = {
    "id": "C14",
    "coq_targets": ["Props/C14.v", "Model/GcsCheck.v"],
    "prop_files": ["Props/C14.v"],
    "gen": [],
    "components": [{
        "name": "gcstree",
        "modules": ["Model.GcsAst", "Model.GcsLex", "Model.GcsParse", "Model.GcsCheck"],
        "check": "check_case", "monitor": "monitor_tree", "model_out": "model_out",
        "case_type": "case",
        "ops_path": None,           # cases are small; an expected tree would not survive dropping chunks
        # one shard: the generator enumerates (first 721 cases = every expression over one operator per
        # precedence level to depth 2) and queues ALL single-token deletions of each small program
        "n_quick": 1400, "n_thorough": 24000, "shard": 3000,
    }],
    "rule": "721 expressions enumerated exhaustively (identifier leaves; unary minus; one binary operator per precedence "
            "level plus both additive ones; calls) to operator depth 2, depth-3 combinations sampled; random programs to "
            "depth 7 over every statement form (let, assign, return, break/continue/fallthrough, if/else chains, while, "
            "for with optional init/cond/post, switch with cases and default, fn declarations, blocks) and every "
            "expression form (13 binary operators, 2 unary, calls, maps with array and field entries, function literals, "
            "numbers incl. int64 limits and floats, strings, true/false/null, non-ASCII identifiers); each with its "
            "expected tree; layouts drawn from spaces, tabs, CR LF, '#' and '//' comments; ALL single-token deletions "
            "of every small program (<= 40 tokens); map entries in arbitrary order; a case is non-trivial when distinct "
            "as an input term",
    "trusted": ["what is proved in Coq (C14_parse_unparse_partial): for the expression fragment (literals, identifiers, "
                "unary operators, the thirteen binary operators at their six precedence levels, calls, parentheses) and every "
                "statement form over it (blocks, let, assignment, return, break/continue/fallthrough, if/else chains, while, "
                "for with optional init/condition/post, switch with optional subject/cases/default, fn declarations): if the "
                "lexer yields the canonical tokens of the program, Parse returns exactly that program; and that the time at "
                "which tokens are pulled from the lexer does not matter (C14_prefetch_invariance)",
                "covered by correspondence and monitors only (not by a theorem): map literals and function literals; layout "
                "independence of the lexer (the monitor requires the real lexer to return the canonical tokens for every "
                "generated layout of spaces, tabs, CR LF, '#' and '//' comments); soundness, i.e. rejection of every "
                "non-derivable token sequence (the monitor checks with the tree-directed recogniser derives_b of "
                "Model/GcsSpec.v that whatever the real parser accepts - valid program or single-token deletion - is a "
                "derivation of the returned tree)",
                "the grammar itself is Model/GcsSpec.v (unparse_*, derives_b); the Go-side generator's token sequences are "
                "cross-checked against unparse_program on every case that carries an expected tree",
                "strconv.ParseInt/ParseFloat modelled exactly in Model/GcsNum.v and corresponded"],
    "assumptions": ["tokens are separated by at least one white-space character or comment beginning with white space (the "
                    "lexer's identifier terminator set makes 'a*b' an error and 'a-b' one identifier)"],
    "manifest": {
        "level_text": "Kernel-checked theorems over the executable Gallina model of the Pratt parser (same precedence table, "
                      "same prefix/infix registration, same loops as parse.go): the parser returns exactly the tree whose "
                      "canonical token sequence it is given, for the expression fragment and every statement form, end to end "
                      "through Parse; map and function literals, layouts and all single-token deletions are tied by "
                      "exact tree correspondence and a derivability monitor on the real parser.",
        "level_note": "Coq kernel; staged: expressions and all statement forms proved (completeness), map/function literals, "
                      "lexer layout and soundness by correspondence + monitor (theorem named ..._partial).",
        "technique": "Coq proof (left-spine decomposition of canonical token sequences, strong induction on tree size, "
                     "simulation between lazy and prefetched token supply) + model/implementation correspondence",
        "design_ref": "DESIGN.md section 7, C14",
    },
}
