(* C14: layout independence (Proofs/GcsLayout.v) composed with the round trip of the whole
   language (Proofs/GcsMapFn.v): however the canonical tokens of a well-formed program are spelled
   (any numeral with the right value) and laid out (any white space and comments that keep the
   tokens apart), parse.New(src).Parse() - the model [parse_bytes] - returns exactly that program.

   [unparse_balanced]: the canonical token sequence of a well-formed program never closes a bracket
   it has not opened, so the bracket-depth side condition of the layout theorem is met by every
   program and disappears from the composed statement. *)
From Coq Require Import List ZArith Bool String Ascii Lia Floats.
From SR Require Import Base.CaseLib Model.GcsAst Model.GcsUnicode Model.GcsLex Model.GcsNum
  Model.GcsParse Model.GcsSpec Proofs.GcsLexProofs Proofs.GcsRoundTrip Proofs.GcsStmtRoundTrip
  Proofs.GcsStmtSize Proofs.GcsC14Proofs Proofs.GcsMapFn Proofs.GcsLayout.
Import ListNotations.
Open Scope Z_scope.

(* ---- a canonical token against a lexeme ---- *)
Definition tok_of (x : lexeme) : ltoken := LT (lx_typ x) 0 (lx_txt x) 0.
Definition Umatch_lx (u : utok) (x : lexeme) : Prop := Umatch u (tok_of x).
Definition spells (us : list utok) (lxs : list lexeme) : Prop := Forall2 Umatch_lx us lxs.

Lemma Umatch_lx_of : forall u t, Umatch_lx u (lx_of t) <-> Umatch u t.
Proof. intros [k v|i f s] t; unfold Umatch_lx, tok_of, lx_of, Umatch; cbn; tauto. Qed.

Lemma spells_Umatches : forall us ts, spells us (map lx_of ts) -> Umatches us ts.
Proof.
  intros us ts. revert us. induction ts as [|t ts IH]; intros us H; inversion H; subst; constructor.
  - apply Umatch_lx_of. assumption.
  - apply IH. assumption.
Qed.

Lemma lexes_exactly_to : forall bs lxs nodes, lexes_exactly bs lxs ->
  spells (flat_map unparse_node nodes) lxs -> lexes_to bs nodes.
Proof.
  intros bs lxs nodes (ts & teof & E & Em & Ht) Hs. exists ts, teof. split; [exact E|]. split; [|exact Ht].
  apply spells_Umatches. rewrite Em. exact Hs.
Qed.

(* ---- with the bracket depth as a side condition ---- *)
Lemma layout_parse_depth : forall nodes items f,
  xwf_program nodes -> spells (flat_map unparse_node nodes) (map snd items) ->
  layout_ok items f = true -> depth_ok (0, 0, 0) (map snd items) = true ->
  r_out (parse_bytes (render items f)) = OProgram (Block nodes).
Proof.
  intros nodes items f Hwf Hsp Hlay Hdep. apply C14_full_holds; [exact Hwf|].
  apply (lexes_exactly_to _ (map snd items)); [|exact Hsp]. apply C14_layout_holds; assumption.
Qed.

(* ---- the canonical tokens of a well-formed tree are bracket-balanced ---- *)
Definition ustep (d : Z * Z * Z) (u : utok) : option (Z * Z * Z) :=
  match u with UT k _ => dstep d k | UNum _ _ _ => Some d end.
Fixpoint urun (d : Z * Z * Z) (us : list utok) : option (Z * Z * Z) :=
  match us with
  | [] => Some d
  | u :: r => match ustep d u with Some d' => urun d' r | None => None end
  end.
Definition nonneg (d : Z * Z * Z) : Prop := let '(a, b, c) := d in 0 <= a /\ 0 <= b /\ 0 <= c.
Definition Bal (us : list utok) : Prop := forall d, nonneg d -> urun d us = Some d.

Definition plain (k : toktype) : bool :=
  match k with
  | ItemLeftParen | ItemRightParen | ItemLeftSquareParen | ItemRightSquareParen | ItemLeftBrace | ItemRightBrace => false
  | _ => true
  end.
Lemma dstep_of_plain : forall d k, plain k = true -> dstep d k = Some d.
Proof. intros [[a b] c] k H. destruct k; try discriminate H; reflexivity. Qed.

Lemma urun_app : forall a b d, urun d (a ++ b) = match urun d a with Some d' => urun d' b | None => None end.
Proof.
  induction a as [|u a IH]; intros b d; [reflexivity|]. cbn [app urun]. destruct (ustep d u); [apply IH|reflexivity].
Qed.
Lemma Bal_nil : Bal [].
Proof. intros d _. reflexivity. Qed.
Lemma Bal_app : forall a b, Bal a -> Bal b -> Bal (a ++ b).
Proof. intros a b Ha Hb d Hd. rewrite urun_app, (Ha d Hd). apply Hb. exact Hd. Qed.
Lemma Bal_plain : forall k v, plain k = true -> Bal [UT k v].
Proof. intros k v H d _. cbn [urun ustep]. rewrite (dstep_of_plain d k H). reflexivity. Qed.
Lemma Bal_num : forall i f s, Bal [UNum i f s].
Proof. intros i f s d _. reflexivity. Qed.
Lemma Bal_cons : forall k v us, plain k = true -> Bal us -> Bal (UT k v :: us).
Proof. intros k v us H Hb. apply (Bal_app [UT k v] us); [apply Bal_plain; exact H|exact Hb]. Qed.

Lemma Bal_wrap : forall (w : nat) us, Bal us ->
  Bal (match w with
       | O => UT ItemLeftParen "(" :: us ++ [UT ItemRightParen ")"]
       | S O => UT ItemLeftSquareParen "[" :: us ++ [UT ItemRightSquareParen "]"]
       | _ => UT ItemLeftBrace "{" :: us ++ [UT ItemRightBrace "}"]
       end).
Proof.
  intros w us Hb [[a b] c] (Ha & Hb' & Hc). destruct w as [|[|w]]; cbn [urun ustep dstep]; rewrite urun_app.
  - rewrite (Hb (a + 1, b, c)) by (cbn; lia). cbn [urun ustep dstep].
    replace (a + 1 - 1 <? 0) with false by (symmetry; apply Z.ltb_ge; lia). repeat f_equal; lia.
  - rewrite (Hb (a, b + 1, c)) by (cbn; lia). cbn [urun ustep dstep].
    replace (b + 1 - 1 <? 0) with false by (symmetry; apply Z.ltb_ge; lia). repeat f_equal; lia.
  - rewrite (Hb (a, b, c + 1)) by (cbn; lia). cbn [urun ustep dstep].
    replace (c + 1 - 1 <? 0) with false by (symmetry; apply Z.ltb_ge; lia). repeat f_equal; lia.
Qed.
Lemma Bal_paren : forall us, Bal us -> Bal (LP :: us ++ [RP]).
Proof. intros us H. apply (Bal_wrap 0 us H). Qed.
Lemma Bal_square : forall us, Bal us -> Bal (UT ItemLeftSquareParen "[" :: us ++ [UT ItemRightSquareParen "]"]).
Proof. intros us H. apply (Bal_wrap 1 us H). Qed.
Lemma Bal_brace : forall us, Bal us -> Bal (UT ItemLeftBrace "{" :: us ++ [UT ItemRightBrace "}"]).
Proof. intros us H. apply (Bal_wrap 2 us H). Qed.

Lemma Bal_paren_if : forall m e us, Bal us -> Bal (paren_if m e us).
Proof. intros m e us H. unfold paren_if. destruct (m <? level e); [exact H|apply Bal_paren; exact H]. Qed.

Lemma Bal_sep_by : forall ls, (forall x, In x ls -> Bal x) -> Bal (sep_by COMMA ls).
Proof.
  induction ls as [|x ls IH]; intros H; [apply Bal_nil|].
  destruct ls as [|y ls]; [apply H; left; reflexivity|].
  change (sep_by COMMA (x :: y :: ls)) with (x ++ COMMA :: sep_by COMMA (y :: ls)).
  apply Bal_app; [apply H; left; reflexivity|]. apply Bal_cons; [reflexivity|].
  apply IH. intros z Hz. apply H. right. exact Hz.
Qed.
Lemma Bal_flat_map : forall (A : Type) (f : A -> list utok) l, (forall x, In x l -> Bal (f x)) -> Bal (flat_map f l).
Proof.
  intros A f. induction l as [|x l IH]; intros H; [apply Bal_nil|]. cbn [flat_map].
  apply Bal_app; [apply H; left; reflexivity|apply IH; intros y Hy; apply H; right; exact Hy].
Qed.

Lemma Bal_uparams : forall args, Bal (uparams args).
Proof.
  intros args. unfold uparams. apply Bal_paren. apply Bal_sep_by. intros x Hx.
  apply in_map_iff in Hx. destruct Hx as (a & <- & _). apply Bal_plain. reflexivity.
Qed.

Lemma x_all_nodes_In : forall l y, x_all_nodes l -> In y l -> xwf_node y.
Proof.
  induction l as [|x l IH]; intros y H Hin; [destruct Hin|]. cbn [x_all_nodes] in H. destruct H as [Hx Hl].
  destruct Hin as [->|Hin]; [exact Hx|apply IH; assumption].
Qed.

Lemma binop_plain : forall k, is_binop k = true -> plain k = true.
Proof. intros k H. destruct k; try discriminate H; reflexivity. Qed.
Lemma unop_plain : forall k, is_unop k = true -> plain k = true.
Proof. intros k H. destruct k; try discriminate H; reflexivity. Qed.
Lemma ident_plain : forall id, is_ident_tok id -> plain (t_typ id) = true.
Proof. intros id H. unfold is_ident_tok in H. rewrite H. reflexivity. Qed.

Theorem unparse_bal : forall k,
  (forall e, (xesize e <= k)%nat -> xfrag e -> Bal (unparse_expr e)) /\
  (forall x, (xndsize x <= k)%nat -> xwf_node x -> Bal (unparse_node x)).
Proof.
  induction k as [|k [IHe IHn]].
  - split; [intros e Hk; pose proof (xsize_pos e); lia|intros x Hk; pose proof (xndsize_pos x); lia].
  - assert (HsubE : forall e, (xesize e < S k)%nat -> xfrag e -> Bal (unparse_expr e)) by (intros e He; apply IHe; lia).
    assert (Hsub : forall y, (xndsize y < S k)%nat -> xwf_node y -> Bal (unparse_node y)) by (intros y Hy; apply IHn; lia).
    assert (Hnodes : forall l, (list_sum (map xndsize l) < S k)%nat -> x_all_nodes l -> Bal (flat_map unparse_node l)).
    { intros l Hb Hl. apply Bal_flat_map. intros y Hy. apply Hsub; [|apply (x_all_nodes_In l); assumption].
      pose proof (In_sum xndsize l y Hy). lia. }
    assert (Hblk : forall b, (xbsize b < S k)%nat -> xwf_block b -> Bal (unparse_block b)).
    { intros [|l] Hb Hl; [contradiction|]. rewrite xwf_block_nodes in Hl. cbn [unparse_block]. apply Bal_brace.
      apply Hnodes; [cbn [xbsize] in Hb; lia|exact Hl]. }
    split.
    + intros e Hk Hf.
      destruct e; try (cbn [xfrag] in Hf; contradiction); cbn [unparse_expr].
      * apply Bal_num.
      * apply Bal_plain; reflexivity.
      * apply Bal_plain; reflexivity.
      * (* function literal *)
        cbn [xfrag] in Hf. destruct Hf as [_ Hwb]. cbn [xesize] in Hk.
        apply Bal_cons; [reflexivity|]. apply Bal_app; [apply Bal_uparams|apply Hblk; [lia|exact Hwb]].
      * apply Bal_plain; reflexivity.
      * (* call *)
        rewrite xfrag_call in Hf. destruct Hf as [Hf1 Hf2]. cbn [xesize] in Hk.
        apply Bal_app; [apply Bal_paren_if; apply HsubE; [lia|exact Hf1]|].
        apply Bal_paren. apply Bal_sep_by. intros x Hx. apply in_map_iff in Hx. destruct Hx as (a & <- & Ha).
        apply HsubE; [pose proof (In_sum xesize args a Ha); lia|apply (x_all_exprs_In args); assumption].
      * (* unary *)
        cbn [xfrag] in Hf. destruct Hf as [Hop Hf]. cbn [xesize] in Hk.
        unfold utok_of. apply Bal_cons; [apply unop_plain; exact Hop|]. apply Bal_paren_if. apply HsubE; [lia|exact Hf].
      * (* binary *)
        cbn [xfrag] in Hf. destruct Hf as (Hop & Hf1 & Hf2). cbn [xesize] in Hk. cbv zeta.
        apply Bal_app; [apply Bal_paren_if; apply HsubE; [lia|exact Hf1]|].
        unfold utok_of. apply Bal_cons; [apply binop_plain; exact Hop|]. apply Bal_paren_if. apply HsubE; [lia|exact Hf2].
      * (* map literal *)
        rewrite xfrag_map in Hf. destruct Hf as (Hfa & Hff & _). rewrite xesize_map in Hk.
        apply Bal_square. apply Bal_sep_by. intros x Hx. apply in_app_or in Hx. destruct Hx as [Hx|Hx].
        -- apply in_map_iff in Hx. destruct Hx as (a & <- & Ha).
           apply HsubE; [pose proof (In_sum xesize arr a Ha); lia|apply (x_all_exprs_In arr); assumption].
        -- apply in_map_iff in Hx. destruct Hx as ([k0 v] & <- & Hin).
           apply Bal_cons; [reflexivity|]. apply Bal_cons; [reflexivity|].
           pose proof (In_sum fsize fields (k0, v) Hin) as Hs. cbn [fsize] in Hs.
           apply HsubE; [lia|apply (x_all_fields_In fields k0 v Hff Hin)].
    + intros x Hk Hw. destruct x as [e|st]; cbn [xwf_node] in Hw.
      * cbn [xndsize unparse_node] in Hk |- *. pose proof (HsubE e ltac:(lia) Hw) as H.
        apply Bal_app; [|apply Bal_plain; reflexivity]. destruct (starts_fn e); [apply Bal_paren; exact H|exact H].
      * destruct st as [ |b|id v|id v|v|t|c b els|cnd cases def|c0|fv args body|c b|init cond post body];
          try (cbn [xwf_stmt] in Hw; contradiction); cbn [xndsize xssize] in Hk; cbn [unparse_node unparse_stmt].
        -- cbn [xwf_stmt] in Hw. apply Hblk; [lia|exact Hw].
        -- cbn [xwf_stmt] in Hw. destruct Hw as [Hid Hf]. apply Bal_app; [|apply Bal_plain; reflexivity].
           unfold utok_of. apply Bal_cons; [apply ident_plain; exact Hid|]. apply Bal_cons; [reflexivity|]. apply HsubE; [lia|exact Hf].
        -- cbn [xwf_stmt] in Hw. destruct Hw as [Hid Hf]. apply Bal_app; [|apply Bal_plain; reflexivity].
           apply Bal_cons; [reflexivity|]. unfold utok_of. apply Bal_cons; [apply ident_plain; exact Hid|].
           apply Bal_cons; [reflexivity|]. apply HsubE; [lia|exact Hf].
        -- cbn [xwf_stmt] in Hw. apply Bal_app; [|apply Bal_plain; reflexivity].
           apply Bal_cons; [reflexivity|]. apply HsubE; [lia|exact Hw].
        -- cbn [xwf_stmt] in Hw. apply Bal_app; [|apply Bal_plain; reflexivity].
           destruct t; try contradiction; cbn [ctrl_tok]; apply Bal_plain; reflexivity.
        -- cbn [xwf_stmt] in Hw. destruct Hw as (Hfc & Hwb & Hwe).
           apply Bal_cons; [reflexivity|]. apply Bal_app; [apply HsubE; [lia|exact Hfc]|].
           apply Bal_app; [apply Hblk; [lia|exact Hwb]|].
           destruct els as [ |eb|? ?|? ?|?|?|ec eb2 ee|? ? ?|?|? ? ?|? ?|? ? ? ?]; try contradiction.
           ++ apply Bal_nil.
           ++ apply Bal_cons; [reflexivity|].
              change (unparse_stmt (SBlock eb)) with (unparse_node (NStmt (SBlock eb))).
              apply Hsub; [cbn [xndsize xssize] in *; lia|exact Hwe].
           ++ apply Bal_cons; [reflexivity|].
              change (unparse_stmt (SIf ec eb2 ee)) with (unparse_node (NStmt (SIf ec eb2 ee))).
              apply Hsub; [cbn [xndsize] in *; lia|exact Hwe].
        -- (* switch *)
           rewrite xwf_switch in Hw. destruct Hw as (Hc & Hwc & Hd).
           apply Bal_cons; [reflexivity|].
           apply Bal_app; [destruct Hc as [->|Hc]; [apply Bal_nil|apply HsubE; [lia|exact Hc]]|].
           match goal with |- Bal (_ :: ?a ++ ?b ++ _) => rewrite (app_assoc a b) end.
           apply Bal_brace. apply Bal_app.
           ++ assert (Hlt : (list_sum (map xcsize cases) < S k)%nat) by lia. clear Hk Hc Hd.
              induction cases as [|[cc bb] cases IHc]; [apply Bal_nil|].
              destruct Hwc as [[Hfcc Hwbb] Hwr]. destruct bb as [|l]; [contradiction|]. rewrite xwf_block_nodes in Hwbb.
              cbn [map list_sum fold_right xcsize xbsize] in Hlt. fold (list_sum (map xcsize cases)) in Hlt.
              cbn [flat_map unparse_case]. apply Bal_app; [|apply IHc; [exact Hwr|lia]].
              apply Bal_cons; [reflexivity|]. apply Bal_app; [apply HsubE; [lia|exact Hfcc]|].
              apply Bal_cons; [reflexivity|]. apply Hnodes; [lia|exact Hwbb].
           ++ destruct def as [|l]; [apply Bal_nil|].
              destruct Hd as [Hd|Hd]; [discriminate|]. rewrite xwf_block_nodes in Hd.
              apply Bal_cons; [reflexivity|]. apply Bal_cons; [reflexivity|].
              apply Hnodes; [cbn [xbsize] in Hk; lia|exact Hd].
        -- cbn [xwf_stmt] in Hw. destruct Hw as (Hid & Hdup & Hwb).
           apply Bal_cons; [reflexivity|]. unfold utok_of. apply Bal_cons; [apply ident_plain; exact Hid|].
           apply Bal_app; [apply Bal_uparams|apply Hblk; [lia|exact Hwb]].
        -- cbn [xwf_stmt] in Hw. destruct Hw as (Hfc & Hwb).
           apply Bal_cons; [reflexivity|]. apply Bal_app; [apply HsubE; [lia|exact Hfc]|apply Hblk; [lia|exact Hwb]].
        -- rewrite xwf_for in Hw. destruct Hw as (Hparts & Hwb).
           apply Bal_cons; [reflexivity|].
           destruct Hparts as [(-> & -> & ->)|(Hfc & Hini & Hpost)].
           ++ cbn [unparse_expr app]. apply Hblk; [cbn [xssize xesize] in Hk; lia|exact Hwb].
           ++ apply Bal_app.
              { destruct init; try contradiction; cbn [xsimple_init] in Hini.
                - apply Bal_nil.
                - change (unparse_stmt (SAssign id v) ++ [SEMI]) with (unparse_node (NStmt (SAssign id v))).
                  apply Hsub; [cbn [xndsize xssize] in *; lia|exact Hini].
                - change (unparse_stmt (SLet id v) ++ [SEMI]) with (unparse_node (NStmt (SLet id v))).
                  apply Hsub; [cbn [xndsize xssize] in *; lia|exact Hini]. }
              apply Bal_app; [apply HsubE; [lia|exact Hfc]|].
              apply Bal_app; [|apply Hblk; [lia|exact Hwb]].
              destruct post; try contradiction; cbn [xsimple_post] in Hpost.
              { apply Bal_nil. }
              { destruct Hpost as [Hid Hf]. apply Bal_cons; [reflexivity|]. cbn [unparse_stmt]. unfold utok_of.
                apply Bal_cons; [apply ident_plain; exact Hid|]. apply Bal_cons; [reflexivity|].
                apply HsubE; [cbn [xssize] in Hk; lia|exact Hf]. }
Qed.

Lemma program_bal : forall nodes, xwf_program nodes -> Bal (flat_map unparse_node nodes).
Proof.
  intros nodes Hw. apply Bal_flat_map. intros y Hy.
  apply (proj2 (unparse_bal (xndsize y))); [lia|apply (x_all_nodes_In nodes); assumption].
Qed.

Lemma spells_depth : forall us lxs, spells us lxs -> forall d,
  depth_ok d lxs = match urun d us with Some _ => true | None => false end.
Proof.
  intros us lxs H. induction H as [|u x us lxs Hu _ IH]; intros d; [reflexivity|].
  cbn [depth_ok urun].
  assert (E : dstep d (lx_typ x) = ustep d u).
  { destruct u as [k v|i f s]; unfold Umatch_lx, Umatch, tok_of in Hu; cbn [lt_typ lt_val ustep] in *.
    - destruct Hu as [-> _]. reflexivity.
    - destruct Hu as [[-> _]|[-> _]]; destruct d as [[a b] c]; reflexivity. }
  rewrite E. destruct (ustep d u); [apply IH|reflexivity].
Qed.

Theorem unparse_balanced : forall nodes lxs, xwf_program nodes ->
  spells (flat_map unparse_node nodes) lxs -> depth_ok (0, 0, 0) lxs = true.
Proof.
  intros nodes lxs Hw Hs. rewrite (spells_depth _ _ Hs). rewrite (program_bal nodes Hw (0, 0, 0)); [reflexivity|].
  cbn. lia.
Qed.

(* ------------------------------------------------------------------------------------------ *)
(* C14, comments and white space never change the tree                                         *)
(* ------------------------------------------------------------------------------------------ *)
(* For every well-formed program (every statement and expression form, map and function literals
   included), every spelling of its canonical tokens ([spells]: operators, keywords, identifiers
   and strings as they stand, a number by any numeral or true/false with that value), and every
   layout - any separators made of spaces, tabs, CR, LF, '#' comments and '//' comments before,
   between and after the tokens, such that each token is a text the lexer produces for it and
   is followed by a byte that keeps it apart from the next one ([layout_ok]) - Parse returns
   exactly that program. *)
Definition C14_layout_parse_statement : Prop :=
  forall (nodes : list node) (items : list (list litem * lexeme)) (f : tail),
    xwf_program nodes ->
    spells (flat_map unparse_node nodes) (map snd items) ->
    layout_ok items f = true ->
    r_out (parse_bytes (render items f)) = OProgram (Block nodes).

Theorem C14_layout_parse_holds : C14_layout_parse_statement.
Proof.
  intros nodes items f Hwf Hsp Hlay. apply layout_parse_depth; try assumption.
  apply (unparse_balanced nodes); assumption.
Qed.

(* two layouts of the same tokens give the same tree; in particular a layout with comments and the
   plain one-space layout *)
Corollary C14_layouts_agree : forall nodes items1 f1 items2 f2,
  xwf_program nodes ->
  spells (flat_map unparse_node nodes) (map snd items1) -> layout_ok items1 f1 = true ->
  spells (flat_map unparse_node nodes) (map snd items2) -> layout_ok items2 f2 = true ->
  r_out (parse_bytes (render items1 f1)) = r_out (parse_bytes (render items2 f2)).
Proof.
  intros nodes i1 f1 i2 f2 Hw S1 L1 S2 L2.
  rewrite (C14_layout_parse_holds nodes i1 f1 Hw S1 L1), (C14_layout_parse_holds nodes i2 f2 Hw S2 L2). reflexivity.
Qed.

(* ---- non-vacuity: comments of both kinds, CR LF, a tab, tokens glued where the lexer allows it,
        a map literal with a field holding a function literal, a function literal called in an
        expression statement, no newline at the end of the file ---- *)
Definition sp : list litem := [LWs 32].
Definition demoL_items : list (list litem * lexeme) :=
  [ ([LHash (String "032" (String "100" (String "101" (String "109" (String "111" (String "013" EmptyString))))))],
       LX KeywordLet "let"); (sp, LX ItemIdentifier "m"); ([], LX ItemAssign "=");
    ([], LX ItemLeftSquareParen "["); ([], LX ItemNumber "1"); ([], LX ItemComma ","); ([], LX ItemIdentifier "x");
    ([], LX ItemPlus "+"); ([], LX ItemNumber "2"); (sp, LX ItemComma ","); ([], LX ItemIdentifier "k");
    ([], LX ItemAssign "="); (sp, LX KeywordFn "fn"); ([], LX ItemLeftParen "("); ([], LX ItemIdentifier "a");
    ([], LX ItemComma ","); ([], LX ItemIdentifier "b"); ([], LX ItemRightParen ")"); ([], LX ItemLeftBrace "{");
    ([], LX KeywordReturn "return"); (sp, LX ItemIdentifier "a"); (sp, LX ItemAsterisk "*"); ([], LX ItemIdentifier "b");
    ([], LX ItemTerminateLine ";"); ([], LX ItemRightBrace "}"); ([], LX ItemRightSquareParen "]");
    ([], LX ItemTerminateLine ";");
    ([LSlash " map + fn"], LX KeywordIf "if"); (sp, LX ItemIdentifier "m"); ([LWs 9], LX ItemLeftBrace "{");
    ([], LX ItemIdentifier "f"); ([], LX ItemLeftParen "("); ([], LX ItemIdentifier "m"); ([], LX ItemRightParen ")");
    ([], LX ItemTerminateLine ";"); ([], LX ItemRightBrace "}"); ([], LX KeywordElse "else"); (sp, LX ItemLeftBrace "{");
    ([], LX ItemIdentifier "y"); ([], LX ItemAssign "="); (sp, LX ItemNumber "-3.5"); ([], LX ItemTerminateLine ";");
    ([], LX ItemRightBrace "}");
    ([LWs 10], LX ItemLeftParen "("); ([], LX KeywordFn "fn"); ([], LX ItemLeftParen "("); ([], LX ItemRightParen ")");
    ([], LX ItemLeftBrace "{"); ([], LX ItemRightBrace "}"); ([], LX ItemLeftParen "("); ([], LX ItemRightParen ")");
    ([], LX ItemRightParen ")"); ([], LX ItemTerminateLine ";") ].
Definition demoL_tail : tail := ([], Some (true, "end"%string)).

Definition demoL_text : string :=
  String "#" (String " " (String "d" (String "e" (String "m" (String "o" (String "013" (String "010"
  "let m=[1,x+2 ,k= fn(a,b){return a *b;}];// map + fn
if m	{f(m);}else {y= -3.5;}
(fn(){}());#end")))))))%string.

Lemma demoL_source : render demoL_items demoL_tail = string_bytes demoL_text.
Proof. vm_compute. reflexivity. Qed.

Definition demoL_nodes : list node :=
  [ NStmt (SLet (I14 "m")
      (EMap [N14 1 1%float; EBinary (EIdent "x") (N14 2 2%float) (T14 ItemPlus "+")]
            [("k"%string, EFuncLit ["a"%string; "b"%string]
                 (Block [NStmt (SReturn (EBinary (EIdent "a") (EIdent "b") (T14 ItemAsterisk "*")))]))]));
    NStmt (SIf (EIdent "m") (Block [NExpr (ECall (EIdent "f") [EIdent "m"])])
               (SBlock (Block [NStmt (SAssign (I14 "y") (ENum 0 (-3.5)%float true))])));
    NExpr (ECall (EFuncLit [] (Block [])) []) ].

Lemma demoL_wf : xwf_program demoL_nodes.
Proof.
  unfold xwf_program, demoL_nodes, I14, N14, T14.
  cbn [x_all_nodes xwf_node xwf_stmt xwf_block xfrag keys_inc map fst is_ident_tok t_typ is_binop is_unop infix_of
       has_dup existsb orb].
  repeat split; auto; discriminate.
Qed.
Lemma demoL_layout : layout_ok demoL_items demoL_tail = true.
Proof. vm_compute. reflexivity. Qed.
Lemma demoL_spells : spells (flat_map unparse_node demoL_nodes) (map snd demoL_items).
Proof.
  unfold demoL_nodes, demoL_items, I14, N14, T14, spells.
  cbn [flat_map unparse_node unparse_stmt unparse_block unparse_case unparse_expr starts_fn level paren_if
       tok_prec t_typ utok_of uparams uident t_val app sep_by map Z.ltb Z.sub Z.compare Pos.compare
       Pos.compare_cont ctrl_tok snd].
  repeat (first [ apply Forall2_nil | apply Forall2_cons ]);
    unfold Umatch_lx, Umatch, tok_of; cbn [lt_typ lt_val lx_typ lx_txt];
    try (split; reflexivity); try (left; split; [reflexivity|vm_compute; reflexivity]).
Qed.

Theorem demoL_parses : r_out (parse_bytes (string_bytes demoL_text)) = OProgram (Block demoL_nodes).
Proof.
  rewrite <- demoL_source. apply C14_layout_parse_holds; [apply demoL_wf|apply demoL_spells|apply demoL_layout].
Qed.
