import os, subprocess, sys, json


def race_check(ctx):
    """Builds harness/cmd/corr with the race detector (harness/bin/corr_race, CGO needed) and
    pushes generated job lists through the worker pool of the `isolation` component; any
    report of the race detector (exit status 66 / "WARNING: DATA RACE") is a violation."""
    M = sys.modules["__main__"]
    env = dict(M.ENV, CGO_ENABLED="1")
    binp = os.path.join(M.HARNESS, "bin", "corr_race")
    with M.Lock("go"):
        rc, out = M.sh(["go", "build", "-race", "-tags", "verif", "-o", binp, "./cmd/corr"],
                       cwd=M.HARNESS, timeout=1800, env=env)
    if rc != 0:
        raise M.Violation("build", "race-instrumented harness (go build -race, CGO_ENABLED=1) does not build",
                          out[-4000:], True)
    n = 30 if ctx.tier == "quick" else 600
    renv = dict(env, ISO_RACE="1", GORACE="halt_on_error=0 exitcode=66")

    def run(args, inp=None):
        p = subprocess.run([binp, "isolation"] + args, input=inp, stdout=subprocess.PIPE,
                           stderr=subprocess.PIPE, env=renv, timeout=3000)
        err = p.stderr.decode("utf-8", "replace")
        return p.returncode, p.stdout.decode("utf-8", "replace"), err, err.count("WARNING: DATA RACE")

    rc, out, err, races = run(["gen", "-seed", str(ctx.seed * 7919 + 17), "-n", str(n)])
    jobs = 0
    cases = []
    for line in out.split("\n"):
        if line.startswith("{"):
            c = json.loads(line)
            cases.append(c)
            jobs += len(c["in"]["a"][1])
    ctx.notes.append("race detector: %d job lists, %d concurrent runs of simulation.Run in worker pools of 2-4 "
                     "goroutines, %d reports" % (len(cases), jobs, races))
    ctx.obligations.append("race_detector_silent_on_worker_pool")
    if rc == 0 and races == 0:
        if len(cases) != n:
            raise M.Violation("search", "race-instrumented harness produced %d of %d cases" % (len(cases), n),
                              err[-3000:], True)
        ctx.say("  race detector: %d job lists (%d concurrent runs), no report" % (len(cases), jobs))
        return
    # find a single job list that reproduces a report
    for c in cases:
        rc1, _, err1, r1 = run(["run"], (json.dumps({"in": c["in"]}) + "\n").encode())
        if rc1 == 66 or r1:
            payload = {"property": ctx.prop, "kind": "search", "component": "isolation", "seed": ctx.seed,
                       "input": c["in"], "impl_output": c["out"],
                       "race_report": err1[:6000],
                       "meaning": "the Go race detector reports a data race between concurrent simulation.Run calls "
                                  "of the worker pool on this job list",
                       "how_to_replay": "echo '{\"in\": <input>}' | ISO_RACE=1 harness/bin/corr_race isolation run"}
            raise M.Violation("search", "data race between concurrent runs (race detector)", payload)
    raise M.Violation("search", "the race detector reported %d data race(s) between concurrent runs "
                      "(not reproduced on a single job list)" % races, err[:6000], True)


def skipped_share(ctx):
    """Runs that are not deterministic alone are not compared; if there are many of them the
    isolation search is void (e.g. run code started to use the process-wide math/rand)."""
    M = sys.modules["__main__"]
    k = ctx.corr.get("isolation", {}).get("op_kinds", {})
    runs, nd = k.get("runs", 0), k.get("runs_not_deterministic_alone", 0)
    ctx.notes.append("isolation: %d runs, %d not deterministic alone (skipped)" % (runs, nd))
    if runs == 0 or nd * 5 > runs:
        raise M.Violation("search", "%d of %d generated runs differ between two fresh processes: results do not "
                          "depend on (configuration, script, seed) alone, isolation cannot be compared" % (nd, runs),
                          "more than 20% of the generated runs are not deterministic when executed alone in two fresh "
                          "child processes (state outside the run: process-wide random source, clock, environment)",
                          True)


def build_cli(ctx):
    """Builds the command-line program of the tree under test (`go build ./cmd/srsim`, cwd = the
    repository, output harness/bin/srsim) and hands its path to the harness through the
    environment (CORR_SRSIM_BIN): the `clipool` component runs the REAL worker pool of
    cmd/srsim/execute.go in that binary.  Built on every run, so an edit of the pool is in the
    binary that is checked; nothing is written into the repository (-mod=readonly, -buildvcs=false,
    output outside it)."""
    M = sys.modules["__main__"]
    binp = os.path.join(M.HARNESS, "bin", "srsim")
    env = dict(M.ENV, GOFLAGS="-mod=readonly")
    with M.Lock("go"):
        try:
            os.remove(binp)          # never run a binary left over from another tree
        except OSError:
            pass
        rc, out = M.sh(["go", "build", "-buildvcs=false", "-o", binp, "./cmd/srsim"], cwd=M.REPO, timeout=1800, env=env)
    if rc != 0 or not os.path.exists(binp):
        raise M.Violation("build", "the command-line program (go build ./cmd/srsim) does not build", out[-4000:], True)
    # tools/check.py run_corr() starts the harness with check.ENV
    M.ENV["CORR_SRSIM_BIN"] = binp
    # a child that hangs is killed by the component after 120 s (two children per case, run in parallel);
    # the per-case limit of harness/cmd/corr/main.go must not fire first
    M.ENV.setdefault("CORR_CASE_TIMEOUT_S", "300")
    ctx.notes.append("clipool: srsim built from %s (%d bytes)" % (M.REPO, os.path.getsize(binp)))


def srvpool_skipped(ctx):
    """Same bound for the server-mode pool component."""
    M = sys.modules["__main__"]
    k = ctx.corr.get("srvpool", {}).get("op_kinds", {})
    cases, sk = k.get("cases", 0), k.get("reference_failed", 0)
    ctx.notes.append("srvpool: %d cases (%d battles in the real server pool, %d progress reports read), %d without a "
                     "reference (skipped)" % (cases, k.get("jobs", 0), k.get("progress_reports", 0), sk))
    if cases == 0 or sk * 5 > cases:
        raise M.Violation("search", "%d of %d generated server-mode runs have no reference: a job run alone returns an "
                          "error or panics, the real worker pool cannot be compared" % (sk, cases),
                          "more than 20% of the generated configurations fail when their jobs are run alone", True)


def clipool_skipped(ctx):
    """A case whose reference (every job alone, in the harness process) already fails has nothing to
    compare the pool with; if there are many of them the clipool search is void."""
    M = sys.modules["__main__"]
    k = ctx.corr.get("clipool", {}).get("op_kinds", {})
    cases, sk = k.get("cases", 0), k.get("reference_failed", 0)
    ctx.notes.append("clipool: %d cases (%d battles in the real pool), %d without a reference (skipped)" %
                     (cases, k.get("jobs", 0), sk))
    if cases == 0 or sk * 5 > cases:
        raise M.Violation("search", "%d of %d generated command-line runs have no reference: a job run alone returns an "
                          "error or panics, the real worker pool cannot be compared" % (sk, cases),
                          "more than 20% of the generated configurations fail when their jobs are run alone in the harness "
                          "process (simulation.Run with a fresh evaluator)", True)


CONFIG = {
    "id": "C15",
    "coq_targets": ["Props/C15.v", "Model/RunsCheck.v", "Model/CliPoolCheck.v", "Model/SrvPoolCheck.v"],
    "prop_files": ["Props/C15.v"],
    # Gen/Globals.v: package-level variables, writes to them, Register call sites (go2coq Globals)
    "gen": ["Globals"],
    "components": [{
        "name": "isolation", "modules": ["Base.GlobalTypes", "Model.RunSpec", "Model.RunsCheck"],
        "check": "check_case", "monitor": "monitor_case", "model_out": "model_out",
        "case_type": "case",
        # shrinking drops jobs from the order (input term IsoIn runs ORDER workers mode)
        "ops_path": ["a", 1],
        "n_quick": 60, "n_thorough": 1200, "shard": 30,
    }, {
        # the REAL worker pool of cmd/srsim/execute.go, in the srsim binary built by build_cli
        "name": "clipool", "modules": ["Base.GlobalTypes", "Model.RunSpec", "Model.CliPoolCheck"],
        "check": "check_case", "monitor": "monitor_case", "model_out": "model_out",
        "case_type": "case",
        # structural shrinking (characters, enemies, traces, relics of the run description)
        "ops_path": None,
        "mismatch_is_violation": True,
        # every case = 2 child processes x 8-24 battles + the reference (about 0.2 s)
        "n_quick": 12, "n_thorough": 200, "shard": 6,
    }, {
        # the REAL worker pool and sample endpoint of the HTTP server mode (pkg/servermode), in process
        "name": "srvpool", "modules": ["Base.GlobalTypes", "Model.RunSpec", "Model.CliPoolCheck", "Model.SrvPoolCheck"],
        "check": "check_case", "monitor": "monitor_case", "model_out": "model_out",
        "case_type": "case",
        "ops_path": None,
        "mismatch_is_violation": True,
        "n_quick": 12, "n_thorough": 200, "shard": 6,
    }],
    "pre": [build_cli, race_check],
    "post": [skipped_share, clipool_skipped, srvpool_skipped],
    "rule": "a case is a list of 1-3 runs (teams of 1-3 registered characters with generated builds, 1-5 dummy "
            "enemies, generated gcs script, seed; content.go/contentgen.go) and a job order in which every run occurs "
            "at least once and 1-3 extra jobs repeat runs; every run is executed alone in two fresh child processes, "
            "the jobs sequentially in the harness process (after all earlier cases) and through a pool of 2-4 worker "
            "goroutines; compared: status, event count, hash of the full event log (every field of every event), hash "
            "of the iteration result; plus 30 (quick) / 600 (thorough) job lists through the same pool under the Go "
            "race detector; distinct = distinct input term. "
            "clipool: a case is one run description (1-4 registered characters, cycle limit 1-3; seven eighths with "
            "scripts whose ult / skill callbacks keep counters in script variables, call rand(), or assign built-in "
            "constants, most characters starting with full energy, one enemy that outlives the battle), 8-24 iterations and 1-8 workers; the srsim binary "
            "is BUILT FROM THE TREE UNDER TEST on every run (go build ./cmd/srsim) and run twice as "
            "`srsim run --seed S --iterations N --workers W --no-serve --outpath <tmp> <config.json>` (W = 1 and the "
            "generated W), i.e. through the real createPool / worker / start / processWorkerResult of "
            "cmd/srsim/execute.go; reference in the harness process: job seeds drawn as pool.start draws them "
            "(rand.New(rand.NewSource(S)), one Int63 per iteration), every job run ALONE through simulation.Run with a "
            "fresh evaluator, aggregated with simulation.InitializeAggregators / Add / Flush; compared per run: exit "
            "status 0 and, from result.gz, the seed echo, the iteration count, min / max / mean / SD of total damage "
            "dealt, taken and AV, min / max / mean / SD / quartiles / histogram counts of damage per cycle and of every "
            "element of the two per-cycle series and the series' lengths -- bit-exactly, except mean and SD up to 1e-9 "
            "relative to the magnitude of the data (arrival order; C19). "
            "srvpool: the same run descriptions, 8-24 iterations, 1-8 workers, flush interval 0-6, a "
            "settings.iterations in the configuration that is absent / equal / smaller / larger than the requested "
            "count, through the REAL HTTP server mode in the harness process (servermode.New(...).Router.ServeHTTP: "
            "POST /run, polling GET /results, POST /sample before and after, half the cases with a failing sample "
            "request - unknown light cone - first): the process-wide math/rand source the pool draws its job seeds "
            "from is seeded by the harness (rand.Seed, checked to be honoured on every case), so the reference is "
            "every job run alone with those seeds; compared: the final report statistic by statistic as for clipool, "
            "every progress report (count never decreases, never exceeds the request, equals the sum of the "
            "damage-per-cycle histogram), the final count, and the sample endpoint's log against the log of that "
            "run alone written through the same GzipLogger type",
    "trusted": ["the Go memory model is not modelled: interleaving_invariance is about interleavings of atomic steps; "
                "data races are searched for with the Go race detector on the real worker-pool shape, not proved absent",
                "go2coq Globals (go/parser + go/types, own over-approximate call graph: every mention of a function is "
                "an edge, interface calls resolve to every implementing method, calls through function values to every "
                "address-taken function of identical signature) prints the package-level variables and their writes; "
                "writes through an alias after it has been handed out, unsafe, reflection and cgo are not tracked "
                "(hand-outs themselves are rows and are reviewed in Model/GlobalsAllow.v)",
                "the tie between the frame condition of the model and the Go code is the generated table plus the "
                "reviewed allow table Model/GlobalsAllow.v (15 exact rows and one name-prefix rule for protoc-generated descriptors, each with its reason), not a proof about Go semantics",
                "event logs are compared through a canonical reflection printer (every field, maps in key order, floats by "
                "bit pattern); a run whose alone executions in fresh processes differ (2 samples, 10 more before any "
                "difference is reported) is not a function of its input -- property C01's subject -- and is skipped "
                "and counted; the check fails when more than 20% of the runs are skipped",
                "in the concurrent part every run gets the same demultiplexing logger (events routed by emitting "
                "goroutine) because of the known finding on logging.loggers; interference through anything else still "
                "changes the per-run log",
                "clipool: the command-line binary is built from the tree under test by the check itself (pre hook, "
                "go build ./cmd/srsim) and run as a child process; the Go toolchain, the operating system's process "
                "handling and the CLI's own config path (YAML -> JSON -> protojson) and result writer (protojson, gzip) "
                "are trusted to carry the numbers (binary64 values survive protojson's shortest round-trip text "
                "exactly); the reference is computed by the harness from the exported API (simulation.Run, eval.New, "
                "InitializeAggregators / Add / Flush) with the seed rule READ from cmd/srsim/execute.go -- a change of "
                "that rule in the source makes the check fail rather than follow it; per-job results are not visible "
                "from outside the binary, only the aggregated statistics are compared (a defect that changes single "
                "jobs but leaves every compared statistic unchanged is not seen); NOT covered by clipool: the HTTP server pool of "
                "pkg/servermode (component srvpool) and the wasm entry point",
                "srvpool: the server pool draws its job seeds from the process-wide math/rand source; the harness seeds "
                "that source (rand.Seed with //go:debug randseednop=0, verified at run time) and assumes nothing else in "
                "the harness process draws from it while a case runs; the debug seed comes from crypto/rand and is only "
                "checked to be present; progress reports are read while the pool writes them (the server itself does "
                "that): an unreadable progress report is skipped, the final one must be readable; cancel, timeout and "
                "the validate endpoint are not exercised"],
    "assumptions": ["a run's loggers are not shared with a concurrently executing run by the caller (the finding is "
                    "that the engine shares them itself)"],
    "manifest": {
        "category": "proof",
        "level_text": "Kernel-checked theorem over a model of k runs sharing globals (every schedule, any number of "
                      "runs: a run ends where it ends alone if steps read globals only through a part no step writes) "
                      "plus kernel-checked obligations over a table GENERATED from the Go source (every package-level "
                      "variable, every write to one outside init, reachability from the run entry points, every "
                      "Register call site) against a reviewed allow table. What is explored rather than proved: the "
                      "real simulation.Run alone in fresh processes vs. as k-th run vs. in a worker pool (result and "
                      "full event log compared), and the real worker pool under the Go race detector; and the REAL worker pool of the command-line program "
                      "(cmd/srsim/execute.go), in the srsim binary built from the tree under test: its aggregated "
                      "statistics for 8-24 iterations, with 1 and with 1-8 workers, against every job run alone with a "
                      "fresh evaluator ; and the REAL worker pool and sample endpoint of the HTTP server mode (pkg/servermode) in process, with the process-wide random source seeded by the harness. The shared "
                      "logger list is a recorded finding (refuted + partial theorems).",
        "level_note": "Coq kernel (no axioms); go2coq site table with documented over-approximate call graph; Go race "
                      "detector; the Go memory model itself is outside the model.",
        "technique": "Coq proof (induction over schedules; computation over the generated site table) + differential "
                     "search on the implementation (fresh process / sequential / worker pool / the command-line binary's own "
                     "pool against a job-by-job reference) + race detector",
        "design_ref": "DESIGN.md section 7, C15",
    },
}
