(* The interpretation (Model/SimSkeletonInterp.v) of the run-loop skeleton TRANSLATED FROM THE GO SOURCE
   (Gen/RunSkeleton.v) is the run loop of the hand-written model Model/Sim.v:

     per state function   skel_engage, skel_beginTurn, skel_phase1, skel_action, skel_phase2, skel_endTurn:
                          interp_fn .. RunSkeleton.table "<f>" s = the corresponding piece of Sim.one_turn / Sim.phase2 /
                          Sim.start, written with the model's own functions (m_<f> below), for every cfg, fuel, state;
     one turn             run_skeleton_turn_is_one_turn: chaining the state functions from beginTurn until beginTurn is
                          the next state again IS Sim.one_turn (equal outcomes; for an error outcome, equal traces:
                          the Go code has already stored the turn manager's state when it finds StartTurn's answer
                          invalid, the model returns the state before the call);
     battle start         run_skeleton_engage_is_start_drain: engage IS the execute_queue .. true of Sim.start.

   sim.Active is re-read by the interpreter at every use; Sim.one_turn carries the unit's id as a local: the proofs
   use that nothing below beginTurn changes active_id (Proofs/SimActiveFrame.v). *)
From Coq Require Import List ZArith Bool Floats String.
From SR Require Import Base.CaseLib Base.NumOps Model.Turn Model.Sim Model.SimProtocol Model.SimSkeleton Model.SimSkeletonInterp
  Gen.RunSkeleton Proofs.RunSkeletonProofs Proofs.SimActiveFrame.
Import ListNotations.
Open Scope Z_scope.
Open Scope string_scope.

Ltac ev := cbv [interp_fn find_fn body_of expected e_Run e_initialize e_startBattle e_engage e_beginTurn e_phase1 e_action e_phase2 e_endTurn
  fn_name fn_body String.eqb Ascii.eqb Bool.eqb interp_steps interp_step denote_call denote_emit denote_cond denote_bind
  denote_return denote_return_call no_counterpart_call no_counterpart_bind slist_eqb andb orb stance_reset_guard
  phase_before_action_end const_of expected_consts Z.ltb Z.compare Pos.compare Pos.compare_cont flag_of of_outcome
  is_errorf String.prefix regs0 r_ne r_start].

Definition res_of_outcome (nx : string) (o : outcome) : res :=
  match o with Ok s => RGoto nx s | Stop s => RStop s | Err s => RErr s | OutOfFuel => RFuel end.

Section Pieces.
  Variable cfg : config.
  Variable fuel : nat.

  (* the pieces of Sim.start / Sim.one_turn / Sim.phase2, cut where run.go cuts its state functions *)
  Definition m_engage (s : sim) : res := res_of_outcome "beginTurn" (execute_queue cfg fuel s true).

  Definition m_beginTurn (s : sim) : res :=
    let '(t', outs) := Turn.step F (turn s) (@OStart F) in
    match outs with
    | [EStart id av st tot] =>
        if match get_unit (units s) id with Some _ => false | None => true end then RErr (set_turn s t')
        else RGoto "phase1" (emit (set_active (set_turn s t') id)
                                  [VTurnStart id av tot (map (fun x => (fst (fst x), snd (fst x))) st)])
    | _ => RErr (set_turn s t')
    end.

  Definition m_phase1 (s : sim) : res :=
    match run_slot cfg fuel (emit s [VPhase1Start]) LPhase1 (active_id s) (active_id s) with
    | None => RFuel
    | Some s2 =>
        match death_check cfg fuel s2 false with
        | None => RFuel
        | Some s3 =>
            if has_flag s3 (active_id s3) [FLAG_DISABLE_ACTION] then RGoto "phase2" s3
            else if is_enemy s3 (active_id s3) && has_flag s3 (active_id s3) [FLAG_BREAK_EXTEND]
            then RGoto "phase2" (emit s3 [VBreakExtend (active_id s3)])
            else match execute_queue cfg fuel s3 true with
                 | Ok s4 => RGoto "action" (emit s4 [VPhase1End])
                 | Stop x => RStop x | Err x => RErr x | OutOfFuel => RFuel
                 end
        end
    end.

  Definition m_action (s : sim) : res :=
    match execute_action cfg fuel s (active_id s) false with
    | AFuel => RFuel
    | AErr x | ACrash x => RErr x
    | AOk s5 => match death_check cfg fuel s5 false with
                | None => RFuel
                | Some s5' => RGoto "phase2" s5'
                end
    end.

  Definition m_phase2 (s : sim) : res :=
    let '(t2, outs2) := Turn.step F (turn s) (@OReset F) in
    match execute_queue cfg fuel (emit (emit (set_turn s t2) (reset_events outs2)) [VPhase2Start]) false with
    | Ok s6 => match run_slot cfg fuel s6 LPhase2 (active_id s6) (active_id s6) with
               | None => RFuel
               | Some s6' => RGoto "endTurn" (emit s6' [VPhase2End])
               end
    | Stop x => RStop x | Err x => RErr x | OutOfFuel => RFuel
    end.

  Definition m_endTurn (s : sim) : res :=
    match death_check cfg fuel s true with
    | None => RFuel
    | Some s8 => res_of_outcome "beginTurn" (exit_check cfg (emit s8 [VTurnEnd (chars s8) (enemies s8)]))
    end.

  Notation I := (interp_fn cfg expected_consts fuel expected).

  Lemma pin_engage s : I "engage" s = m_engage s.
  Proof. ev. unfold m_engage, res_of_outcome. destruct (execute_queue cfg fuel s true); reflexivity. Qed.

  Lemma pin_beginTurn s : I "beginTurn" s = m_beginTurn s.
  Proof.
    ev. unfold m_beginTurn. destruct (Turn.step F (turn s) (@OStart F)) as [t' outs].
    destruct outs as [|o outs]; [reflexivity|].
    destruct o; try reflexivity. destruct outs; [|reflexivity].
    cbn [units set_turn]. destruct (get_unit (units s) id); reflexivity.
  Qed.

  Lemma pin_phase1 s : I "phase1" s = m_phase1 s.
  Proof.
    ev. unfold m_phase1. cbn [active_id emit].
    destruct (run_slot cfg fuel _ LPhase1 _ _) as [s2|]; [|reflexivity].
    destruct (death_check cfg fuel s2 false) as [s3|]; [|reflexivity].
    change [FLAG_DISABLE_ACTION] with [1]. change [FLAG_BREAK_EXTEND] with [3].
    destruct (has_flag s3 (active_id s3) [1]); [reflexivity|].
    destruct (is_enemy s3 (active_id s3)); cbn [andb].
    - destruct (has_flag s3 (active_id s3) [3]); [reflexivity|].
      destruct (execute_queue cfg fuel s3 true); reflexivity.
    - destruct (execute_queue cfg fuel s3 true); reflexivity.
  Qed.

  Lemma pin_action s : I "action" s = m_action s.
  Proof.
    ev. unfold m_action. destruct (execute_action cfg fuel s (active_id s) false) as [s5|x|x|]; try reflexivity.
    destruct (death_check cfg fuel s5 false); reflexivity.
  Qed.

  Lemma pin_phase2 s : I "phase2" s = m_phase2 s.
  Proof.
    ev. unfold m_phase2. destruct (Turn.step F (turn s) (@OReset F)) as [t2 outs2].
    destruct (execute_queue cfg fuel _ false) as [s6|x|x|]; try reflexivity.
    destruct (run_slot cfg fuel s6 LPhase2 _ _); reflexivity.
  Qed.

  Lemma pin_endTurn s : I "endTurn" s = m_endTurn s.
  Proof.
    ev. unfold m_endTurn, res_of_outcome. destruct (death_check cfg fuel s true) as [s8|]; [|reflexivity].
    destruct (exit_check cfg _); reflexivity.
  Qed.

  (* ---- chaining ---- *)
  Notation RUN := (run_states cfg expected_consts fuel expected).

  Lemma run_S n u st s :
    RUN (S n) u st s =
    match interp_fn cfg expected_consts fuel expected st s with
    | RGoto st' s' => if String.eqb st' u then Some (Ok s') else RUN n u st' s'
    | RStop s' => Some (Stop s')
    | RErr s' => Some (Err s')
    | RFuel => Some OutOfFuel
    | RCont _ _ | RStuck => None
    end.
  Proof. reflexivity. Qed.

  Lemma emit_emit s a b : emit (emit s a) b = emit s (a ++ b).
  Proof. unfold emit. cbn. rewrite app_assoc. reflexivity. Qed.

  (* phase2 and endTurn chained = Sim.phase2 *)
  Lemma chain_phase2 n s : RUN (S (S n)) "beginTurn" "phase2" s = Some (phase2 cfg fuel s).
  Proof.
    cbn [run_states]. rewrite pin_phase2. unfold m_phase2, phase2.
    destruct (Turn.step F (turn s) (@OReset F)) as [t2 outs2]. rewrite emit_emit.
    destruct (execute_queue cfg fuel _ false) as [s6|x|x|]; try reflexivity.
    destruct (run_slot cfg fuel s6 LPhase2 _ _) as [s6'|]; [|reflexivity].
    cbv [String.eqb Ascii.eqb Bool.eqb]. rewrite pin_endTurn. unfold m_endTurn.
    destruct (death_check cfg fuel _ true) as [s8|]; [|reflexivity].
    unfold res_of_outcome. destruct (exit_check cfg _); reflexivity.
  Qed.

  Definition same_outcome (a b : outcome) : Prop :=
    match a, b with
    | Err x, Err y => trace x = trace y
    | _, _ => a = b
    end.

  Theorem turn_is_one_turn s :
    exists o, interp_turn cfg expected_consts fuel expected s = Some o /\ same_outcome o (one_turn cfg fuel s).
  Proof.
    unfold interp_turn. rewrite run_S, pin_beginTurn. unfold m_beginTurn, one_turn.
    destruct (Turn.step F (turn s) (@OStart F)) as [t' outs].
    destruct outs as [|o outs]; [eexists; split; reflexivity|].
    destruct o; try (eexists; split; reflexivity).
    destruct outs; [|eexists; split; reflexivity].
    destruct (get_unit (units s) id) as [u|]; [|eexists; split; reflexivity].
    cbv [String.eqb Ascii.eqb Bool.eqb].
    set (s1 := emit (set_active (set_turn s t') id) _).
    assert (A1 : active_id s1 = id) by reflexivity.
    rewrite run_S, pin_phase1. unfold m_phase1. rewrite A1.
    destruct (run_slot cfg fuel (emit s1 [VPhase1Start]) LPhase1 id id) as [s2|] eqn:E2; [|eexists; split; reflexivity].
    assert (A2 : active_id s2 = id) by (apply A_run_slot in E2; exact E2).
    destruct (death_check cfg fuel s2 false) as [s3|] eqn:E3; [|eexists; split; reflexivity].
    assert (A3 : active_id s3 = id) by (apply A_death_check in E3; unfold A in E3; congruence).
    rewrite A3.
    destruct (has_flag s3 id [FLAG_DISABLE_ACTION]).
    { cbv [String.eqb Ascii.eqb Bool.eqb]. rewrite chain_phase2. eexists; split; [reflexivity|].
      unfold same_outcome. destruct (phase2 cfg fuel s3); reflexivity. }
    destruct (is_enemy s3 id && has_flag s3 id [FLAG_BREAK_EXTEND]).
    { cbv [String.eqb Ascii.eqb Bool.eqb]. rewrite chain_phase2. eexists; split; [reflexivity|].
      unfold same_outcome. destruct (phase2 cfg fuel _); reflexivity. }
    destruct (execute_queue cfg fuel s3 true) as [s4|x|x|] eqn:E4; try (eexists; split; reflexivity).
    assert (A4 : active_id s4 = id) by (apply A_execute_queue in E4; unfold A in E4; congruence).
    cbv [String.eqb Ascii.eqb Bool.eqb]. rewrite run_S, pin_action. unfold m_action.
    cbn [active_id emit]. rewrite A4.
    destruct (execute_action cfg fuel (emit s4 [VPhase1End]) id false) as [s5|x|x|]; try (eexists; split; reflexivity).
    destruct (death_check cfg fuel s5 false) as [s5'|]; [|eexists; split; reflexivity].
    cbv [String.eqb Ascii.eqb Bool.eqb]. rewrite chain_phase2. eexists; split; [reflexivity|].
    unfold same_outcome. destruct (phase2 cfg fuel s5'); reflexivity.
  Qed.

  Theorem engage_is_start_drain s :
    interp_engage cfg expected_consts fuel expected s = Some (execute_queue cfg fuel s true).
  Proof.
    unfold interp_engage. cbn [run_states]. rewrite pin_engage. unfold m_engage, res_of_outcome.
    destruct (execute_queue cfg fuel s true); reflexivity.
  Qed.
End Pieces.

(* ---- the same statements about the GENERATED table ---- *)
Theorem skel_engage : forall cfg fuel s,
  interp_fn cfg RunSkeleton.consts fuel RunSkeleton.table "engage" s = m_engage cfg fuel s.
Proof. rewrite run_skeleton_is_pinned, run_skeleton_consts_are_pinned. exact pin_engage. Qed.
Theorem skel_beginTurn : forall cfg fuel s,
  interp_fn cfg RunSkeleton.consts fuel RunSkeleton.table "beginTurn" s = m_beginTurn s.
Proof. rewrite run_skeleton_is_pinned, run_skeleton_consts_are_pinned. exact pin_beginTurn. Qed.
Theorem skel_phase1 : forall cfg fuel s,
  interp_fn cfg RunSkeleton.consts fuel RunSkeleton.table "phase1" s = m_phase1 cfg fuel s.
Proof. rewrite run_skeleton_is_pinned, run_skeleton_consts_are_pinned. exact pin_phase1. Qed.
Theorem skel_action : forall cfg fuel s,
  interp_fn cfg RunSkeleton.consts fuel RunSkeleton.table "action" s = m_action cfg fuel s.
Proof. rewrite run_skeleton_is_pinned, run_skeleton_consts_are_pinned. exact pin_action. Qed.
Theorem skel_phase2 : forall cfg fuel s,
  interp_fn cfg RunSkeleton.consts fuel RunSkeleton.table "phase2" s = m_phase2 cfg fuel s.
Proof. rewrite run_skeleton_is_pinned, run_skeleton_consts_are_pinned. exact pin_phase2. Qed.
Theorem skel_endTurn : forall cfg fuel s,
  interp_fn cfg RunSkeleton.consts fuel RunSkeleton.table "endTurn" s = m_endTurn cfg fuel s.
Proof. rewrite run_skeleton_is_pinned, run_skeleton_consts_are_pinned. exact pin_endTurn. Qed.

(* phase2 and endTurn of the source, chained, are Sim.phase2 *)
Theorem run_skeleton_phase2_endTurn_is_phase2 : forall cfg fuel n s,
  run_states cfg RunSkeleton.consts fuel RunSkeleton.table (S (S n)) "beginTurn" "phase2" s = Some (phase2 cfg fuel s).
Proof. rewrite run_skeleton_is_pinned, run_skeleton_consts_are_pinned. intros. apply chain_phase2. Qed.

(* one turn of the source's state machine is Sim.one_turn *)
Theorem run_skeleton_turn_is_one_turn : forall cfg fuel s,
  exists o, interp_turn cfg RunSkeleton.consts fuel RunSkeleton.table s = Some o /\ same_outcome o (one_turn cfg fuel s).
Proof. rewrite run_skeleton_is_pinned, run_skeleton_consts_are_pinned. exact turn_is_one_turn. Qed.

(* on every outcome but an error the two are EQUAL *)
Corollary run_skeleton_turn_is_one_turn_eq : forall cfg fuel s,
  (forall x, one_turn cfg fuel s <> Err x) ->
  interp_turn cfg RunSkeleton.consts fuel RunSkeleton.table s = Some (one_turn cfg fuel s).
Proof.
  intros cfg fuel s NE. destruct (run_skeleton_turn_is_one_turn cfg fuel s) as [o [E S]].
  rewrite E. f_equal. unfold same_outcome in S.
  destruct o as [a|a|a|]; try exact S.
  destruct (one_turn cfg fuel s) as [b|b|b|] eqn:EO; try exact S. exfalso. exact (NE b eq_refl).
Qed.

(* engage of the source is the drain at the start of the battle in Sim.start *)
Theorem run_skeleton_engage_is_start_drain : forall cfg fuel s,
  interp_engage cfg RunSkeleton.consts fuel RunSkeleton.table s = Some (execute_queue cfg fuel s true).
Proof. rewrite run_skeleton_is_pinned, run_skeleton_consts_are_pinned. exact engage_is_start_drain. Qed.

(* everything above in one statement (restated in Props/C03.v, C08.v, C09.v, C10.v) *)
Definition run_skeleton_tie : Prop :=
  RunSkeleton.table = SimSkeleton.expected /\
  RunSkeleton.consts = SimSkeleton.expected_consts /\
  (forall cfg fuel s, exists o,
      interp_turn cfg RunSkeleton.consts fuel RunSkeleton.table s = Some o /\ same_outcome o (one_turn cfg fuel s)) /\
  (forall cfg fuel n s,
      run_states cfg RunSkeleton.consts fuel RunSkeleton.table (S (S n)) "beginTurn" "phase2" s = Some (phase2 cfg fuel s)) /\
  (forall cfg fuel s,
      interp_engage cfg RunSkeleton.consts fuel RunSkeleton.table s = Some (execute_queue cfg fuel s true)).

Theorem run_skeleton_is_the_source : run_skeleton_tie.
Proof.
  split; [exact run_skeleton_is_pinned|]. split; [exact run_skeleton_consts_are_pinned|].
  split; [exact run_skeleton_turn_is_one_turn|]. split; [exact run_skeleton_phase2_endTurn_is_phase2|].
  exact run_skeleton_engage_is_start_drain.
Qed.
