(* C03 — Battle lifecycle events follow the turn protocol.
   Only statements, [exact] and [Print Assumptions] live here. *)
From Coq Require Import List ZArith Bool.
From SR Require Import Base.CaseLib Base.NumOps Model.Turn Model.Sim Model.SimProtocol Proofs.SimProofs.
Import ListNotations.

(* For every configuration, every content script, every decision sequence of the script
   callbacks and every fuel: when the model run returns a result (it ends by the Termination
   exit), its whole event trace is accepted by the protocol automaton of Model/SimProtocol.v:
   Initialize, CharactersAdded, EnemiesAdded, TurnTargetsAdded, BattleStart, then queue items
   and turns (TurnStart, Phase1Start, [queue window, Phase1End, at most one own action],
   TurnReset, Phase2Start, queue window, Phase2End, TurnEnd); inserted actions and abilities
   only inside the queue windows with an empty bracket stack; Action / Insert / Attack / Hit
   start-end pairs balanced, closed by the same owner and key, attacks opened directly inside an
   action or insert and never across a hit; the automaton ends in Done with an empty stack. *)
Theorem C03_lifecycle_protocol : forall cfg, C03_statement cfg.
Proof. exact C03_holds. Qed.
Print Assumptions C03_lifecycle_protocol.

(* exactly one Termination, and it is the last event *)
Theorem C03_one_termination_and_last :
  forall cfg fuel s, start cfg fuel = Stop s -> one_termination (trace s) = true.
Proof. intros cfg fuel s H. apply protocol_one_termination. exact (C03_holds cfg fuel s H). Qed.
Print Assumptions C03_one_termination_and_last.

(* non-vacuity: a battle with an insert, an attack with two hits, a kill and a win runs to its
   Termination in the model *)
Theorem C03_nonvacuous :
  match start demo_cfg 200 with
  | Stop s => protocol_ok (trace s) && (20 <=? Z.of_nat (length (trace s)))%Z
  | _ => false
  end = true.
Proof. exact demo_cfg_runs. Qed.
