(* Model of pkg/engine/event/handler/{simple,priority,mutable,cancel}.go and
   pkg/engine/logging/logger.go.  Executable; no proofs here.

   Listeners are data: each subscribed listener owns a finite queue of reactions; one
   invocation consumes one reaction (an exhausted queue behaves as [idle]).  A reaction runs a
   SCRIPT - a list of the component's own operations, executed re-entrantly while the outer
   [Emit] is still inside its listener loop - then transforms the (mutable) event value, then
   answers the cancel verdict.  A script operation is any top-level operation: [Emit] on any
   handler including the one being emitted, [Subscribe] on any handler including the one being
   emitted, [InitLoggers].  A top-level history is itself just a script run outside any
   emission.

   Go semantics of the listener loop that re-entrant [Subscribe] makes observable
   (`for _, listener := range handler.listeners`): the range expression is evaluated once - a
   slice header (backing array, length n) - and iteration i reads element i of THAT backing
   array at the time of the iteration.
   * simple.go: `handler.listeners = append(handler.listeners, listener)` writes index len
     (>= n) of the same array when the capacity allows, else moves to a new array; either way
     the indices below n of the array the loop reads are never written.
   * priority.go / mutable.go / cancel.go (after the repair 5106e78):
     `n := len(handler.listeners); handler.listeners = append(handler.listeners[:n:n], pl)`
     ALWAYS moves to a new array, which `sort.Sort` then sorts; a running loop keeps the
     array it started with.  (Before the repair the append reused spare capacity and the sort
     permuted the array under the running loop: corpus case
     reentrant_subscribe_disturbs_running_emit.)
   The model carries a generation number of the backing array per handler and the frozen
   contents of abandoned arrays; the capacity only for simple handlers (growth of the Go 1.23
   runtime, growslice + size classes, 8-byte elements).  Nothing a listener can do changes an
   array below its length: that is what the proofs establish and the delivery clause needs. *)
From Coq Require Import List ZArith Bool.
Import ListNotations.
Open Scope Z_scope.

Inductive hkind := KSimple | KPriority | KMutable | KCancel.

Inductive xform := XAdd (k : Z) | XMul (k : Z) | XSet (k : Z).
Definition apply_x (x : xform) (v : Z) : Z :=
  match x with XAdd k => v + k | XMul k => v * k | XSet k => k end.

(* operations of the component = operations of a listener script *)
Inductive op :=
| OSub (h : nat) (prio : Z) (rs : list reaction)
| OEmit (h : nat) (v : Z)
| OInit (lgs : list Z)
with reaction := mkR (x : xform) (c : bool) (acts : list op).

Definition r_x (r : reaction) := match r with mkR x _ _ => x end.
Definition r_cancel (r : reaction) := match r with mkR _ c _ => c end.
Definition r_acts (r : reaction) := match r with mkR _ _ a => a end.
Definition idle : reaction := mkR (XAdd 0) false [].

Record listener := mkL { l_id : Z; l_prio : Z }.

(* handler.listeners: current contents, capacity, generation of the backing array, and the
   frozen contents of the arrays it has moved away from *)
Record handler := mkH {
  h_kind : hkind;
  h_ls : list listener;
  h_cap : nat;
  h_gen : nat;
  h_old : list (nat * list listener) }.

Inductive item :=
| IEmit (h : nat) (v : Z)                      (* Emit on handler h entered *)
| ICall (lid : Z) (h : nat) (v : Z)            (* listener lid of handler h invoked, sees v *)
| ISub (lid : Z) (h : nat) (prio : Z)          (* Subscribe returned (top level or in a listener) *)
| IInit (lgs : list Z)                         (* InitLoggers returned *)
| ILog (lg : Z) (h : nat) (v : Z) (c : bool)   (* logger lg receives the event of handler h *)
| IRet (h : nat) (c : bool) (v : Z).           (* Emit on handler h returns *)

Record world := mkW {
  hs : list handler;
  loggers : list Z;
  reacts : list (Z * list reaction);
  next_id : Z;
  trace : list item }.

(* outcomes that are not a normal result *)
Inductive err :=
| OutOfFuel        (* nesting deeper than the fuel *)
| BadHandler       (* operation on a handler index that does not exist (harness panics) *)
| Stuck            (* the listener loop read outside its backing array: proved unreachable (run_never_stuck) *)
| CapUnmodelled.   (* more listeners on a SIMPLE handler than the transcribed growth table covers *)
Inductive res (A : Type) := Ok (a : A) | Err (e : err).
Arguments Ok {A} a.
Arguments Err {A} e.

(* ---- structured record of what happened (specification side) ---- *)
Inductive frame :=
  Frame (h : nat) (k : hkind)                 (* handler, its kind *)
        (ls0 : list listener)                  (* handler.listeners when Emit was entered *)
        (vin : Z) (calls : list call) (vout : Z) (c : bool)
        (lgs : list Z)                         (* loggers registered when the emission completed *)
with call := Call (l : listener) (vseen : Z) (r : reaction) (kids : list child)
with child :=
| CFrame (fr : frame)
| CSub (h : nat) (l : listener)                (* Subscribe of l to handler h returned *)
| CInit (lgs : list Z).

Definition kind_eqb (a b : hkind) : bool :=
  match a, b with
  | KSimple, KSimple | KPriority, KPriority | KMutable, KMutable | KCancel, KCancel => true
  | _, _ => false
  end.

Fixpoint pop (rs : list (Z * list reaction)) (lid : Z) : reaction * list (Z * list reaction) :=
  match rs with
  | [] => (idle, [])
  | (k, q) :: rest =>
      if k =? lid then
        match q with
        | [] => (idle, rs)
        | r :: q' => (r, (k, q') :: rest)
        end
      else let (r, rest') := pop rest lid in (r, (k, q) :: rest')
  end.

Definition add_trace (w : world) (it : list item) : world :=
  mkW (hs w) (loggers w) (reacts w) (next_id w) (trace w ++ it).
Definition set_reacts (w : world) (rs : list (Z * list reaction)) : world :=
  mkW (hs w) (loggers w) rs (next_id w) (trace w).

(* logging.Log: every registered logger, in registration order, exactly one call *)
Definition log_items (lgs : list Z) (h : nat) (v : Z) (c : bool) : list item :=
  map (fun lg => ILog lg h v c) lgs.

(* ---- backing arrays ---- *)
Fixpoint lookup_arr (g : nat) (old : list (nat * list listener)) : option (list listener) :=
  match old with
  | [] => None
  | (g', a) :: rest => if Nat.eqb g g' then Some a else lookup_arr g rest
  end.

(* contents (indices below the handler's length at the time) of array generation g *)
Definition arr (hd : handler) (g : nat) : option (list listener) :=
  if Nat.eqb g (h_gen hd) then Some (h_ls hd)
  else if Nat.ltb g (h_gen hd) then lookup_arr g (h_old hd)
  else None.

(* runtime.growslice for one appended 8-byte element, Go 1.23, amd64: doubling below 256
   elements, rounded to the allocator's size class (64 -> 143: a malloc header of 8 bytes for
   pointerful blocks above 512 bytes).  Only simple handlers append into spare capacity. *)
Definition grow (c : nat) : option nat :=
  if Nat.eqb c 0 then Some 1%nat
  else if Nat.leb c 32 then Some (2 * c)%nat
  else if Nat.eqb c 64 then Some 143%nat
  else None.

(* the sorting handlers: sort.Sort of a sorted slice plus one appended element.  Up to 12
   elements it is insertion sort, hence the new listener ends after every listener of
   priority <= its own; above 12 the correspondence only uses pairwise distinct priorities,
   where every correct sort gives this result. *)
Fixpoint insert_prio (l : listener) (ls : list listener) : list listener :=
  match ls with
  | [] => [l]
  | x :: rest => if l_prio l <? l_prio x then l :: ls else x :: insert_prio l rest
  end.

Definition ins (k : hkind) (l : listener) (ls : list listener) : list listener :=
  match k with KSimple => ls ++ [l] | _ => insert_prio l ls end.

Definition subscribe_h (hd : handler) (l : listener) : option handler :=
  let k := h_kind hd in
  let ls := h_ls hd in
  match k with
  | KSimple =>
      if Nat.ltb (length ls) (h_cap hd) then
        (* fits: index len of the same backing array is written *)
        Some (mkH k (ls ++ [l]) (h_cap hd) (h_gen hd) (h_old hd))
      else
        match grow (h_cap hd) with
        | None => None
        | Some c' =>
            Some (mkH k (ls ++ [l]) c' (S (h_gen hd)) ((h_gen hd, ls) :: h_old hd))
        end
  | _ =>
      (* append(handler.listeners[:n:n], pl): always a fresh array, then sorted; the old array
         keeps its contents for whoever still ranges over it (capacity is never consulted) *)
      Some (mkH k (insert_prio l ls) (h_cap hd) (S (h_gen hd)) ((h_gen hd, ls) :: h_old hd))
  end.

Fixpoint update_nth {A} (n : nat) (f : A -> A) (l : list A) : list A :=
  match l, n with
  | [], _ => []
  | x :: r, O => f x :: r
  | x :: r, S n' => x :: update_nth n' f r
  end.

Definition subscribe (w : world) (h : nat) (prio : Z) (rs : list reaction) : res (world * child) :=
  match nth_error (hs w) h with
  | None => Err BadHandler
  | Some hd =>
      let l := mkL (next_id w) prio in
      match subscribe_h hd l with
      | None => Err CapUnmodelled
      | Some hd' =>
          Ok (mkW (update_nth h (fun _ => hd') (hs w)) (loggers w)
                  ((next_id w, rs) :: reacts w) (next_id w + 1)
                  (trace w ++ [ISub (next_id w) h prio]),
              CSub h l)
      end
  end.

Definition init_loggers (w : world) (lgs : list Z) : world :=
  mkW (hs w) lgs (reacts w) (next_id w) (trace w ++ [IInit lgs]).

Definition emitter := world -> nat -> Z -> res (world * bool * Z * frame).

(* a script (or a top-level history): the operations one after the other *)
Fixpoint run_acts (E : emitter) (w : world) (acts : list op) : res (world * list child) :=
  match acts with
  | [] => Ok (w, [])
  | a :: rest =>
      let step :=
        match a with
        | OEmit h v =>
            match E w h v with
            | Err e => Err e
            | Ok (w1, _, _, fr) => Ok (w1, CFrame fr)
            end
        | OSub h prio rs => subscribe w h prio rs
        | OInit lgs => Ok (init_loggers w lgs, CInit lgs)
        end in
      match step with
      | Err e => Err e
      | Ok (w1, ch) =>
          match run_acts E w1 rest with
          | Err e => Err e
          | Ok (w2, chs) => Ok (w2, ch :: chs)
          end
      end
  end.

(* the `for _, listener := range handler.listeners` loop of the four Emit bodies: [todo]
   iterations are left, the next one reads index [i] of array generation [g] of handler [h]
   AS IT IS NOW *)
Fixpoint deliver (E : emitter) (k : hkind) (h g : nat) (w : world) (todo i : nat) (v : Z)
  : res (world * bool * Z * list call) :=
  match todo with
  | O => Ok (w, false, v, [])
  | S todo' =>
      match nth_error (hs w) h with
      | None => Err Stuck
      | Some hd =>
          match arr hd g with
          | None => Err Stuck
          | Some a =>
              match nth_error a i with
              | None => Err Stuck
              | Some l =>
                  let w1 := add_trace w [ICall (l_id l) h v] in
                  let (r, rs') := pop (reacts w1) (l_id l) in
                  let w2 := set_reacts w1 rs' in
                  match run_acts E w2 (r_acts r) with
                  | Err e => Err e
                  | Ok (w3, kids) =>
                      let v' := if kind_eqb k KMutable then apply_x (r_x r) v else v in
                      let cl := Call l v r kids in
                      if kind_eqb k KCancel && r_cancel r then Ok (w3, true, v', [cl])
                      else match deliver E k h g w3 todo' (S i) v' with
                           | Err e => Err e
                           | Ok (w4, c, v'', cls) => Ok (w4, c, v'', cl :: cls)
                           end
                  end
              end
          end
      end
  end.

Fixpoint emit (fuel : nat) : emitter :=
  match fuel with
  | O => fun _ _ _ => Err OutOfFuel
  | S f => fun w h v =>
      match nth_error (hs w) h with
      | None => Err BadHandler
      | Some hd =>
          (* the range expression is evaluated once: array generation and length *)
          match deliver (emit f) (h_kind hd) h (h_gen hd) (add_trace w [IEmit h v])
                        (length (h_ls hd)) O v with
          | Err e => Err e
          | Ok (w1, c, v', cls) =>
              (* exactly one logging.Log on every path, after the loop, to the loggers
                 registered THEN *)
              Ok (add_trace w1 (log_items (loggers w1) h v' c ++ [IRet h c v']), c, v',
                  Frame h (h_kind hd) (h_ls hd) v cls v' c (loggers w1))
          end
      end
  end.

Definition init (kinds : list hkind) : world :=
  mkW (map (fun k => mkH k [] O O []) kinds) [] [] 0 [].

(* a history = a script run at top level *)
Definition run (fuel : nat) (w : world) (ops : list op) : res (world * list child) :=
  run_acts (emit fuel) w ops.

(* ---- specification-side functions on the forest ---- *)
Fixpoint flatten (fr : frame) : list item :=
  match fr with
  | Frame h k ls0 vin calls vout c lgs =>
      IEmit h vin :: flat_map (flatten_call h) calls ++ log_items lgs h vout c ++ [IRet h c vout]
  end
with flatten_call (h : nat) (cl : call) : list item :=
  match cl with
  | Call l vs r kids => ICall (l_id l) h vs :: flat_map flatten_child kids
  end
with flatten_child (ch : child) : list item :=
  match ch with
  | CFrame fr => flatten fr
  | CSub h l => [ISub (l_id l) h (l_prio l)]
  | CInit lgs => [IInit lgs]
  end.

(* what happened, in order: emission entered (with the listeners subscribed then), listener
   subscribed, loggers re-registered, emission completed (with the loggers registered then) *)
Inductive ev :=
| EStart (h : nat) (ls0 : list listener)
| ESub (h : nat) (l : listener)
| EInit (lgs : list Z)
| EDone (h : nat) (v : Z) (c : bool) (lgs : list Z).

Fixpoint events (fr : frame) : list ev :=
  match fr with
  | Frame h k ls0 vin calls vout c lgs =>
      EStart h ls0 :: flat_map events_call calls ++ [EDone h vout c lgs]
  end
with events_call (cl : call) : list ev :=
  match cl with
  | Call _ _ _ kids => flat_map events_child kids
  end
with events_child (ch : child) : list ev :=
  match ch with
  | CFrame fr => events fr
  | CSub h l => [ESub h l]
  | CInit lgs => [EInit lgs]
  end.

Definition log_of (lg : Z) (tr : list item) : list (nat * Z * bool) :=
  flat_map (fun it => match it with
                      | ILog lg' h v c => if lg' =? lg then [(h, v, c)] else []
                      | _ => [] end) tr.

(* every frame of a forest *)
Fixpoint all_frames (fr : frame) : list frame :=
  fr :: match fr with
        | Frame _ _ _ _ calls _ _ _ => flat_map all_frames_call calls
        end
with all_frames_call (c : call) : list frame :=
  match c with Call _ _ _ kids => flat_map all_frames_child kids end
with all_frames_child (ch : child) : list frame :=
  match ch with CFrame fr => all_frames fr | _ => [] end.

(* what a listener's invocations look like in one frame *)
Definition call_l (c : call) := match c with Call l _ _ _ => l end.
Definition call_v (c : call) := match c with Call _ v _ _ => v end.
Definition call_r (c : call) := match c with Call _ _ r _ => r end.
Definition call_kids (c : call) := match c with Call _ _ _ s => s end.

(* value after a call, as the next listener must see it *)
Definition after_call (k : hkind) (c : call) : Z :=
  if kind_eqb k KMutable then apply_x (r_x (call_r c)) (call_v c) else call_v c.

Fixpoint threaded (k : hkind) (vin : Z) (cs : list call) (vout : Z) : Prop :=
  match cs with
  | [] => vout = vin
  | c :: rest => call_v c = vin /\ threaded k (after_call k c) rest vout
  end.
