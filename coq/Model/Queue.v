(* Model of pkg/engine/queue/queue.go (insert queue) and of the drain loop
   pkg/simulation/action.go:executeQueue with InsertAbility / InsertAction / executeInsert /
   executeAction and pkg/simulation/death.go:deathCheck, run.go:exitCheck as far as the drain
   uses them.  Executable; no proofs here.

   container/heap is a library: [pop_min] is its contract (a Less-minimal element is removed),
   Less being queue.go's comparison (priority, then insertion id).  Model/QueueHeap.v models
   the actual array heap and Proofs/QueueHeapProofs.v proves that it refines [pop_min].

   What an executing insert can do that the queue and the drain can observe is data: a
   script of effects (queue further inserts, change a unit's life state, give or take a
   behaviour flag). *)
From Coq Require Import List ZArith Bool.
Import ListNotations.
Open Scope Z_scope.

(* ------------------------------------------------------------------------------------ *)
(* queue.go *)

Inductive eff :=
| EAbility (prio src : Z) (flags : list Z) (script : list eff)  (* sim.InsertAbility *)
| EAction (u : Z)                                               (* sim.InsertAction *)
| EKill (u : Z) (limbo : bool)      (* HP to zero; a revive listener answers [limbo] *)
| ERevive (u : Z)                   (* HP back above zero *)
| EFlag (u f : Z) (on : bool).      (* attach / remove a modifier carrying behaviour flag f *)

Inductive body :=
| BAbility (script : list eff)      (* executeInsert: InsertStart, script, InsertEnd *)
| BAction (u : Z).                  (* executeAction(u, true) *)

Record task := mkT { t_id : Z; t_prio : Z; t_src : Z; t_flags : list Z; t_body : body }.

Record queue := mkQ { q_pending : list task; q_counter : Z }.

Definition q_empty : queue := mkQ [] 0.

(* Handler.Insert: stamp the counter, push *)
Definition q_insert (q : queue) (prio src : Z) (flags : list Z) (b : body) : queue :=
  mkQ (q_pending q ++ [mkT (q_counter q) prio src flags b]) (q_counter q + 1).

(* minHeap.Less *)
Definition less (a b : task) : bool :=
  (t_prio a <? t_prio b) || ((t_prio a =? t_prio b) && (t_id a <? t_id b)).

(* the Less-least pending task (first among Less-equivalent ones, which do not exist once ids
   are distinct) *)
Fixpoint min_task (m : task) (l : list task) : task :=
  match l with
  | [] => m
  | t :: r => min_task (if less t m then t else m) r
  end.

Fixpoint remove_id (i : Z) (l : list task) : list task :=
  match l with
  | [] => []
  | t :: r => if t_id t =? i then r else t :: remove_id i r
  end.

(* Handler.Pop on a non-empty queue *)
Definition pop_min (q : queue) : option (task * queue) :=
  match q_pending q with
  | [] => None
  | t :: r => let m := min_task t r in Some (m, mkQ (remove_id (t_id m) (q_pending q)) (q_counter q))
  end.

Definition q_is_empty (q : queue) : bool := match q_pending q with [] => true | _ => false end.

(* ---- the raw queue driven by the harness: interleavings of Insert and Pop; a popped task
        may be executed, its Execute then inserts further tasks ---- *)
Inductive rins := RIns (prio src : Z) (flags : list Z) (script : list rins).

Inductive qop :=
| QInsert (r : rins)
| QPop (execute : bool).

Inductive qobs :=
| QInserted (empty_after : bool)
| QPopped (id prio src : Z) (flags : list Z) (empty_after : bool)   (* empty_after: after Execute *)
| QPanic.                                                           (* heap.Pop on an empty heap *)

(* raw tasks keep their Execute script in a side table keyed by id (closures in Go) *)
Record rawq := mkRQ { rq_q : queue; rq_scripts : list (Z * list rins) }.

Definition rq_insert (s : rawq) (r : rins) : rawq :=
  match r with
  | RIns prio src flags script =>
      mkRQ (q_insert (rq_q s) prio src flags (BAbility [])) ((q_counter (rq_q s), script) :: rq_scripts s)
  end.

Fixpoint script_of (tbl : list (Z * list rins)) (i : Z) : list rins :=
  match tbl with
  | [] => []
  | (k, sc) :: r => if k =? i then sc else script_of r i
  end.

Definition rq_step (s : rawq) (o : qop) : rawq * qobs :=
  match o with
  | QInsert r => let s' := rq_insert s r in (s', QInserted (q_is_empty (rq_q s')))
  | QPop ex =>
      match pop_min (rq_q s) with
      | None => (s, QPanic)
      | Some (t, q') =>
          let s1 := mkRQ q' (rq_scripts s) in
          let s2 := if ex then fold_left rq_insert (script_of (rq_scripts s) (t_id t)) s1 else s1 in
          (s2, QPopped (t_id t) (t_prio t) (t_src t) (t_flags t) (q_is_empty (rq_q s2)))
      end
  end.

Fixpoint rq_run (s : rawq) (ops : list qop) : list qobs :=
  match ops with
  | [] => []
  | o :: r => let (s', ob) := rq_step s o in ob :: rq_run s' r
  end.

Definition rq_init : rawq := mkRQ q_empty [].

(* ------------------------------------------------------------------------------------ *)
(* the drain: simulation/action.go *)

Inductive lstate := LInvalid | LDead | LLimbo | LAlive.      (* info.TargetState *)
Inductive class := CChar | CEnemy.

Definition lstate_eqb (a b : lstate) : bool :=
  match a, b with
  | LInvalid, LInvalid | LDead, LDead | LLimbo, LLimbo | LAlive, LAlive => true
  | _, _ => false
  end.

(* info.CharInsertAction / info.EnemyInsertAction, BehaviorFlag_STAT_CTRL / DISABLE_ACTION *)
Definition char_insert_action : Z := 500.
Definition enemy_insert_action : Z := 1000.
Definition action_abort_flags : list Z := [100; 1].

Inductive titem :=
| TInsertStart (id src prio : Z)      (* event.InsertStart (Key = harness id of the task) *)
| TExec (id : Z)                      (* the insert's Execute callback runs *)
| TInsertEnd (id src prio : Z)
| TActionStart (u : Z)                (* event.ActionStart with IsInsert *)
| TAct (u : Z)                        (* the unit's action callback runs *)
| TActionEnd (u : Z)
| TDeath (u : Z)                      (* event.TargetDeath *)
| TTermination (reason : Z)           (* event.Termination: 1 = loss, 2 = win *)
| TDrained (stopped : bool) (empty_after : bool).   (* executeQueue returned *)

(* the drain's own record (not observable as such): which task was taken and what became of it *)
Inductive fate := Executed | DroppedDead | DroppedOffField | DroppedFlag | ActionNotAlive.
Record entry := mkE { e_task : task; e_fate : fate }.

Record sim := mkS {
  s_q : queue;
  s_cls : list (Z * class);            (* sim.Targets *)
  s_life : list (Z * lstate);          (* attribute service: state of registered units *)
  s_flags : list (Z * list Z);         (* behaviour flags carried through modifiers *)
  s_chars : list Z; s_enemies : list Z;(* sim.characters / sim.enemies *)
  s_acts : list (Z * list (list eff)); (* what each unit's action callback will do, call by call *)
  s_trace : list titem;
  s_log : list entry }.

Fixpoint zget {A} (m : list (Z * A)) (k : Z) : option A :=
  match m with [] => None | (k', v) :: r => if k' =? k then Some v else zget r k end.
Fixpoint zset {A} (m : list (Z * A)) (k : Z) (v : A) : list (Z * A) :=
  match m with
  | [] => [(k, v)]
  | (k', v') :: r => if k' =? k then (k, v) :: r else (k', v') :: zset r k v
  end.

Definition life_of (s : sim) (u : Z) : lstate := match zget (s_life s) u with Some l => l | None => LInvalid end.
Definition flags_of (s : sim) (u : Z) : list Z := match zget (s_flags s) u with Some l => l | None => [] end.
Definition zmem (x : Z) (l : list Z) : bool := existsb (Z.eqb x) l.
(* sim.HasBehaviorFlag(u, flags...) *)
Definition has_flag (s : sim) (u : Z) (fl : list Z) : bool := existsb (fun f => zmem f (flags_of s u)) fl.

Definition with_q (s : sim) (q : queue) : sim :=
  mkS q (s_cls s) (s_life s) (s_flags s) (s_chars s) (s_enemies s) (s_acts s) (s_trace s) (s_log s).
Definition with_life (s : sim) (l : list (Z * lstate)) : sim :=
  mkS (s_q s) (s_cls s) l (s_flags s) (s_chars s) (s_enemies s) (s_acts s) (s_trace s) (s_log s).
Definition with_flags (s : sim) (f : list (Z * list Z)) : sim :=
  mkS (s_q s) (s_cls s) (s_life s) f (s_chars s) (s_enemies s) (s_acts s) (s_trace s) (s_log s).
Definition with_sides (s : sim) (c e : list Z) : sim :=
  mkS (s_q s) (s_cls s) (s_life s) (s_flags s) c e (s_acts s) (s_trace s) (s_log s).
Definition with_acts (s : sim) (a : list (Z * list (list eff))) : sim :=
  mkS (s_q s) (s_cls s) (s_life s) (s_flags s) (s_chars s) (s_enemies s) a (s_trace s) (s_log s).
Definition emit (s : sim) (t : list titem) : sim :=
  mkS (s_q s) (s_cls s) (s_life s) (s_flags s) (s_chars s) (s_enemies s) (s_acts s) (s_trace s ++ t) (s_log s).
Definition record (s : sim) (e : entry) : sim :=
  mkS (s_q s) (s_cls s) (s_life s) (s_flags s) (s_chars s) (s_enemies s) (s_acts s) (s_trace s) (s_log s ++ [e]).

(* one effect of a script (harness content calling the engine) *)
Definition apply_eff (s : sim) (e : eff) : sim :=
  match e with
  | EAbility prio src flags script => with_q s (q_insert (s_q s) prio src flags (BAbility script))
  | EAction u =>
      let prio := match zget (s_cls s) u with Some CEnemy => enemy_insert_action | _ => char_insert_action end in
      with_q s (q_insert (s_q s) prio u action_abort_flags (BAction u))
  | EKill u limbo =>
      match zget (s_life s) u with
      | Some LAlive => with_life s (zset (s_life s) u (if limbo then LLimbo else LDead))
      | _ => s                                  (* unknown unit, or already at zero HP: no change *)
      end
  | ERevive u =>
      match zget (s_life s) u with
      | Some LDead => s                         (* death is final: a dead unit stays dead *)
      | Some _ => with_life s (zset (s_life s) u LAlive)
      | None => s
      end
  | EFlag u f on =>
      match zget (s_cls s) u with
      | None => s                               (* AddModifier rejects an invalid target *)
      | Some _ =>
          let cur := flags_of s u in
          let cur' := if on then (if zmem f cur then cur else cur ++ [f])
                      else filter (fun x => negb (x =? f)) cur in
          with_flags s (zset (s_flags s) u cur')
      end
  end.

Definition run_script (s : sim) (sc : list eff) : sim := fold_left apply_eff sc s.

(* the action callback of unit u consumes its next prepared script *)
Definition next_act (s : sim) (u : Z) : list eff * sim :=
  match zget (s_acts s) u with
  | Some (sc :: rest) => (sc, with_acts s (zset (s_acts s) u rest))
  | _ => ([], s)
  end.

(* insert.Execute() of a task that passed the filters *)
Definition execute (s : sim) (t : task) : sim * fate :=
  match t_body t with
  | BAbility sc =>
      let s1 := emit s [TInsertStart (t_id t) (t_src t) (t_prio t); TExec (t_id t)] in
      let s2 := run_script s1 sc in
      (emit s2 [TInsertEnd (t_id t) (t_src t) (t_prio t)], Executed)
  | BAction u =>
      if lstate_eqb (life_of s u) LAlive then
        let s1 := emit s [TActionStart u; TAct u] in
        let (sc, s2) := next_act s1 u in
        let s3 := run_script s2 sc in
        (emit s3 [TActionEnd u], Executed)
      else (s, ActionNotAlive)               (* executeAction returns before doing anything *)
  end.

(* deathCheck(false): dead units leave their side and are announced, characters first *)
Definition is_dead (s : sim) (u : Z) : bool :=
  match life_of s u with LDead | LInvalid => true | _ => false end.
Definition death_check (s : sim) : sim :=
  let dc := filter (is_dead s) (s_chars s) in
  let de := filter (is_dead s) (s_enemies s) in
  emit (with_sides s (filter (fun u => negb (is_dead s u)) (s_chars s))
                     (filter (fun u => negb (is_dead s u)) (s_enemies s)))
       (map TDeath (dc ++ de)).

(* exitCheck (the cycle limit is out of reach in the harness) *)
Definition exit_reason (s : sim) : option Z :=
  match s_chars s, s_enemies s with
  | [], _ => Some 1
  | _, [] => Some 2
  | _, _ => None
  end.

(* sim.onField: the unit is (still) a member of the living side lists (the harness has no
   neutral units) *)
Definition on_field (s : sim) (u : Z) : bool := zmem u (s_chars s) || zmem u (s_enemies s).

(* one iteration of the loop in executeQueue; None when the queue is empty.  When a side has
   been wiped out since the last exit check the battle ends before anything is taken. *)
Definition iter (s : sim) : option (sim * bool) :=
  match pop_min (s_q s) with
  | None => None
  | Some (t, q') =>
      match exit_reason s with
      | Some r => Some (emit s [TTermination r], true)      (* the queue keeps its pending tasks *)
      | None =>
      let s0 := with_q s q' in
      if lstate_eqb (life_of s0 (t_src t)) LDead then Some (record s0 (mkE t DroppedDead), false)
      else if negb (on_field s0 (t_src t)) then Some (record s0 (mkE t DroppedOffField), false)
      else if has_flag s0 (t_src t) (t_flags t) then Some (record s0 (mkE t DroppedFlag), false)
      else
        let (s1, f) := execute s0 t in
        let s2 := death_check (record s1 (mkE t f)) in
        match exit_reason s2 with
        | Some r => Some (emit s2 [TTermination r], true)
        | None => Some (s2, false)
        end
      end
  end.

(* executeQueue; fuel bounds the number of tasks taken *)
Fixpoint drain (fuel : nat) (s : sim) : option (sim * bool) :=
  match fuel with
  | O => None
  | S f =>
      match iter s with
      | None => Some (s, false)
      | Some (s', true) => Some (s', true)
      | Some (s', false) => drain f s'
      end
  end.

(* ---- what the harness does: effects issued between drains, and drains ---- *)
(* TLeave u: the unit is taken off the field (as the turn-end death check does with a unit
   still in limbo) without touching its life state *)
Inductive top := TEff (e : eff) | TDrain | TLeave (u : Z).

Definition top_step (fuel : nat) (s : sim) (o : top) : option (sim * bool) :=
  match o with
  | TEff e => Some (apply_eff s e, false)
  | TLeave u =>
      Some (with_sides s (filter (fun x => negb (x =? u)) (s_chars s))
                         (filter (fun x => negb (x =? u)) (s_enemies s)), false)
  | TDrain =>
      match drain fuel s with
      | Some (s', stopped) => Some (emit s' [TDrained stopped (q_is_empty (s_q s'))], stopped)
      | None => None
      end
  end.

(* a run that reached an exit condition is over: nothing after it is performed *)
Fixpoint top_run (fuel : nat) (s : sim) (ops : list top) : option sim :=
  match ops with
  | [] => Some s
  | o :: r =>
      match top_step fuel s o with
      | Some (s', true) => Some s'
      | Some (s', false) => top_run fuel s' r
      | None => None
      end
  end.

(* the initial state built by the harness: every listed unit registered and alive *)
Definition sim_init (units : list (Z * class)) (acts : list (Z * list (list eff))) : sim :=
  mkS q_empty units (map (fun uc => (fst uc, LAlive)) units) []
      (map fst (filter (fun uc => match snd uc with CChar => true | _ => false end) units))
      (map fst (filter (fun uc => match snd uc with CEnemy => true | _ => false end) units))
      acts [] [].
