package main

// Shared by the `isolation` (C15) and `sweep` (C20) components: a run description term
// ("RS": team, equipment, enemies, cycle limit, gcs script, seed -- everything by name and
// number, nothing random at run time), its translation to a model.SimConfig + parsed gcs
// program, a runner around the REAL simulation.Run with panic recovery, and a recording logger
// that folds the FULL event log (every field of every event, canonically printed by
// reflection: maps in key order, pointers followed, floats by bit pattern) into a hash.

import (
	"context"
	"fmt"
	"hash"
	"hash/fnv"
	"io"
	"math"
	"reflect"
	"runtime"
	"runtime/debug"
	"sort"
	"strings"
	"sync"

	"github.com/simimpact/srsim/pkg/engine/equip/lightcone"
	"github.com/simimpact/srsim/pkg/engine/equip/relic"
	"github.com/simimpact/srsim/pkg/engine/event"
	"github.com/simimpact/srsim/pkg/engine/logging"
	"github.com/simimpact/srsim/pkg/engine/target/character"
	"github.com/simimpact/srsim/pkg/engine/target/enemy"
	"github.com/simimpact/srsim/pkg/key"
	"github.com/simimpact/srsim/pkg/logic/gcs"
	"github.com/simimpact/srsim/pkg/logic/gcs/eval"
	"github.com/simimpact/srsim/pkg/logic/gcs/parse"
	"github.com/simimpact/srsim/pkg/model"
	"github.com/simimpact/srsim/pkg/simulation"
	"google.golang.org/protobuf/proto"
	"google.golang.org/protobuf/types/known/structpb"

	"verif/harness/term"
)

// ---------------------------------------------------------------------------------------
// catalogs (sorted, so that generation is deterministic)
// ---------------------------------------------------------------------------------------

type catalogs struct {
	chars   []string
	cones   []string
	relics  []string
	enemies []string
	charCfg map[string]character.Config
	coneCfg map[string]lightcone.Config
	relCfg  map[string]relic.Config
}

var (
	contentCatOnce sync.Once
	contentCat     catalogs
)

// fromRepo: the function value was defined in the repository under verification (other
// components of this harness register scripted characters, enemies and light cones of their
// own in the same process-wide catalogs; they are not part of the content sweep)
func fromRepo(fn any) bool {
	v := reflect.ValueOf(fn)
	if v.Kind() != reflect.Func || v.IsNil() {
		return false
	}
	f := runtime.FuncForPC(v.Pointer())
	return f != nil && strings.HasPrefix(f.Name(), "github.com/simimpact/srsim/")
}

func getCatalogs() *catalogs {
	contentCatOnce.Do(func() {
		contentCat.charCfg = map[string]character.Config{}
		contentCat.coneCfg = map[string]lightcone.Config{}
		contentCat.relCfg = map[string]relic.Config{}
		for k, v := range character.VerifCatalog() {
			if !fromRepo(v.Create) {
				continue
			}
			contentCat.chars = append(contentCat.chars, string(k))
			contentCat.charCfg[string(k)] = v
		}
		for k, v := range lightcone.VerifCatalog() {
			if !fromRepo(v.CreatePassive) {
				continue
			}
			contentCat.cones = append(contentCat.cones, string(k))
			contentCat.coneCfg[string(k)] = v
		}
		for k, v := range relic.VerifCatalog() {
			harness := false
			for _, e := range v.Effects {
				if e.CreateEffect != nil && !fromRepo(e.CreateEffect) {
					harness = true
				}
			}
			if harness {
				continue
			}
			contentCat.relics = append(contentCat.relics, string(k))
			contentCat.relCfg[string(k)] = v
		}
		for k, v := range enemy.VerifCatalog() {
			if !fromRepo(v.Create) {
				continue
			}
			contentCat.enemies = append(contentCat.enemies, string(k))
		}
		sort.Strings(contentCat.chars)
		sort.Strings(contentCat.cones)
		sort.Strings(contentCat.relics)
		sort.Strings(contentCat.enemies)
	})
	return &contentCat
}

// ---------------------------------------------------------------------------------------
// run description term
//
//	RS [Ch ...] [En ...] cycleLimit "script prelude" seed
//	Ch key level maxLevel eidolon [traces] attack skill ult talent (LC key level maxLevel imposition)
//	   [Rel key pieces] startEnergy startHPpercent "script fragment"
//	   (the gcs script of the run is the prelude followed by the fragments of the characters in
//	   team order; a fragment only names its own character, so that dropping a character from
//	   the term -- shrinking -- leaves a well-formed script)
//	En key level hp atk spd "ATTACK" hitCount damagePercent "DAMAGETYPE" [weakness enum values] rank stance
// ---------------------------------------------------------------------------------------

type runSpec struct {
	cfg    *model.SimConfig
	script string
	seed   int64
}

func strs(t term.T) []string {
	out := []string{}
	for _, x := range term.List(t) {
		out = append(out, term.Str(x))
	}
	return out
}

func decodeSpec(t term.T) runSpec {
	name, a := term.Ctor(t)
	if name != "RS" {
		panic("not a run spec: " + name)
	}
	// a negative cycle limit stands for a configuration WITHOUT a settings section, an empty
	// light cone key with level 0 for a character WITHOUT a light_cone section (the malformed
	// stream)
	cfg := &model.SimConfig{}
	if term.Int(a[2]) >= 0 {
		cfg.Settings = &model.SimulatorSettings{CycleLimit: uint32(term.Int(a[2]))}
	}
	for _, ct := range term.List(a[0]) {
		_, c := term.Ctor(ct)
		_, lc := term.Ctor(c[9])
		ch := &model.Character{
			Key:      term.Str(c[0]),
			Level:    uint32(term.Int(c[1])),
			MaxLevel: uint32(term.Int(c[2])),
			Eidols:   uint32(term.Int(c[3])),
			Traces:   strs(c[4]),
			Abilities: &model.Abilities{
				Attack: uint32(term.Int(c[5])), Skill: uint32(term.Int(c[6])),
				Ult: uint32(term.Int(c[7])), Talent: uint32(term.Int(c[8])),
			},
			LightCone: &model.LightCone{
				Key: term.Str(lc[0]), Level: uint32(term.Int(lc[1])),
				MaxLevel: uint32(term.Int(lc[2])), Imposition: uint32(term.Int(lc[3])),
			},
			StartEnergy: float64(term.Int(c[11])),
			StartHp:     float64(term.Int(c[12])) / 100,
		}
		for _, rt := range term.List(c[10]) {
			_, r := term.Ctor(rt)
			for i := int64(0); i < term.Int(r[1]); i++ {
				ch.Relics = append(ch.Relics, &model.Relic{
					Key:      term.Str(r[0]),
					MainStat: &model.RelicStat{Stat: model.Property_ATK_PERCENT, Amount: 0.05},
					SubStats: []*model.RelicStat{{Stat: model.Property_SPD_FLAT, Amount: 2}},
				})
			}
		}
		if term.Str(lc[0]) == "" && term.Int(lc[1]) == 0 {
			ch.LightCone = nil
		}
		cfg.Characters = append(cfg.Characters, ch)
	}
	for _, et := range term.List(a[1]) {
		_, e := term.Ctor(et)
		en := &model.Enemy{
			Key:   term.Str(e[0]),
			Level: uint32(term.Int(e[1])),
			BaseStats: &model.BaseStats{
				Hp: float64(term.Int(e[2])), Atk: float64(term.Int(e[3])), Spd: float64(term.Int(e[4])),
			},
		}
		params := map[string]any{
			"attack":         term.Str(e[5]),
			"hit_count":      float64(term.Int(e[6])),
			"damage_percent": float64(term.Int(e[7])) / 100,
			"damage_type":    term.Str(e[8]),
			"energy":         float64(10),
		}
		if term.Int(e[6]) == 0 {
			delete(params, "hit_count") // 0 stands for a parameters section that leaves the hit count out (default 1)
		}
		st, err := structpb.NewStruct(params)
		if err != nil {
			panic(err)
		}
		en.Parameters = st
		for _, w := range term.List(e[9]) {
			en.Weaknesses = append(en.Weaknesses, model.DamageType(term.Int(w)))
		}
		if len(e) > 11 {
			if rk := term.Int(e[10]); rk != 0 {
				en.Rank = model.EnemyRank(rk)
			}
			if st := term.Int(e[11]); st != 0 {
				en.BaseStats.Stance = float64(st)
			}
		}
		cfg.Enemies = append(cfg.Enemies, en)
	}
	script := term.Str(a[3])
	for _, ct := range term.List(a[0]) {
		_, c := term.Ctor(ct)
		script += " " + term.Str(c[13])
	}
	script = strings.TrimSpace(script)
	cfg.Logic = &model.SimConfig_Gcsl{Gcsl: script}
	return runSpec{cfg: cfg, script: script, seed: term.Int(a[4])}
}

func parseScript(src string) (*gcs.ActionList, error) {
	return parse.New(src).Parse()
}

// ---------------------------------------------------------------------------------------
// canonical printing of events
// ---------------------------------------------------------------------------------------

var protoMsgType = reflect.TypeOf((*proto.Message)(nil)).Elem()

func canon(w io.Writer, v reflect.Value, depth int) {
	if depth > 14 {
		io.WriteString(w, "<deep>")
		return
	}
	if !v.IsValid() {
		io.WriteString(w, "<invalid>")
		return
	}
	switch v.Kind() {
	case reflect.Bool:
		fmt.Fprintf(w, "%v", v.Bool())
	case reflect.Int, reflect.Int8, reflect.Int16, reflect.Int32, reflect.Int64:
		fmt.Fprintf(w, "%d", v.Int())
	case reflect.Uint, reflect.Uint8, reflect.Uint16, reflect.Uint32, reflect.Uint64, reflect.Uintptr:
		fmt.Fprintf(w, "%d", v.Uint())
	case reflect.Float32, reflect.Float64:
		fmt.Fprintf(w, "f%x", math.Float64bits(v.Float()))
	case reflect.String:
		fmt.Fprintf(w, "%q", v.String())
	case reflect.Ptr:
		if v.IsNil() {
			io.WriteString(w, "nil")
			return
		}
		if v.Type().Implements(protoMsgType) && v.CanInterface() {
			b, err := proto.MarshalOptions{Deterministic: true}.Marshal(v.Interface().(proto.Message))
			fmt.Fprintf(w, "pb(%x,%v)", b, err)
			return
		}
		io.WriteString(w, "&")
		canon(w, v.Elem(), depth+1)
	case reflect.Interface:
		if v.IsNil() {
			io.WriteString(w, "nil")
			return
		}
		io.WriteString(w, v.Elem().Type().String())
		io.WriteString(w, ":")
		canon(w, v.Elem(), depth+1)
	case reflect.Struct:
		t := v.Type()
		io.WriteString(w, t.String())
		io.WriteString(w, "{")
		for i := 0; i < v.NumField(); i++ {
			io.WriteString(w, t.Field(i).Name)
			io.WriteString(w, ":")
			canon(w, v.Field(i), depth+1)
			io.WriteString(w, ";")
		}
		io.WriteString(w, "}")
	case reflect.Slice, reflect.Array:
		if v.Kind() == reflect.Slice && v.IsNil() {
			io.WriteString(w, "[]")
			return
		}
		io.WriteString(w, "[")
		for i := 0; i < v.Len(); i++ {
			canon(w, v.Index(i), depth+1)
			io.WriteString(w, ",")
		}
		io.WriteString(w, "]")
	case reflect.Map:
		type kv struct {
			k string
			v reflect.Value
		}
		items := make([]kv, 0, v.Len())
		it := v.MapRange()
		for it.Next() {
			var sb strings.Builder
			canon(&sb, it.Key(), depth+1)
			items = append(items, kv{sb.String(), it.Value()})
		}
		sort.Slice(items, func(i, j int) bool { return items[i].k < items[j].k })
		io.WriteString(w, "map{")
		for _, x := range items {
			io.WriteString(w, x.k)
			io.WriteString(w, "=>")
			canon(w, x.v, depth+1)
			io.WriteString(w, ",")
		}
		io.WriteString(w, "}")
	case reflect.Func:
		if v.IsNil() {
			io.WriteString(w, "func(nil)")
		} else {
			io.WriteString(w, "func")
		}
	default:
		io.WriteString(w, v.Kind().String())
	}
}

func canonString(x any) string {
	var sb strings.Builder
	canon(&sb, reflect.ValueOf(x), 0)
	return sb.String()
}

// ---------------------------------------------------------------------------------------
// recording logger
// ---------------------------------------------------------------------------------------

type watchdogAbort struct{ n int }

type recLogger struct {
	h        hash.Hash64
	n        int
	names    []string // event type names (kept short: only when keepNames)
	hashes   []uint64 // running hash after each event (for first-difference reports)
	keep     bool
	lastName string
	limit    int // abort (panic with watchdogAbort) beyond this many events; 0 = no limit

	// property C09 on real content: what the result has to add up to, taken from the log
	chars, enemies     map[key.TargetID]bool
	dealt, taken       float64 // sums of TotalDamage of the logged hits, in log order
	absDealt, absTaken float64
	negHit             bool
	terminations       int
	termAV             float64
}

func newRecLogger(keep bool, limit int) *recLogger {
	return &recLogger{h: fnv.New64a(), keep: keep, limit: limit, chars: map[key.TargetID]bool{}, enemies: map[key.TargetID]bool{}}
}

// resultClause returns the first clause of property C09 that the returned result violates against the log
// ("" if it adds up).  Totals: equal to the log-order sums up to rounding (the statistics subscriber sees
// nested hits in another order than they are logged; theorem C09_totals_are_sums_of_hits); series: equal
// length, non-decreasing (for non-negative hits), ending at the totals; total AV: the clock in Termination.
func (l *recLogger) resultClause(r *model.IterationResult) string {
	close := func(a, b, scale float64) bool {
		return a == b || math.Abs(a-b) <= scale*math.Ldexp(1, -40)
	}
	switch {
	case l.terminations != 1 || l.lastName != "Termination":
		return "not exactly one Termination, last"
	case !close(r.TotalDamageDealt, l.dealt, l.absDealt):
		return fmt.Sprintf("total damage dealt %v is not the sum %v of the hits taken by enemies", r.TotalDamageDealt, l.dealt)
	case !close(r.TotalDamageTaken, l.taken, l.absTaken):
		return fmt.Sprintf("total damage taken %v is not the sum %v of the hits taken by characters", r.TotalDamageTaken, l.taken)
	case r.TotalAv != l.termAV:
		return fmt.Sprintf("total action value %v is not the clock %v of the Termination", r.TotalAv, l.termAV)
	case len(r.CumulativeDamageDealtByCycle) != len(r.CumulativeDamageTakenByCycle) || len(r.CumulativeDamageDealtByCycle) == 0:
		return "per-cycle series of different or zero length"
	}
	d, t := r.CumulativeDamageDealtByCycle, r.CumulativeDamageTakenByCycle
	if d[len(d)-1] != r.TotalDamageDealt || t[len(t)-1] != r.TotalDamageTaken {
		return "a per-cycle series does not end at its total"
	}
	if !l.negHit {
		for i := 1; i < len(d); i++ {
			if d[i] < d[i-1] || t[i] < t[i-1] {
				return fmt.Sprintf("a per-cycle series decreases at cycle %d", i)
			}
		}
	}
	return ""
}

func (l *recLogger) Log(e any) {
	l.n++
	name := strings.TrimPrefix(fmt.Sprintf("%T", e), "event.")
	l.lastName = name
	io.WriteString(l.h, name)
	canon(l.h, reflect.ValueOf(e), 0)
	io.WriteString(l.h, "\n")
	switch v := e.(type) {
	case event.CharactersAdded:
		for _, c := range v.Characters {
			l.chars[c.ID] = true
		}
	case event.EnemiesAdded:
		for _, c := range v.Enemies {
			l.enemies[c.ID] = true
		}
	case event.HitEnd:
		if !(v.TotalDamage >= 0) {
			l.negHit = true
		}
		if l.enemies[v.Defender] {
			l.dealt += v.TotalDamage
			l.absDealt += math.Abs(v.TotalDamage)
		} else if l.chars[v.Defender] {
			l.taken += v.TotalDamage
			l.absTaken += math.Abs(v.TotalDamage)
		}
	case event.Termination:
		l.terminations++
		l.termAV = v.TotalAV
	}
	if l.keep {
		l.names = append(l.names, name)
		l.hashes = append(l.hashes, l.h.Sum64())
	}
	if l.limit > 0 && l.n > l.limit {
		panic(watchdogAbort{l.n})
	}
}

func (l *recLogger) sum() int64 { return int64(l.h.Sum64() >> 2) }

// ---------------------------------------------------------------------------------------
// running one spec on the real simulator
// ---------------------------------------------------------------------------------------

type runObs struct {
	status  int // 0 result, 1 error, 2 panic, 3 watchdog abort, 4 script does not parse, 5 result does not add up (C09)
	n       int
	logHash int64
	resHash int64
	last    string // name of the last event logged
	msg     string // error text / panic value + site
}

func hashString(s string) int64 {
	h := fnv.New64a()
	io.WriteString(h, s)
	return int64(h.Sum64() >> 2)
}

func resultHash(r *model.IterationResult) int64 {
	if r == nil {
		return 0
	}
	return hashString(canonString(struct {
		A, B, C float64
		D, E    []float64
	}{r.TotalDamageDealt, r.TotalDamageTaken, r.TotalAv, r.CumulativeDamageDealtByCycle, r.CumulativeDamageTakenByCycle}))
}

// panicSite extracts the first stack frame inside the srsim module from a stack dump
func panicSite(stack string) string {
	lines := strings.Split(stack, "\n")
	for i := 0; i+1 < len(lines); i++ {
		if strings.Contains(lines[i], "github.com/simimpact/srsim/") && !strings.Contains(lines[i], "panic(") {
			loc := strings.TrimSpace(lines[i+1])
			if j := strings.Index(loc, " +0x"); j >= 0 {
				loc = loc[:j]
			}
			if j := strings.Index(loc, "/srsim/"); j >= 0 {
				loc = loc[j+len("/srsim/"):]
			} else if j := strings.LastIndex(loc, "/repo/"); j >= 0 {
				loc = loc[j+len("/repo/"):]
			}
			fn := strings.TrimSpace(lines[i])
			if j := strings.LastIndex(fn, "("); j > 0 {
				fn = fn[:j]
			}
			fn = strings.TrimPrefix(fn, "github.com/simimpact/srsim/")
			return fn + " @ " + loc
		}
	}
	return "?"
}

// runReal executes simulation.Run for the spec with the given loggers; list may be shared
// between runs (the real worker pools share one parsed program between all workers).
func runReal(cfg *model.SimConfig, list *gcs.ActionList, seed int64, rec *recLogger, loggers []logging.Logger) (obs runObs) {
	defer func() {
		if r := recover(); r != nil {
			if wa, ok := r.(watchdogAbort); ok {
				obs = runObs{status: 3, n: wa.n, msg: "event-count watchdog"}
			} else {
				obs = runObs{status: 2, msg: fmt.Sprint(r) + " @ " + panicSite(string(debug.Stack()))}
			}
			if rec != nil {
				obs.n, obs.logHash, obs.last = rec.n, rec.sum(), rec.lastName
			}
		}
	}()
	res, err := simulation.Run(&simulation.RunOpts{
		Config:  cfg,
		Eval:    eval.New(context.Background(), list.Program),
		Seed:    seed,
		Loggers: loggers,
	})
	if err != nil {
		obs = runObs{status: 1, msg: err.Error()}
	} else {
		obs = runObs{status: 0, resHash: resultHash(res)}
		if rec != nil {
			if cl := rec.resultClause(res); cl != "" {
				obs.status, obs.msg = 5, cl
			}
		}
	}
	if rec != nil {
		obs.n, obs.logHash, obs.last = rec.n, rec.sum(), rec.lastName
	}
	return obs
}

func obsTerm(o runObs) term.T {
	return term.C("Obs", term.I(int64(o.status)), term.I(int64(o.n)), term.I(o.logHash), term.I(o.resHash),
		term.S(o.last), term.S(sanitize(o.msg)))
}

func sanitize(s string) string {
	s = strings.Map(func(r rune) rune {
		if r == '"' || r == '\\' {
			return '\''
		}
		if r < 32 || r > 126 {
			return ' '
		}
		return r
	}, s)
	if len(s) > 300 {
		s = s[:300]
	}
	return s
}
