(* Schema library for C01: which `range`-over-a-map loops are independent of the iteration
   order (for EVERY permutation the oracle may pick), and which are not (concrete witnesses). *)
From Coq Require Import List ZArith Bool Permutation Sorted Lia Floats.
From SR Require Import Base.CaseLib Base.MapIter.
Import ListNotations.

(* ------------------------------------------------------------------------------------ *)
(* folding a body that commutes on entries with different keys, over two permutations     *)
Section FoldPerm.
  Variables (St A KK : Type) (R : St -> St -> Prop) (f : St -> A -> St) (key : A -> KK).
  Hypothesis R_refl : forall s, R s s.
  Hypothesis R_trans : forall a b c, R a b -> R b c -> R a c.
  Hypothesis f_proper : forall s s' a, R s s' -> R (f s a) (f s' a).
  Hypothesis f_comm : forall s a b, key a <> key b -> R (f (f s a) b) (f (f s b) a).

  Lemma fold_proper : forall l s s', R s s' -> R (fold_left f l s) (fold_left f l s').
  Proof.
    induction l as [|x l IH]; intros s s' H; cbn [fold_left]; [exact H|].
    apply IH, f_proper, H.
  Qed.

  Theorem fold_perm : forall l l', Permutation l l' -> NoDup (map key l) ->
    forall s s', R s s' -> R (fold_left f l s) (fold_left f l' s').
  Proof.
    intros l l' HP. induction HP as [|x l l' HP IH|x y l|l l' l'' HP1 IH1 HP2 IH2]; intros ND s s' HR.
    - exact HR.
    - cbn [fold_left]. cbn [map] in ND. inversion ND as [|? ? _ ND']; subst.
      apply IH; [exact ND'|]. apply f_proper, HR.
    - cbn [fold_left]. cbn [map] in ND.
      inversion ND as [|? ? Hnin ND']; subst.
      assert (Hne : key y <> key x).
      { intro E. apply Hnin. rewrite E. left. reflexivity. }
      apply fold_proper.
      eapply R_trans; [apply f_comm, Hne|].
      apply f_proper, f_proper, HR.
    - eapply R_trans.
      + apply IH1; [exact ND|apply R_refl].
      + apply IH2; [|exact HR].
        eapply Permutation_NoDup; [apply Permutation_map, HP1|exact ND].
  Qed.
End FoldPerm.

(* ------------------------------------------------------------------------------------ *)
(* association-list facts                                                                 *)
Section AMapFacts.
  Context {K V : Type}.
  Variable keqb : K -> K -> bool.
  Hypothesis keqb_spec : forall a b, keqb a b = true <-> a = b.

  Lemma keqb_refl : forall a, keqb a a = true.
  Proof. intro a. apply keqb_spec. reflexivity. Qed.

  Lemma keqb_neq : forall a b, a <> b -> keqb a b = false.
  Proof.
    intros a b H. destruct (keqb a b) eqn:E; [|reflexivity].
    exfalso. apply H, keqb_spec, E.
  Qed.

  Lemma keqb_sym : forall a b, keqb a b = keqb b a.
  Proof.
    intros a b. destruct (keqb a b) eqn:E.
    - apply keqb_spec in E. subst. symmetry. apply keqb_refl.
    - destruct (keqb b a) eqn:E'; [|reflexivity].
      apply keqb_spec in E'. subst. rewrite keqb_refl in E. discriminate.
  Qed.

  Lemma lookup_del : forall (m : @amap K V) k k',
    lookup keqb k' (del keqb k m) = if keqb k' k then None else lookup keqb k' m.
  Proof.
    induction m as [|[k0 v0] m IH]; intros k k'; cbn [del lookup].
    - destruct (keqb k' k); reflexivity.
    - destruct (keqb k k0) eqn:E.
      + apply keqb_spec in E. subst k0. rewrite IH.
        destruct (keqb k' k); reflexivity.
      + cbn [lookup]. rewrite IH.
        destruct (keqb k' k0) eqn:E0; [|reflexivity].
        apply keqb_spec in E0. subst k0.
        rewrite (keqb_sym k' k), E. reflexivity.
  Qed.

  Lemma lookup_set : forall (m : @amap K V) k v k',
    lookup keqb k' (set keqb k v m) = if keqb k' k then Some v else lookup keqb k' m.
  Proof.
    intros m k v k'. unfold set. cbn [lookup]. rewrite lookup_del.
    destruct (keqb k' k); reflexivity.
  Qed.

  Lemma lookup_alter : forall (m : @amap K V) k f k',
    lookup keqb k' (alter keqb k f m) = if keqb k' k then f (lookup keqb k m) else lookup keqb k' m.
  Proof.
    intros m k f k'. unfold alter. destruct (f (lookup keqb k m)) as [v|].
    - apply lookup_set.
    - apply lookup_del.
  Qed.

  Lemma same_map_refl : forall m : @amap K V, same_map keqb m m.
  Proof. intros m k. reflexivity. Qed.

  Lemma same_map_trans : forall a b c : @amap K V,
    same_map keqb a b -> same_map keqb b c -> same_map keqb a c.
  Proof. intros a b c H1 H2 k. rewrite H1. apply H2. Qed.

  Lemma alter_proper : forall (m m' : @amap K V) k f,
    same_map keqb m m' -> same_map keqb (alter keqb k f m) (alter keqb k f m').
  Proof.
    intros m m' k f H k'. rewrite !lookup_alter, (H k), (H k'). reflexivity.
  Qed.

  Lemma alter_comm : forall (m : @amap K V) k1 f1 k2 f2, k1 <> k2 ->
    same_map keqb (alter keqb k2 f2 (alter keqb k1 f1 m)) (alter keqb k1 f1 (alter keqb k2 f2 m)).
  Proof.
    intros m k1 f1 k2 f2 Hne k'. rewrite !lookup_alter.
    rewrite (keqb_neq k2 k1) by (intro E; apply Hne; symmetry; exact E).
    rewrite (keqb_neq k1 k2) by exact Hne.
    destruct (keqb k' k2) eqn:E2, (keqb k' k1) eqn:E1; try reflexivity.
    apply keqb_spec in E1, E2. subst. exfalso. apply Hne. reflexivity.
  Qed.

  Lemma lookup_not_key : forall (m : @amap K V) k, ~ In k (keys m) -> lookup keqb k m = None.
  Proof.
    induction m as [|[k0 v0] m IH]; intros k H; cbn [lookup]; [reflexivity|].
    cbn [keys map fst] in H.
    rewrite keqb_neq.
    - apply IH. intro Hin. apply H. right. exact Hin.
    - intro E. apply H. left. symmetry. exact E.
  Qed.
End AMapFacts.

(* ------------------------------------------------------------------------------------ *)
(* the schemas                                                                            *)
Section Schemas.
  Context {K V K' V' : Type}.
  Variable keqb : K -> K -> bool.
  Variable keqb' : K' -> K' -> bool.
  Hypothesis keqb'_spec : forall a b, keqb' a b = true <-> a = b.

  (* the body of a per-key loop: the entry [h k] of the destination is replaced by a function
     [u k v] of its old content; nothing else is read or written *)
  Definition per_key_body (h : K -> K') (u : K -> V -> option V' -> option V')
    (d : @amap K' V') (kv : K * V) : @amap K' V' :=
    alter keqb' (h (fst kv)) (u (fst kv) (snd kv)) d.

  (* range_update_per_key: a loop in which each iteration touches only the destination entry
     that belongs to its own key gives the same destination map for every iteration order
     (general form: also from two destinations that are the same map) *)
  Theorem range_update_per_key_gen :
    forall (m : @amap K V) (h : K -> K') (u : K -> V -> option V' -> option V'),
      (forall k1 k2, h k1 = h k2 -> k1 = k2) -> wf m ->
      forall o1 o2, is_order m o1 -> is_order m o2 ->
      forall d d', same_map keqb' d d' ->
        same_map keqb' (range (per_key_body h u) o1 d) (range (per_key_body h u) o2 d').
  Proof.
    intros m h u Hinj Hwf o1 o2 H1 H2 d d' Hd. unfold range.
    apply (fold_perm (@amap K' V') (K * V) K (same_map keqb') (per_key_body h u) fst).
    - apply same_map_refl.
    - apply same_map_trans.
    - intros s s' a HR. unfold per_key_body. apply (alter_proper keqb' keqb'_spec), HR.
    - intros s a b Hne. unfold per_key_body. apply (alter_comm keqb' keqb'_spec).
      intro E. apply Hne, Hinj, E.
    - unfold is_order in *. eapply Permutation_trans; [apply Permutation_sym, H1|exact H2].
    - eapply Permutation_NoDup; [apply Permutation_map, H1|exact Hwf].
    - exact Hd.
  Qed.

  Theorem range_update_per_key :
    forall (m : @amap K V) (h : K -> K') (u : K -> V -> option V' -> option V'),
      (forall k1 k2, h k1 = h k2 -> k1 = k2) -> wf m ->
      forall o1 o2, is_order m o1 -> is_order m o2 ->
      forall d, same_map keqb' (range (per_key_body h u) o1 d) (range (per_key_body h u) o2 d).
  Proof.
    intros m h u Hinj Hwf o1 o2 H1 H2 d.
    apply (range_update_per_key_gen m h u Hinj Hwf o1 o2 H1 H2). apply same_map_refl.
  Qed.

  (* range_insert_distinct: dst[h k] = g k v with pairwise distinct target keys *)
  Theorem range_insert_distinct :
    forall (m : @amap K V) (h : K -> K') (g : K -> V -> V'),
      (forall k1 k2, h k1 = h k2 -> k1 = k2) -> wf m ->
      forall o1 o2, is_order m o1 -> is_order m o2 ->
      forall d, same_map keqb'
        (range (fun d kv => set keqb' (h (fst kv)) (g (fst kv) (snd kv)) d) o1 d)
        (range (fun d kv => set keqb' (h (fst kv)) (g (fst kv) (snd kv)) d) o2 d).
  Proof.
    intros m h g Hinj Hwf o1 o2 H1 H2 d.
    exact (range_update_per_key m h (fun k v _ => Some (g k v)) Hinj Hwf o1 o2 H1 H2 d).
  Qed.
End Schemas.

Section Schemas2.
  Context {K V : Type}.
  Variable keqb : K -> K -> bool.
  Hypothesis keqb_spec : forall a b, keqb a b = true <-> a = b.

  (* range_copy: dst[k] = v *)
  Theorem range_copy :
    forall (m : @amap K V), wf m -> forall o1 o2, is_order m o1 -> is_order m o2 ->
      forall d, same_map keqb
        (range (fun d kv => set keqb (fst kv) (snd kv) d) o1 d)
        (range (fun d kv => set keqb (fst kv) (snd kv) d) o2 d).
  Proof.
    intros m Hwf o1 o2 H1 H2 d.
    exact (range_insert_distinct keqb keqb_spec m (fun k => k) (fun _ v => v)
             (fun _ _ E => E) Hwf o1 o2 H1 H2 d).
  Qed.

  Lemma lookup_fold_del : forall (o : list (K * V)) (d : @amap K V) k,
    lookup keqb k (fold_left (fun d kv => del keqb (fst kv) d) o d) =
    if existsb (fun kv => keqb k (fst kv)) o then None else lookup keqb k d.
  Proof.
    induction o as [|[k0 v0] o IH]; intros d k; cbn [fold_left existsb fst]; [reflexivity|].
    rewrite IH, (lookup_del keqb keqb_spec).
    destruct (keqb k k0); cbn [orb]; [|reflexivity].
    destruct (existsb (fun kv => keqb k (fst kv)) o); reflexivity.
  Qed.

  (* range_delete_all: `for k := range m { delete(m, k) }` empties m for every order
     (and deleting the keys of m from any other map d gives the same d for every order) *)
  Theorem range_delete_all :
    forall (m : @amap K V), forall o, is_order m o ->
      forall k, lookup keqb k (range (fun d kv => del keqb (fst kv) d) o m) = None.
  Proof.
    intros m o HO k. unfold range. rewrite lookup_fold_del.
    destruct (existsb (fun kv => keqb k (fst kv)) o) eqn:E; [reflexivity|].
    apply (lookup_not_key keqb keqb_spec). intro Hin.
    unfold keys in Hin. apply in_map_iff in Hin. destruct Hin as [[k1 v1] [Hk Hin]].
    cbn [fst] in Hk. subst k1.
    assert (Hin' : In (k, v1) o) by (eapply Permutation_in; [exact HO|exact Hin]).
    assert (existsb (fun kv => keqb k (fst kv)) o = true).
    { apply existsb_exists. exists (k, v1). split; [exact Hin'|]. cbn [fst]. apply keqb_spec. reflexivity. }
    congruence.
  Qed.

  Theorem range_delete_from_other :
    forall (m : @amap K V), wf m -> forall o1 o2, is_order m o1 -> is_order m o2 ->
      forall d : @amap K V, same_map keqb
        (range (fun d kv => del keqb (fst kv) d) o1 d) (range (fun d kv => del keqb (fst kv) d) o2 d).
  Proof.
    intros m Hwf o1 o2 H1 H2 d k. unfold range. rewrite !lookup_fold_del.
    assert (HP : Permutation o1 o2) by (eapply Permutation_trans; [apply Permutation_sym, H1|exact H2]).
    assert (E : existsb (fun kv => keqb k (fst kv)) o1 = existsb (fun kv => keqb k (fst kv)) o2).
    { destruct (existsb (fun kv => keqb k (fst kv)) o1) eqn:E1; symmetry.
      - apply existsb_exists in E1. destruct E1 as [x [Hx Hk]].
        apply existsb_exists. exists x. split; [eapply Permutation_in; eassumption|exact Hk].
      - destruct (existsb (fun kv => keqb k (fst kv)) o2) eqn:E2; [|reflexivity].
        apply existsb_exists in E2. destruct E2 as [x [Hx Hk]].
        assert (existsb (fun kv => keqb k (fst kv)) o1 = true).
        { apply existsb_exists. exists x. split; [eapply Permutation_in; [apply Permutation_sym, HP|exact Hx]|exact Hk]. }
        congruence. }
    rewrite E. reflexivity.
  Qed.
End Schemas2.

(* range_acc_comm_assoc: accumulation with a commutative and associative operator *)
Theorem range_acc_comm_assoc :
  forall (A B : Type) (op : B -> B -> B) (g : A -> B),
    (forall a b, op a b = op b a) -> (forall a b c, op (op a b) c = op a (op b c)) ->
    forall o1 o2 : list A, Permutation o1 o2 ->
    forall a0, fold_left (fun acc x => op acc (g x)) o1 a0 = fold_left (fun acc x => op acc (g x)) o2 a0.
Proof.
  intros A B op g Hc Ha o1 o2 HP.
  induction HP as [|x l l' HP IH|x y l|l l' l'' HP1 IH1 HP2 IH2]; intro a0; cbn [fold_left].
  - reflexivity.
  - apply IH.
  - f_equal. rewrite !Ha. f_equal. apply Hc.
  - rewrite IH1. apply IH2.
Qed.

Corollary range_acc_Zadd : forall (A : Type) (g : A -> Z) o1 o2, Permutation o1 o2 -> forall a0,
  fold_left (fun acc x => (acc + g x)%Z) o1 a0 = fold_left (fun acc x => (acc + g x)%Z) o2 a0.
Proof. intros A g. apply (range_acc_comm_assoc A Z Z.add g Z.add_comm). intros; symmetry; apply Z.add_assoc. Qed.

Corollary range_acc_Zmax : forall (A : Type) (g : A -> Z) o1 o2, Permutation o1 o2 -> forall a0,
  fold_left (fun acc x => Z.max acc (g x)) o1 a0 = fold_left (fun acc x => Z.max acc (g x)) o2 a0.
Proof. intros A g. apply (range_acc_comm_assoc A Z Z.max g Z.max_comm). intros; symmetry; apply Z.max_assoc. Qed.

Corollary range_acc_Zmul : forall (A : Type) (g : A -> Z) o1 o2, Permutation o1 o2 -> forall a0,
  fold_left (fun acc x => (acc * g x)%Z) o1 a0 = fold_left (fun acc x => (acc * g x)%Z) o2 a0.
Proof. intros A g. apply (range_acc_comm_assoc A Z Z.mul g Z.mul_comm). intros; symmetry; apply Z.mul_assoc. Qed.

Corollary range_acc_orb : forall (A : Type) (g : A -> bool) o1 o2, Permutation o1 o2 -> forall a0,
  fold_left (fun acc x => acc || g x) o1 a0 = fold_left (fun acc x => acc || g x) o2 a0.
Proof. intros A g. apply (range_acc_comm_assoc A bool orb g orb_comm). intros; symmetry; apply orb_assoc. Qed.

Corollary range_acc_andb : forall (A : Type) (g : A -> bool) o1 o2, Permutation o1 o2 -> forall a0,
  fold_left (fun acc x => acc && g x) o1 a0 = fold_left (fun acc x => acc && g x) o2 a0.
Proof. intros A g. apply (range_acc_comm_assoc A bool andb g andb_comm). intros; symmetry; apply andb_assoc. Qed.

(* Go integers wrap: int64 addition is still commutative and associative *)
Definition add64 (a b : Z) : Z := wrap64 (a + b).
Lemma add64_comm : forall a b, add64 a b = add64 b a.
Proof. intros. unfold add64. rewrite Z.add_comm. reflexivity. Qed.
Lemma add64_assoc : forall a b c, add64 (add64 a b) c = add64 a (add64 b c).
Proof.
  intros a b c. unfold add64, wrap64. f_equal.
  replace ((a + b + 2 ^ 63) mod 2 ^ 64 - 2 ^ 63 + c + 2 ^ 63)%Z
    with ((a + b + 2 ^ 63) mod 2 ^ 64 + c)%Z by lia.
  replace (a + ((b + c + 2 ^ 63) mod 2 ^ 64 - 2 ^ 63) + 2 ^ 63)%Z
    with (a + (b + c + 2 ^ 63) mod 2 ^ 64)%Z by lia.
  rewrite Zplus_mod_idemp_l, Zplus_mod_idemp_r. f_equal. lia.
Qed.
Corollary range_acc_int64_add : forall (A : Type) (g : A -> Z) o1 o2, Permutation o1 o2 -> forall a0,
  fold_left (fun acc x => add64 acc (g x)) o1 a0 = fold_left (fun acc x => add64 acc (g x)) o2 a0.
Proof. intros A g. apply (range_acc_comm_assoc A Z add64 g add64_comm add64_assoc). Qed.

(* ------------------------------------------------------------------------------------ *)
(* collect, then sort                                                                     *)
Section SortFacts.
  Context {A : Type}.
  Variable kf : A -> Z.
  Let le (a b : A) : Prop := (kf a <= kf b)%Z.

  Lemma insert_by_perm : forall x l, Permutation (x :: l) (insert_by kf x l).
  Proof.
    induction l as [|y r IH]; cbn [insert_by]; [apply Permutation_refl|].
    destruct (kf x <=? kf y)%Z; [apply Permutation_refl|].
    eapply Permutation_trans; [apply perm_swap|]. apply perm_skip, IH.
  Qed.

  Lemma isort_perm : forall l, Permutation l (isort kf l).
  Proof.
    induction l as [|x r IH]; cbn [isort]; [apply Permutation_refl|].
    eapply Permutation_trans; [apply perm_skip, IH|apply insert_by_perm].
  Qed.

  Lemma insert_by_sorted : forall x l, StronglySorted le l -> StronglySorted le (insert_by kf x l).
  Proof.
    induction l as [|y r IH]; intro HS; cbn [insert_by].
    - constructor; [constructor|constructor].
    - inversion HS as [|? ? HS' HF]; subst.
      destruct (kf x <=? kf y)%Z eqn:E.
      + apply Z.leb_le in E. constructor; [exact HS|].
        constructor; [exact E|].
        eapply Forall_impl; [|exact HF]. intros a Ha. unfold le in *. lia.
      + apply Z.leb_gt in E. constructor; [apply IH, HS'|].
        eapply Permutation_Forall; [apply insert_by_perm|].
        constructor; [unfold le; lia|exact HF].
  Qed.

  Lemma isort_sorted : forall l, StronglySorted le (isort kf l).
  Proof.
    induction l as [|x r IH]; cbn [isort]; [constructor|]. apply insert_by_sorted, IH.
  Qed.

  Lemma NoDup_map_inj : forall (l : list A) a b,
    NoDup (map kf l) -> In a l -> In b l -> kf a = kf b -> a = b.
  Proof.
    induction l as [|x r IH]; intros a b ND Ha Hb E; [destruct Ha|].
    cbn [map] in ND. inversion ND as [|? ? Hnin ND']; subst.
    destruct Ha as [Ha|Ha], Hb as [Hb|Hb].
    - congruence.
    - subst a. exfalso. apply Hnin. rewrite E. apply in_map, Hb.
    - subst b. exfalso. apply Hnin. rewrite <- E. apply in_map, Ha.
    - apply IH; assumption.
  Qed.

  (* two sorted lists with the same elements and pairwise distinct sort keys are equal *)
  Lemma sorted_perm_unique : forall l l',
    StronglySorted le l -> StronglySorted le l' -> Permutation l l' -> NoDup (map kf l) -> l = l'.
  Proof.
    induction l as [|a r IH]; intros l' HS HS' HP ND.
    - apply Permutation_nil in HP. subst. reflexivity.
    - destruct l' as [|b r']; [apply Permutation_sym, Permutation_nil in HP; discriminate|].
      inversion HS as [|? ? HSr HFa]; subst. inversion HS' as [|? ? HSr' HFb]; subst.
      assert (Hab : kf a = kf b).
      { assert (Hb : In b (a :: r)) by (eapply Permutation_in; [apply Permutation_sym, HP|left; reflexivity]).
        assert (Ha : In a (b :: r')) by (eapply Permutation_in; [exact HP|left; reflexivity]).
        assert (L1 : (kf a <= kf b)%Z).
        { destruct Hb as [Hb|Hb]; [subst; lia|]. rewrite Forall_forall in HFa. apply HFa, Hb. }
        assert (L2 : (kf b <= kf a)%Z).
        { destruct Ha as [Ha|Ha]; [subst; lia|]. rewrite Forall_forall in HFb. apply HFb, Ha. }
        lia. }
      assert (a = b).
      { apply (NoDup_map_inj (a :: r)); [exact ND|left; reflexivity| |exact Hab].
        eapply Permutation_in; [apply Permutation_sym, HP|left; reflexivity]. }
      subst b. f_equal. apply IH; [exact HSr|exact HSr'| |].
      + eapply Permutation_cons_inv, HP.
      + cbn [map] in ND. inversion ND; assumption.
  Qed.

  (* range_collect_sorted: collecting the entries in iteration order and then sorting them by a
     key that is distinct for distinct entries gives the same list for every order *)
  Theorem range_collect_sorted : forall o1 o2 : list A,
    Permutation o1 o2 -> NoDup (map kf o1) -> isort kf o1 = isort kf o2.
  Proof.
    intros o1 o2 HP ND.
    apply sorted_perm_unique; [apply isort_sorted|apply isort_sorted| |].
    - eapply Permutation_trans; [apply Permutation_sym, isort_perm|].
      eapply Permutation_trans; [exact HP|apply isort_perm].
    - eapply Permutation_NoDup; [apply Permutation_map, isort_perm|exact ND].
  Qed.
End SortFacts.

(* ------------------------------------------------------------------------------------ *)
(* composition: a whole program whose loops are all order independent gives the same final
   state for every two legal oracles                                                        *)
Section Programs.
  Variables (St K V : Type) (R : St -> St -> Prop).

  (* what the schema theorems establish of a loop, and what a deterministic step must respect *)
  Definition step_ok (st : step St K V) : Prop :=
    match st with
    | Det f => forall s s', R s s' -> R (f s) (f s')
    | Range m body =>
        forall s s', R s s' -> forall o o', Permutation (m s) o -> Permutation (m s') o' ->
          R (range body o s) (range body o' s')
    end.

  Theorem program_oracle_independent :
    forall (p : list (step St K V)), Forall step_ok p ->
    forall (o1 o2 : oracle K V), legal o1 -> legal o2 ->
    forall n1 n2 s s', R s s' -> R (run_prog o1 n1 p s) (run_prog o2 n2 p s').
  Proof.
    induction p as [|st p IH]; intros HF o1 o2 L1 L2 n1 n2 s s' HR; cbn [run_prog]; [exact HR|].
    inversion HF as [|? ? Hst HF']; subst.
    destruct st as [f|m body]; cbn [step_ok] in Hst.
    - apply IH; try assumption. apply Hst, HR.
    - apply IH; try assumption. apply Hst; [exact HR|apply L1|apply L2].
  Qed.
End Programs.

(* ------------------------------------------------------------------------------------ *)
(* refutations: loops whose result DOES depend on the order (concrete witnesses)           *)

(* appending to a list *)
Theorem range_append_order_dependent :
  exists (m o1 o2 : list (Z * Z)),
    NoDup (map fst m) /\ is_order m o1 /\ is_order m o2 /\
    range (fun acc kv => acc ++ [fst kv]) o1 [] <> range (fun acc kv => acc ++ [fst kv]) o2 [].
Proof.
  exists [(1, 10); (2, 20)]%Z, [(1, 10); (2, 20)]%Z, [(2, 20); (1, 10)]%Z.
  split; [|split; [|split]].
  - cbn. constructor; [intros [H|[]]; discriminate|]. constructor; [intros []|constructor].
  - apply Permutation_refl.
  - apply perm_swap.
  - cbv. discriminate.
Qed.

(* binary64 accumulation of three terms: 0.1, 0.2, 0.3 given by their exact bit patterns *)
Definition f_0_1 : float := f64 4591870180066957722.  (* 0x3FB999999999999A *)
Definition f_0_2 : float := f64 4596373779694328218.  (* 0x3FC999999999999A *)
Definition f_0_3 : float := f64 4599075939470750515.  (* 0x3FD3333333333333 *)
Definition fsum (o : list (Z * float)) : float := range (fun acc kv => (acc + snd kv)%float) o 0%float.

Definition range_float_sum_order_dependent_statement : Prop :=
  exists (m o1 o2 : list (Z * float)),
    NoDup (map fst m) /\ is_order m o1 /\ is_order m o2 /\
    bits64 (fsum o1) = 4603579539098121012%Z /\     (* 0x3FE3333333333334 = 0.6000000000000001 *)
    bits64 (fsum o2) = 4603579539098121011%Z /\     (* 0x3FE3333333333333 = 0.6 *)
    fsum o1 <> fsum o2.

Theorem range_float_sum_order_dependent :
  exists (m o1 o2 : list (Z * float)),
    NoDup (map fst m) /\ is_order m o1 /\ is_order m o2 /\
    bits64 (fsum o1) = 4603579539098121012%Z /\     (* 0x3FE3333333333334 = 0.6000000000000001 *)
    bits64 (fsum o2) = 4603579539098121011%Z /\     (* 0x3FE3333333333333 = 0.6 *)
    fsum o1 <> fsum o2.
Proof.
  exists [(1, f_0_1); (2, f_0_2); (3, f_0_3)]%Z, [(1, f_0_1); (2, f_0_2); (3, f_0_3)]%Z,
         [(3, f_0_3); (2, f_0_2); (1, f_0_1)]%Z.
  split; [|split; [|split; [|split; [|split]]]].
  - cbn [map fst]. repeat constructor; cbn; intuition discriminate.
  - apply Permutation_refl.
  - change [(3, f_0_3); (2, f_0_2); (1, f_0_1)]%Z with (rev [(1, f_0_1); (2, f_0_2); (3, f_0_3)]%Z).
    apply Permutation_rev.
  - vm_compute. reflexivity.
  - vm_compute. reflexivity.
  - intro E. apply (f_equal bits64) in E. vm_compute in E. discriminate.
Qed.

(* a body with an effect: each iteration consumes the next draw of a random stream and stores
   it under its key (gcs: [a = rand(), b = rand()]); which key gets which draw depends on the order *)
Definition draw_body (st : list Z * @amap Z Z) (kv : Z * Z) : list Z * @amap Z Z :=
  match fst st with
  | [] => st
  | d :: rest => (rest, set Z.eqb (fst kv) d (snd st))
  end.

Theorem range_effect_order_dependent :
  exists (m o1 o2 : list (Z * Z)) (stream : list Z),
    NoDup (map fst m) /\ is_order m o1 /\ is_order m o2 /\
    ~ same_map Z.eqb (snd (range draw_body o1 (stream, []))) (snd (range draw_body o2 (stream, []))).
Proof.
  exists [(1, 0); (2, 0)]%Z, [(1, 0); (2, 0)]%Z, [(2, 0); (1, 0)]%Z, [7; 9]%Z.
  split; [|split; [|split]].
  - cbn. constructor; [intros [H|[]]; discriminate|]. constructor; [intros []|constructor].
  - apply Permutation_refl.
  - apply perm_swap.
  - intro H. specialize (H 1%Z). vm_compute in H. discriminate.
Qed.

(* ------------------------------------------------------------------------------------ *)
(* the fact the engine repairs rely on for formulas of at most two terms: starting from +0.0,
   binary64 addition of TWO terms does not depend on their order.  Proved at the float level
   from the standard library's specification of primitive addition (FloatAxioms.add_spec);
   NaNs are Coq's single NaN, i.e. the claim is up to NaN payloads. *)
Lemma SFadd_comm : forall x y, SF64add x y = SF64add y x.
Proof.
  intros x y. unfold SF64add, SFadd.
  destruct x as [sx|sx| |sx mx ex], y as [sy|sy| |sy my ey]; try reflexivity.
  - destruct sx, sy; reflexivity.
  - destruct sx, sy; reflexivity.
  - rewrite (Z.min_comm ex ey), Z.add_comm. reflexivity.
Qed.

Lemma float_add_comm : forall x y : float, (x + y = y + x)%float.
Proof. intros x y. apply Prim2SF_inj. rewrite !add_spec. apply SFadd_comm. Qed.

Definition two_term_float_sum_statement : Prop :=
  forall a b : float, (0 + a + b = 0 + b + a)%float.

Theorem two_term_float_sum_order_independent :
  forall a b : float, (0 + a + b = 0 + b + a)%float.
Proof.
  intros a b. apply Prim2SF_inj. rewrite !add_spec.
  replace (Prim2SF 0) with (S754_zero false) by (vm_compute; reflexivity).
  destruct (Prim2SF a) as [sa|sa| |sa ma ea], (Prim2SF b) as [sb|sb| |sb mb eb];
    try (destruct sa; reflexivity); try (destruct sb; reflexivity);
    try (destruct sa, sb; reflexivity); try reflexivity.
  change (SF64add (S754_zero false) (S754_finite sa ma ea)) with (S754_finite sa ma ea).
  change (SF64add (S754_zero false) (S754_finite sb mb eb)) with (S754_finite sb mb eb).
  apply SFadd_comm.
Qed.
