(* Proofs for C04 (hits) about Model/Hit.v.
   - at EVERY instance of the arithmetic (hence for the executed binary64 model): which party
     each factor reads, when a hit is critical and how many random draws it consumes, what
     performHit reports (factors, their product, the HP / shield split), when toughness is
     removed and who receives the energy;
   - at the real instance [RNum] of the same definitions: the documented closed form of each
     of the nine factor functions with its clamps, "factors multiply to the total",
     "HP damage + shield damage = total", the toughness and energy amounts. *)
From Coq Require Import List ZArith Bool Reals Lra Lia Floats Permutation.
From SR Require Import Model.CombatCore Model.Hit Proofs.CombatFacts.
Import ListNotations.

(* ====================================================================================== *)
(* 1. Every instance                                                                       *)
(* ====================================================================================== *)
Section Any.
  Variable N : NumOps.
  Variable brk : Z -> option (num N).

  Definition set_att (h : hit N) (a : snap N) : hit N :=
    mkHit (h_key N h) (h_idx N h) a (h_def N h) (h_atype N h) (h_dtype N h) (h_terms N h)
          (h_energy N h) (h_stance N h) (h_ratio N h) (h_pure N h) (h_flat N h) (h_snap N h).
  Definition set_def (h : hit N) (d : snap N) : hit N :=
    mkHit (h_key N h) (h_idx N h) (h_att N h) d (h_atype N h) (h_dtype N h) (h_terms N h)
          (h_energy N h) (h_stance N h) (h_ratio N h) (h_pure N h) (h_flat N h) (h_snap N h).

  (* ---- which party a factor reads ---- *)
  (* attacker only: scaling stat, damage bonuses, fatigue, crit chance and crit damage *)
  Lemma baseDamage_attacker_only h d : baseDamage N brk (set_def h d) = baseDamage N brk h.
  Proof. reflexivity. Qed.
  Lemma bonusDamage_attacker_only h d : bonusDamage N (set_def h d) = bonusDamage N h.
  Proof. reflexivity. Qed.
  Lemma fatigue_attacker_only h d : fatigue N (set_def h d) = fatigue N h.
  Proof. reflexivity. Qed.
  Lemma critDmg_attacker_only h d c : critDmg N (set_def h d) c = critDmg N h c.
  Proof. reflexivity. Qed.
  Lemma crit_attacker_only w h d : crit_step N w (set_def h d) = crit_step N w h.
  Proof. reflexivity. Qed.
  (* defender only: damage taken / vulnerability, toughness multiplier, damage reduction *)
  Lemma vul_defender_only h a : vul N (set_att h a) = vul N h.
  Proof. reflexivity. Qed.
  Lemma toughness_defender_only h a : toughness N (set_att h a) = toughness N h.
  Proof. reflexivity. Qed.
  Lemma damageReduce_defender_only h a : damageReduce N (set_att h a) = damageReduce N h.
  Proof. reflexivity. Qed.
  (* defence: the defender's DEF against the attacker's LEVEL only *)
  Lemma defMult_reads h a :
    s_level N a = s_level N (h_att N h) -> defMult N (set_att h a) = defMult N h.
  Proof. intros E. unfold defMult. cbn [h_att h_def set_att]. rewrite E. reflexivity. Qed.
  (* resistance: the defender's RES against the attacker's penetration only *)
  Lemma res_reads h a d :
    sget N a (dmgPENProp (h_dtype N h)) = sget N (h_att N h) (dmgPENProp (h_dtype N h)) ->
    sget N a pAllDamagePEN = sget N (h_att N h) pAllDamagePEN ->
    DamageRES N d (h_dtype N h) = DamageRES N (h_def N h) (h_dtype N h) ->
    res N (set_def (set_att h a) d) = res N h.
  Proof. intros E1 E2 E3. unfold res. cbn [h_att h_def h_dtype set_att set_def]. rewrite E1, E2, E3. reflexivity. Qed.

  (* ---- crit ---- *)
  Definition next_draw (w : world N) : num N := match w_draws N w with [] => c0 N | d :: _ => d end.

  (* critical iff eligible (not DOT, not break/ELEMENT, not pure) and the run's draw is below
     the ATTACKER's crit chance; exactly one draw is consumed iff eligible *)
  Lemma crit_step_spec w h :
    let '(crit, w1, drawn) := crit_step N w h in
    crit = crit_eligible N h && nltb N (next_draw w) (CritChance N (h_att N h)) /\
    w_units N w1 = w_units N w /\ w_limbo N w1 = w_limbo N w /\ w_attack N w1 = w_attack N w /\
    w_draws N w1 = (if crit_eligible N h then tl (w_draws N w) else w_draws N w) /\
    drawn = (if crit_eligible N h then [IDraw (next_draw w)] else []).
  Proof.
    unfold crit_step, next_draw, pop_draw. destruct (crit_eligible N h); cbn.
    - destruct (w_draws N w) as [|d r] eqn:E; cbn; rewrite ?E; repeat split; reflexivity.
    - repeat split; reflexivity.
  Qed.

  Lemma crit_eligible_iff h :
    crit_eligible N h = true <->
    h_atype N h <> atDOT /\ h_atype N h <> atELEMENT /\ h_pure N h = false.
  Proof.
    unfold crit_eligible. rewrite negb_true_iff, !orb_false_iff, !Z.eqb_neq. tauto.
  Qed.

  (* ---- frame: the attribute / shield steps leave the random source, the limbo answers and
          the open attack alone ---- *)
  Definition same_frame (w w' : world N) : Prop :=
    w_limbo N w' = w_limbo N w /\ w_attack N w' = w_attack N w /\ w_draws N w' = w_draws N w.

  Lemma same_frame_refl w : same_frame w w. Proof. repeat split. Qed.
  Lemma same_frame_trans a b c : same_frame a b -> same_frame b c -> same_frame a c.
  Proof. intros (A1 & A2 & A3) (B1 & B2 & B3). repeat split; congruence. Qed.
  Lemma same_frame_upd w u : same_frame w (upd N w u). Proof. repeat split. Qed.

  Ltac frame_cases :=
    repeat match goal with
           | |- same_frame _ (fst (match ?x with _ => _ end)) => destruct x
           | |- same_frame _ (fst (fst (match ?x with _ => _ end))) => destruct x
           | |- same_frame _ (fst (let '(_, _) := ?x in _)) => destruct x
           end; cbn [fst]; try apply same_frame_refl; try apply same_frame_upd.

  Lemma modify_hp_frame w key t s a d : same_frame w (fst (modify_hp N w key t s a d)).
  Proof. unfold modify_hp. frame_cases. Qed.
  Lemma set_stance_frame w key t s a : same_frame w (fst (set_stance_op N w key t s a)).
  Proof. unfold set_stance_op. frame_cases. Qed.
  Lemma modify_stance_frame w key t s a : same_frame w (fst (modify_stance N w key t s a)).
  Proof. unfold modify_stance. destruct (find_unit N (w_units N w) t); [apply set_stance_frame|apply same_frame_refl]. Qed.
  Lemma modify_energy_frame w key t s a : same_frame w (fst (modify_energy N w key t s a)).
  Proof. unfold modify_energy. frame_cases. Qed.
  Lemma absorb_frame w t d : same_frame w (fst (fst (absorb N w t d))).
  Proof.
    unfold absorb. destruct (find_unit N (w_units N w) t) as [u|]; [|apply same_frame_refl].
    destruct (u_shields N u) as [|s sh]; [apply same_frame_refl|].
    destruct (nleb N d (c0 N)); [apply same_frame_refl|].
    destruct (absorb_loop N (s :: sh) d d (c0 N) (-1)) as [[[[kept removed] dOut] newMax] maxId].
    cbn [fst]. apply same_frame_upd.
  Qed.

  (* ---- performHit, relationally ---- *)
  Definition hit_event (h0 : hit N) (adjs : list (adj N)) : hit N :=
    with_event N h0 (apply_adjs N (h_att N h0, h_def N h0, h_terms N h0, h_flat N h0) adjs).

  Record hit_result := mkRes {
    r_crit : bool; r_base : num N; r_total : num N; r_hp : num N;
    r_w1 : world N; r_w2 : world N; r_w3 : world N; r_w4 : world N; r_w5 : world N;
    r_drawn : list (item N); r_shield : list (item N); r_hpev : list (item N);
    r_stance : list (item N); r_energy : list (item N) }.

  (* everything performHit does, step by step, on the ADJUSTED hit [h] *)
  Definition hit_steps (w : world N) (h : hit N) (bd : num N) (r : hit_result) : Prop :=
    let att := s_id N (h_att N h) in
    let def := s_id N (h_def N h) in
    crit_step N w h = (r_crit r, r_w1 r, r_drawn r) /\
    r_base r = nadd N (nmul N (nmul N bd (h_ratio N h)) (bonusDamage N h)) (h_flat N h) /\
    r_total r = product N (factors N h (r_base r) (r_crit r)) /\
    absorb N (r_w1 r) def (r_total r) = (r_w2 r, r_shield r, r_hp r) /\
    modify_hp N (r_w2 r) (h_key N h) def att (nopp N (r_hp r)) true = (r_w3 r, r_hpev r) /\
    (if IsWeakTo N (h_def N h) (h_dtype N h)
     then modify_stance N (r_w3 r) (h_key N h) def att (nmul N (nopp N (h_stance N h)) (h_ratio N h))
     else (r_w3 r, [])) = (r_w4 r, r_stance r) /\
    modify_energy N (r_w4 r) (h_key N h) (if is_char N (r_w4 r) att then att else def) att
                  (nmul N (h_energy N h) (h_ratio N h)) = (r_w5 r, r_energy r).

  Lemma perform_hit_spec w h0 adjs w' evs :
    perform_hit N brk w h0 adjs = Some (w', evs) ->
    let h := hit_event h0 adjs in
    exists bd r,
      baseDamage N brk h = Some bd /\ hit_steps w h bd r /\ w' = r_w5 r /\
      evs = IHitStart (h_key N h) (h_idx N h) (s_id N (h_att N h)) (s_id N (h_def N h)) (h_atype N h) (h_dtype N h)
                      (sort_terms N (h_terms N h)) [h_energy N h; h_stance N h; h_ratio N h; h_flat N h]
                      (h_pure N h) (h_snap N h)
            :: r_drawn r ++ r_shield r ++ r_hpev r ++ r_stance r ++ r_energy r ++
            [IHitEnd (h_key N h) (h_idx N h) (s_id N (h_att N h)) (s_id N (h_def N h)) (h_atype N h) (h_dtype N h)
                     (factors N h (r_base r) (r_crit r) ++
                      [r_total r; r_hp r; nsub N (r_total r) (r_hp r); ratio_left N (r_w5 r) (s_id N (h_def N h))])
                     (r_crit r) (h_snap N h)].
  Proof.
    unfold perform_hit. fold (hit_event h0 adjs). set (h := hit_event h0 adjs). cbn zeta.
    destruct (crit_step N w h) as [[crit w1] drawn] eqn:HC.
    destruct (baseDamage N brk h) as [bd|] eqn:HB; [|discriminate].
    set (base := nadd N (nmul N (nmul N bd (h_ratio N h)) (bonusDamage N h)) (h_flat N h)).
    set (total := product N (factors N h base crit)).
    destruct (absorb N w1 (s_id N (h_def N h)) total) as [[w2 shieldEvs] hpUpdate] eqn:HA.
    destruct (modify_hp N w2 (h_key N h) (s_id N (h_def N h)) (s_id N (h_att N h)) (nopp N hpUpdate) true)
      as [w3 hpEvs] eqn:HM.
    destruct (if IsWeakTo N (h_def N h) (h_dtype N h)
              then modify_stance N w3 (h_key N h) (s_id N (h_def N h)) (s_id N (h_att N h))
                                 (nmul N (nopp N (h_stance N h)) (h_ratio N h))
              else (w3, [])) as [w4 stEvs] eqn:HS.
    destruct (modify_energy N w4 (h_key N h)
                (if is_char N w4 (s_id N (h_att N h)) then s_id N (h_att N h) else s_id N (h_def N h))
                (s_id N (h_att N h)) (nmul N (h_energy N h) (h_ratio N h))) as [w5 enEvs] eqn:HE.
    intros H. inversion H; subst w' evs; clear H.
    exists bd, (mkRes crit base total hpUpdate w1 w2 w3 w4 w5 drawn shieldEvs hpEvs stEvs enEvs).
    split; [reflexivity|]. split; [|split; reflexivity].
    unfold hit_steps. cbn [r_crit r_base r_total r_hp r_w1 r_w2 r_w3 r_w4 r_w5 r_drawn r_shield r_hpev r_stance r_energy].
    repeat split; assumption.
  Qed.

  (* the random source after a hit: one draw consumed iff the hit was eligible *)
  Lemma perform_hit_draws w h0 adjs w' evs :
    perform_hit N brk w h0 adjs = Some (w', evs) ->
    let h := hit_event h0 adjs in
    w_draws N w' = (if crit_eligible N h then tl (w_draws N w) else w_draws N w).
  Proof.
    intros H. apply perform_hit_spec in H. cbn zeta in *.
    destruct H as (bd & r & _ & S & -> & _). destruct S as (S1 & _ & _ & S4 & S5 & S6 & S7).
    pose proof (crit_step_spec w (hit_event h0 adjs)) as C. rewrite S1 in C.
    destruct C as (_ & _ & _ & _ & C5 & _).
    pose proof (absorb_frame (r_w1 r) (s_id N (h_def N (hit_event h0 adjs))) (r_total r)) as F2. rewrite S4 in F2.
    pose proof (modify_hp_frame (r_w2 r) (h_key N (hit_event h0 adjs)) (s_id N (h_def N (hit_event h0 adjs)))
                                (s_id N (h_att N (hit_event h0 adjs))) (nopp N (r_hp r)) true) as F3. rewrite S5 in F3.
    assert (F4 : same_frame (r_w3 r) (r_w4 r)).
    { destruct (IsWeakTo N (h_def N (hit_event h0 adjs)) (h_dtype N (hit_event h0 adjs))).
      - match type of S6 with modify_stance N ?a ?b ?c ?d ?e = _ =>
          pose proof (modify_stance_frame a b c d e) as F end. rewrite S6 in F. exact F.
      - inversion S6. apply same_frame_refl. }
    match type of S7 with modify_energy N ?a ?b ?c ?d ?e = _ =>
      pose proof (modify_energy_frame a b c d e) as F5 end. rewrite S7 in F5.
    cbn [fst] in *.
    destruct F2 as (_ & _ & D2). destruct F3 as (_ & _ & D3). destruct F4 as (_ & _ & D4). destruct F5 as (_ & _ & D5).
    congruence.
  Qed.

  (* toughness is removed only from a defender weak to the hit's element *)
  Lemma hit_steps_not_weak w h bd r :
    hit_steps w h bd r -> IsWeakTo N (h_def N h) (h_dtype N h) = false ->
    r_w4 r = r_w3 r /\ r_stance r = [].
  Proof. intros (_ & _ & _ & _ & _ & S6 & _) Hw. rewrite Hw in S6. inversion S6. auto. Qed.

  (* ... and from a weak one by ModifyStance(target = defender, source = attacker,
     amount = -(stance damage) * hit ratio) *)
  Lemma hit_steps_weak w h bd r :
    hit_steps w h bd r -> IsWeakTo N (h_def N h) (h_dtype N h) = true ->
    modify_stance N (r_w3 r) (h_key N h) (s_id N (h_def N h)) (s_id N (h_att N h))
                  (nmul N (nopp N (h_stance N h)) (h_ratio N h)) = (r_w4 r, r_stance r).
  Proof. intros (_ & _ & _ & _ & _ & S6 & _) Hw. rewrite Hw in S6. exact S6. Qed.

  (* ModifyStance: new stance before the clamp = old + amount * (1 + SOURCE's bonus) *)
  Lemma modify_stance_spec w key target source amount u :
    find_unit N (w_units N w) target = Some u ->
    modify_stance N w key target source amount =
      set_stance_op N w key target source
        (nadd N (u_stance N u) (nmul N amount (nadd N (c1 N) (sget N (stats_of N w source) pAllStanceDMGPercent)))).
  Proof. intros H. unfold modify_stance. rewrite H. reflexivity. Qed.

  (* ModifyEnergy: new energy before the clamp = old + amount * (1 + RECEIVER's energy regen) *)
  Lemma modify_energy_spec w key target source amount u :
    find_unit N (w_units N w) target = Some u ->
    let a := nadd N (u_energy N u) (nmul N amount (nadd N (c1 N) (EnergyRegen N (stats_of N w target)))) in
    let e := if nltb N (u_maxEnergy N u) a then u_maxEnergy N u else if nltb N a (c0 N) then c0 N else a in
    modify_energy N w key target source amount =
      (upd N w (set_energy N u e),
       if neqb N (u_energy N u) e then [] else [IEnergyChange key target source (u_energy N u) e]).
  Proof.
    intros H. unfold modify_energy. rewrite H. cbn zeta.
    destruct (neqb N (u_energy N u) _); reflexivity.
  Qed.

  (* several targets: one hit after the other, each on the state the previous one left *)
  Lemma hit_targets_cons w t ts mk adjs :
    hit_targets N brk w (t :: ts) mk adjs =
      match perform_hit N brk w (mk w t) adjs with
      | None => None
      | Some (w1, e1) =>
          match hit_targets N brk w1 ts mk adjs with
          | None => None
          | Some (w2, e2) => Some (w2, e1 ++ e2)
          end
      end.
  Proof. reflexivity. Qed.

  (* an attack from a source that is not alive, or without targets, does nothing *)
  Lemma attack_dead_source_nothing w key idx source ts atype dtype terms energy stance ratio flat pure snapf adjs :
    ts = [] \/ is_alive N w source = false ->
    astep N brk w (AAttack key idx source ts atype dtype terms energy stance ratio flat pure snapf adjs) = Some (w, []).
  Proof. intros [ -> | H ]; cbn [astep]; [reflexivity|]. rewrite H. destruct ts; reflexivity. Qed.
End Any.

(* ====================================================================================== *)
(* 2. Real numbers: the documented factors                                                 *)
(* ====================================================================================== *)
Open Scope R_scope.
Notation Rn := RNum.

(* case analysis on a formula key: 0..7 individually, everything else generically *)
Ltac key_cases k :=
  destruct k as [|k|k];
  [ | destruct k as [[[k|k|]|[k|k|]|]|[[k|k|]|[k|k|]|]|] | ].

Section Reals.
  Variable brk : Z -> option R.

  Fixpoint sumR (l : list R) : R := match l with [] => 0 | x :: r => x + sumR r end.
  Lemma sumR_perm l l' : Permutation l l' -> sumR l = sumR l'.
  Proof. induction 1; cbn; lra. Qed.

  (* value of one damage-formula term when the table lookup is defined *)
  Definition dterm (h : hit Rn) (b : R) (kv : Z * R) : R :=
    match fst kv with
    | 1%Z => snd kv * ATK Rn (h_att Rn h)
    | 2%Z => snd kv * DEF Rn (h_att Rn h)
    | 3%Z => snd kv * MaxHP Rn (h_att Rn h)
    | 4%Z => snd kv * b
    | _ => 0
    end.

  (* base damage = sum over the formula map of coefficient * attacker's ATK / DEF / max HP /
     break base damage at the attacker's level *)
  Lemma baseDamage_R h b :
    brk (s_level Rn (h_att Rn h)) = Some b ->
    baseDamage Rn brk h = Some (sumR (map (dterm h b) (h_terms Rn h))).
  Proof.
    intros Hb. unfold baseDamage.
    assert (G : forall l acc,
      fold_left (fun acc kv => match acc with
                               | None => None
                               | Some d => match dmg_stat Rn brk h (fst kv) with
                                           | None => Some d
                                           | Some None => None
                                           | Some (Some x) => Some (nadd Rn d (nmul Rn (snd kv) x))
                                           end
                               end) l (Some acc) = Some (acc + sumR (map (dterm h b) l))).
    { induction l as [|kv l IH]; intros acc; cbn [fold_left map sumR]; [f_equal; lra|].
      assert (E : match dmg_stat Rn brk h (fst kv) with
                  | None => Some acc
                  | Some None => None
                  | Some (Some x) => Some (nadd Rn acc (nmul Rn (snd kv) x))
                  end = Some (acc + dterm h b kv)).
      { unfold dmg_stat, dterm. destruct kv as [k v]. cbn [fst snd].
        key_cases k; rewrite ?Hb; f_equal; cbn [nadd nmul RNum]; lra. }
      rewrite E, IH. f_equal. lra. }
    rewrite G. f_equal. cbn [c0 nofZ RNum]. lra.
  Qed.

  Lemma baseDamage_perm h h' b :
    brk (s_level Rn (h_att Rn h)) = Some b -> h_att Rn h' = h_att Rn h ->
    Permutation (h_terms Rn h) (h_terms Rn h') ->
    baseDamage Rn brk h' = baseDamage Rn brk h.
  Proof.
    intros Hb Ha Hp. rewrite (baseDamage_R h b Hb). rewrite (baseDamage_R h' b) by (rewrite Ha; exact Hb).
    f_equal. symmetry.
    assert (E : forall kv, dterm h' b kv = dterm h b kv) by (intros kv; unfold dterm; rewrite Ha; reflexivity).
    rewrite (map_ext _ _ E). apply sumR_perm. apply Permutation_map. exact Hp.
  Qed.

  (* out-of-table level with a break term: the Go code panics; without a break term the level
     is never looked up *)
  Lemma baseDamage_panics h :
    brk (s_level Rn (h_att Rn h)) = None ->
    (baseDamage Rn brk h = None <-> exists v, In (4%Z, v) (h_terms Rn h)).
  Proof.
    intros Hb. unfold baseDamage.
    assert (G : forall l acc,
      fold_left (fun acc kv => match acc with
                               | None => None
                               | Some d => match dmg_stat Rn brk h (fst kv) with
                                           | None => Some d
                                           | Some None => None
                                           | Some (Some x) => Some (nadd Rn d (nmul Rn (snd kv) x))
                                           end
                               end) l acc = None <-> acc = None \/ exists v, In (4%Z, v) l).
    { induction l as [|kv l IH]; intros acc; cbn [fold_left].
      - split; [auto|]. intros [H|[v []]]; exact H.
      - rewrite IH. destruct acc as [d|].
        + destruct kv as [k v]. cbn [fst snd]. unfold dmg_stat.
          destruct (Z.eq_dec k 4) as [->|Hk].
          * rewrite Hb. split; [intros _; right; exists v; left; reflexivity|auto].
          * assert (E : match match k with
                            | 1%Z => Some (Some (ATK Rn (h_att Rn h)))
                            | 2%Z => Some (Some (DEF Rn (h_att Rn h)))
                            | 3%Z => Some (Some (MaxHP Rn (h_att Rn h)))
                            | 4%Z => Some (brk (s_level Rn (h_att Rn h)))
                            | _ => None
                            end with
                      | None => Some d
                      | Some None => None
                      | Some (Some x) => Some (nadd Rn d (nmul Rn v x))
                      end <> None).
            { key_cases k; try discriminate. contradiction. }
            split.
            -- intros [H|[v' H]]; [contradiction|]. right. exists v'. right. exact H.
            -- intros [H|[v' [H|H]]]; [discriminate| inversion H; contradiction | right; exists v'; exact H].
        + split; [auto|]. intros _. left. reflexivity. }
    rewrite G. split; [intros [H|H]; [discriminate|exact H]|auto].
  Qed.

  Definition b2r (b : bool) : R := if b then 1 else 0.

  (* damage bonus: 1 + [not pure] (attacker's all + element damage%, + DOT damage% for DOT) +
     [break term present] attacker's break effect *)
  Lemma bonusDamage_R h :
    bonusDamage Rn h =
      1 + b2r (negb (h_pure Rn h)) *
            (sget Rn (h_att Rn h) pAllDamagePercent + sget Rn (h_att Rn h) (dmgPercentProp (h_dtype Rn h))
             + b2r (h_atype Rn h =? atDOT)%Z * sget Rn (h_att Rn h) pDOTDamagePercent)
        + b2r (negb (Reqb (getp Rn (h_terms Rn h) 4) 0)) * sget Rn (h_att Rn h) pBreakEffect.
  Proof.
    unfold bonusDamage, DamagePercent, BreakEffect. cbn [nadd neqb RNum c0 c1 nofZ].
    destruct (h_pure Rn h); destruct (h_atype Rn h =? atDOT)%Z;
      destruct (Reqb (getp Rn (h_terms Rn h) 4) 0); cbn [negb b2r]; lra.
  Qed.

  (* defence multiplier: 1 - DEF/(DEF + 200 + 10 * attacker level), with the DEFENDER's DEF *)
  Lemma defMult_R h :
    defMult Rn h =
      1 - DEF Rn (h_def Rn h) / (DEF Rn (h_def Rn h) + 200 + 10 * IZR (s_level Rn (h_att Rn h))).
  Proof. reflexivity. Qed.

  Lemma defMult_range h :
    (0 <= s_level Rn (h_att Rn h))%Z -> 0 < defMult Rn h <= 1.
  Proof.
    intros Hl. rewrite defMult_R.
    assert (Hd : 0 <= DEF Rn (h_def Rn h)) by (unfold DEF; apply statCalc_nonneg).
    set (d := DEF Rn (h_def Rn h)) in *.
    assert (Hl' : 0 <= IZR (s_level Rn (h_att Rn h))) by (apply IZR_le; exact Hl).
    set (k := 200 + 10 * IZR (s_level Rn (h_att Rn h))). assert (0 < k) by (unfold k; lra).
    replace (d + 200 + 10 * IZR (s_level Rn (h_att Rn h))) with (d + k) by (unfold k; lra).
    assert (E : 1 - d / (d + k) = k / (d + k)) by (field; lra). rewrite E.
    split.
    - apply Rdiv_lt_0_compat; lra.
    - apply (Rmult_le_reg_r (d + k)); [lra|]. unfold Rdiv. rewrite Rmult_assoc, Rinv_l by lra. lra.
  Qed.

  (* resistance multiplier: 1 - clamp_{[-1, 0.9]}(defender's RES - attacker's penetration), in [0.1, 2] *)
  Lemma res_R h :
    let r := (sget Rn (h_def Rn h) pAllDamageRES + sget Rn (h_def Rn h) (dmgRESProp (h_dtype Rn h)))
             - (sget Rn (h_att Rn h) (dmgPENProp (h_dtype Rn h)) + sget Rn (h_att Rn h) pAllDamagePEN) in
    res Rn h = 1 - Rmax (-1) (Rmin (9 / 10) r) /\ 1 / 10 <= res Rn h <= 2.
  Proof.
    cbn zeta. unfold res, DamageRES. cbn [nsub nadd nltb RNum c1 nofZ]. rewrite lit_R.
    set (r := sget Rn (h_def Rn h) pAllDamageRES + sget Rn (h_def Rn h) (dmgRESProp (h_dtype Rn h))
              - (sget Rn (h_att Rn h) (dmgPENProp (h_dtype Rn h)) + sget Rn (h_att Rn h) pAllDamagePEN)).
    destruct (Rltb r (-1)) eqn:H1.
    - apply Rltb_true in H1. rewrite Rmin_right by lra. rewrite Rmax_left by lra. lra.
    - apply Rltb_false in H1. destruct (Rltb (9 / 10) r) eqn:H2.
      + apply Rltb_true in H2. rewrite Rmin_left by lra. rewrite Rmax_right by lra. lra.
      + apply Rltb_false in H2. rewrite Rmin_right by lra. rewrite Rmax_right by lra. lra.
  Qed.

  (* vulnerability: min(3.5, 1 + DEFENDER's all damage taken + DEFENDER's element damage taken) *)
  Lemma vul_R h :
    vul Rn h = Rmin (7 / 2) (1 + sget Rn (h_def Rn h) pAllDamageTaken
                               + sget Rn (h_def Rn h) (dmgTakenProp (h_dtype Rn h))) /\
    vul Rn h <= 7 / 2.
  Proof.
    unfold vul. cbn [nadd nltb RNum c1 nofZ]. rewrite lit_R.
    set (v := 1 + sget Rn (h_def Rn h) pAllDamageTaken + sget Rn (h_def Rn h) (dmgTakenProp (h_dtype Rn h))).
    destruct (Rltb (7 / 2) v) eqn:H.
    - apply Rltb_true in H. rewrite Rmin_left by lra. lra.
    - apply Rltb_false in H. rewrite Rmin_right by lra. lra.
  Qed.

  (* toughness multiplier: 1.0 against a broken defender (stance 0), else 0.9 *)
  Lemma toughness_R h :
    toughness Rn h = (if Reqb (s_stance Rn (h_def Rn h)) 0 then 1 else 9 / 10).
  Proof. reflexivity. Qed.

  (* damage reduction: max(0.01, 1 - DEFENDER's all-damage reduction) *)
  Lemma damageReduce_R h :
    damageReduce Rn h = Rmax (1 / 100) (1 - sget Rn (h_def Rn h) pAllDamageReduce) /\
    1 / 100 <= damageReduce Rn h.
  Proof.
    unfold damageReduce. cbn [nsub nltb RNum c1 nofZ]. rewrite lit_R.
    set (r := 1 - sget Rn (h_def Rn h) pAllDamageReduce).
    destruct (Rltb r (1 / 100)) eqn:H.
    - apply Rltb_true in H. rewrite Rmax_left by lra. lra.
    - apply Rltb_false in H. rewrite Rmax_right by lra. lra.
  Qed.

  Lemma fatigue_R h : fatigue Rn h = 1 - sget Rn (h_att Rn h) pFatigue.
  Proof. reflexivity. Qed.

  Lemma critDmg_R h c : critDmg Rn h c = (if c then 1 + sget Rn (h_att Rn h) pCritDMG else 1).
  Proof. destruct c; reflexivity. Qed.

  (* the reported factors multiply to the reported total *)
  Lemma product_factors_R h base crit :
    product Rn (factors Rn h base crit) =
      base * defMult Rn h * res Rn h * vul Rn h * toughness Rn h * fatigue Rn h * damageReduce Rn h * critDmg Rn h crit.
  Proof. reflexivity. Qed.

  (* ---- shield absorption over the reals: what reaches HP is between 0 and the total ---- *)
  Lemma dim_R x y : dim Rn x y = Rmax 0 (x - y).
  Proof.
    unfold dim. cbn [nsub nleb RNum c0 nofZ]. destruct (Rleb (x - y) 0) eqn:H.
    - apply Rleb_true in H. rewrite Rmax_left; lra.
    - apply Rleb_false in H. rewrite Rmax_right; lra.
  Qed.

  Lemma absorb_loop_out sh : forall damage dOut newMax maxId kept removed dO nM mI,
    absorb_loop Rn sh damage dOut newMax maxId = (kept, removed, dO, nM, mI) ->
    dO <= dOut /\ (0 <= dOut -> 0 <= dO).
  Proof.
    induction sh as [|[k hp] sh IH]; intros damage dOut newMax maxId kept removed dO nM mI H; cbn [absorb_loop] in H.
    - inversion H; subst. lra.
    - set (dOut' := if nltb Rn (dim Rn damage hp) dOut then dim Rn damage hp else dOut) in *.
      destruct (if nltb Rn newMax (dim Rn hp damage) then (dim Rn hp damage, k) else (newMax, maxId)) as [nM' mI'].
      destruct (absorb_loop Rn sh damage dOut' nM' mI') as [[[[kept0 removed0] dO0] nM0] mI0] eqn:HL.
      assert (HdO : dO = dO0) by (destruct (neqb Rn (dim Rn hp damage) (c0 Rn)); inversion H; reflexivity).
      subst dO0. destruct (IH _ _ _ _ _ _ _ _ _ HL) as [I1 I2].
      assert (Hd' : dOut' <= dOut /\ (0 <= dOut -> 0 <= dOut')).
      { unfold dOut'. cbn [nltb RNum]. rewrite dim_R. destruct (Rltb (Rmax 0 (damage - hp)) dOut) eqn:HB.
        - apply Rltb_true in HB. split; [lra|]. intros _. apply Rmax_l.
        - split; [lra|auto]. }
      destruct Hd' as [D1 D2]. split; [lra|]. intros H0. apply I2. apply D2. exact H0.
  Qed.

  Lemma absorb_R w target damage w' evs out :
    absorb Rn w target damage = (w', evs, out) ->
    out <= damage /\ (0 <= damage -> 0 <= out).
  Proof.
    unfold absorb. destruct (find_unit Rn (w_units Rn w) target) as [u|].
    2:{ intros H; inversion H; subst; lra. }
    destruct (u_shields Rn u) as [|s sh].
    { intros H; inversion H; subst; lra. }
    destruct (nleb Rn damage (c0 Rn)).
    { intros H; inversion H; subst; lra. }
    destruct (absorb_loop Rn (s :: sh) damage damage (c0 Rn) (-1)) as [[[[kept removed] dOut] newMax] maxId] eqn:HL.
    intros H; inversion H; subst. eapply absorb_loop_out. exact HL.
  Qed.

  (* HP damage + shield-absorbed damage = total; both parts are non-negative for a
     non-negative total *)
  Lemma hit_steps_split w h bd r :
    hit_steps Rn w h bd r ->
    r_hp Rn r + (r_total Rn r - r_hp Rn r) = r_total Rn r /\
    r_hp Rn r <= r_total Rn r /\
    (0 <= r_total Rn r -> 0 <= r_hp Rn r /\ 0 <= r_total Rn r - r_hp Rn r).
  Proof.
    intros (_ & _ & _ & S4 & _). apply absorb_R in S4. destruct S4 as [A1 A2].
    split; [lra|]. split; [exact A1|]. intros H0. specialize (A2 H0). lra.
  Qed.

  (* the stance a weak defender is left with: clamp_{[0, max]}(old - stance damage * hit ratio
     * (1 + ATTACKER's toughness-damage bonus)) *)
  Lemma stance_after_R (w : world Rn) key target source sd ratio u :
    find_unit Rn (w_units Rn w) target = Some u ->
    let bonus := sget Rn (stats_of Rn w source) pAllStanceDMGPercent in
    let newS := u_stance Rn u - sd * ratio * (1 + bonus) in
    let a := if Rltb (u_maxStance Rn u) newS then u_maxStance Rn u else if Rltb newS 0 then 0 else newS in
    modify_stance Rn w key target source (nmul Rn (nopp Rn sd) ratio) =
      set_stance_op Rn w key target source newS /\
    (forall w' evs, set_stance_op Rn w key target source newS = (w', evs) ->
       match find_unit Rn (w_units Rn w') target with
       | Some u' => u_stance Rn u' = a
       | None => False
       end) /\
    (0 <= u_maxStance Rn u -> a = Rmax 0 (Rmin (u_maxStance Rn u) newS)).
  Proof.
    intros Hf. cbn zeta. split; [|split].
    - rewrite (modify_stance_spec Rn w key target source _ u Hf). f_equal.
      cbn [nadd nmul nopp RNum c1 nofZ]. lra.
    - intros w' evs H. unfold set_stance_op in H. rewrite Hf in H. cbn [nltb RNum c0 nofZ neqb] in H.
      set (newS := u_stance Rn u - sd * ratio * (1 + sget Rn (stats_of Rn w source) pAllStanceDMGPercent)) in *.
      set (a := if Rltb (u_maxStance Rn u) newS then u_maxStance Rn u else if Rltb newS 0 then 0 else newS) in *.
      pose proof (find_unit_id Rn _ _ _ Hf) as Hid.
      destruct (Reqb (u_stance Rn u) a) eqn:HE.
      + inversion H; subst w'. rewrite Hf. apply Reqb_true in HE. exact HE.
      + inversion H; subst w'. cbn [upd set_units w_units].
        rewrite (find_put_same Rn _ u (set_stance Rn u a) target Hf Hid). reflexivity.
    - intros Hmax.
      set (newS := u_stance Rn u - sd * ratio * (1 + sget Rn (stats_of Rn w source) pAllStanceDMGPercent)).
      destruct (Rltb (u_maxStance Rn u) newS) eqn:H1.
      + apply Rltb_true in H1. rewrite Rmin_left by lra. rewrite Rmax_right; lra.
      + apply Rltb_false in H1. rewrite Rmin_right by lra. destruct (Rltb newS 0) eqn:H2.
        * apply Rltb_true in H2. rewrite Rmax_left; lra.
        * apply Rltb_false in H2. rewrite Rmax_right; lra.
  Qed.

  (* the energy the receiver is left with: clamp_{[0, max]}(old + energy * hit ratio * (1 +
     RECEIVER's energy regeneration)) *)
  Lemma energy_after_R (w : world Rn) key target source en ratio u :
    find_unit Rn (w_units Rn w) target = Some u ->
    let regen := sget Rn (stats_of Rn w target) pEnergyRegen + sget Rn (stats_of Rn w target) pEnergyRegenConvert in
    let a := u_energy Rn u + en * ratio * (1 + regen) in
    let e := if Rltb (u_maxEnergy Rn u) a then u_maxEnergy Rn u else if Rltb a 0 then 0 else a in
    (exists u', find_unit Rn (w_units Rn (fst (modify_energy Rn w key target source (nmul Rn en ratio)))) target = Some u' /\
                u_energy Rn u' = e) /\
    (0 <= u_maxEnergy Rn u -> e = Rmax 0 (Rmin (u_maxEnergy Rn u) a)).
  Proof.
    intros Hf. cbn zeta. split.
    - rewrite (modify_energy_spec Rn w key target source _ u Hf). cbn [fst upd set_units w_units].
      pose proof (find_unit_id Rn _ _ _ Hf) as Hid.
      eexists. split; [eapply find_put_same; [exact Hf|exact Hid]|].
      cbn [u_energy set_energy]. reflexivity.
    - intros Hmax.
      set (a := u_energy Rn u + en * ratio * (1 + (sget Rn (stats_of Rn w target) pEnergyRegen
                                                    + sget Rn (stats_of Rn w target) pEnergyRegenConvert))).
      destruct (Rltb (u_maxEnergy Rn u) a) eqn:H1.
      + apply Rltb_true in H1. rewrite Rmin_left by lra. rewrite Rmax_right; lra.
      + apply Rltb_false in H1. rewrite Rmin_right by lra. destruct (Rltb a 0) eqn:H2.
        * apply Rltb_true in H2. rewrite Rmax_left; lra.
        * apply Rltb_false in H2. rewrite Rmax_right; lra.
  Qed.
End Reals.

(* ====================================================================================== *)
(* 3. Binary64: the clamps of the executed model, for every input                          *)
(* ====================================================================================== *)
Close Scope R_scope.
Notation Fl := FloatNum.

Lemma vul_float_clamp (h : hit Fl) : PrimFloat.ltb (lit Fl 7 2) (vul Fl h) = false.
Proof.
  unfold vul. cbn [nltb FloatNum].
  match goal with |- context [if ?c then _ else _] => destruct c eqn:H end; [reflexivity|exact H].
Qed.

Lemma damageReduce_float_clamp (h : hit Fl) : PrimFloat.ltb (damageReduce Fl h) (lit Fl 1 100) = false.
Proof.
  unfold damageReduce. cbn [nltb FloatNum].
  match goal with |- context [if ?c then _ else _] => destruct c eqn:H end; [reflexivity|exact H].
Qed.

Lemma toughness_float_values (h : hit Fl) : toughness Fl h = c1 Fl \/ toughness Fl h = lit Fl 9 10.
Proof. unfold toughness. destruct (neqb Fl (s_stance Fl (h_def Fl h)) (c0 Fl)); auto. Qed.

(* the clamped resistance difference that is subtracted from 1 lies in [-1, 0.9] *)
Definition res_inner (h : hit Fl) : float :=
  let r := nsub Fl (DamageRES Fl (h_def Fl h) (h_dtype Fl h))
                (nadd Fl (sget Fl (h_att Fl h) (dmgPENProp (h_dtype Fl h))) (sget Fl (h_att Fl h) pAllDamagePEN)) in
  if nltb Fl r (nofZ Fl (-1)) then nofZ Fl (-1) else if nltb Fl (lit Fl 9 10) r then lit Fl 9 10 else r.
Lemma res_float_clamp (h : hit Fl) :
  res Fl h = nsub Fl (c1 Fl) (res_inner h) /\
  PrimFloat.ltb (res_inner h) (nofZ Fl (-1)) = false /\ PrimFloat.ltb (lit Fl 9 10) (res_inner h) = false.
Proof.
  split; [reflexivity|]. unfold res_inner. cbn [nltb FloatNum].
  match goal with |- context [if ?c then _ else _] => destruct c eqn:H1 end; [split; reflexivity|].
  match goal with |- context [if ?c then _ else _] => destruct c eqn:H2 end; [split; reflexivity|].
  split; assumption.
Qed.

(* ====================================================================================== *)
(* Property-level statement (C04)                                                          *)
(* ====================================================================================== *)
Open Scope R_scope.

Definition C04_statement : Prop :=
  (* (a) every instance: each factor reads the party the formula names.  Attacker: scaling
         stat, damage bonuses, fatigue, crit chance and crit damage; defender: damage taken,
         toughness multiplier, damage reduction; defence = defender's DEF against the
         attacker's level; resistance = defender's RES against the attacker's penetration *)
  (forall N brk h d, baseDamage N brk (set_def N h d) = baseDamage N brk h) /\
  (forall N h d, bonusDamage N (set_def N h d) = bonusDamage N h) /\
  (forall N h d, fatigue N (set_def N h d) = fatigue N h) /\
  (forall N h d c, critDmg N (set_def N h d) c = critDmg N h c) /\
  (forall N w h d, crit_step N w (set_def N h d) = crit_step N w h) /\
  (forall N h a, vul N (set_att N h a) = vul N h) /\
  (forall N h a, toughness N (set_att N h a) = toughness N h) /\
  (forall N h a, damageReduce N (set_att N h a) = damageReduce N h) /\
  (forall N h a, s_level N a = s_level N (h_att N h) -> defMult N (set_att N h a) = defMult N h) /\
  (forall N h a d,
      sget N a (dmgPENProp (h_dtype N h)) = sget N (h_att N h) (dmgPENProp (h_dtype N h)) ->
      sget N a pAllDamagePEN = sget N (h_att N h) pAllDamagePEN ->
      DamageRES N d (h_dtype N h) = DamageRES N (h_def N h) (h_dtype N h) ->
      res N (set_def N (set_att N h a) d) = res N h) /\
  (* (b) every instance: a hit is critical iff it is eligible (not DOT, not break/ELEMENT, not
         pure) and the run's next random draw is below the ATTACKER's crit chance; exactly one
         draw is consumed iff eligible, by the whole of performHit *)
  (forall N w h,
      let '(crit, w1, drawn) := crit_step N w h in
      crit = crit_eligible N h && nltb N (next_draw N w) (CritChance N (h_att N h)) /\
      w_units N w1 = w_units N w /\ w_limbo N w1 = w_limbo N w /\ w_attack N w1 = w_attack N w /\
      w_draws N w1 = (if crit_eligible N h then tl (w_draws N w) else w_draws N w) /\
      drawn = (if crit_eligible N h then [IDraw (next_draw N w)] else [])) /\
  (forall N h, crit_eligible N h = true <->
               h_atype N h <> atDOT /\ h_atype N h <> atELEMENT /\ h_pure N h = false) /\
  (forall N brk w h0 adjs w' evs,
      perform_hit N brk w h0 adjs = Some (w', evs) ->
      w_draws N w' = (if crit_eligible N (hit_event N h0 adjs) then tl (w_draws N w) else w_draws N w)) /\
  (* (c) every instance: performHit works on the hit AFTER the HitStart listeners' adjustments;
         it reports base damage, the seven multipliers, their left-to-right product as total,
         what reaches HP after shield absorption, total - HP damage as shield damage; then HP,
         toughness (only when the defender is weak to the element) and energy (to the attacking
         character, else to the defender) *)
  (forall N brk w h0 adjs w' evs,
      perform_hit N brk w h0 adjs = Some (w', evs) ->
      let h := hit_event N h0 adjs in
      exists bd r,
        baseDamage N brk h = Some bd /\ hit_steps N w h bd r /\ w' = r_w5 N r /\
        evs = IHitStart (h_key N h) (h_idx N h) (s_id N (h_att N h)) (s_id N (h_def N h)) (h_atype N h) (h_dtype N h)
                        (sort_terms N (h_terms N h)) [h_energy N h; h_stance N h; h_ratio N h; h_flat N h]
                        (h_pure N h) (h_snap N h)
              :: r_drawn N r ++ r_shield N r ++ r_hpev N r ++ r_stance N r ++ r_energy N r ++
              [IHitEnd (h_key N h) (h_idx N h) (s_id N (h_att N h)) (s_id N (h_def N h)) (h_atype N h) (h_dtype N h)
                       (factors N h (r_base N r) (r_crit N r) ++
                        [r_total N r; r_hp N r; nsub N (r_total N r) (r_hp N r);
                         ratio_left N (r_w5 N r) (s_id N (h_def N h))])
                       (r_crit N r) (h_snap N h)]) /\
  (forall N w h bd r, hit_steps N w h bd r -> IsWeakTo N (h_def N h) (h_dtype N h) = false ->
                      r_w4 N r = r_w3 N r /\ r_stance N r = []) /\
  (forall N w h bd r, hit_steps N w h bd r -> IsWeakTo N (h_def N h) (h_dtype N h) = true ->
      modify_stance N (r_w3 N r) (h_key N h) (s_id N (h_def N h)) (s_id N (h_att N h))
                    (nmul N (nopp N (h_stance N h)) (h_ratio N h)) = (r_w4 N r, r_stance N r)) /\
  (forall N brk w key idx source ts atype dtype terms energy stance ratio flat pure snapf adjs,
      ts = [] \/ is_alive N w source = false ->
      astep N brk w (AAttack key idx source ts atype dtype terms energy stance ratio flat pure snapf adjs) = Some (w, [])) /\
  (* (d) reals: the documented value of each factor, with the documented clamps *)
  (forall brk h b, brk (s_level Rn (h_att Rn h)) = Some b ->
      baseDamage Rn brk h = Some (sumR (map (dterm h b) (h_terms Rn h)))) /\
  (forall brk h h' b, brk (s_level Rn (h_att Rn h)) = Some b -> h_att Rn h' = h_att Rn h ->
      Permutation (h_terms Rn h) (h_terms Rn h') -> baseDamage Rn brk h' = baseDamage Rn brk h) /\
  (forall h, bonusDamage Rn h =
      1 + b2r (negb (h_pure Rn h)) *
            (sget Rn (h_att Rn h) pAllDamagePercent + sget Rn (h_att Rn h) (dmgPercentProp (h_dtype Rn h))
             + b2r (h_atype Rn h =? atDOT)%Z * sget Rn (h_att Rn h) pDOTDamagePercent)
        + b2r (negb (Reqb (getp Rn (h_terms Rn h) 4) 0)) * sget Rn (h_att Rn h) pBreakEffect) /\
  (forall h, defMult Rn h =
      1 - DEF Rn (h_def Rn h) / (DEF Rn (h_def Rn h) + 200 + 10 * IZR (s_level Rn (h_att Rn h)))) /\
  (forall h, (0 <= s_level Rn (h_att Rn h))%Z -> 0 < defMult Rn h <= 1) /\
  (forall h,
      let r := (sget Rn (h_def Rn h) pAllDamageRES + sget Rn (h_def Rn h) (dmgRESProp (h_dtype Rn h)))
               - (sget Rn (h_att Rn h) (dmgPENProp (h_dtype Rn h)) + sget Rn (h_att Rn h) pAllDamagePEN) in
      res Rn h = 1 - Rmax (-1) (Rmin (9 / 10) r) /\ 1 / 10 <= res Rn h <= 2) /\
  (forall h, vul Rn h = Rmin (7 / 2) (1 + sget Rn (h_def Rn h) pAllDamageTaken
                                        + sget Rn (h_def Rn h) (dmgTakenProp (h_dtype Rn h))) /\
             vul Rn h <= 7 / 2) /\
  (forall h, toughness Rn h = (if Reqb (s_stance Rn (h_def Rn h)) 0 then 1 else 9 / 10)) /\
  (forall h, damageReduce Rn h = Rmax (1 / 100) (1 - sget Rn (h_def Rn h) pAllDamageReduce) /\
             1 / 100 <= damageReduce Rn h) /\
  (forall h, fatigue Rn h = 1 - sget Rn (h_att Rn h) pFatigue) /\
  (forall h c, critDmg Rn h c = (if c then 1 + sget Rn (h_att Rn h) pCritDMG else 1)) /\
  (* (e) reals: the reported factors multiply to the reported total; HP damage + shield damage
         = total, both parts non-negative for a non-negative total *)
  (forall h base crit, product Rn (factors Rn h base crit) =
      base * defMult Rn h * res Rn h * vul Rn h * toughness Rn h * fatigue Rn h * damageReduce Rn h * critDmg Rn h crit) /\
  (forall w h bd r, hit_steps Rn w h bd r ->
      r_hp Rn r + (r_total Rn r - r_hp Rn r) = r_total Rn r /\
      r_hp Rn r <= r_total Rn r /\
      (0 <= r_total Rn r -> 0 <= r_hp Rn r /\ 0 <= r_total Rn r - r_hp Rn r)) /\
  (* (f) reals: toughness left = clamp(old - stance damage * hit ratio * (1 + ATTACKER's bonus));
         energy left = clamp(old + energy * hit ratio * (1 + RECEIVER's regeneration)) *)
  (forall (w : world Rn) key target source sd ratio u,
      find_unit Rn (w_units Rn w) target = Some u ->
      let bonus := sget Rn (stats_of Rn w source) pAllStanceDMGPercent in
      let newS := u_stance Rn u - sd * ratio * (1 + bonus) in
      let a := if Rltb (u_maxStance Rn u) newS then u_maxStance Rn u else if Rltb newS 0 then 0 else newS in
      modify_stance Rn w key target source (nmul Rn (nopp Rn sd) ratio) =
        set_stance_op Rn w key target source newS /\
      (forall w' evs, set_stance_op Rn w key target source newS = (w', evs) ->
         match find_unit Rn (w_units Rn w') target with
         | Some u' => u_stance Rn u' = a
         | None => False
         end) /\
      (0 <= u_maxStance Rn u -> a = Rmax 0 (Rmin (u_maxStance Rn u) newS))) /\
  (forall (w : world Rn) key target source en ratio u,
      find_unit Rn (w_units Rn w) target = Some u ->
      let regen := sget Rn (stats_of Rn w target) pEnergyRegen + sget Rn (stats_of Rn w target) pEnergyRegenConvert in
      let a := u_energy Rn u + en * ratio * (1 + regen) in
      let e := if Rltb (u_maxEnergy Rn u) a then u_maxEnergy Rn u else if Rltb a 0 then 0 else a in
      (exists u', find_unit Rn (w_units Rn (fst (modify_energy Rn w key target source (nmul Rn en ratio)))) target = Some u' /\
                  u_energy Rn u' = e) /\
      (0 <= u_maxEnergy Rn u -> e = Rmax 0 (Rmin (u_maxEnergy Rn u) a))) /\
  (* (g) binary64: the clamps hold in the executed model for every input *)
  (forall h : hit Fl, PrimFloat.ltb (lit Fl 7 2) (vul Fl h) = false) /\
  (forall h : hit Fl, PrimFloat.ltb (damageReduce Fl h) (lit Fl 1 100) = false) /\
  (forall h : hit Fl, toughness Fl h = c1 Fl \/ toughness Fl h = lit Fl 9 10) /\
  (forall h : hit Fl, res Fl h = nsub Fl (c1 Fl) (res_inner h) /\
      PrimFloat.ltb (res_inner h) (nofZ Fl (-1)) = false /\ PrimFloat.ltb (lit Fl 9 10) (res_inner h) = false).

Theorem C04_holds : C04_statement.
Proof.
  unfold C04_statement.
  split; [exact baseDamage_attacker_only|].
  split; [exact bonusDamage_attacker_only|].
  split; [exact fatigue_attacker_only|].
  split; [exact critDmg_attacker_only|].
  split; [exact crit_attacker_only|].
  split; [exact vul_defender_only|].
  split; [exact toughness_defender_only|].
  split; [exact damageReduce_defender_only|].
  split; [exact defMult_reads|].
  split; [exact res_reads|].
  split; [exact crit_step_spec|].
  split; [exact crit_eligible_iff|].
  split; [exact perform_hit_draws|].
  split; [exact perform_hit_spec|].
  split; [exact hit_steps_not_weak|].
  split; [exact hit_steps_weak|].
  split; [exact attack_dead_source_nothing|].
  split; [exact baseDamage_R|].
  split; [exact baseDamage_perm|].
  split; [exact bonusDamage_R|].
  split; [exact defMult_R|].
  split; [exact defMult_range|].
  split; [exact res_R|].
  split; [exact vul_R|].
  split; [exact toughness_R|].
  split; [exact damageReduce_R|].
  split; [exact fatigue_R|].
  split; [exact critDmg_R|].
  split; [exact product_factors_R|].
  split; [exact hit_steps_split|].
  split; [exact stance_after_R|].
  split; [exact energy_after_R|].
  split; [exact vul_float_clamp|].
  split; [exact damageReduce_float_clamp|].
  split; [exact toughness_float_values|].
  exact res_float_clamp.
Qed.

(* ---- non-vacuity: a concrete binary64 run ---- *)
Close Scope R_scope.
Open Scope Z_scope.
From SR Require Import Model.HitTerms.   (* the constructors at the binary64 instance *)

(* unit 1 (character, level 50): ATK 1000, crit chance 0.5, crit damage +50%, toughness-damage
   bonus +50%, energy regeneration +25%; unit 2 (enemy): 10000 HP, DEF 700, FIRE damage taken
   +25%, all RES 0.2, stance 60/60, weak to FIRE, a shield of 100 *)
Definition demo_units : list (uspec Fl) :=
  [ USpec 1 true 50 1%float 0%float 100%float 0%float 0%float []
          [(pATKBase, 1000%float); (pCritChance, 0.5%float); (pCritDMG, 0.5%float);
           (pAllStanceDMGPercent, 0.5%float); (pEnergyRegen, 0.25%float)];
    USpec 2 false 50 1%float 0%float 0%float 60%float 60%float [2]
          [(pHPBase, 10000%float); (pDEFBase, 700%float); (52, 0.25%float); (pAllDamageRES, 0.2%float)] ].
Definition demo_ops : list (aop Fl) :=
  [ AShield 2 1 100%float;
    AAttack 0 0 1 [2] 1 2 [(1, 1%float)] 20%float 30%float 1%float 0%float false false [];
    AEndAttack ].

Definition demo_statement : Prop :=
  exists w tr, arun Fl break_float (init_world Fl demo_units [] [0.25%float]) demo_ops = Some (w, tr) /\
    (* draw 0.25 < 0.5: critical; 1000 * 0.5 * 0.8 * 1.25 * 0.9 * 1 * 1 * 1.5 = 675, the shield takes 100 *)
    nth_error tr 10 = Some (IHitEnd 0 0 1 2 1 2
                              [1000; 0.5; 1 - 0.2; 1.25; 9 / 10; 1; 1; 1.5; 675; 575; 100; 0.9425]%float true false) /\
    (* toughness 60 - 30 * 1.5 = 15, energy 0 + 20 * 1.25 = 25 for the attacking character *)
    nth_error tr 8 = Some (IStanceChange 0 2 1 60%float 15%float) /\
    nth_error tr 9 = Some (IEnergyChange 0 1 1 0%float 25%float) /\
    w_draws Fl w = [].

Example demo_hit : demo_statement.
Proof. eexists. eexists. split; [vm_compute; reflexivity|]. vm_compute. repeat split; reflexivity. Qed.
