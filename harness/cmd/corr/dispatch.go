package main

// Components "dispatch_heal" (property C17) and "dispatch_hit" (property C04): the LISTENER DISPATCH
// of the real modifier.Manager (pkg/engine/modifier/listener.go, tick.go) against
// coq/Model/Dispatch.v.
//
// The real modifier.NewManager runs over the fake engine of modifier.go with a real event.System.
// Every config of a case is registered with the real modifier.Register; EVERY field of
// modifier.Listeners that the config "has" is set to a callback that records
// (field name, instance tag, Owner(), target argument) and then runs the config's script
// (RemoveSelf of itself / of another instance, AddModifier).  The callbacks of the mutable events
// (HealStart by pointer, HitStart through *info.Hit) also rewrite one number of the event, which the
// harness reads back after Emit, so that a callback running on a copy of the event, or on the wrong
// event, shows.  Events are emitted through the real event.System, never by calling the manager.

import (
	"fmt"
	"math/rand"
	"reflect"

	"github.com/simimpact/srsim/pkg/engine/event"
	"github.com/simimpact/srsim/pkg/engine/info"
	"github.com/simimpact/srsim/pkg/engine/modifier"
	"github.com/simimpact/srsim/pkg/key"
	"github.com/simimpact/srsim/pkg/model"

	"verif/harness/term"
)

var dispCaseUID int

type dispCfg struct {
	has    map[string]bool
	snap   bool
	script map[string][]term.T
}

type dispWorld struct {
	uid     int
	eng     *modEngine
	mgr     *modifier.Manager
	valid   []key.TargetID
	cat     []dispCfg
	nextTag int64
	handles map[int64]*modifier.Instance
	cfgOf   map[int64]int
	calls   []term.T
	yes     map[int64]bool
}

var dispInternal = map[string]bool{"OnAdd": true, "OnRemove": true, "OnDispel": true, "OnExtendDuration": true,
	"OnExtendCount": true, "OnPropertyChange": true}

func (w *dispWorld) name(i int) key.Modifier { return key.Modifier(fmt.Sprintf("vd%d_%d", w.uid, i)) }

func (w *dispWorld) attach(u key.TargetID, c int) {
	if c < 0 || c >= len(w.cat) {
		return
	}
	tag := w.nextTag
	ok, err := w.mgr.AddModifier(u, info.Modifier{Name: w.name(c), Source: u, State: tag})
	if err != nil || !ok {
		return
	}
	w.cfgOf[tag] = c
	w.nextTag++
}

func (w *dispWorld) detach(tag int64) {
	if h, ok := w.handles[tag]; ok {
		h.RemoveSelf()
	}
}

// the body of every callback: record, then run the script of this config for this field
func (w *dispWorld) hit(c *dispCfg, kind string, m *modifier.Instance, arg int64) int64 {
	tag := tagOf(m.State())
	w.handles[tag] = m
	if !c.has[kind] {
		return tag // only OnAdd is installed without being "had" (to learn the instance handle)
	}
	w.calls = append(w.calls, term.C("mkCall", term.C(kind), term.I(tag), term.I(int64(m.Owner())), term.I(arg)))
	if dispInternal[kind] {
		return tag
	}
	for _, a := range c.script[kind] {
		n, aa := term.Ctor(a)
		switch n {
		case "ADetachSelf":
			m.RemoveSelf()
		case "ADetach":
			w.detach(term.Int(aa[0]))
		case "AAttach":
			w.attach(key.TargetID(term.Int(aa[0])), int(term.Int(aa[1])))
		case "AAttachOwner":
			w.attach(m.Owner(), int(term.Int(aa[0])))
		default:
			panic("bad action " + n)
		}
	}
	return tag
}

func dispAdj(v float64, tag int64) float64 {
	return float64((2*int64(v) + tag + 1) % 1000003)
}

const dispListenerFields = 39

func (w *dispWorld) listeners(c *dispCfg) modifier.Listeners {
	if n := reflect.TypeOf(modifier.Listeners{}).NumField(); n != dispListenerFields {
		panic(fmt.Sprintf("modifier.Listeners has %d fields, the dispatch model knows %d", n, dispListenerFields))
	}
	plain := func(kind string) func(*modifier.Instance) {
		return func(m *modifier.Instance) { w.hit(c, kind, m, 0) }
	}
	var l modifier.Listeners
	l.OnAdd = plain("OnAdd") // always installed: the only way to learn the *Instance of a fresh attach
	set := func(kind string, f func()) {
		if c.has[kind] {
			f()
		}
	}
	set("OnRemove", func() { l.OnRemove = plain("OnRemove") })
	set("OnDispel", func() { l.OnDispel = plain("OnDispel") })
	set("OnExtendDuration", func() { l.OnExtendDuration = plain("OnExtendDuration") })
	set("OnExtendCount", func() { l.OnExtendCount = plain("OnExtendCount") })
	set("OnPropertyChange", func() { l.OnPropertyChange = plain("OnPropertyChange") })
	set("OnPhase1", func() { l.OnPhase1 = plain("OnPhase1") })
	set("OnPhase2", func() { l.OnPhase2 = plain("OnPhase2") })
	set("OnHPChange", func() {
		l.OnHPChange = func(m *modifier.Instance, e event.HPChange) { w.hit(c, "OnHPChange", m, 0) }
	})
	set("OnLimboWaitHeal", func() {
		l.OnLimboWaitHeal = func(m *modifier.Instance) bool { return w.yes[w.hit(c, "OnLimboWaitHeal", m, 0)] }
	})
	set("OnBeforeDying", func() { l.OnBeforeDying = plain("OnBeforeDying") })
	set("OnTriggerDeath", func() {
		l.OnTriggerDeath = func(m *modifier.Instance, t key.TargetID) { w.hit(c, "OnTriggerDeath", m, int64(t)) }
	})
	set("OnEnergyChange", func() {
		l.OnEnergyChange = func(m *modifier.Instance, e event.EnergyChange) { w.hit(c, "OnEnergyChange", m, 0) }
	})
	set("OnStanceChange", func() {
		l.OnStanceChange = func(m *modifier.Instance, e event.StanceChange) { w.hit(c, "OnStanceChange", m, 0) }
	})
	set("OnBeforeBeingBreak", func() { l.OnBeforeBeingBreak = plain("OnBeforeBeingBreak") })
	set("OnTriggerBreak", func() {
		l.OnTriggerBreak = func(m *modifier.Instance, t key.TargetID) { w.hit(c, "OnTriggerBreak", m, int64(t)) }
	})
	set("OnBeingBreak", func() { l.OnBeingBreak = plain("OnBeingBreak") })
	set("OnEndBreak", func() { l.OnEndBreak = plain("OnEndBreak") })
	set("OnBreakExtend", func() { l.OnBreakExtend = plain("OnBreakExtend") })
	set("OnShieldAdded", func() {
		l.OnShieldAdded = func(m *modifier.Instance, e event.ShieldAdded) { w.hit(c, "OnShieldAdded", m, 0) }
	})
	set("OnShieldRemoved", func() {
		l.OnShieldRemoved = func(m *modifier.Instance, e event.ShieldRemoved) { w.hit(c, "OnShieldRemoved", m, 0) }
	})
	set("OnBeforeAttack", func() {
		l.OnBeforeAttack = func(m *modifier.Instance, e event.AttackStart) { w.hit(c, "OnBeforeAttack", m, 0) }
	})
	set("OnBeforeBeingAttacked", func() {
		l.OnBeforeBeingAttacked = func(m *modifier.Instance, e event.AttackStart) { w.hit(c, "OnBeforeBeingAttacked", m, 0) }
	})
	set("OnAfterAttack", func() {
		l.OnAfterAttack = func(m *modifier.Instance, e event.AttackEnd) { w.hit(c, "OnAfterAttack", m, 0) }
	})
	set("OnAfterBeingAttacked", func() {
		l.OnAfterBeingAttacked = func(m *modifier.Instance, e event.AttackEnd) { w.hit(c, "OnAfterBeingAttacked", m, 0) }
	})
	hitStart := func(kind string) func(*modifier.Instance, event.HitStart) {
		return func(m *modifier.Instance, e event.HitStart) {
			e.Hit.DamageValue = dispAdj(e.Hit.DamageValue, tagOf(m.State()))
			w.hit(c, kind, m, 0)
		}
	}
	set("OnBeforeHitAll", func() { l.OnBeforeHitAll = hitStart("OnBeforeHitAll") })
	set("OnBeforeHit", func() { l.OnBeforeHit = hitStart("OnBeforeHit") })
	set("OnBeforeBeingHitAll", func() { l.OnBeforeBeingHitAll = hitStart("OnBeforeBeingHitAll") })
	set("OnBeforeBeingHit", func() { l.OnBeforeBeingHit = hitStart("OnBeforeBeingHit") })
	hitEnd := func(kind string) func(*modifier.Instance, event.HitEnd) {
		return func(m *modifier.Instance, e event.HitEnd) { w.hit(c, kind, m, 0) }
	}
	set("OnAfterHitAll", func() { l.OnAfterHitAll = hitEnd("OnAfterHitAll") })
	set("OnAfterHit", func() { l.OnAfterHit = hitEnd("OnAfterHit") })
	set("OnAfterBeingHitAll", func() { l.OnAfterBeingHitAll = hitEnd("OnAfterBeingHitAll") })
	set("OnAfterBeingHit", func() { l.OnAfterBeingHit = hitEnd("OnAfterBeingHit") })
	healStart := func(kind string) func(*modifier.Instance, *event.HealStart) {
		return func(m *modifier.Instance, e *event.HealStart) {
			e.HealValue = dispAdj(e.HealValue, tagOf(m.State()))
			w.hit(c, kind, m, 0)
		}
	}
	set("OnBeforeDealHeal", func() { l.OnBeforeDealHeal = healStart("OnBeforeDealHeal") })
	set("OnBeforeBeingHeal", func() { l.OnBeforeBeingHeal = healStart("OnBeforeBeingHeal") })
	set("OnAfterDealHeal", func() {
		l.OnAfterDealHeal = func(m *modifier.Instance, e event.HealEnd) { w.hit(c, "OnAfterDealHeal", m, 0) }
	})
	set("OnAfterBeingHeal", func() {
		l.OnAfterBeingHeal = func(m *modifier.Instance, e event.HealEnd) { w.hit(c, "OnAfterBeingHeal", m, 0) }
	})
	set("OnBeforeAction", func() {
		l.OnBeforeAction = func(m *modifier.Instance, e event.ActionStart) { w.hit(c, "OnBeforeAction", m, 0) }
	})
	set("OnAfterAction", func() {
		l.OnAfterAction = func(m *modifier.Instance, e event.ActionEnd) { w.hit(c, "OnAfterAction", m, 0) }
	})
	// every field the config has must now be non-nil, every other one nil (OnAdd apart)
	v := reflect.ValueOf(l)
	for i := 0; i < v.NumField(); i++ {
		fn := v.Type().Field(i).Name
		if fn != "OnAdd" && v.Field(i).IsNil() == c.has[fn] {
			panic("listener field not handled by the harness: " + fn)
		}
	}
	return l
}

// the callback list of a config: the constant all_cbs, or an explicit list
func dispCbs(t term.T) []string {
	if m, ok := t.(map[string]any); ok {
		if n, _ := term.Ctor(m); n == "all_cbs" {
			return dispAll
		}
		panic("bad callback list")
	}
	out := []string{}
	for _, k := range term.List(t) {
		n, _ := term.Ctor(k)
		out = append(out, n)
	}
	return out
}

func (w *dispWorld) lists() term.T {
	out := []term.T{}
	for _, u := range w.valid {
		seen := map[key.Modifier]int{}
		cache := map[key.Modifier][]info.Modifier{}
		l := []term.T{}
		for _, cs := range w.mgr.EvalModifiers(u).Modifiers {
			if _, ok := cache[cs.Name]; !ok {
				cache[cs.Name] = w.mgr.GetModifiers(u, cs.Name)
			}
			m := cache[cs.Name][seen[cs.Name]]
			seen[cs.Name]++
			tag := tagOf(m.State)
			l = append(l, term.Tup(term.I(tag), term.Nat(w.cfgOf[tag])))
		}
		out = append(out, term.L(l...))
	}
	return term.L(out...)
}

func newDispWorld(cat, valid, adds []term.T) *dispWorld {
	dispCaseUID++
	w := &dispWorld{uid: dispCaseUID, handles: map[int64]*modifier.Instance{}, cfgOf: map[int64]int{}, yes: map[int64]bool{}}
	eng := &modEngine{ev: &event.System{}, attrs: map[key.TargetID]*info.Attributes{}}
	eng.rnd = rand.New(&smSource{s: 1})
	for _, u := range valid {
		id := key.TargetID(term.Int(u))
		if _, dup := eng.attrs[id]; dup {
			continue
		}
		a := info.DefaultAttribute()
		eng.attrs[id] = &a
		w.valid = append(w.valid, id)
	}
	w.eng = eng
	w.mgr = modifier.NewManager(eng)
	eng.mgr = w.mgr
	for _, c := range cat {
		_, a := term.Ctor(c) // mkCfg cbs snap script
		dc := dispCfg{has: map[string]bool{}, snap: term.Bool(a[1]), script: map[string][]term.T{}}
		for _, n := range dispCbs(a[0]) {
			dc.has[n] = true
		}
		for _, e := range term.List(a[2]) {
			it := term.TupleItems(e)
			n, _ := term.Ctor(it[0])
			if _, dup := dc.script[n]; !dup { // the model's lookup takes the first entry of a kind
				dc.script[n] = term.List(it[1])
			}
		}
		w.cat = append(w.cat, dc)
	}
	for i := range w.cat {
		modifier.Register(w.name(i), modifier.Config{
			Stacking:          modifier.Multiple,
			Listeners:         w.listeners(&w.cat[i]),
			CanModifySnapshot: w.cat[i].snap,
		})
	}
	for _, ad := range adds {
		it := term.TupleItems(ad)
		w.attach(key.TargetID(term.Int(it[0])), int(term.Int(it[1])))
	}
	return w
}

func (w *dispWorld) emit(e term.T) (verdict bool, x float64) {
	n, a := term.Ctor(e)
	id := func(i int) key.TargetID { return key.TargetID(term.Int(a[i])) }
	ev := w.eng.ev
	switch n {
	case "EActionStart":
		ev.ActionStart.Emit(event.ActionStart{Owner: id(0), AttackType: model.AttackType_NORMAL})
	case "EActionEnd":
		ts := map[key.TargetID]bool{}
		for _, t := range idList(a[1]) {
			ts[t] = true
		}
		ev.ActionEnd.Emit(event.ActionEnd{Owner: id(0), Targets: ts, AttackType: model.AttackType_NORMAL})
	case "EHPChange":
		ev.HPChange.Emit(event.HPChange{Key: "d", Target: id(0), OldHPRatio: 1, NewHPRatio: 0.5, OldHP: 100, NewHP: 50})
	case "ELimbo":
		w.yes = map[int64]bool{}
		for _, t := range term.List(a[1]) {
			w.yes[term.Int(t)] = true
		}
		verdict = ev.LimboWaitHeal.Emit(event.LimboWaitHeal{Target: id(0)})
		w.yes = map[int64]bool{}
	case "ETargetDeath":
		ev.TargetDeath.Emit(event.TargetDeath{Target: id(0), Killer: id(1)})
	case "EEnergyChange":
		ev.EnergyChange.Emit(event.EnergyChange{Key: "d", Target: id(0), Source: id(1), OldEnergy: 0, NewEnergy: 5})
	case "EStanceChange":
		ev.StanceChange.Emit(event.StanceChange{Key: "d", Target: id(0), Source: id(1), OldStance: 30, NewStance: 0})
	case "EStanceBreak":
		ev.StanceBreak.Emit(event.StanceBreak{Key: "d", Target: id(0), Source: id(1)})
	case "EStanceReset":
		ev.StanceReset.Emit(event.StanceReset{Key: "d", Target: id(0)})
	case "EBreakExtend":
		ev.BreakExtend.Emit(event.BreakExtend{Key: "d", Target: id(0)})
	case "EShieldAdded":
		ev.ShieldAdded.Emit(event.ShieldAdded{ID: "s", Info: info.Shield{Target: id(0), Source: id(1)}, ShieldHealth: 10})
	case "EShieldRemoved":
		ev.ShieldRemoved.Emit(event.ShieldRemoved{ID: "s", Target: id(0)})
	case "EAttackStart":
		ev.AttackStart.Emit(event.AttackStart{Key: "a", Attacker: id(0), Targets: idList(a[1]),
			AttackType: model.AttackType(term.Int(a[2])), DamageType: model.DamageType_FIRE})
	case "EAttackEnd":
		ev.AttackEnd.Emit(event.AttackEnd{Key: "a", Attacker: id(0), Targets: idList(a[1]),
			AttackType: model.AttackType(term.Int(a[2])), DamageType: model.DamageType_FIRE})
	case "EHitStart":
		h := &info.Hit{Key: "a", Attacker: w.eng.Stats(id(0)), Defender: w.eng.Stats(id(1)),
			AttackType: model.AttackType(term.Int(a[2])), DamageType: model.DamageType_FIRE,
			BaseDamage: info.DamageMap{}, HitRatio: 1, UseSnapshot: term.Bool(a[3]), DamageValue: float64(term.Int(a[4]))}
		ev.HitStart.Emit(event.HitStart{Attacker: id(0), Defender: id(1), Hit: h})
		x = h.DamageValue
	case "EHitEnd":
		h := &info.Hit{Key: "a", AttackType: model.AttackType(term.Int(a[2])), UseSnapshot: term.Bool(a[3])}
		ev.HitEnd.Emit(event.HitEnd{Key: "a", Hit: h, Attacker: id(0), Defender: id(1),
			AttackType: model.AttackType(term.Int(a[2])), DamageType: model.DamageType_FIRE, UseSnapshot: term.Bool(a[3])})
	case "EHealStart":
		hs := &event.HealStart{Key: "h", Healer: w.eng.Stats(id(0)), Target: w.eng.Stats(id(1)),
			BaseHeal: info.HealMap{}, HealValue: float64(term.Int(a[3])), UseSnapshot: term.Bool(a[2])}
		ev.HealStart.Emit(hs)
		x = hs.HealValue
	case "EHealEnd":
		ev.HealEnd.Emit(event.HealEnd{Key: "h", Healer: id(0), Target: id(1), HealAmount: 1, UseSnapshot: term.Bool(a[2])})
	case "ETick":
		w.mgr.Tick(id(0), info.BattlePhase(term.Int(a[1])))
	default:
		panic("bad event " + n)
	}
	return verdict, x
}

// input: (catalog, valid units, adds, events); output: Obs lists [(calls, verdict, value, lists)]
func runDispatch(in term.T) term.T {
	it := term.TupleItems(in)
	w := newDispWorld(term.List(it[0]), term.List(it[1]), term.List(it[2]))
	init := w.lists()
	out := []term.T{}
	for _, e := range term.List(it[3]) {
		w.calls = nil
		v, x := w.emit(e)
		if x != float64(int64(x)) {
			panic("non-integral value read back")
		}
		out = append(out, term.Tup(term.L(w.calls...), term.B(v), term.I(int64(x)), w.lists()))
	}
	return term.C("Obs", init, term.L(out...))
}

// ---- generator ----

var dispAll = []string{"OnAdd", "OnRemove", "OnDispel", "OnExtendDuration", "OnExtendCount", "OnPropertyChange",
	"OnPhase1", "OnPhase2", "OnHPChange", "OnLimboWaitHeal", "OnBeforeDying", "OnTriggerDeath", "OnEnergyChange",
	"OnStanceChange", "OnBeforeBeingBreak", "OnTriggerBreak", "OnBeingBreak", "OnEndBreak", "OnBreakExtend",
	"OnShieldAdded", "OnShieldRemoved", "OnBeforeAttack", "OnBeforeBeingAttacked", "OnAfterAttack",
	"OnAfterBeingAttacked", "OnBeforeHitAll", "OnBeforeHit", "OnBeforeBeingHitAll", "OnBeforeBeingHit",
	"OnAfterHitAll", "OnAfterHit", "OnAfterBeingHitAll", "OnAfterBeingHit", "OnBeforeDealHeal", "OnBeforeBeingHeal",
	"OnAfterDealHeal", "OnAfterBeingHeal", "OnBeforeAction", "OnAfterAction"}

// the callbacks an event can reach (scripts are given to callbacks that are in play in the case)
var dispKindsOf = map[string][]string{
	"EActionStart": {"OnBeforeAction"}, "EActionEnd": {"OnAfterAction"}, "EHPChange": {"OnHPChange"},
	"ELimbo": {"OnLimboWaitHeal"}, "ETargetDeath": {"OnBeforeDying", "OnTriggerDeath"},
	"EEnergyChange": {"OnEnergyChange"}, "EStanceChange": {"OnStanceChange"},
	"EStanceBreak": {"OnBeforeBeingBreak", "OnTriggerBreak", "OnBeingBreak"}, "EStanceReset": {"OnEndBreak"},
	"EBreakExtend": {"OnBreakExtend"}, "EShieldAdded": {"OnShieldAdded"}, "EShieldRemoved": {"OnShieldRemoved"},
	"EAttackStart": {"OnBeforeAttack", "OnBeforeBeingAttacked"}, "EAttackEnd": {"OnAfterAttack", "OnAfterBeingAttacked"},
	"EHitStart": {"OnBeforeHitAll", "OnBeforeHit", "OnBeforeBeingHitAll", "OnBeforeBeingHit"},
	"EHitEnd":   {"OnAfterHitAll", "OnAfterHit", "OnAfterBeingHitAll", "OnAfterBeingHit"},
	"EHealStart": {"OnBeforeDealHeal", "OnBeforeBeingHeal"}, "EHealEnd": {"OnAfterDealHeal", "OnAfterBeingHeal"},
	"ETick": {"OnPhase1", "OnPhase2"},
}

type dispGen struct {
	r      *term.Rng
	heal   bool
	units  []int64 // valid
	ncat   int
	ntags  int
	events []term.T
}

// a unit that plays a role: mostly a valid one, sometimes an id the engine does not know
func (g *dispGen) unit() int64 {
	if g.r.Chance(1, 14) {
		return term.Pick(g.r, []int64{9, 0})
	}
	return term.Pick(g.r, g.units)
}

func (g *dispGen) targets(self int64) []int64 {
	n := g.r.Range(1, 3)
	ts := []int64{}
	for i := 0; i < n; i++ {
		switch {
		case g.r.Chance(1, 5):
			ts = append(ts, self)
		case len(ts) > 0 && g.r.Chance(1, 5):
			ts = append(ts, ts[g.r.Intn(len(ts))]) // a repeated target
		default:
			ts = append(ts, g.unit())
		}
	}
	return ts
}

func il(xs []int64) term.T {
	out := []term.T{}
	for _, x := range xs {
		out = append(out, term.I(x))
	}
	return term.L(out...)
}

func (g *dispGen) yes() term.T {
	out := []term.T{}
	switch g.r.Intn(4) {
	case 0:
	case 1:
		out = append(out, term.I(int64(g.r.Intn(g.ntags+1))))
	default:
		for t := 0; t < g.ntags+2; t++ {
			if g.r.Chance(1, 3) {
				out = append(out, term.I(int64(t)))
			}
		}
	}
	return term.L(out...)
}

func (g *dispGen) add(e term.T) { g.events = append(g.events, e) }

func (g *dispGen) v0() term.T { return term.I(int64(g.r.Intn(50))) }

func (g *dispGen) healMacro() {
	h := g.unit()
	sn := g.r.Chance(1, 4)
	for _, t := range g.targets(h) {
		g.add(term.C("EHealStart", term.I(h), term.I(t), term.B(sn), g.v0()))
		if g.r.Chance(1, 2) {
			g.add(term.C("EHPChange", term.I(t)))
		}
		g.add(term.C("EHealEnd", term.I(h), term.I(t), term.B(sn)))
	}
}

func (g *dispGen) atype() int64 {
	if g.r.Chance(2, 5) {
		return term.Pick(g.r, []int64{4, 5, 9}) // DOT, PURSUED, ELEMENT_DAMAGE
	}
	return term.Pick(g.r, []int64{1, 2, 3, 6, 7, 8, 0, 10})
}

func (g *dispGen) hitPair(a, t, ty int64, sn bool) {
	g.add(term.C("EHitStart", term.I(a), term.I(t), term.I(ty), term.B(sn), g.v0()))
	if g.r.Chance(1, 2) {
		g.add(term.C("EHPChange", term.I(t)))
	}
	if g.r.Chance(1, 3) {
		g.add(term.C("EStanceChange", term.I(t), term.I(a)))
		if g.r.Chance(1, 2) {
			g.add(term.C("EStanceBreak", term.I(t), term.I(a)))
		}
	}
	if g.r.Chance(1, 4) {
		g.add(term.C("EEnergyChange", term.I(a), term.I(a)))
	}
	if g.r.Chance(1, 5) {
		g.add(term.C("ELimbo", term.I(t), g.yes()))
		if g.r.Chance(1, 2) {
			g.add(term.C("ETargetDeath", term.I(t), term.I(a)))
		}
	}
	g.add(term.C("EHitEnd", term.I(a), term.I(t), term.I(ty), term.B(sn)))
}

func (g *dispGen) attackMacro() {
	a := g.unit()
	ts := g.targets(a)
	ty := g.atype()
	sn := g.r.Chance(1, 4)
	g.add(term.C("EAttackStart", term.I(a), il(ts), term.I(ty)))
	for _, t := range ts {
		g.hitPair(a, t, ty, sn)
	}
	g.add(term.C("EAttackEnd", term.I(a), il(ts), term.I(ty)))
}

func (g *dispGen) single() {
	u, v := g.unit(), g.unit()
	if g.heal {
		switch g.r.Intn(5) {
		case 0:
			g.add(term.C("EHPChange", term.I(u)))
		case 1, 2:
			g.add(term.C("ELimbo", term.I(u), g.yes()))
		case 3:
			g.add(term.C("EHealStart", term.I(u), term.I(v), term.B(g.r.Chance(1, 3)), g.v0()))
		default:
			g.add(term.C("EHealEnd", term.I(u), term.I(v), term.B(g.r.Chance(1, 3))))
		}
		return
	}
	switch g.r.Intn(16) {
	case 0:
		g.add(term.C("EActionStart", term.I(u)))
	case 1:
		g.add(term.C("EActionEnd", term.I(u), il(g.targets(u))))
	case 2:
		g.add(term.C("EHPChange", term.I(u)))
	case 3:
		g.add(term.C("ELimbo", term.I(u), g.yes()))
	case 4:
		g.add(term.C("ETargetDeath", term.I(u), term.I(v)))
	case 5:
		g.add(term.C("EEnergyChange", term.I(u), term.I(v)))
	case 6:
		g.add(term.C("EStanceChange", term.I(u), term.I(v)))
	case 7:
		g.add(term.C("EStanceBreak", term.I(u), term.I(v)))
	case 8:
		g.add(term.C("EStanceReset", term.I(u)))
	case 9:
		g.add(term.C("EBreakExtend", term.I(u)))
	case 10:
		g.add(term.C("EShieldAdded", term.I(u), term.I(v)))
	case 11:
		g.add(term.C("EShieldRemoved", term.I(u)))
	case 12, 13:
		g.add(term.C("ETick", term.I(u), term.I(term.Pick(g.r, []int64{3, 8, 3, 8, 2, 6, 0, 9}))))
	default:
		// a hit outside an attack (DOT tick, break damage: unqualified, often in snapshot state)
		g.hitPair(u, v, g.atype(), g.r.Chance(1, 2))
	}
}

func (g *dispGen) action() term.T {
	switch g.r.Intn(5) {
	case 0, 1:
		return term.C("ADetachSelf")
	case 2, 3:
		return term.C("ADetach", term.I(int64(g.r.Intn(g.ntags+2))))
	}
	return term.C("AAttach", term.I(g.unit()), term.Nat(g.r.Intn(g.ncat+1)))
}

func genDispatch(heal bool) func(r *term.Rng, idx int) term.T {
	return func(r *term.Rng, idx int) term.T {
		g := &dispGen{r: r, heal: heal}
		pool := []int64{1, 2, 3, 4}
		nu := r.Range(2, 4)
		// a random subset of the id pool, in random order
		for len(g.units) < nu {
			u := term.Pick(r, pool)
			dup := false
			for _, x := range g.units {
				dup = dup || x == u
			}
			if !dup {
				g.units = append(g.units, u)
			}
		}
		g.ncat = r.Range(2, 4)
		quiet := r.Chance(1, 2)
		// "disturb": most instances share config 0, whose callbacks detach instances of the list being walked
		disturb := !quiet && r.Chance(1, 2)
		// adds: 0-3 instances per unit, interleaved across units, duplicates of one config welcome
		adds := []term.T{}
		per := map[int64]int{}
		total := 0
		for _, u := range g.units {
			per[u] = r.Intn(4)
			total += per[u]
		}
		for total > 0 {
			u := term.Pick(r, g.units)
			if per[u] == 0 {
				continue
			}
			per[u]--
			total--
			c := r.Intn(g.ncat)
			if r.Chance(1, 3) || (disturb && r.Chance(1, 2)) {
				c = 0
			}
			adds = append(adds, term.Tup(term.I(u), term.Nat(c)))
			g.ntags++
			if r.Chance(1, 20) {
				adds = append(adds, term.Tup(term.I(9), term.Nat(c))) // AddModifier on an invalid target
			}
		}
		want := r.Range(3, 12)
		for len(g.events) < want {
			switch {
			case heal && r.Chance(1, 2):
				g.healMacro()
			case !heal && r.Chance(2, 5):
				g.attackMacro()
			default:
				g.single()
			}
		}
		inPlay := []string{}
		seenKind := map[string]bool{}
		for _, e := range g.events {
			n, _ := term.Ctor(e)
			for _, k := range dispKindsOf[n] {
				if !seenKind[k] {
					seenKind[k] = true
					inPlay = append(inPlay, k)
				}
			}
		}
		quiet = quiet || len(inPlay) == 0
		cat := []term.T{}
		for i := 0; i < g.ncat; i++ {
			cbl := []term.T{}
			for _, k := range dispAll {
				if r.Chance(1, 2) {
					cbl = append(cbl, term.C(k))
				}
			}
			var cbs term.T = term.L(cbl...)
			if r.Chance(1, 2) {
				cbs = term.C("all_cbs")
			}
			script := []term.T{}
			if !quiet {
				for n := r.Range(1, 3); n > 0; n-- {
					acts := []term.T{}
					for m := r.Range(1, 2); m > 0; m-- {
						acts = append(acts, g.action())
					}
					script = append(script, term.Tup(term.C(term.Pick(r, inPlay)), term.L(acts...)))
				}
			}
			if disturb && i == 0 {
				// every instance of config 0 leaves the list being walked when it is called (and is replaced by a
				// fresh instance at the end of the list, so that the population stays)
				cbs = term.C("all_cbs")
				script = nil
				plainTwin := map[string]bool{"OnBeforeHit": true, "OnBeforeBeingHit": true, "OnAfterHit": true, "OnAfterBeingHit": true}
				for _, k := range inPlay {
					c := r.Intn(4)
					if plainTwin[k] && c < 2 {
						c = 2 // called right after the All variant on the same (by then detached) instance: no second replacement
					}
					switch c {
					case 0, 1:
						script = append(script, term.Tup(term.C(k), term.L(term.C("ADetachSelf"), term.C("AAttachOwner", term.Nat(0)))))
					case 2:
						script = append(script, term.Tup(term.C(k), term.L(term.C("ADetachSelf"))))
					}
				}
			}
			cat = append(cat, term.C("mkCfg", cbs, term.B(r.Chance(1, 3)), term.L(script...)))
		}
		return term.Tup(term.L(cat...), il(g.units), term.L(adds...), term.L(g.events...))
	}
}

func kindsDispatch(in term.T) map[string]int {
	m := map[string]int{}
	it := term.TupleItems(in)
	scripted := false
	for _, c := range term.List(it[0]) {
		_, a := term.Ctor(c)
		if len(dispCbs(a[0])) == len(dispAll) {
			m["cfg_all_callbacks"]++
		} else {
			m["cfg_subset"]++
		}
		if term.Bool(a[1]) {
			m["cfg_modifySnapshot"]++
		}
		for _, e := range term.List(a[2]) {
			scripted = true
			for _, act := range term.List(term.TupleItems(e)[1]) {
				n, _ := term.Ctor(act)
				m["act_"+n]++
			}
		}
	}
	if scripted {
		m["case_scripted"]++
	} else {
		m["case_quiet"]++
	}
	valid := map[int64]bool{}
	for _, u := range term.List(it[1]) {
		valid[term.Int(u)] = true
	}
	percfg := map[[2]int64]int{}
	for _, ad := range term.List(it[2]) {
		x := term.TupleItems(ad)
		k := [2]int64{term.Int(x[0]), term.Int(x[1])}
		percfg[k]++
		if percfg[k] == 2 {
			m["unit_with_duplicate_config"]++
		}
	}
	for _, e := range term.List(it[3]) {
		n, a := term.Ctor(e)
		m[n]++
		unknown := func(i int) {
			if !valid[term.Int(a[i])] {
				m["role_unknown_unit"]++
			}
		}
		switch n {
		case "EHealStart", "EHealEnd":
			if term.Int(a[0]) == term.Int(a[1]) {
				m["role_self_heal"]++
			}
			if term.Bool(a[2]) {
				m["snapshot_heal"]++
			}
			unknown(0)
			unknown(1)
		case "EHitStart", "EHitEnd":
			if term.Int(a[0]) == term.Int(a[1]) {
				m["role_attacker_is_defender"]++
			}
			if term.Bool(a[3]) {
				m["snapshot_hit"]++
			}
			switch term.Int(a[2]) {
			case 4, 5, 9:
				m["unqualified_hit"]++
			default:
				m["qualified_hit"]++
			}
			unknown(0)
			unknown(1)
		case "EAttackStart", "EAttackEnd":
			seen := map[int64]bool{}
			for _, t := range term.List(a[1]) {
				if term.Int(t) == term.Int(a[0]) {
					m["role_attacker_among_targets"]++
				}
				if seen[term.Int(t)] {
					m["role_repeated_target"]++
				}
				seen[term.Int(t)] = true
			}
		case "ETargetDeath", "EStanceBreak":
			if term.Int(a[0]) == term.Int(a[1]) {
				m["role_self_"+n]++
			}
		case "ELimbo":
			m[fmt.Sprintf("limbo_yes_%d", min(len(term.List(a[1])), 3))]++
		}
	}
	return m
}

func init() {
	register("dispatch_heal", component{gen: genDispatch(true), run: runDispatch, kinds: kindsDispatch})
	register("dispatch_hit", component{gen: genDispatch(false), run: runDispatch, kinds: kindsDispatch})
}
