#!/usr/bin/env python3
"""Orchestrator: one entry point for every property.

    check.py <Cxx> [--tier quick|thorough] [--seed N] [--replay FILE]

Exit 0 iff the property is shown to hold on the current /repo working tree:
  * generated Coq files (Gen/) regenerated from the Go source,
  * the Coq development for the property builds (full .vo),
  * hygiene (no Admitted/Axiom/..., no checker switches),
  * Print Assumptions of every property theorem within the allow-list,
  * correspondence: model and implementation agree on corpus + fresh cases,
  * monitors accept every implementation trace.
Otherwise prints `VIOLATION property=<id> replay=<path>` and exits 1.
"""
import argparse, fcntl, hashlib, json, os, re, shutil, struct, subprocess, sys, time, glob
from concurrent.futures import ThreadPoolExecutor

VERIF = os.path.dirname(os.path.dirname(os.path.abspath(__file__)))
COQ = os.path.join(VERIF, "coq")
HARNESS = os.path.join(VERIF, "harness")
REPO = os.environ.get("VERIF_REPO", "/repo")
sys.path.insert(0, os.path.join(VERIF, "tools"))
from props import PROPS, ALLOWED_AXIOMS  # noqa: E402

ENV = dict(os.environ, GOFLAGS="-mod=mod", GOPROXY="off", GOSUMDB="off", GOTOOLCHAIN="local",
           CGO_ENABLED=os.environ.get("CGO_ENABLED", "0"))
ENV.setdefault("GOCACHE", "/root/.cache/go-build")


def sh(cmd, cwd=None, timeout=1200, inp=None, env=None):
    try:
        p = subprocess.run(cmd, cwd=cwd, input=inp, stdout=subprocess.PIPE, stderr=subprocess.STDOUT,
                           timeout=timeout, env=env or ENV, shell=isinstance(cmd, str))
    except subprocess.TimeoutExpired as e:
        out = (e.stdout or b"").decode("utf-8", "replace")
        return 124, out + "\n[check.py] command did not finish within %d s: %s" % (timeout, cmd if isinstance(cmd, str) else " ".join(cmd))
    return p.returncode, p.stdout.decode("utf-8", "replace")


class Lock:
    def __init__(self, name):
        self.path = os.path.join(VERIF, ".lock_" + name)

    def __enter__(self):
        self.f = open(self.path, "w")
        fcntl.flock(self.f, fcntl.LOCK_EX)

    def __exit__(self, *a):
        fcntl.flock(self.f, fcntl.LOCK_UN)
        self.f.close()


# ----------------------------------------------------------------------------------------
# term -> Coq syntax
# ----------------------------------------------------------------------------------------
def coq(t):
    if isinstance(t, bool):
        return "true" if t else "false"
    if isinstance(t, int):
        return "(%d)" % t
    if isinstance(t, str):
        return '"%s"%%string' % t.replace('"', '""')
    if isinstance(t, list):
        return "[" + "; ".join(coq(x) for x in t) + "]"
    if isinstance(t, dict):
        if "n" in t:
            return "%d%%nat" % t["n"]
        if "f" in t:
            # exact binary64: a hexadecimal float literal (parsed natively by Coq, exact for every finite value
            # incl. -0 and subnormals); NaN payloads and anything unusual stay as the bit pattern
            bits = int(t["f"])
            x = struct.unpack("<d", struct.pack("<Q", bits))[0]
            if x != x:
                return "(f64 %s)" % t["f"]
            if x in (float("inf"), float("-inf")):
                return "PrimFloat.infinity" if x > 0 else "PrimFloat.neg_infinity"
            return "(%s)%%float" % x.hex()
        if "t" in t:
            return "(" + ", ".join(coq(x) for x in t["t"]) + ")"
        if "c" in t:
            if not t["a"]:
                return t["c"]
            return "(" + t["c"] + " " + " ".join(coq(x) for x in t["a"]) + ")"
    raise ValueError("bad term %r" % (t,))


# ----------------------------------------------------------------------------------------
class Violation(Exception):
    def __init__(self, kind, summary, detail, no_input=False):
        self.kind, self.summary, self.detail, self.no_input = kind, summary, detail, no_input


class Ctx:
    def __init__(self, prop, tier, seed):
        self.prop, self.tier, self.seed = prop, tier, seed
        self.cfg = PROPS[prop]
        self.t0 = time.time()
        self.log = []
        self.obligations = []
        self.assumptions = {}
        self.corr = {}
        self.notes = []
        self.known_hits = []
        self.shrinks = 0

    def say(self, *a):
        msg = " ".join(str(x) for x in a)
        self.log.append(msg)
        print(msg, flush=True)


# ----------------------------------------------------------------------------------------
# build steps
# ----------------------------------------------------------------------------------------
def build_harness(ctx):
    bins = set()
    for c in ctx.cfg.get("components", []):
        bins.add(c.get("bin", "corr"))
    for b in ctx.cfg.get("extra_bins", []):
        bins.add(b)
    if ctx.cfg.get("gen"):
        bins.add("go2coq")
    with Lock("go"):
        shutil.copyfile(os.path.join(REPO, "go.sum"), os.path.join(HARNESS, "go.sum"))
        gm = os.path.join(HARNESS, "go.mod")
        txt = open(gm).read()
        new = re.sub(r"(?m)^replace github.com/simimpact/srsim => .*$", "replace github.com/simimpact/srsim => " + REPO, txt)
        if new != txt:
            open(gm, "w").write(new)
        for b in sorted(bins):
            rc, out = sh(["go", "build", "-tags", "verif", "-o", os.path.join(HARNESS, "bin", b), "./cmd/" + b],
                         cwd=HARNESS, timeout=900)
            if rc != 0:
                raise Violation("build", "harness binary %s does not build against /repo" % b, out[-4000:], True)


def regen(ctx):
    """Run the translator; Gen files are rewritten only when their content changes."""
    gens = ctx.cfg.get("gen", [])
    if not gens:
        return
    with Lock("coq"):
        for g in gens:
            rc, out = sh([os.path.join(HARNESS, "bin", "go2coq"), g, "-repo", REPO], timeout=300)
            target = os.path.join(COQ, "Gen", g + ".v")
            if rc != 0:
                raise Violation("translator", "go2coq %s failed: the source left the translatable subset" % g,
                                out[-4000:], True)
            old = open(target).read() if os.path.exists(target) else None
            if old != out:
                with open(target, "w") as f:
                    f.write(out)
                ctx.say("regenerated Gen/%s.v (changed)" % g)


def coq_build(ctx, which="all"):
    targets = ctx.cfg["coq_targets"]
    is_proof = lambda t: t.startswith("Props/") or t.startswith("Proofs/")
    if which == "model":
        targets = [t for t in targets if not is_proof(t)]
    elif which == "proof":
        targets = [t for t in targets if is_proof(t)]
    if not targets:
        return
    with Lock("coq"):
        mk, cp = os.path.join(COQ, "Makefile"), os.path.join(COQ, "_CoqProject")
        sh([sys.executable, os.path.join(VERIF, "tools", "gen_coqproject.py")])
        if not os.path.exists(mk) or os.path.getmtime(mk) < os.path.getmtime(cp):
            sh("coq_makefile -f _CoqProject -o Makefile", cwd=COQ)
        rc, out = sh(["make", "-j16"] + [t + "o" for t in targets], cwd=COQ, timeout=3000)
    if rc != 0:
        m = re.search(r'File "([^"]+)", line (\d+)', out)
        where = "%s:%s" % (m.group(1), m.group(2)) if m else "?"
        raise Violation("proof", "Coq development no longer builds (%s)" % where, out[-4000:], True)


BAD = re.compile(r"\b(Admitted|admit|Axiom|Axioms|Parameter|Parameters|Conjecture|Conjectures|Admit Obligations)\b"
                 r"|Unset Guard Checking|Unset Positivity Checking|Unset Universe Checking|bypass_check|type-in-type|impredicative-set")


def strip_comments(s):
    out, depth, i = [], 0, 0
    while i < len(s):
        if s.startswith("(*", i):
            depth += 1
            i += 2
        elif s.startswith("*)", i) and depth > 0:
            depth -= 1
            i += 2
        else:
            if depth == 0:
                out.append(s[i])
            i += 1
    return "".join(out)


def hygiene(ctx):
    bad = []
    files = [f for f in glob.glob(os.path.join(COQ, "**", "*.v"), recursive=True) if "/Cases/" not in f]
    for f in files + [os.path.join(COQ, "_CoqProject")]:
        src = strip_comments(open(f).read())
        for ln, line in enumerate(src.split("\n"), 1):
            if BAD.search(line):
                bad.append("%s:%d: %s" % (os.path.relpath(f, COQ), ln, line.strip()))
        # Variable/Hypothesis outside a Section
        depth = 0
        for ln, line in enumerate(src.split("\n"), 1):
            s = line.strip()
            if re.match(r"Section\s", s):
                depth += 1
            elif re.match(r"End\s", s) and depth > 0:
                depth -= 1
            elif re.match(r"(Variable|Variables|Hypothesis|Hypotheses|Context)\b", s) and depth == 0:
                bad.append("%s:%d: %s (outside a Section)" % (os.path.relpath(f, COQ), ln, s))
    if bad:
        raise Violation("hygiene", "forbidden declarations in the Coq development", "\n".join(bad), True)
    ctx.hygiene_files = len(files)


def assumptions(ctx):
    """Recompile the property file(s) to capture Print Assumptions output."""
    for pf in ctx.cfg["prop_files"]:
        rc, out = sh(["coqc", "-Q", ".", "SR", pf], cwd=COQ, timeout=1200)
        if rc != 0:
            raise Violation("proof", "property file %s does not compile" % pf, out[-4000:], True)
        src = strip_comments(open(os.path.join(COQ, pf)).read())
        thms = re.findall(r"(?:Theorem|Lemma)\s+(\w+)", src)
        printed = re.findall(r"Print Assumptions\s+(\w+)", src)
        blocks = re.split(r"(?m)^(?=Closed under the global context|Axioms:)", out)
        blocks = [b for b in blocks if b.startswith("Closed under") or b.startswith("Axioms:")]
        if len(blocks) != len(printed):
            raise Violation("proof", "Print Assumptions output not understood for %s" % pf, out[-3000:], True)
        for name, b in zip(printed, blocks):
            axs = []
            if b.startswith("Axioms:"):
                axs = re.findall(r"(?m)^([A-Za-z_][\w.']*)\s*:", b[len("Axioms:"):])
                axs = [a for a in axs if a != "Axioms"]
            ctx.assumptions[name] = axs
            unknown = [a for a in axs if not any(re.fullmatch(p, a) for p in ALLOWED_AXIOMS)]
            if unknown:
                raise Violation("proof", "theorem %s depends on axioms outside the allow-list: %s" % (name, unknown),
                                b, True)
        ctx.obligations += [t for t in thms]
        # a finding kept in the code shows up in Coq as a `_refuted` theorem (witness by vm_compute):
        # it is a listed known finding exactly when known_findings.json names that theorem
        for e in load_known():
            if e.get("status") == "known" and e.get("property") == ctx.prop and e.get("refuted_theorem") in thms:
                ctx.known_hits.append(e)
        ctx.notes.append("%s: %d theorems, %d with Print Assumptions" % (pf, len(thms), len(printed)))


def coqchk(ctx):
    """Thorough tier: re-check the compiled property file(s) and everything they depend on with Coq's
    independent checker, and compare the axioms it reports with the allow-list."""
    libs = ["SR." + pf[:-2].replace("/", ".") for pf in ctx.cfg["prop_files"]]
    with Lock("coq"):
        rc, out = sh(["coqchk", "-silent", "-o", "-Q", ".", "SR"] + libs, cwd=COQ, timeout=3 * 3600)
    if rc != 0:
        raise Violation("proof", "coqchk rejects the compiled development of %s" % ", ".join(libs), out[-4000:], True)
    m = re.search(r"\* Axioms:(.*?)(?:\n\* |\Z)", out, re.S)
    axs = re.findall(r"(?m)^\s+([\w.']+)\s*$", m.group(1)) if m else []
    unknown = [a for a in axs if not any(re.search(r"(^|\.)(?:" + p + r")$", a) for p in ALLOWED_AXIOMS)]
    for sect in ("relying on type-in-type", "relying on unsafe (co)fixpoints", "whose positivity is assumed"):
        ms = re.search(re.escape(sect) + r":\s*(\S+)", out)
        if not ms or ms.group(1) != "<none>":
            raise Violation("proof", "coqchk: constants/inductives %s" % sect, out[-4000:], True)
    ctx.coqchk = {"libraries": libs, "axioms": axs, "tail": out[-1500:]}
    if unknown:
        raise Violation("proof", "coqchk reports axioms outside the allow-list: %s" % unknown, out[-4000:], True)
    ctx.notes.append("coqchk -o accepted %s (%d axioms reported over all loaded libraries)" % (", ".join(libs), len(axs)))


# ----------------------------------------------------------------------------------------
# correspondence
# ----------------------------------------------------------------------------------------
def case_file_text(comp, cases):
    mods = " ".join(comp["modules"])
    lines = ["From Coq Require Import List ZArith Bool String Floats.",
             "From SR Require Import Base.CaseLib %s." % mods,
             "Import ListNotations. Open Scope Z_scope.",
             "Definition cases : list %s := [" % comp.get("case_type", "case")]
    body = []
    for c in cases:
        body.append("(%s, %s)" % (coq(c["in"]), coq(c["out"])))
    lines.append(";\n".join(body))
    lines.append("].")
    mon = comp.get("monitor")
    lines.append("Definition M := Eval vm_compute in (failing %s cases, %s)." %
                 (comp.get("check", "check_case"), ("failing %s cases" % mon) if mon else "@nil Z"))
    lines.append("Print M.")
    return "\n".join(lines) + "\n"


def eval_cases(ctx, comp, cases, tag):
    """Returns (failing_check_indices, failing_monitor_indices)."""
    d = os.path.join(COQ, "Cases")
    os.makedirs(d, exist_ok=True)
    name = "%s_%s_%s" % (ctx.prop, comp["name"], tag)
    path = os.path.join(d, name + ".v")
    with open(path, "w") as f:
        f.write(case_file_text(comp, cases))
    rc, out = sh(["coqc", "-Q", ".", "SR", "Cases/" + name + ".v"], cwd=COQ, timeout=3000)
    for ext in (".vo", ".vok", ".vos", ".glob"):
        try:
            os.remove(os.path.join(d, name + ext))
        except OSError:
            pass
    try:
        os.remove(os.path.join(d, "." + name + ".aux"))
    except OSError:
        pass
    if rc != 0:
        raise Violation("correspondence", "case file %s rejected by Coq (harness output outside the model's types)" % name,
                        out[-3000:], True)
    m = re.search(r"M\s*=\s*\(\s*\[(.*?)\]\s*,\s*\[(.*?)\]\s*\)", out, re.S)
    if not m:
        raise Violation("correspondence", "cannot read result of %s" % name, out[-3000:], True)
    if not ctx.keep_cases:
        os.remove(path)

    def nums(s):
        return [int(x) for x in re.findall(r"-?\d+", s)]
    return nums(m.group(1)), nums(m.group(2))


MAX_CASE_BYTES = int(os.environ.get("VERIF_MAX_CASE_BYTES", "600000"))
DISCARDED = {}


def run_corr(comp, mode_args, inp=None, timeout=1200):
    rc, out = sh([os.path.join(HARNESS, "bin", comp.get("bin", "corr")), comp["name"]] + mode_args,
                 inp=inp, timeout=timeout)
    if rc != 0:
        raise Violation("correspondence", "harness %s failed" % comp["name"], out[-3000:], True)
    cases = []
    for line in out.split("\n"):
        line = line.strip()
        if line.startswith("{"):
            if len(line) > MAX_CASE_BYTES:
                # a generated history whose recorded output explodes (e.g. listener scripts that re-add
                # stacking modifiers at every nesting level): Coq cannot even parse a case file of that size,
                # and nothing is learnt from it that smaller cases do not show; counted, not evaluated
                DISCARDED[comp["name"]] = DISCARDED.get(comp["name"], 0) + 1
                continue
            c = json.loads(line)
            if isinstance(c.get("out"), dict) and c["out"].get("c") == "CaseTooLarge":
                # the harness itself gave the case up (its recorded output was growing without bound)
                DISCARDED[comp["name"]] = DISCARDED.get(comp["name"], 0) + 1
                continue
            cases.append(c)
    return cases


def model_output(ctx, comp, case):
    """Ask Coq for the model's output on one case (raw text, for the replay file)."""
    fn = comp.get("model_out")
    if not fn:
        return None
    d = os.path.join(COQ, "Cases")
    name = "%s_%s_out_%d" % (ctx.prop, comp["name"], os.getpid())
    with open(os.path.join(d, name + ".v"), "w") as f:
        f.write("From Coq Require Import List ZArith Bool String Floats.\nFrom SR Require Import Base.CaseLib %s.\n"
                "Import ListNotations. Open Scope Z_scope.\nEval vm_compute in %s (%s, %s).\n" %
                (" ".join(comp["modules"]), fn, coq(case["in"]), coq(case["out"])))
    rc, out = sh(["coqc", "-Q", ".", "SR", "Cases/" + name + ".v"], cwd=COQ, timeout=600)
    for f in glob.glob(os.path.join(d, name + ".*")) + glob.glob(os.path.join(d, "." + name + ".*")):
        os.remove(f)
    return out.strip()[:20000]


def get_path(t, path):
    for p in path:
        t = t["t"][p] if isinstance(t, dict) and "t" in t else t[p]
    return t


def set_path(t, path, v):
    if not path:
        return v
    t = json.loads(json.dumps(t))
    cur = t
    for p in path[:-1]:
        cur = cur["t"][p] if isinstance(cur, dict) and "t" in cur else cur[p]
    if isinstance(cur, dict) and "t" in cur:
        cur["t"][path[-1]] = v
    else:
        cur[path[-1]] = v
    return t


def shrink(ctx, comp, case, which, budget_s):
    """Greedy delta-debugging on the op list named by comp['ops_path']."""
    path = comp.get("ops_path")
    if path is None:
        return shrink_generic(ctx, comp, case, which, budget_s)
    t_end = time.time() + budget_s
    counter = [0]

    def fails(inp):
        counter[0] += 1
        cs = run_corr(comp, ["run"], inp=(json.dumps({"in": inp}) + "\n").encode())
        if not cs:
            return None
        try:
            fc, fm = eval_cases(ctx, comp, cs, "shrink%d" % os.getpid())
        except Violation:
            return None
        bad = fc if which == "check" else fm
        return cs[0] if bad else None

    best = case
    ops = list(get_path(case["in"], path))
    chunk = max(1, len(ops) // 2)
    while chunk >= 1 and time.time() < t_end:
        i, progressed = 0, False
        while i < len(ops) and time.time() < t_end:
            cand = ops[:i] + ops[i + chunk:]
            r = fails(set_path(best["in"], path, cand))
            if r is not None:
                ops, best, progressed = cand, r, True
            else:
                i += chunk
        if chunk == 1 and not progressed:
            break
        chunk = max(1, chunk // 2) if chunk > 1 else (1 if progressed else 0)
    ctx.say("  shrunk to %d ops in %d evaluations" % (len(ops), counter[0]))
    return best


def list_paths(t, prefix=()):
    """paths of all JSON lists inside a term"""
    out = []
    if isinstance(t, list):
        out.append(prefix)
        for i, x in enumerate(t):
            out += list_paths(x, prefix + (i,))
    elif isinstance(t, dict):
        for k in ("a", "t"):
            if k in t:
                for i, x in enumerate(t[k]):
                    out += list_paths(x, prefix + (k, i))
    return out


def term_get(t, path):
    for p in path:
        t = t[p]
    return t


def term_set(t, path, v):
    t = json.loads(json.dumps(t))
    if not path:
        return v
    cur = t
    for p in path[:-1]:
        cur = cur[p]
    cur[path[-1]] = v
    return t


def _arg_strings(t, out):
    """identifier-like strings among the ARGUMENTS of a term (constructor names under "c" are not arguments)"""
    if isinstance(t, str):
        if re.fullmatch(r"[a-z][a-z0-9_]{3,}", t):
            out.add(t)
    elif isinstance(t, list):
        for x in t:
            _arg_strings(x, out)
    elif isinstance(t, dict):
        for k, v in t.items():
            if k != "c":
                _arg_strings(v, out)
    return out


def _still_named(removed, cand):
    """Dropping an element whose key (a character, a cone ...) is still NAMED by what remains - e.g. by another
    character's script - leaves the generator's domain: such a candidate could fail for a reason of its own."""
    names = _arg_strings(removed, set())
    if not names:
        return False
    texts = []                      # the script-like strings that remain (not bare keys: two enemies may share one)

    def walk(t):
        if isinstance(t, str):
            if not re.fullmatch(r"[A-Za-z0-9_]*", t):
                texts.append(t)
        elif isinstance(t, list):
            for x in t:
                walk(x)
        elif isinstance(t, dict):
            for k, v in t.items():
                if k != "c":
                    walk(v)
    walk(cand)
    blob = "\n".join(texts)
    return any(re.search(r"(?<![A-Za-z0-9_])%s(?![A-Za-z0-9_])" % re.escape(n), blob) for n in names)


def shrink_generic(ctx, comp, case, which, budget_s):
    """Structural shrinking for inputs without a single op list: repeatedly try to drop one element
    of any list inside the input term, keeping a candidate when the same rejection persists."""
    t_end = time.time() + budget_s
    evals = [0]

    def fails(inp):
        evals[0] += 1
        try:
            cs = run_corr(comp, ["run"], inp=(json.dumps({"in": inp}) + "\n").encode())
            if not cs:
                return None
            fc, fm = eval_cases(ctx, comp, cs, "shrink%d" % os.getpid())
        except Violation:
            return None
        return cs[0] if (fc if which == "check" else fm) else None

    best = case
    progressed = True
    while progressed and time.time() < t_end:
        progressed = False
        paths = sorted(list_paths(best["in"]), key=lambda p: -len(term_get(best["in"], p)))
        for p in paths:
            try:
                lst = term_get(best["in"], p)
            except (IndexError, KeyError, TypeError):
                continue            # the path vanished with an earlier removal
            if not isinstance(lst, list):
                continue
            i = len(lst) - 1
            while i >= 0 and time.time() < t_end:
                cand = term_set(best["in"], p, lst[:i] + lst[i + 1:])
                r = None if _still_named(lst[i], cand) else fails(cand)
                if r is not None:
                    best, lst, progressed = r, lst[:i] + lst[i + 1:], True
                i -= 1
            if progressed or time.time() >= t_end:
                break               # paths below this list may have shifted: recompute
    ctx.say("  structurally shrunk in %d evaluations" % evals[0])
    return best


def load_known():
    p = os.path.join(VERIF, "known_findings.json")
    if not os.path.exists(p):
        return []
    return json.load(open(p))


def known_match(ctx, comp_name, case, which):
    """A violation is a known finding only if an entry with status 'known' for this property
    and component matches the *shrunk* case: every regex in entry['match'] must be found in the
    canonical JSON of the case input / output."""
    blob_in = json.dumps(case["in"], sort_keys=True)
    blob_out = json.dumps(case["out"], sort_keys=True)
    for e in load_known():
        if e.get("status") != "known" or e.get("property") != ctx.prop:
            continue
        if e.get("component") not in (None, comp_name):
            continue
        if e.get("which") not in (None, which):
            continue
        ok = all(re.search(rx, blob_in) for rx in e.get("match_in", [])) and \
            all(re.search(rx, blob_out) for rx in e.get("match_out", []))
        mx = e.get("max_ops")
        if ok and mx is not None and comp_name in ctx.comp_by_name:
            path = ctx.comp_by_name[comp_name].get("ops_path")
            if path is not None and len(get_path(case["in"], path)) > mx:
                ok = False
        if ok:
            return e
    return None


def write_replay(ctx, kind, payload):
    d = os.path.join(VERIF, "replays", ctx.prop)
    os.makedirs(d, exist_ok=True)
    blob = json.dumps(payload, indent=1, sort_keys=True)
    h = hashlib.sha1(blob.encode()).hexdigest()[:12]
    p = os.path.join(d, "%s_%s.json" % (kind, h))
    with open(p, "w") as f:
        f.write(blob)
    return p


def correspondence(ctx):
    viol = []
    ctx.comp_by_name = {c["name"]: c for c in ctx.cfg.get("components", [])}
    for comp in ctx.cfg.get("components", []):
        n = comp["n_quick"] if ctx.tier == "quick" else comp["n_thorough"]
        stats = {"generated": 0, "corpus": 0, "check_mismatches": 0, "monitor_rejections": 0,
                 "op_kinds": {}, "sizes": {}, "seed": ctx.seed}
        batches = []
        # corpus first
        cdir = os.path.join(VERIF, "corpus", ctx.prop, comp["name"])
        corpus_lines = []
        for f in sorted(glob.glob(os.path.join(cdir, "*.json"))):
            corpus_lines.append(json.dumps({"in": json.load(open(f))["in"]}))
        if corpus_lines:
            cs = run_corr(comp, ["run"], inp=("\n".join(corpus_lines) + "\n").encode())
            stats["corpus"] = len(cs)
            batches.append(("corpus", cs))
        shard = comp.get("shard", 400)
        nsh = (n + shard - 1) // shard

        def gen(k):
            cnt = min(shard, n - k * shard)
            # properties that share a component (the whole-simulation model serves C03, C08, C09, C11) draw
            # different case streams, so together they cover more
            base = ctx.seed * 1000 + int(re.sub(r"\D", "", ctx.prop) or 0) * 1000003
            return ("s%d" % k, run_corr(comp, ["gen", "-seed", str(base + k), "-n", str(cnt)]))
        with ThreadPoolExecutor(max_workers=8) as ex:
            for b in ex.map(gen, range(nsh)):
                batches.append(b)
                stats["generated"] += len(b[1])

        def ev(b):
            return b, eval_cases(ctx, comp, b[1], b[0])
        samples = []
        with ThreadPoolExecutor(max_workers=8) as ex:
            results = list(ex.map(ev, batches))
        for (tag, cs), (fc, fm) in results:
            for c in cs:
                for k, v in (c.get("kinds") or {}).items():
                    stats["op_kinds"][k] = stats["op_kinds"].get(k, 0) + v
                path = comp.get("ops_path")
                if path is not None:
                    ln = len(get_path(c["in"], path))
                    b = "%d-%d" % (ln // 10 * 10, ln // 10 * 10 + 9)
                    stats["sizes"][b] = stats["sizes"].get(b, 0) + 1
            if not samples and cs:
                samples.append({"in": cs[0]["in"], "out": cs[0]["out"]})
            for which, idxs in (("check", fc), ("monitor", fm)):
                if not idxs:
                    continue
                stats["check_mismatches" if which == "check" else "monitor_rejections"] += len(idxs)
                # shrink up to three failing cases per batch; classify each
                for i in idxs[:3]:
                    if ctx.shrinks >= 3:
                        viol.append((comp, which, cs[i]))
                        break
                    ctx.shrinks += 1
                    ctx.say("  %s %s rejects case %s/%d; shrinking" % (comp["name"], which, tag, i))
                    small = shrink(ctx, comp, cs[i], which, 90 if ctx.tier == "quick" else 300)
                    e = known_match(ctx, comp["name"], small, which)
                    if e:
                        ctx.known_hits.append(e)
                        continue
                    if which == "check" and not comp.get("mismatch_is_violation", True) and comp.get("monitor"):
                        # the model covers more than this property: a disagreement is a failing input of
                        # THIS property only if the property's own monitor rejects what the code did
                        try:
                            _, fm2 = eval_cases(ctx, comp, [small], "cls%d" % os.getpid())
                        except Violation:
                            fm2 = []
                        viol.append((comp, "check" if fm2 else "check-noinput", small))
                    else:
                        viol.append((comp, which, small))
        stats["samples"] = samples
        hsh = hashlib.sha1()
        for (tag, cs) in batches:
            for c in cs:
                hsh.update(json.dumps(c["in"], sort_keys=True).encode())
        stats["distinct_inputs"] = len({json.dumps(c["in"], sort_keys=True) for (_, cs) in batches for c in cs})
        stats["discarded_oversize"] = DISCARDED.get(comp["name"], 0)
        ctx.corr[comp["name"]] = stats
        ctx.say("  correspondence %s: %d generated + %d corpus, %d mismatches, %d monitor rejections" %
                (comp["name"], stats["generated"], stats["corpus"], stats["check_mismatches"], stats["monitor_rejections"]))
    if viol:
        # prefer a violation that carries a failing input of the property itself
        viol.sort(key=lambda v: 0 if v[1] in ("monitor", "check") else 1)
        comp, which, small = viol[0]
        noinput = which == "check-noinput"
        if noinput:
            which = "check"
        payload = {"property": ctx.prop, "kind": "correspondence" if which == "check" else "monitor",
                   "component": comp["name"], "seed": ctx.seed, "input": small["in"], "impl_output": small["out"],
                   "model_output": model_output(ctx, comp, small),
                   "how_to_replay": "python3 tools/check.py %s --replay <this file>" % ctx.prop,
                   "meaning": ("the executable Coq model (about which the property is proved) and the implementation "
                               "disagree on this minimized input" if which == "check" else
                               "the property's trace monitor rejects what the implementation did on this input"),
                   "other_failures": len(viol) - 1}
        if noinput:
            payload["obligation"] = ("correspondence %s <-> Model (the executable model the theorems are about no longer "
                                     "agrees with the code on this input; the property's own trace monitor accepts what the "
                                     "code did, so no failing input of the property itself was found)" % comp["name"])
        raise Violation("correspondence" if which == "check" else "monitor",
                        "%s: %s rejects a minimized case" % (comp["name"], which), payload, no_input=noinput)


# ----------------------------------------------------------------------------------------
def evidence(ctx, violations, status):
    axioms = sorted({a for v in ctx.assumptions.values() for a in v})
    n_obl = len(ctx.obligations)
    total_cases = sum(s["generated"] + s["corpus"] for s in ctx.corr.values())
    distinct = sum(s.get("distinct_inputs", 0) for s in ctx.corr.values())
    samples = []
    for name, s in ctx.corr.items():
        for smp in s.get("samples", [])[:1]:
            samples.append({"component": name, "case": smp})
    samples.append({"obligations": ctx.obligations[:40]})
    tb = ["Coq 8.16.1 kernel incl. vm_compute and primitive float/int63; no native_compute",
          "axioms reported by Print Assumptions (all from the Coq standard library / Flocq): " + (", ".join(axioms) or "none"),
          "tools/check.py (orchestrator), harness/cmd/corr (drives the real Go packages, records observables)",
          "harness/cmd/go2coq translator for Gen/*.v where used: " + (", ".join(ctx.cfg.get("gen", [])) or "not used by this property"),
          ] + ctx.cfg.get("trusted", [])
    ev = {
        "property_id": ctx.prop, "tier": ctx.tier, "seed": ctx.seed, "level": "proof",
        "coverage": {
            "obligations": n_obl, "discharged": n_obl if status != "proof-broken" else 0,
            "checker_cmd": "cd /verif/coq && make %s && coqc -Q . SR %s" % (
                " ".join(t + "o" for t in ctx.cfg["coq_targets"]), " ".join(ctx.cfg["prop_files"])),
            "trusted_base": tb,
            "evaluations": total_cases, "distinct_nontrivial": distinct,
            "rule": ctx.cfg.get("rule", ""),
            "samples": samples,
            "theorems": ctx.obligations,
            "print_assumptions": ctx.assumptions,
            "correspondence": {k: {kk: vv for kk, vv in v.items() if kk != "samples"} for k, v in ctx.corr.items()},
            "known_findings_hit": [e.get("id") for e in ctx.known_hits],
            "notes": ctx.notes,
            "coqchk": getattr(ctx, "coqchk", None),
            "status": status,
        },
        "assumptions": ctx.cfg.get("assumptions", []),
        "wall_s": round(time.time() - ctx.t0, 2),
        "violations": violations,
    }
    os.makedirs(os.path.join(VERIF, "evidence"), exist_ok=True)
    with open(os.path.join(VERIF, "evidence", ctx.prop + ".json"), "w") as f:
        json.dump(ev, f, indent=1, sort_keys=True)


def replay(ctx, path):
    r = json.load(open(path))
    comp = next((c for c in ctx.cfg.get("components", []) if c["name"] == r.get("component")), None)
    if comp is None:
        print("replay: %s names obligation %r; re-run the check to re-test it" % (path, r.get("obligation")))
        return 0
    build_harness(ctx)
    coq_build(ctx)
    cs = run_corr(comp, ["run"], inp=(json.dumps({"in": r["input"]}) + "\n").encode())
    fc, fm = eval_cases(ctx, comp, cs, "replay")
    print("replay: impl output:", json.dumps(cs[0]["out"])[:2000])
    print("replay: model output:", model_output(ctx, comp, cs[0]))
    print("replay: check mismatch=%s monitor reject=%s" % (bool(fc), bool(fm)))
    return 1 if (fc or fm) else 0


def main():
    ap = argparse.ArgumentParser()
    ap.add_argument("prop")
    ap.add_argument("--tier", default=os.environ.get("VERIF_TIER", "quick"))
    ap.add_argument("--seed", type=int, default=int(os.environ.get("VERIF_SEED", "1")))
    ap.add_argument("--replay")
    ap.add_argument("--keep-cases", action="store_true")
    a = ap.parse_args()
    if a.tier not in ("quick", "thorough"):
        a.tier = "quick"
    ctx = Ctx(a.prop, a.tier, a.seed)
    ctx.keep_cases = a.keep_cases
    if a.replay:
        sys.exit(replay(ctx, a.replay))
    status = "ok"
    try:
        build_harness(ctx)
        # translator and proof obligations (incl. those over regenerated Gen files).  If one breaks, the
        # search on the model and the implementation still runs: a concrete failing input is the better replay
        pending = None
        try:
            regen(ctx)
        except Violation as pv:
            pending = pv
            ctx.say("  translator obligation broken (%s); searching for a failing input" % pv.summary)
        coq_build(ctx, "model")
        try:
            coq_build(ctx, "proof")
            hygiene(ctx)
            assumptions(ctx)
        except Violation as pv:
            pending = pending or pv
            ctx.say("  proof obligation broken (%s); searching for a failing input" % pv.summary)
        for hook in ctx.cfg.get("pre", []):
            hook(ctx)
        try:
            correspondence(ctx)
        except Violation as cv:
            if pending is not None and isinstance(cv.detail, dict):
                cv.detail["broken_obligation"] = pending.summary
                cv.detail["broken_obligation_detail"] = pending.detail if isinstance(pending.detail, str) else ""
            raise
        if pending is not None:
            raise pending
        for hook in ctx.cfg.get("post", []):
            hook(ctx)
        if ctx.tier == "thorough":
            for hook in ctx.cfg.get("thorough", []):
                hook(ctx)
            if os.environ.get("VERIF_COQCHK", "1") != "0":
                coqchk(ctx)
    except Violation as v:
        status = "proof-broken" if v.kind in ("proof", "translator", "hygiene", "build") else "violation"
        payload = v.detail if isinstance(v.detail, dict) else {
            "property": ctx.prop, "kind": v.kind, "obligation": v.summary, "detail": v.detail,
            "note": "no concrete failing input was found by the search; the named theorem / correspondence / "
                    "translator obligation no longer checks, so the property is no longer shown to hold"}
        p = write_replay(ctx, v.kind, payload)
        evidence(ctx, 1, status)
        for e in ctx.known_hits:
            print("KNOWN-FINDING: property=%s %s" % (ctx.prop, e.get("what", e.get("id"))))
        print("VIOLATION property=%s replay=%s%s" % (ctx.prop, p, " no-failing-input-found" if v.no_input else ""))
        print("  " + v.summary)
        sys.exit(1)
    seen = set()
    for e in ctx.known_hits:
        if e.get("id") in seen:
            continue
        seen.add(e.get("id"))
        print("KNOWN-FINDING: property=%s %s" % (ctx.prop, e.get("what", e.get("id"))))
    evidence(ctx, 0, status)
    ctx.say("OK %s tier=%s seed=%d wall=%.1fs" % (ctx.prop, ctx.tier, ctx.seed, time.time() - ctx.t0))
    sys.exit(0)


if __name__ == "__main__":
    main()
