(* Description types for the four event handlers (pkg/engine/event/handler/{simple,priority,mutable,
   cancel}.go) and the logger fan-out (pkg/engine/logging/logger.go), and an INTERPRETER from a
   description to the step functions of Model/Events.v (same world / handler / trace / frame types).

   `go2coq HandlersTable` (harness/cmd/go2coq/handlers.go) regenerates Gen/HandlersTable.v - a value of
   type [htable] - from the Go source on every run; every statement of Subscribe / Emit / Len / Swap /
   Less / Log / InitLoggers is recognised or the translator exits 1.  Proofs/HandlersTableProofs.v proves
   that the interpretation of the generated table is Events.subscribe / Events.emit / Events.log_items /
   Events.init_loggers for all worlds, handlers, priorities, reaction scripts, values and fuel, and that
   the generated table is, field by field, [expected_table] below.

   What stays hand-written under this tie (as in Model/Events.v): listeners are data (identity = a
   counter, behaviour = a queue of reactions with scripts), the trace items, Go's slice semantics
   (array generations, [grow]) and "sort.Sort of a sorted slice plus one appended element = stable
   insertion of that element by the recognised Less".  No proofs in this file. *)
From Coq Require Import String List ZArith Bool.
From SR Require Import Model.Events.
Import ListNotations.
Open Scope Z_scope.

(* ---- Subscribe ---- *)

(* what is appended *)
Inductive elem_shape :=
| ElemBare            (* the listener itself:            append(..., listener) *)
| ElemWithPriority.   (* x := T[E]{listener: listener, priority: priority}; append(..., x) *)

Inductive append_shape :=
| AppendInPlace       (* handler.listeners = append(handler.listeners, x) *)
| AppendFresh.        (* n := len(handler.listeners); handler.listeners = append(handler.listeners[:n:n], x) *)

(* the body of Less(i, j), with Len = `return len(a)` and Swap = `a[i], a[j] = a[j], a[i]` verbatim *)
Inductive less_shape :=
| LessPrioLt          (* return a[i].priority < a[j].priority *)
| LessPrioLe.         (* return a[i].priority <= a[j].priority *)

Record sub_desc := mkSubD {
  sd_elem : elem_shape;
  sd_append : append_shape;
  sd_sort : option less_shape }.   (* Some l: the last statement is sort.Sort(handler.listeners) *)

(* ---- Emit ---- *)

Inductive pass_shape :=
| ByValue             (* Emit(event E);  the listener receives event *)
| ByPointer.          (* Emit(event *E); the listener receives the very pointer Emit was given *)

Inductive logged := LogEvent (* logging.Log(event) *) | LogCancelled (* logging.Log(event.Cancelled()) *).

(* `if listener.listener(event) { logging.Log(<cd_logs>); return <cd_return> }` *)
Record cancel_desc := mkCancelD { cd_logs : logged; cd_return : bool }.

Record emit_desc := mkEmitD {
  ed_range_at_entry : bool;           (* `for _, listener := range handler.listeners` is the first statement *)
  ed_field_call : bool;               (* listener.listener(event) (true) | listener(event) (false) *)
  ed_pass : pass_shape;
  ed_cancel : option cancel_desc;
  ed_log_after : bool;                (* `logging.Log(event)` right after the loop *)
  ed_return : option bool }.          (* the closing `return <literal>` of a bool Emit; None: no result *)

Record handler_desc := mkHandlerD {
  hd_type : string;                         (* the Go type *)
  hd_fields : list (string * string);       (* its struct fields: (name, type) *)
  hd_slice_methods : list string;           (* methods of the listeners slice type, sorted *)
  hd_sub : sub_desc;
  hd_emit : emit_desc }.

(* ---- logging ---- *)
Record log_desc := mkLogD {
  ld_snapshot_under_rlock : bool;   (* mu.RLock(); ls := loggers; mu.RUnlock() *)
  ld_ranges_snapshot : bool;        (* for _, l := range ls *)
  ld_one_log_call_each : bool }.    (* { l.Log(e) } *)
Record init_desc := mkInitD {
  id_lock_defer_unlock : bool;      (* mu.Lock(); defer mu.Unlock() *)
  id_replaces_list : bool }.        (* loggers = ls *)

Record htable := mkHTable {
  t_handlers : list handler_desc;
  t_log : log_desc;
  t_init : init_desc;
  t_logging_vars : list (string * string) }.   (* package-level variables of pkg/engine/logging *)

(* which Go type is which model kind (hand-written; the harness builds handler i of a case as this type) *)
Definition kind_type (k : hkind) : string :=
  match k with
  | KSimple => "EventHandler"
  | KPriority => "PriorityEventHandler"
  | KMutable => "MutableEventHandler"
  | KCancel => "CancelableEventHandler"
  end%string.

Fixpoint find_desc (n : string) (ds : list handler_desc) : option handler_desc :=
  match ds with
  | [] => None
  | d :: rest => if String.eqb (hd_type d) n then Some d else find_desc n rest
  end.

Definition desc_of (T : htable) (k : hkind) : option handler_desc := find_desc (kind_type k) (t_handlers T).

(* ---- interpretation of Subscribe ---- *)

Definition less_fn (s : less_shape) (a b : listener) : bool :=
  match s with
  | LessPrioLt => l_prio a <? l_prio b
  | LessPrioLe => l_prio a <=? l_prio b
  end.

(* sort.Sort of (a slice sorted by [lt]) ++ [l]: the trusted modelling of Model/Events.v (insertion sort
   up to 12 elements: the appended element moves left while Less(it, left neighbour)), here for
   whatever Less was recognised; stated left to right like Events.insert_prio *)
Fixpoint insert_by (lt : listener -> listener -> bool) (l : listener) (ls : list listener) : list listener :=
  match ls with
  | [] => [l]
  | x :: rest => if lt l x then l :: ls else x :: insert_by lt l rest
  end.

Definition place (s : option less_shape) (l : listener) (ls : list listener) : list listener :=
  match s with
  | None => ls ++ [l]
  | Some sh => insert_by (less_fn sh) l ls
  end.

(* outer None: the description is outside what this interpreter (and the model's state) can express;
   inner None: Events.subscribe_h's own None (growth table exhausted) *)
Definition interp_subscribe_h (d : sub_desc) (hd : handler) (l : listener) : option (option handler) :=
  let k := h_kind hd in
  let ls := h_ls hd in
  match sd_append d, sd_sort d with
  | AppendInPlace, None =>
      (* Go append: index len of the same backing array when the capacity allows, else a grown copy *)
      if Nat.ltb (length ls) (h_cap hd) then
        Some (Some (mkH k (ls ++ [l]) (h_cap hd) (h_gen hd) (h_old hd)))
      else
        match grow (h_cap hd) with
        | None => Some None
        | Some c' => Some (Some (mkH k (ls ++ [l]) c' (S (h_gen hd)) ((h_gen hd, ls) :: h_old hd)))
        end
  | AppendInPlace, Some _ =>
      (* the sort would permute an array that a running emission may still range over: the model's
         frozen arrays cannot express it (the defect repaired by 5106e78) *)
      None
  | AppendFresh, s =>
      (* [:n:n] leaves no spare capacity: always a new array; the old one keeps its contents *)
      Some (Some (mkH k (place s l ls) (h_cap hd) (S (h_gen hd)) ((h_gen hd, ls) :: h_old hd)))
  end.

Definition interp_subscribe (T : htable) (w : world) (h : nat) (prio : Z) (rs : list reaction)
  : option (res (world * child)) :=
  match nth_error (hs w) h with
  | None => Some (Err BadHandler)
  | Some hd =>
      match desc_of T (h_kind hd) with
      | None => None
      | Some d =>
          let l := mkL (next_id w) prio in
          match interp_subscribe_h (hd_sub d) hd l with
          | None => None
          | Some None => Some (Err CapUnmodelled)
          | Some (Some hd') =>
              Some (Ok (mkW (update_nth h (fun _ => hd') (hs w)) (loggers w)
                            ((next_id w, rs) :: reacts w) (next_id w + 1)
                            (trace w ++ [ISub (next_id w) h prio]),
                        CSub h l))
          end
      end
  end.

(* ---- interpretation of logging.Log / InitLoggers ---- *)

Definition log_supported (d : log_desc) : bool :=
  ld_snapshot_under_rlock d && ld_ranges_snapshot d && ld_one_log_call_each d.
Definition init_supported (d : init_desc) : bool := id_lock_defer_unlock d && id_replaces_list d.

(* the snapshot of the whole list, one call per element, in order *)
Definition interp_log (T : htable) (lgs : list Z) (h : nat) (v : Z) (c : bool) : option (list item) :=
  if log_supported (t_log T) then Some (map (fun lg => ILog lg h v c) lgs) else None.

Definition interp_init (T : htable) (w : world) (lgs : list Z) : option world :=
  if init_supported (t_init T)
  then Some (mkW (hs w) lgs (reacts w) (next_id w) (trace w ++ [IInit lgs]))
  else None.

(* ---- interpretation of Emit ---- *)

(* the listener loop: [stopped] = the loop was left through the cancel branch *)
Fixpoint interp_deliver (d : emit_desc) (E : emitter) (h g : nat) (w : world) (todo i : nat) (v : Z)
  : res (world * bool * Z * list call) :=
  match todo with
  | O => Ok (w, false, v, [])
  | S todo' =>
      match nth_error (hs w) h with
      | None => Err Stuck
      | Some hd =>
          match arr hd g with
          | None => Err Stuck
          | Some a =>
              match nth_error a i with
              | None => Err Stuck
              | Some l =>
                  let w1 := add_trace w [ICall (l_id l) h v] in
                  let (r, rs') := pop (reacts w1) (l_id l) in
                  let w2 := set_reacts w1 rs' in
                  match run_acts E w2 (r_acts r) with
                  | Err e => Err e
                  | Ok (w3, kids) =>
                      (* a listener holding the pointer changes the event Emit goes on with *)
                      let v' := match ed_pass d with ByPointer => apply_x (r_x r) v | ByValue => v end in
                      let cl := Call l v r kids in
                      let stop := match ed_cancel d with Some _ => r_cancel r | None => false end in
                      if stop then Ok (w3, true, v', [cl])
                      else match interp_deliver d E h g w3 todo' (S i) v' with
                           | Err e => Err e
                           | Ok (w4, c, v'', cls) => Ok (w4, c, v'', cl :: cls)
                           end
                  end
              end
          end
      end
  end.

Definition emit_supported (d : emit_desc) : bool := ed_range_at_entry d.

Definition table_supported (T : htable) : bool :=
  log_supported (t_log T) && init_supported (t_init T) &&
  forallb (fun k => match desc_of T k with
                    | Some d => emit_supported (hd_emit d)
                    | None => false
                    end) [KSimple; KPriority; KMutable; KCancel].

(* what the function does after the loop was left: (is something logged, the cancelled flag of the logged
   event, the value returned) *)
Definition after_loop (d : emit_desc) (stopped : bool) : bool * bool * bool :=
  match stopped, ed_cancel d with
  | true, Some cd => (true, match cd_logs cd with LogCancelled => true | LogEvent => false end, cd_return cd)
  | _, _ => (ed_log_after d, false, match ed_return d with Some b => b | None => false end)
  end.

Definition no_desc : emit_desc := mkEmitD false false ByValue None false None.

Fixpoint interp_emit_f (T : htable) (fuel : nat) : emitter :=
  match fuel with
  | O => fun _ _ _ => Err OutOfFuel
  | S f => fun w h v =>
      match nth_error (hs w) h with
      | None => Err BadHandler
      | Some hd =>
          let d := match desc_of T (h_kind hd) with Some d => hd_emit d | None => no_desc end in
          (* range handler.listeners: the slice header (array generation, length) is read once *)
          match interp_deliver d (interp_emit_f T f) h (h_gen hd) (add_trace w [IEmit h v])
                               (length (h_ls hd)) O v with
          | Err e => Err e
          | Ok (w1, stopped, v', cls) =>
              let '(logs, log_c, ret) := after_loop d stopped in
              let lg := if logs then map (fun lg => ILog lg h v' log_c) (loggers w1) else [] in
              Ok (add_trace w1 (lg ++ [IRet h ret v']), ret, v',
                  Frame h (h_kind hd) (h_ls hd) v cls v' ret (loggers w1))
          end
      end
  end.

Definition interp_emit (T : htable) (fuel : nat) (w : world) (h : nat) (v : Z)
  : option (res (world * bool * Z * frame)) :=
  if table_supported T then Some (interp_emit_f T fuel w h v) else None.

(* ---- the expected table: every field names the definition of Model/Events.v it stands for ---- *)
Open Scope string_scope.

Definition sorting_sub : sub_desc :=
  mkSubD ElemWithPriority    (* Events.subscribe: the listener carries its priority, mkL (next_id w) prio *)
         AppendFresh         (* Events.subscribe_h, branch `_`: S (h_gen hd), (h_gen hd, ls) :: h_old hd *)
         (Some LessPrioLt).  (* Events.insert_prio: `l_prio l <? l_prio x` *)

Definition plain_emit (field_call : bool) (p : pass_shape) : emit_desc :=
  mkEmitD true               (* Events.emit: deliver ... (h_gen hd) ... (length (h_ls hd)) O v *)
          field_call         (* no counterpart: listeners are data (Events.listener) *)
          p                  (* Events.deliver: v' := if kind_eqb k KMutable then apply_x (r_x r) v else v *)
          None               (* Events.deliver: `kind_eqb k KCancel && r_cancel r` is false for these kinds *)
          true               (* Events.emit: log_items (loggers w1) h v' c, after deliver *)
          None.              (* Events.emit: IRet h c v' with c = false *)

Definition expected_table : htable :=
  mkHTable
    [ mkHandlerD "EventHandler" [("listeners", "[]Listener[E]")] []
        (mkSubD ElemBare         (* Events.subscribe: mkL (next_id w) prio, the priority only labels the trace *)
                AppendInPlace    (* Events.subscribe_h, branch KSimple: h_cap / grow *)
                None)            (* Events.ins KSimple = ls ++ [l] *)
        (plain_emit false ByValue);
      mkHandlerD "PriorityEventHandler" [("listeners", "priorityListeners[E]")] ["Len"; "Less"; "Swap"]
        sorting_sub (plain_emit true ByValue);
      mkHandlerD "MutableEventHandler" [("listeners", "mutableListeners[E]")] ["Len"; "Less"; "Swap"]
        sorting_sub (plain_emit true ByPointer);
      mkHandlerD "CancelableEventHandler" [("listeners", "cancelableListeners[E]")] ["Len"; "Less"; "Swap"]
        sorting_sub
        (mkEmitD true            (* Events.emit: deliver over (h_gen hd, length (h_ls hd)) read at entry *)
                 true
                 ByValue         (* Events.deliver: kind_eqb KCancel KMutable = false, v' = v *)
                 (Some (mkCancelD LogCancelled   (* Events.emit: log_items ... c with c = true on this path *)
                                  true))         (* Events.deliver: Ok (w3, true, v', [cl]); Events.emit: IRet h c v' *)
                 true            (* Events.emit: log_items (loggers w1) h v' c with c = false *)
                 (Some false)) ] (* Events.deliver: Ok (w, false, v, []) when the loop ends; IRet h false v' *)
    (mkLogD true true true)      (* Events.log_items: map (fun lg => ILog lg h v c) lgs over the list registered THEN *)
    (mkInitD true true)          (* Events.init_loggers: the list is replaced *)
    [("mu", "sync.RWMutex"); ("loggers", "[]Logger")].
