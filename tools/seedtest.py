#!/usr/bin/env python3
"""Confirm a seeded defect and run the property's check against it.

    seedtest.py <seed dir> <PropertyId> [--name NAME]

<seed dir> holds patch.diff, demo.sh, demonstration file(s) and README.md as produced by a
sub-agent.  Steps:
  1. scratch worktree of /repo: apply patch, build, full baseline suite (must pass), demo (must
     fail); revert patch, demo (must pass).  The worktree is removed afterwards.
  2. apply the patch to /repo, run `tools/check.py <Prop>` (quick tier), undo the patch.
  3. copy the seed into /verif/seeded/<name>/ with meta.json (confirmation + detection result).
"""
import json, os, re, shutil, subprocess, sys, tempfile, time

VERIF = os.path.dirname(os.path.dirname(os.path.abspath(__file__)))
# every scratch worktree has its own path, so its packages get their own entries in the Go build cache
# (40 seeds filled 113 GB of /root/.cache/go-build): scratch builds use a cache of their own, emptied when large
SEED_GOCACHE = os.environ.get("SEED_GOCACHE", "/tmp/seed_gocache")
ENV = dict(os.environ, GOFLAGS="-mod=mod", GOPROXY="off", GOSUMDB="off", GOTOOLCHAIN="local", GOCACHE=SEED_GOCACHE)


def trim_cache():
    try:
        out = subprocess.run("du -sm %s" % SEED_GOCACHE, shell=True, stdout=subprocess.PIPE).stdout.decode().split()
        if out and int(out[0]) > 12000:
            shutil.rmtree(SEED_GOCACHE, ignore_errors=True)
    except Exception:
        pass


def sh(cmd, cwd=None, timeout=1800):
    p = subprocess.run(cmd, cwd=cwd, shell=True, stdout=subprocess.PIPE, stderr=subprocess.STDOUT, env=ENV, timeout=timeout)
    return p.returncode, p.stdout.decode("utf-8", "replace")


def demo_copy_cmds(seed, wt):
    """copy every *_test.go / *.go demonstration file to the place its header comment names"""
    copied = []
    for f in sorted(os.listdir(seed)):
        if not f.endswith(".go"):
            continue
        src = open(os.path.join(seed, f)).read()
        m = re.search(r"(?:copy|place|put)[^\n]*?\b((?:pkg|internal|cmd|tests)/[\w/.-]+)", src[:1500], re.I)
        dest = None
        if m:
            dest = m.group(1)
        else:
            sh_src = open(os.path.join(seed, "demo.sh")).read() if os.path.exists(os.path.join(seed, "demo.sh")) else ""
            m2 = re.search(r"((?:pkg|internal|cmd|tests)/[\w/.-]+)", sh_src)
            dest = m2.group(1) if m2 else None
        if dest is None:
            continue
        dest = dest.rstrip(".,;:")
        if dest.endswith(".go"):
            dest = os.path.dirname(dest)
        d = os.path.join(wt, dest)
        os.makedirs(d, exist_ok=True)
        shutil.copy(os.path.join(seed, f), os.path.join(d, f))
        copied.append(os.path.join(dest, f))
    return copied


def main():
    seed, prop = sys.argv[1], sys.argv[2]
    name = os.path.basename(os.path.normpath(seed))
    if "--name" in sys.argv:
        name = sys.argv[sys.argv.index("--name") + 1]
    patch = os.path.join(seed, "patch.diff")
    meta = {"property": prop, "seed": name, "source_dir": seed}
    wt = tempfile.mkdtemp(prefix="seedwt_", dir="/tmp")
    os.rmdir(wt)
    rc, out = sh("git -C /repo worktree add -q --detach %s HEAD" % wt)
    try:
        rc, out = sh("git apply %s" % patch, cwd=wt)
        meta["patch_applies"] = rc == 0
        rc, out = sh("go build ./...", cwd=wt)
        meta["builds"] = rc == 0
        rc, out = sh("go test -mod=mod -vet=off -count=1 ./...", cwd=wt)
        if rc != 0:
            # the unchanged tree has a rare flaky test (tests/testcase/lightcone TestQPQTest, a race in the test
            # stub's step/continue channel protocol): a failure is re-run once before it counts
            meta["suite_first_failure_tail"] = out[-1500:]
            rc, out = sh("go test -mod=mod -vet=off -count=1 ./...", cwd=wt)
        meta["suite_passes_with_patch"] = rc == 0
        copied = demo_copy_cmds(seed, wt)
        meta["demo_files"] = copied
        rc1, out1 = sh("sh %s" % os.path.join(seed, "demo.sh"), cwd=wt)
        meta["demo_fails_with_patch"] = rc1 != 0
        sh("git apply -R %s" % patch, cwd=wt)
        rc2, out2 = sh("sh %s" % os.path.join(seed, "demo.sh"), cwd=wt)
        meta["demo_passes_without_patch"] = rc2 == 0
        meta["demo_output_with_patch_tail"] = out1[-600:]
    finally:
        sh("git -C /repo worktree remove --force %s" % wt)
        shutil.rmtree(wt, ignore_errors=True)
    confirmed = all(meta.get(k) for k in ("patch_applies", "builds", "suite_passes_with_patch",
                                           "demo_fails_with_patch", "demo_passes_without_patch"))
    meta["confirmed"] = confirmed
    dest = os.path.join(VERIF, "seeded", name)
    if "--confirm-only" in sys.argv:
        old = json.load(open(os.path.join(dest, "meta.json")))
        old.update({k: meta[k] for k in meta if k not in ("property", "seed")})
        json.dump(old, open(os.path.join(dest, "meta.json"), "w"), indent=1)
        print(json.dumps({k: old.get(k) for k in ("seed", "property", "confirmed", "detected")}))
        return
    # run the check against the defect
    if "--wt" in sys.argv:
        # parallel-safe mode: the check reads a scratch worktree carrying the patch (VERIF_REPO), /repo is untouched
        wt2 = tempfile.mkdtemp(prefix="seedchk_", dir="/tmp")
        os.rmdir(wt2)
        sh("git -C /repo worktree add -q --detach %s HEAD" % wt2)
        try:
            rc, out = sh("git apply %s" % patch, cwd=wt2)
            t0 = time.time()
            rc, out = sh("VERIF_REPO=%s python3 tools/check.py %s --tier quick" % (wt2, prop), cwd=VERIF, timeout=3600)
            run_desc = "scratch worktree with patch.diff applied; VERIF_REPO=<worktree> python3 tools/check.py %s --tier quick" % prop
        finally:
            sh("git -C /repo worktree remove --force %s" % wt2)
            shutil.rmtree(wt2, ignore_errors=True)
            # the evidence file and the harness module were rewritten for the scratch tree: restore them
            sh("git checkout -- evidence/%s.json harness/go.mod harness/go.sum" % prop, cwd=VERIF)
    else:
        rc0, out0 = sh("git -C /repo status --porcelain")
        if out0.strip():
            print("REFUSING: /repo is not clean"); sys.exit(2)
        try:
            sh("git -C /repo apply %s" % patch)
            t0 = time.time()
            rc, out = sh("python3 tools/check.py %s --tier quick" % prop, cwd=VERIF, timeout=3600)
            run_desc = "git -C /repo apply patch.diff; python3 tools/check.py %s --tier quick; git -C /repo checkout -- ." % prop
        finally:
            sh("git -C /repo checkout -- . && git -C /repo clean -fdq")
    meta["check_exit"] = rc
    meta["check_wall_s"] = round(time.time() - t0, 1)
    vl = [l for l in out.split("\n") if l.startswith("VIOLATION")]
    meta["violation_line"] = vl[0] if vl else None
    meta["check_tail"] = out[-800:]
    meta["detected"] = rc != 0 and bool(vl)
    if vl:
        m = re.search(r"replay=(\S+)", vl[0])
        if m and os.path.exists(m.group(1)):
            r = json.load(open(m.group(1)))
            meta["replay_kind"] = r.get("kind")
            meta["replay_summary"] = (r.get("meaning") or r.get("obligation") or "")[:300]
    dest = os.path.join(VERIF, "seeded", name)
    os.makedirs(dest, exist_ok=True)
    for f in os.listdir(seed):
        if f.endswith((".diff", ".go", ".sh", ".md")) and os.path.abspath(seed) != os.path.abspath(dest):
            shutil.copy(os.path.join(seed, f), os.path.join(dest, f))
    meta["what_ran"] = ["scratch worktree: git apply; go build ./...; go test -mod=mod -vet=off -count=1 ./...; demo.sh with and without patch",
                        run_desc]
    readme = os.path.join(seed, "README.md")
    if os.path.exists(readme):
        meta["needs_to_manifest"] = open(readme).read()[:1200]
    json.dump(meta, open(os.path.join(dest, "meta.json"), "w"), indent=1)
    trim_cache()
    print(json.dumps({k: meta[k] for k in ("seed", "property", "confirmed", "detected", "violation_line", "check_wall_s")}))


if __name__ == "__main__":
    main()
