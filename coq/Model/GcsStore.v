(* Shared infrastructure of the two gcs evaluator models (C12):
     Model/GcsEval.v - model of the implementation pkg/logic/gcs/eval (dual number representation)
     Model/GcsSem.v  - the reference semantics (an integer is never simultaneously a float)
   Everything here is polymorphic in the type [N] of numbers and never looks inside a number:
   values, variable frames (Go: *Env with its varMap of *Obj cells), the heap of map objects
   (Go: *mapval, mutated in place by sort), registered callbacks, the observable trace, the
   state/outcome monad, the stub of the engine the condition builtins read, int64 -> float64.
   No proofs in this file.

   Go panics, errors, running out of fuel and the parts the models do not cover are explicit
   outcomes ([failure]); nothing falls back to a normal-looking default. *)
From Coq Require Import List ZArith Bool String Ascii Floats Uint63.
From SR Require Import Base.CaseLib Model.GcsAst.
Import ListNotations.
Open Scope Z_scope.

(* ---- outcomes ---- *)
(* error categories: the harness maps the text of a Go error to one of these *)
Inductive errcat :=
| EUnknownVar | ENotCallable | EArity | EType | ERedeclare | EBadReturn | ENoReturn
| EDivZero | EEngine | EAction
| EOther (msg : string).       (* only ever produced by the harness: an uncategorised message *)

(* the Go panics the repaired evaluator can still reach on some syntax tree *)
Inductive panickind :=
| PNilBlock        (* evalBlock on a nil *BlockStmt *)
| PTypeAssert.     (* a type assertion on a validated argument (objs[0] to a number, ...) fails *)

Inductive failure :=
| FErr (e : errcat)
| FPanic (p : panickind)
| FFuel                       (* the step budget ran out *)
| FUnsupported                (* a construct the models do not cover: randnorm, sort of more than
                                 20 elements *)
| FDangling.                  (* a model address (of a map object or an array slot) that points
                                 nowhere: the models write Go pointers as indices, and this
                                 outcome has no Go counterpart (a Go pointer is always valid,
                                 sort only swaps slots of the slice it was given) *)

Inductive res (A : Type) := Ok (a : A) | Fail (f : failure).
Arguments Ok {A} a.
Arguments Fail {A} f.

Definition errcat_eqb (a b : errcat) : bool :=
  match a, b with
  | EUnknownVar, EUnknownVar | ENotCallable, ENotCallable | EArity, EArity | EType, EType
  | ERedeclare, ERedeclare | EBadReturn, EBadReturn | ENoReturn, ENoReturn
  | EDivZero, EDivZero | EEngine, EEngine | EAction, EAction => true
  | _, _ => false
  end.

(* ---- actions, builtins ---- *)
Inductive acttype := AInvalid | AAttack | ASkill | AUlt | AUltAttack | AUltSkill | AOther.
Definition acttype_eqb (a b : acttype) : bool :=
  match a, b with
  | AInvalid, AInvalid | AAttack, AAttack | ASkill, ASkill | AUlt, AUlt
  | AUltAttack, AUltAttack | AUltSkill, AUltSkill => true
  | _, _ => false
  end.

(* the condition builtins (conditions.go) *)
Inductive engq :=
| QHasModifier | QModifierCount | QUltReady | QSkillPoints | QEnergy | QMaxEnergy | QHpRatio
| QWeaknessBroken | QHasWeakness | QStance | QMaxStance | QHasShield | QIsShielded
| QSkillReady | QElement | QIsValid | QIsAlive | QIsCharacter | QIsEnemy | QEnemies
| QCharacters | QAdjacentTo.

Inductive bif :=
| BPrint | BType | BRand | BRandnorm | BSort | BFirst | BAny | BLen
| BRegSkill | BRegUlt | BSetDefault | BAction (t : acttype) | BEng (q : engq).

(* obj.go ObjTyp, as far as validateArguments can ask for it *)
Inductive ty := TyNull | TyNum | TyStr | TyFun | TyBif | TyAct | TyMap.
Definition ty_eqb (a b : ty) : bool :=
  match a, b with
  | TyNull, TyNull | TyNum, TyNum | TyStr, TyStr | TyFun, TyFun | TyBif, TyBif
  | TyAct, TyAct | TyMap, TyMap => true
  | _, _ => false
  end.

(* ---- the engine stub: what the condition builtins can see ---- *)
Record tinfo := mkT {
  t_valid : bool; t_char : bool; t_enemy : bool; t_alive : bool;
  t_energy : float; t_maxenergy : float; t_eratio : float; t_hpratio : float;
  t_stance : float; t_maxstance : float;
  t_shielded : bool; t_shields : list string; t_mods : list string;
  t_counts : list (Z * Z); t_weak : list Z;
  t_element : option Z;          (* None: CharacterInfo returns an error *)
  t_skill : option bool;         (* None: CanUseSkill returns an error *)
  t_adj : list Z }.

Record engine := mkEng {
  e_targets : list (Z * tinfo);
  e_sp : Z;
  e_chars : list (Z * string);     (* Characters() with the key of each (initCharNames) *)
  e_enemies : list Z;
  e_names : list (string * Z) }.   (* the enum constants (initEnums) the program mentions *)

Definition default_tinfo : tinfo :=
  mkT false false false false 0 0 0 0 0 0 false [] [] [] [] None None [].

Fixpoint zassoc {A} (k : Z) (l : list (Z * A)) : option A :=
  match l with
  | [] => None
  | (k', v) :: r => if k =? k' then Some v else zassoc k r
  end.

Definition tget (e : engine) (id : Z) : tinfo :=
  match zassoc id (e_targets e) with Some t => t | None => default_tinfo end.

Definition wrap32 (z : Z) : Z := (z + 2 ^ 31) mod 2 ^ 32 - 2 ^ 31.

(* what a stub call was asked (beyond the target id) *)
Inductive extra := XNone | XS (s : string) | XI (z : Z).
Definition extra_eqb (a b : extra) : bool :=
  match a, b with
  | XNone, XNone => true
  | XS s, XS s' => string_eqb s s'
  | XI z, XI z' => z =? z'
  | _, _ => false
  end.

(* the raw answer of a condition builtin, before it becomes a gcs value *)
Inductive rawres := RBool (b : bool) | RInt (z : Z) | RFloat (f : float) | RIds (l : list Z).

Definition ecall := (string * Z * extra)%type.

(* [eng_query q e id n2 s2]: the engine calls made (in order) and the answer; [id] is the first
   argument read as a target id, [n2] a second numeric argument, [s2] a second string argument *)
Definition eng_query (q : engq) (e : engine) (id n2 : Z) (s2 : string) : list ecall * res rawres :=
  let t := tget e id in
  let c (name : string) : ecall := (name, id, XNone) in
  let guard (name : string) (ok : bool) (k : list ecall * res rawres) : list ecall * res rawres :=
      if ok then (c name :: fst k, snd k) else ([c name], Fail (FErr EEngine)) in
  match q with
  | QHasModifier =>
      guard "IsValid"%string (t_valid t)
        ([("HasModifier"%string, id, XS s2)], Ok (RBool (existsb (string_eqb s2) (t_mods t))))
  | QModifierCount =>
      let st := wrap32 n2 in
      guard "IsValid"%string (t_valid t)
        ([("ModifierStatusCount"%string, id, XI st)],
         Ok (RInt (match zassoc st (t_counts t) with Some k => k | None => 0 end)))
  | QUltReady =>
      guard "IsCharacter"%string (t_char t) ([c "EnergyRatio"%string], Ok (RBool (PrimFloat.leb 1 (t_eratio t))))
  | QSkillPoints => ([("SP"%string, 0, XNone)], Ok (RInt (e_sp e)))
  | QEnergy => guard "IsValid"%string (t_valid t) ([c "Energy"%string], Ok (RFloat (t_energy t)))
  | QMaxEnergy => guard "IsValid"%string (t_valid t) ([c "MaxEnergy"%string], Ok (RFloat (t_maxenergy t)))
  | QHpRatio => guard "IsValid"%string (t_valid t) ([c "HPRatio"%string], Ok (RFloat (t_hpratio t)))
  | QWeaknessBroken =>
      guard "IsEnemy"%string (t_enemy t) ([c "Stance"%string], Ok (RBool (PrimFloat.eqb (t_stance t) 0)))
  | QHasWeakness =>
      guard "IsEnemy"%string (t_enemy t)
        ([c "Stats"%string], Ok (RBool (existsb (Z.eqb (wrap32 n2)) (t_weak t))))
  | QStance => guard "IsEnemy"%string (t_enemy t) ([c "Stance"%string], Ok (RFloat (t_stance t)))
  | QMaxStance => guard "IsEnemy"%string (t_enemy t) ([c "MaxStance"%string], Ok (RFloat (t_maxstance t)))
  | QHasShield =>
      guard "IsValid"%string (t_valid t)
        ([("HasShield"%string, id, XS s2)], Ok (RBool (existsb (string_eqb s2) (t_shields t))))
  | QIsShielded => guard "IsValid"%string (t_valid t) ([c "IsShielded"%string], Ok (RBool (t_shielded t)))
  | QSkillReady =>
      ([c "CanUseSkill"%string],
       match t_skill t with Some b => Ok (RBool b) | None => Fail (FErr EEngine) end)
  | QElement =>
      guard "IsCharacter"%string (t_char t)
        ([c "CharacterInfo"%string],
         match t_element t with Some el => Ok (RInt (wrap32 el)) | None => Fail (FErr EEngine) end)
  | QIsValid => ([c "IsValid"%string], Ok (RBool (t_valid t)))
  | QIsAlive => guard "IsValid"%string (t_valid t) ([c "IsAlive"%string], Ok (RBool (t_alive t)))
  | QIsCharacter => ([c "IsCharacter"%string], Ok (RBool (t_char t)))
  | QIsEnemy => ([c "IsEnemy"%string], Ok (RBool (t_enemy t)))
  | QEnemies => ([("Enemies"%string, 0, XNone)], Ok (RIds (e_enemies e)))
  | QCharacters => ([("Characters"%string, 0, XNone)], Ok (RIds (map fst (e_chars e))))
  | QAdjacentTo => guard "IsValid"%string (t_valid t) ([c "AdjacentTo"%string], Ok (RIds (t_adj t)))
  end.

(* the argument types validateArguments is given for each condition builtin *)
Inductive qsig := Sig0 | SigN | SigNN | SigNS.
Definition engq_sig (q : engq) : qsig :=
  match q with
  | QSkillPoints | QEnemies | QCharacters => Sig0
  | QHasModifier | QHasShield => SigNS
  | QModifierCount | QHasWeakness => SigNN
  | _ => SigN
  end.
Definition sig_tys (s : qsig) : list ty :=
  match s with Sig0 => [] | SigN => [TyNum] | SigNN => [TyNum; TyNum] | SigNS => [TyNum; TyStr] end.

(* ---- int64 -> float64 (round to nearest even, as Go's conversion) ---- *)
Definition Z2f (z : Z) : float :=
  if z =? - 2 ^ 63 then (- (of_uint63 (Uint63.of_Z (2 ^ 62)) * 2))%float
  else if z <? 0 then (- of_uint63 (Uint63.of_Z (- z)))%float
  else of_uint63 (Uint63.of_Z z).

Definition two63f : float := (of_uint63 (Uint63.of_Z (2 ^ 62)) * 2)%float.

(* math/rand: Float64 = float64(Int63()) / 2^63, drawn again when that rounds to 1; the source
   is the scripted list, 0 once it is exhausted *)
Fixpoint draw_float (ds : list Z) : float * list Z :=
  match ds with
  | [] => (0%float, [])
  | d :: r =>
      let f := (Z2f (Z.land d (2 ^ 63 - 1)) / two63f)%float in
      if PrimFloat.eqb f 1 then draw_float r else (f, r)
  end.

(* strings.Trim with the cutset of one double-quote character *)
Definition is_quote (a : ascii) : bool := ascii_code a =? 34.
Fixpoint trim_left (s : string) : string :=
  match s with
  | String a r => if is_quote a then trim_left r else s
  | EmptyString => EmptyString
  end.
Fixpoint str_rev_acc (s acc : string) : string :=
  match s with EmptyString => acc | String a r => str_rev_acc r (String a acc) end.
Definition str_rev (s : string) : string := str_rev_acc s EmptyString.
Definition trim_quotes (s : string) : string := str_rev (trim_left (str_rev (trim_left s))).

Fixpoint list_set {A} (l : list A) (i : nat) (x : A) : list A :=
  match l, i with
  | [], _ => []
  | _ :: r, O => x :: r
  | y :: r, S i' => y :: list_set r i' x
  end.

(* ---------------------------------------------------------------------------------------- *)
Section Store.
Variable N : Type.

Inductive value :=
| VNum (n : N)
| VStr (s : string)
| VNull
| VFun (args : list string) (body : block)     (* funcval: no captured environment *)
| VBif (b : bif)
| VMap (a : nat)                               (* *mapval: an address in the map heap *)
| VAct (t : acttype) (ev : Z).                 (* actionval (its Target field is not observable) *)

(* a name is bound to a cell of its own, or (sort callback parameters) to a slot of an array *)
Inductive bind := BVal (v : value) | BSlot (m : nat) (i : nat).
Definition frame := list (string * bind).
Record mapobj := mkMap { m_arr : list value; m_flds : list (string * value) }.
Record cbnode := mkCb { cb_target : Z; cb_env : list nat; cb_body : block }.

(* exported (deep) values, as print shows them *)
Inductive pval :=
| PNum (n : N) | PStr (s : string) | PNull | PFun | PBif | PAct (t : acttype) (ev : Z)
| PMap (arr : list pval) (flds : list (string * pval))
| PBad.

(* the observable trace, newest first *)
Inductive gitem :=
| GPrint (l : list pval)
| GEng (c : ecall)
| GInit (r : option failure)
| GCall (r : res (list (acttype * Z * Z))).

Record state := mkSt {
  st_frames : list frame;            (* frame id = index; id 0 is the global frame *)
  st_maps : list mapobj;
  st_trace : list gitem;
  st_skill : list (Z * cbnode);      (* Eval.targetNode *)
  st_ult : list cbnode;              (* Eval.ultNodes, registration order *)
  st_defaults : list (Z * (acttype * Z));
  st_draws : list Z }.

Definition M (A : Type) := state -> res A * state.
Definition ret {A} (a : A) : M A := fun s => (Ok a, s).
Definition fail {A} (f : failure) : M A := fun s => (Fail f, s).
Definition err {A} (e : errcat) : M A := fail (FErr e).
Definition bind_ {A B} (m : M A) (k : A -> M B) : M B :=
  fun s => match m s with
           | (Ok a, s') => k a s'
           | (Fail f, s') => (Fail f, s')
           end.

(* ---- frames ---- *)
Fixpoint frame_get (fr : frame) (k : string) : option bind :=
  match fr with
  | [] => None
  | (k', b) :: r => if string_eqb k k' then Some b else frame_get r k
  end.
Fixpoint frame_put (fr : frame) (k : string) (b : bind) : frame :=
  match fr with
  | [] => [(k, b)]
  | (k', b') :: r => if string_eqb k k' then (k, b) :: r else (k', b') :: frame_put r k b
  end.

(* Env.v: the innermost frame of the chain that binds the name *)
Fixpoint lookup (frames : list frame) (env : list nat) (k : string) : option (nat * bind) :=
  match env with
  | [] => None
  | f :: r => match frame_get (nth f frames []) k with
              | Some b => Some (f, b)
              | None => lookup frames r k
              end
  end.

Definition read_bind (s : state) (b : bind) : res value :=
  match b with
  | BVal v => Ok v
  | BSlot m i => match nth_error (st_maps s) m with
                 | Some mo => match nth_error (m_arr mo) i with
                              | Some v => Ok v
                              | None => Fail FDangling
                              end
                 | None => Fail FDangling
                 end
  end.

Definition upd_frames (s : state) (fs : list frame) : state :=
  mkSt fs (st_maps s) (st_trace s) (st_skill s) (st_ult s) (st_defaults s) (st_draws s).
Definition upd_maps (s : state) (ms : list mapobj) : state :=
  mkSt (st_frames s) ms (st_trace s) (st_skill s) (st_ult s) (st_defaults s) (st_draws s).
Definition upd_trace (s : state) (tr : list gitem) : state :=
  mkSt (st_frames s) (st_maps s) tr (st_skill s) (st_ult s) (st_defaults s) (st_draws s).

(* evalIdent *)
Definition get_var (env : list nat) (k : string) : M value :=
  fun s => match lookup (st_frames s) env k with
           | Some (_, b) => (read_bind s b, s)
           | None => (Fail (FErr EUnknownVar), s)
           end.

(* evalAssignStmt: *n = res through the pointer Env.v returned *)
Definition assign_var (env : list nat) (k : string) (v : value) : M unit :=
  fun s => match lookup (st_frames s) env k with
           | Some (f, BVal _) =>
               (Ok tt, upd_frames s (list_set (st_frames s) f (frame_put (nth f (st_frames s) []) k (BVal v))))
           | Some (_, BSlot m i) =>
               match nth_error (st_maps s) m with
               | Some mo => (Ok tt, upd_maps s (list_set (st_maps s) m (mkMap (list_set (m_arr mo) i v) (m_flds mo))))
               | None => (Fail FDangling, s)
               end
           | None => (Fail (FErr EUnknownVar), s)
           end.

(* NewEnv(parent) *)
Definition alloc_frame (env : list nat) : M (list nat) :=
  fun s => (Ok (List.length (st_frames s) :: env), upd_frames s (st_frames s ++ [[]])).

(* varMap[k] = &cell in the frame with the given id *)
Definition set_local (f : nat) (k : string) (b : bind) : M unit :=
  fun s => (Ok tt, upd_frames s (list_set (st_frames s) f (frame_put (nth f (st_frames s) []) k b))).

(* evalLet / evalFnStmt: no redeclaration in the innermost frame *)
Definition declare (env : list nat) (k : string) (v : value) : M unit :=
  match env with
  | [] => fail FDangling
  | f :: _ =>
      fun s => match frame_get (nth f (st_frames s) []) k with
               | Some _ => (Fail (FErr ERedeclare), s)
               | None => set_local f k (BVal v) s
               end
  end.

(* ---- map heap ---- *)
Definition alloc_map (arr : list value) (flds : list (string * value)) : M nat :=
  fun s => (Ok (List.length (st_maps s)), upd_maps s (st_maps s ++ [mkMap arr flds])).
Definition get_arr (a : nat) : M (list value) :=
  fun s => match nth_error (st_maps s) a with
           | Some mo => (Ok (m_arr mo), s)
           | None => (Fail FDangling, s)
           end.
Definition swap_arr (a : nat) (i j : nat) : M unit :=
  fun s => match nth_error (st_maps s) a with
           | Some mo =>
               match nth_error (m_arr mo) i, nth_error (m_arr mo) j with
               | Some x, Some y =>
                   (Ok tt, upd_maps s (list_set (st_maps s) a
                                         (mkMap (list_set (list_set (m_arr mo) i y) j x) (m_flds mo))))
               | _, _ => (Fail FDangling, s)
               end
           | None => (Fail FDangling, s)
           end.

(* ---- trace ---- *)
Definition emit (it : gitem) : M unit := fun s => (Ok tt, upd_trace s (it :: st_trace s)).
Definition emit_calls (cs : list ecall) : M unit :=
  fun s => (Ok tt, upd_trace s (rev (map GEng cs) ++ st_trace s)).

Fixpoint export (fuel : nat) (maps : list mapobj) (v : value) : pval :=
  match v with
  | VNum n => PNum n
  | VStr s => PStr s
  | VNull => PNull
  | VFun _ _ => PFun
  | VBif _ => PBif
  | VAct t e => PAct t e
  | VMap a =>
      match fuel with
      | O => PBad
      | S fuel' =>
          match nth_error maps a with
          | Some mo => PMap (map (export fuel' maps) (m_arr mo))
                            (map (fun kv => (fst kv, export fuel' maps (snd kv))) (m_flds mo))
          | None => PBad
          end
      end
  end.

(* print: the values as they are when the line is written *)
Definition emit_print (vs : list value) : M unit :=
  fun s => (Ok tt, upd_trace s (GPrint (map (export (S (List.length (st_maps s))) (st_maps s)) vs) :: st_trace s)).

(* rand() *)
Definition draw : M float :=
  fun s => let (f, r) := draw_float (st_draws s) in
           (Ok f, mkSt (st_frames s) (st_maps s) (st_trace s) (st_skill s) (st_ult s) (st_defaults s) r).

(* ---- callbacks ---- *)
Fixpoint zassoc_put {A} (k : Z) (v : A) (l : list (Z * A)) : list (Z * A) :=
  match l with
  | [] => [(k, v)]
  | (k', v') :: r => if k =? k' then (k, v) :: r else (k', v') :: zassoc_put k v r
  end.
Definition reg_skill (c : cbnode) : M unit :=
  fun s => (Ok tt, mkSt (st_frames s) (st_maps s) (st_trace s) (zassoc_put (cb_target c) c (st_skill s))
                        (st_ult s) (st_defaults s) (st_draws s)).
Definition reg_ult (c : cbnode) : M unit :=
  fun s => (Ok tt, mkSt (st_frames s) (st_maps s) (st_trace s) (st_skill s) (st_ult s ++ [c])
                        (st_defaults s) (st_draws s)).
Definition set_default (t : Z) (a : acttype * Z) : M unit :=
  fun s => (Ok tt, mkSt (st_frames s) (st_maps s) (st_trace s) (st_skill s) (st_ult s)
                        (zassoc_put t a (st_defaults s)) (st_draws s)).

(* ---- small pure helpers on values ---- *)
Definition ty_of (v : value) : ty :=
  match v with
  | VNum _ => TyNum | VStr _ => TyStr | VNull => TyNull | VFun _ _ => TyFun
  | VBif _ => TyBif | VMap _ => TyMap | VAct _ _ => TyAct
  end.
Definition ty_name (t : ty) : string :=
  match t with
  | TyNull => "null" | TyNum => "number" | TyStr => "string" | TyMap => "map"
  | TyAct => "action" | TyFun => "function" | TyBif => "built-in function"
  end.

End Store.

Arguments VNum {N} n.
Arguments VStr {N} s.
Arguments VNull {N}.
Arguments VFun {N} args body.
Arguments VBif {N} b.
Arguments VMap {N} a.
Arguments VAct {N} t ev.
Arguments BVal {N} v.
Arguments BSlot {N} m i.
Arguments mkMap {N} m_arr m_flds.
Arguments m_arr {N} m.
Arguments m_flds {N} m.
Arguments PNum {N} n.
Arguments PStr {N} s.
Arguments PNull {N}.
Arguments PFun {N}.
Arguments PBif {N}.
Arguments PAct {N} t ev.
Arguments PMap {N} arr flds.
Arguments PBad {N}.
Arguments GPrint {N} l.
Arguments GEng {N} c.
Arguments GInit {N} r.
Arguments GCall {N} r.
Arguments mkSt {N} st_frames st_maps st_trace st_skill st_ult st_defaults st_draws.
Arguments st_frames {N} s.
Arguments st_maps {N} s.
Arguments st_trace {N} s.
Arguments st_skill {N} s.
Arguments st_ult {N} s.
Arguments st_defaults {N} s.
Arguments st_draws {N} s.
Arguments ret {N A} a.
Arguments fail {N A} f.
Arguments err {N A} e.
Arguments bind_ {N A B} m k.
Arguments frame_get {N} fr k.
Arguments frame_put {N} fr k b.
Arguments lookup {N} frames env k.
Arguments read_bind {N} s b.
Arguments upd_frames {N} s fs.
Arguments upd_maps {N} s ms.
Arguments upd_trace {N} s tr.
Arguments get_var {N} env k.
Arguments assign_var {N} env k v.
Arguments alloc_frame {N} env.
Arguments set_local {N} f k b.
Arguments declare {N} env k v.
Arguments alloc_map {N} arr flds.
Arguments get_arr {N} a.
Arguments swap_arr {N} a i j.
Arguments emit {N} it.
Arguments emit_calls {N} cs.
Arguments export {N} fuel maps v.
Arguments emit_print {N} vs.
Arguments draw {N}.
Arguments reg_skill {N} c.
Arguments reg_ult {N} c.
Arguments set_default {N} t a.
Arguments ty_of {N} v.

Notation "x <- m ;; k" := (bind_ m (fun x => k)) (at level 61, m at next level, right associativity).
Notation "m ;;; k" := (bind_ m (fun _ => k)) (at level 61, right associativity).

(* the names the evaluator installs in the global frame before the program runs *)
Definition engq_names : list (string * engq) :=
  [("has_modifier", QHasModifier); ("modifier_count", QModifierCount); ("ult_ready", QUltReady);
   ("skill_points", QSkillPoints); ("energy", QEnergy); ("max_energy", QMaxEnergy);
   ("hp_ratio", QHpRatio); ("weakness_broken", QWeaknessBroken); ("has_weakness", QHasWeakness);
   ("stance", QStance); ("max_stance", QMaxStance); ("has_shield", QHasShield);
   ("is_shielded", QIsShielded); ("skill_ready", QSkillReady); ("element", QElement);
   ("is_valid", QIsValid); ("is_alive", QIsAlive); ("is_character", QIsCharacter);
   ("is_enemy", QIsEnemy); ("enemies", QEnemies); ("characters", QCharacters);
   ("adjacent_to", QAdjacentTo)]%string.

Definition bif_names : list (string * bif) :=
  [("print", BPrint); ("type", BType); ("rand", BRand); ("randnorm", BRandnorm);
   ("sort", BSort); ("first", BFirst); ("any", BAny); ("len", BLen);
   ("register_skill_cb", BRegSkill); ("register_ult_cb", BRegUlt); ("set_default_action", BSetDefault);
   ("attack", BAction AAttack); ("skill", BAction ASkill); ("ult", BAction AUlt);
   ("ult_attack", BAction AUltAttack); ("ult_skill", BAction AUltSkill)]%string
  ++ map (fun p => (fst p, BEng (snd p))) engq_names.

Definition evaluator_consts : list (string * Z) :=
  [("First", 100); ("LowestHP", 101); ("LowestHPRatio", 102)]%string.

(* the integer constants of the global frame: target evaluators, enum names, then the
   character names up to the first character without information (initCharNames stops there) *)
Fixpoint char_names (e : engine) (cs : list (Z * string)) : list (string * Z) :=
  match cs with
  | [] => []
  | (id, name) :: r =>
      match t_element (tget e id) with
      | Some _ => (name, id) :: char_names e r
      | None => []
      end
  end.
Fixpoint char_info_calls (e : engine) (cs : list (Z * string)) : list ecall :=
  match cs with
  | [] => []
  | (id, _) :: r =>
      ("CharacterInfo"%string, id, XNone) ::
      match t_element (tget e id) with
      | Some _ => char_info_calls e r
      | None => []
      end
  end.

Definition global_frame {N} (of_int : Z -> N) (e : engine) : frame N :=
  let consts := evaluator_consts ++ e_names e ++ char_names e (e_chars e) in
  fold_left (fun fr p => frame_put fr (fst p) (BVal (VNum (of_int (snd p)))))
            consts
            (map (fun p => (fst p, BVal (VBif (snd p)))) bif_names).

Definition init_calls (e : engine) : list ecall :=
  ("Characters"%string, 0, XNone) :: char_info_calls e (e_chars e).

Definition init_state {N} (of_int : Z -> N) (e : engine) (draws : list Z) : state N :=
  mkSt [global_frame of_int e] [] (rev (map GEng (init_calls e))) [] [] [] draws.

(* callback invocations made after Init *)
Inductive cbcall := CNext (t : Z) | CDefault (t : Z) | CUlt.
