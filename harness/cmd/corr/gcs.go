package main

// Correspondence components for the gcs lexer/parser (properties C13 and C14).
//
//	gcstotal  (C13)  any byte string: outcome, token stream, goroutines left, time, tokens pulled
//	gcstree   (C14)  grammar programs with their expected tree, layouts, single-token deletions
//
// Both share one runner.  The real parse.New(src).Parse() and parse.LexAll(src) never run in
// this process: a panic in the lexing goroutine cannot be recovered and kills the process, so
// the runner keeps a SACRIFICIAL CHILD (this same binary started as `corr gcs-sacrifice`),
// feeds it one source at a time and restarts it when it dies.
//
// input term :  (option block, [ (is_layout, hex text) ... ])     source = concatenation
// output term:  Obs outcome (option [LT typ pos val line ...]) leaked_goroutines nanoseconds
//                   tokens_pulled cursor

import (
	"bufio"
	"bytes"
	"encoding/hex"
	"encoding/json"
	"fmt"
	"io"
	"os"
	"os/exec"
	"runtime"
	"strings"
	"sync"
	"time"

	"github.com/simimpact/srsim/pkg/logic/gcs/ast"
	"github.com/simimpact/srsim/pkg/logic/gcs/parse"

	"verif/harness/term"
)

func init() {
	if len(os.Args) >= 2 && os.Args[1] == "gcs-sacrifice" {
		sacrificeMain()
		os.Exit(0)
	}
	register("gcstotal", component{gen: genTotal, run: runGcs, kinds: kindsGcs})
	register("gcstree", component{gen: genTree, run: runGcs, kinds: kindsGcs})
}

// ---------------------------------------------------------------------------------------
// the child: one line of hex per source on stdin; two lines of JSON per source on stdout
// ---------------------------------------------------------------------------------------

type parseReport struct {
	Ok     bool   `json:"ok"`
	Tree   term.T `json:"tree,omitempty"`
	Leak   int    `json:"leak"`
	Ns     int64  `json:"ns"`
	Pulled int    `json:"pulled"`
	Cursor int    `json:"cursor"`
}

func ltokTerm(t ast.Token) term.T {
	val := t.Val
	if t.Typ == ast.ItemError {
		val = "" // the message text is not modelled
	}
	return term.C("LT", tokTypeTerm(t.Typ), term.I(int64(t.Pos)), gcsStr(val), term.I(int64(t.Line)))
}

func sacrificeMain() {
	in := bufio.NewReaderSize(os.Stdin, 1<<20)
	out := bufio.NewWriterSize(os.Stdout, 1<<20)
	for {
		line, err := in.ReadString('\n')
		if err != nil {
			return
		}
		src, err := hex.DecodeString(strings.TrimSpace(line))
		if err != nil {
			panic(err)
		}
		s := string(src)

		before := runtime.NumGoroutine()
		t0 := time.Now()
		p := parse.New(s)
		res, perr := p.Parse()
		ns := time.Since(t0).Nanoseconds()
		// at the moment Parse returns the lexing goroutine must have closed its channel (Parse drains it): a
		// lexer that is still working then is background work left running, however soon it ends by itself
		lexerDone := p.LexerDone()
		rep := parseReport{Ok: perr == nil, Ns: ns, Pulled: p.TokensPulled(), Cursor: p.Cursor()}
		// goroutines still alive after a short settle
		after := runtime.NumGoroutine()
		// (only waits while the count still differs; generous so that a loaded machine does not turn a
		// slow goroutine exit into a reported leak)
		for i := 0; i < 600 && after != before; i++ {
			time.Sleep(5 * time.Millisecond)
			after = runtime.NumGoroutine()
		}
		rep.Leak = after - before
		if rep.Leak < 0 {
			// fewer goroutines than before the call: a goroutine of the runtime or of an EARLIER input ended
			// meanwhile - nothing this input left behind
			rep.Leak = 0
		}
		if !lexerDone {
			rep.Leak += 1000 // reported as 1000 goroutines "left": the model predicts 0
		}
		if perr == nil {
			rep.Tree = blockToTerm(res.Program)
		}
		b, err := json.Marshal(rep)
		if err != nil {
			panic(err)
		}
		out.WriteString("P ")
		out.Write(b)
		out.WriteString("\n")
		out.Flush()

		toks := parse.LexAll(s)
		tt := make([]term.T, 0, len(toks))
		for _, t := range toks {
			tt = append(tt, ltokTerm(t))
		}
		b, err = json.Marshal(term.L(tt...))
		if err != nil {
			panic(err)
		}
		out.WriteString("T ")
		out.Write(b)
		out.WriteString("\n")
		out.Flush()
	}
}

// ---------------------------------------------------------------------------------------
// the parent side
// ---------------------------------------------------------------------------------------

type sacrifice struct {
	cmd    *exec.Cmd
	stdin  io.WriteCloser
	lines  chan string // lines of the child's stdout; closed at EOF
	stderr *bytes.Buffer
}

var (
	childMu sync.Mutex
	child   *sacrifice
	// how often a child had to be replaced (died or hung)
	childRestarts int
)

func startChild() *sacrifice {
	exe, err := os.Executable()
	if err != nil {
		panic(err)
	}
	cmd := exec.Command(exe, "gcs-sacrifice")
	cmd.Env = append(os.Environ(), "GOTRACEBACK=single")
	stdin, err := cmd.StdinPipe()
	if err != nil {
		panic(err)
	}
	stdout, err := cmd.StdoutPipe()
	if err != nil {
		panic(err)
	}
	s := &sacrifice{cmd: cmd, stdin: stdin, lines: make(chan string, 4), stderr: &bytes.Buffer{}}
	cmd.Stderr = s.stderr
	if err := cmd.Start(); err != nil {
		panic(err)
	}
	go func() {
		r := bufio.NewReaderSize(stdout, 1<<20)
		for {
			line, err := r.ReadString('\n')
			if line != "" && err == nil {
				s.lines <- line
			}
			if err != nil {
				close(s.lines)
				return
			}
		}
	}()
	return s
}

func (s *sacrifice) kill() {
	_ = s.stdin.Close()
	_ = s.cmd.Process.Kill()
	_ = s.cmd.Wait()
}

// readLine waits for one line; ok=false when the child died, hung=true on timeout.
func (s *sacrifice) readLine(d time.Duration) (line string, ok, hung bool) {
	select {
	case l, open := <-s.lines:
		if !open {
			return "", false, false
		}
		return l, true, false
	case <-time.After(d):
		return "", false, true
	}
}

const childTimeout = 20 * time.Second

// askChild runs one source in the sacrificial child.
// phase: 2 = both reports received, 1 = Parse reported then the child died in LexAll,
// 0 = the child died (or hung) inside Parse.
func askChild(src []byte) (rep *parseReport, toks term.T, phase int, hung bool) {
	childMu.Lock()
	defer childMu.Unlock()
	if child == nil {
		child = startChild()
	}
	c := child
	fail := func() {
		c.kill()
		child = nil
		childRestarts++
	}
	if _, err := io.WriteString(c.stdin, hex.EncodeToString(src)+"\n"); err != nil {
		fail()
		return nil, nil, 0, false
	}
	l1, ok, h := c.readLine(childTimeout)
	if !ok {
		fail()
		return nil, nil, 0, h
	}
	if !strings.HasPrefix(l1, "P ") {
		panic("gcs: unexpected line from the child: " + l1)
	}
	rep = &parseReport{}
	v, err := term.Decode([]byte(l1[2:]))
	if err != nil {
		panic(err)
	}
	m := v.(map[string]any)
	rep.Ok = m["ok"].(bool)
	rep.Tree = m["tree"]
	rep.Leak = int(term.Int(m["leak"]))
	rep.Ns = term.Int(m["ns"])
	rep.Pulled = int(term.Int(m["pulled"]))
	rep.Cursor = int(term.Int(m["cursor"]))
	l2, ok, h := c.readLine(childTimeout)
	if !ok {
		fail()
		return rep, nil, 1, h
	}
	if !strings.HasPrefix(l2, "T ") {
		panic("gcs: unexpected line from the child: " + l2)
	}
	toks, err = term.Decode([]byte(l2[2:]))
	if err != nil {
		panic(err)
	}
	return rep, toks, 2, false
}

// sourceOf concatenates the chunks of an input term.
func sourceOf(in term.T) []byte {
	items := term.TupleItems(in)
	var src []byte
	for _, c := range term.List(items[1]) {
		ci := term.TupleItems(c)
		b, err := hex.DecodeString(term.Str(ci[1]))
		if err != nil {
			panic(err)
		}
		src = append(src, b...)
	}
	return src
}

func runGcs(in term.T) term.T {
	src := sourceOf(in)
	rep, toks, phase, hung := askChild(src)
	outcome := term.C("IDied")
	if hung {
		outcome = term.C("IHung")
	}
	tokT := term.None()
	leak, ns, pulled, cursor := int64(0), int64(0), int64(-2), int64(-2)
	if rep != nil {
		leak, ns, pulled, cursor = int64(rep.Leak), rep.Ns, int64(rep.Pulled), int64(rep.Cursor)
		if phase == 2 {
			if rep.Ok {
				outcome = term.C("IProgram", rep.Tree)
			} else {
				outcome = term.C("IError")
			}
			tokT = term.Some(toks)
		}
		// phase 1: Parse returned but the same source kills the process in LexAll: IDied
	}
	return term.C("Obs", outcome, tokT, term.I(leak), term.I(ns), term.I(pulled), term.I(cursor))
}

func kindsGcs(in term.T) map[string]int {
	k := map[string]int{}
	items := term.TupleItems(in)
	if name, _ := term.Ctor(items[0]); name == "Some" {
		k["with_expected_tree"]++
	}
	n := 0
	prevText := false
	var last []byte
	for _, c := range term.List(items[1]) {
		ci := term.TupleItems(c)
		n += len(term.Str(ci[1])) / 2
		b, _ := hex.DecodeString(term.Str(ci[1]))
		if len(b) > 0 {
			last = b
		}
		if term.Bool(ci[0]) {
			k["layout_chunk"]++
			if bytes.Contains(b, []byte("#")) {
				k["layout_hash_comment"]++
			}
			if bytes.Contains(b, []byte("//")) {
				k["layout_slash_comment"]++
			}
			if bytes.Contains(b, []byte("\r\n")) {
				k["layout_crlf"]++
			}
			if bytes.Contains(b, []byte("\t")) {
				k["layout_tab"]++
			}
			if len(b) > 0 && b[0] != ' ' && b[0] != '\n' && b[0] != '\t' && b[0] != '\r' {
				k["layout_comment_glued_to_token"]++
			}
			prevText = false
		} else {
			k["text_chunk"]++
			if prevText {
				k["tokens_glued"]++
			}
			prevText = true
		}
	}
	if len(last) > 0 && last[len(last)-1] != '\n' {
		k["no_trailing_newline"]++
	}
	switch {
	case n == 0:
		k["len_0"]++
	case n < 16:
		k["len_1_15"]++
	case n < 256:
		k["len_16_255"]++
	case n < 4096:
		k["len_256_4095"]++
	default:
		k["len_4096_up"]++
	}
	return k
}

// ---- helpers shared by the generators (gcsgen.go) ----

func chunk(layout bool, s string) term.T {
	return term.Tup(term.B(layout), term.S(hex.EncodeToString([]byte(s))))
}

func mkInput(expected term.T, chunks []term.T) term.T {
	if expected == nil {
		expected = term.None()
	}
	return term.Tup(expected, term.L(chunks...))
}

var _ = fmt.Sprint
