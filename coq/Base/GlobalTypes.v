(* Row types of the table of package-level state that harness/cmd/go2coq (generator Globals)
   writes into Gen/Globals.v (properties C15, C20), and small string helpers. *)
From Coq Require Import List String Bool.
Import ListNotations.

(* type class of a package-level variable *)
Inductive vclass := CMap | CSlice | CArray | CPointer | CChan | CFunc | CInterface | CStruct
                  | CSync | CScalar | CUnknown.

Record gvar := mkGVar {
  gv_pkg : string;          (* package directory relative to the repository root *)
  gv_name : string;
  gv_file : string;
  gv_class : vclass }.

(* one write to (or hand-out of) a package-level variable *)
Record gwrite := mkGWrite {
  gw_pkg : string;          (* package of the VARIABLE *)
  gw_var : string;
  gw_kind : string;         (* assign | opassign | incdec | append-assign | index-assign | field-assign |
                               deref-assign | delete | copy | clear | method-<M> | addr | alias | ... *)
  gw_fn : string;           (* enclosing function (a literal is <encloser>$n) *)
  gw_file : string;
  gw_init : bool;           (* init-time code: func init() body or a package-level initialiser *)
  gw_reach : bool }.        (* enclosing function reachable from the run entry points *)

(* one call of a catalog Register* function *)
Record regcall := mkReg {
  rc_callee : string;
  rc_pkg : string;
  rc_fn : string;
  rc_file : string;
  rc_key : string;          (* constant key argument, "" when not a constant *)
  rc_init : bool;
  rc_reach : bool }.

Definition str_eqb (a b : string) : bool := if string_dec a b then true else false.

Lemma str_eqb_eq a b : str_eqb a b = true <-> a = b.
Proof. unfold str_eqb. destruct (string_dec a b); split; congruence. Qed.

Fixpoint str_prefix (p s : string) : bool :=
  match p, s with
  | EmptyString, _ => true
  | String a p', String b s' => if Ascii.ascii_dec a b then str_prefix p' s' else false
  | String _ _, EmptyString => false
  end.

Definition str_in (x : string) (l : list string) : bool := existsb (str_eqb x) l.
