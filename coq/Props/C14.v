(* C14 - gcs source is parsed into the tree the grammar prescribes.
   Only statements, [exact] and [Print Assumptions] live here.

   Proved (all about the executable models Model/GcsLex.v and Model/GcsParse.v, which are tied to
   pkg/logic/gcs/parse by exact correspondence on every check run):

   1. Completeness on canonical token sequences, for the WHOLE language
      (C14_parse_unparse_full): every expression form - literals, identifiers, unary operators,
      the thirteen binary operators at their six precedence levels (left association, parentheses
      only where precedence requires), calls, map literals (array elements, then fields in key
      order) and function literals - and every statement form - blocks, let, assignment, return,
      break/continue/fallthrough, if/else chains, while, for with optional init/condition/post,
      switch with optional subject, cases and default, function declarations - is parsed back
      into exactly its tree, end to end through the lazy producer-driven Parse.
   2. Layout independence (C14_layout_independent_lexing,
      C14_comments_and_whitespace_never_change_the_tree): for every choice of separators drawn
      from spaces, tabs, CR, LF, '#' comments and '//' comments before, between and after the
      tokens - with nothing required but that the byte after a token does not extend or spoil
      it, which one white-space character always achieves (C14_one_space_always_suffices) - the
      lexer returns the same token stream and Parse the same tree.
   3. The parser accepts EXACTLY the grammar (C14_parser_accepts_exactly_the_grammar): the grammar is
      the inductive relation [DP] of Proofs/GcsSound.v (redundant parentheses allowed).  Soundness
      (C14_parser_sound): whatever Parse accepts is a derivation of the tree it returns.
      Completeness (C14_parser_complete): every sentence is accepted with the tree of its
      derivation.  The grammar is unambiguous (C14_grammar_unambiguous).  Hence a source is rejected
      with an error iff it is outside the grammar (C14_rejected_iff_outside_the_grammar); made
      concrete: a deleted or stray bracket at ANY position of an accepted program, any layout of a
      well-formed program with a bracket left out, a source whose last token is neither ';' nor
      '}', and a `let` without its identifier or '=' are rejected.

   Found on the way and repaired in the Go code: the parser accepted a second `default` in a
   switch and a repeated field name in a map literal and kept only the last one.  Model and grammar
   follow the repaired code: both are errors (C14_switch_has_one_default,
   C14_map_fields_are_distinct, C14_second_default_and_repeated_field_are_rejected).

   Partial (see tools/props.d/C14.py): [DP] is a hand-written grammar - it is tied to the canonical
   side ([unparse_*], C14_well_formed_programs_are_sentences) and to the parser by the theorems
   above, and to the real parser through the models' correspondence; nothing is proved about the
   Go code itself.  Deleting a ';' is rejected exactly when the result leaves the language, as it
   must be: `a ; - b ;` without its first ';' is a valid program.  The text of error messages and
   token positions are not part of the statements. *)
From Coq Require Import List ZArith.
From SR Require Import Model.GcsAst Model.GcsLex Model.GcsParse Model.GcsSpec
  Proofs.GcsRoundTrip Proofs.GcsBridge Proofs.GcsStmtRoundTrip Proofs.GcsC14Proofs
  Proofs.GcsMapFn Proofs.GcsLayout Proofs.GcsLayoutParse Proofs.GcsSound Proofs.GcsComplete Proofs.GcsReject.

(* ---- 1. completeness on canonical token sequences ---- *)

(* expressions: precedence climbing, left association, parentheses only where required,
   map literals, function literals *)
Theorem C14_expressions_parse_to_their_tree : C14_full_expression_statement.
Proof. exact C14_full_expression_holds. Qed.
Print Assumptions C14_expressions_parse_to_their_tree.

(* end to end, every statement and expression form: if lexing the source gives the canonical
   tokens of a well-formed program, parse.New(src).Parse() returns exactly that program *)
Theorem C14_parse_unparse_full : C14_full_statement.
Proof. exact C14_full_holds. Qed.
Print Assumptions C14_parse_unparse_full.

(* the earlier, smaller statements (no map / function literals) are instances *)
Theorem C14_parse_unparse_partial : C14_statements_statement.
Proof. exact C14_statements_from_full. Qed.
Print Assumptions C14_parse_unparse_partial.
Theorem C14_parse_unparse_flat : C14_partial_statement.
Proof. exact C14_partial_holds. Qed.
Print Assumptions C14_parse_unparse_flat.

(* it does not matter when the parser pulls its tokens from the lexer *)
Theorem C14_prefetch_invariance : forall inp n, QALL inp n.
Proof. exact bridge_all. Qed.
Print Assumptions C14_prefetch_invariance.

(* ---- 2. comments and white space never change the tree ---- *)

(* the lexer: any separators of white space and comments, same tokens *)
Theorem C14_layout_independent_lexing : C14_layout_statement.
Proof. exact C14_layout_holds. Qed.
Print Assumptions C14_layout_independent_lexing.

(* at least one white-space character between the tokens is always enough *)
Theorem C14_one_space_always_suffices :
  forall items f, plain_ok items f = true -> layout_ok items f = true.
Proof. exact ws_layout_ok. Qed.
Print Assumptions C14_one_space_always_suffices.

(* the canonical tokens of a well-formed program never close a bracket they did not open, so
   the lexer's bracket-depth check never fires on them *)
Theorem C14_canonical_tokens_are_balanced : forall nodes lxs, xwf_program nodes ->
  spells (flat_map unparse_node nodes) lxs -> depth_ok (0, 0, 0) lxs = true.
Proof. exact unparse_balanced. Qed.
Print Assumptions C14_canonical_tokens_are_balanced.

(* lexer and parser together: every layout of every well-formed program gives its tree *)
Theorem C14_comments_and_whitespace_never_change_the_tree : C14_layout_parse_statement.
Proof. exact C14_layout_parse_holds. Qed.
Print Assumptions C14_comments_and_whitespace_never_change_the_tree.

(* ---- 3. nothing outside the grammar is accepted ---- *)

Theorem C14_parser_sound : C14_sound_statement.
Proof. exact C14_sound_holds. Qed.
Print Assumptions C14_parser_sound.

Theorem C14_outside_the_grammar_is_rejected : C14_reject_statement.
Proof. exact C14_reject_holds. Qed.
Print Assumptions C14_outside_the_grammar_is_rejected.

(* ... and everything inside it is accepted, with the tree of the derivation - redundant
   parentheses, map entries in any order, several defaults included *)
Theorem C14_parser_complete : C14_complete_statement.
Proof. exact C14_complete_holds. Qed.
Print Assumptions C14_parser_complete.

(* Parse accepts exactly the sentences of the grammar and returns the tree of the derivation;
   it returns an error exactly on the sources outside the grammar *)
Theorem C14_parser_accepts_exactly_the_grammar : C14_exact_statement.
Proof. exact C14_exact_holds. Qed.
Print Assumptions C14_parser_accepts_exactly_the_grammar.
Theorem C14_rejected_iff_outside_the_grammar : C14_reject_exact_statement.
Proof. exact C14_reject_exact_holds. Qed.
Print Assumptions C14_rejected_iff_outside_the_grammar.

(* the grammar defines ONE tree per token sequence: precedence, left association and parentheses
   leave no choice *)
Theorem C14_grammar_unambiguous : C14_unambiguous_statement.
Proof. exact C14_unambiguous_holds. Qed.
Print Assumptions C14_grammar_unambiguous.

(* every derivable token sequence has as many opening as closing brackets of each kind *)
Theorem C14_grammar_is_balanced : C14_balance_statement.
Proof. exact C14_balance_holds. Qed.
Print Assumptions C14_grammar_is_balanced.

(* a missing bracket: delete any one ( ) [ ] { } token of an accepted source *)
Theorem C14_missing_bracket_is_rejected : C14_missing_bracket_statement.
Proof. exact C14_missing_bracket_holds. Qed.
Print Assumptions C14_missing_bracket_is_rejected.
Theorem C14_stray_bracket_is_rejected : C14_stray_bracket_statement.
Proof. exact C14_stray_bracket_holds. Qed.
Print Assumptions C14_stray_bracket_is_rejected.

(* the same at source level: any layout of a well-formed program with one bracket left out *)
Theorem C14_program_without_a_bracket_is_rejected : C14_deleted_bracket_statement.
Proof. exact C14_deleted_bracket_holds. Qed.
Print Assumptions C14_program_without_a_bracket_is_rejected.

(* a missing final terminator: a program whose last token is neither ';' nor '}' *)
Theorem C14_missing_final_terminator_is_rejected : C14_final_terminator_statement.
Proof. exact C14_final_terminator_holds. Qed.
Print Assumptions C14_missing_final_terminator_is_rejected.

(* a missing keyword part: `let` without its identifier or its '=' *)
Theorem C14_let_without_its_parts_is_rejected : C14_let_parts_statement.
Proof. exact C14_let_parts_holds. Qed.
Print Assumptions C14_let_without_its_parts_is_rejected.

(* the grammar is strict: a switch of a derivation has at most one `default` entry and its body
   is the tree's Default; the field names of a map literal are pairwise distinct.  (Before the
   repairs "fix: gcs parser rejects a second default in a switch" / "... a repeated field name in
   a map literal" the parser kept the last one and dropped the other from the tree - found while
   proving soundness.)  Parse accepts exactly this grammar, so such sources are rejected *)
Theorem C14_switch_has_one_default : C14_duplicate_default_statement.
Proof. exact C14_duplicate_default_holds. Qed.
Print Assumptions C14_switch_has_one_default.
Theorem C14_map_fields_are_distinct : C14_duplicate_field_statement.
Proof. exact C14_duplicate_field_holds. Qed.
Print Assumptions C14_map_fields_are_distinct.
Theorem C14_second_default_and_repeated_field_are_rejected :
  r_out (parse_bytes dup_default_src) = OError /\ r_out (parse_bytes dup_key_src) = OError.
Proof. exact C14_duplicates_rejected. Qed.
Print Assumptions C14_second_default_and_repeated_field_are_rejected.

(* the grammar is not empty on the canonical side: every layout of every well-formed program is
   a sentence, with that program as its tree *)
Theorem C14_well_formed_programs_are_sentences : C14_canonical_derivable_statement.
Proof. exact C14_canonical_derivable_holds. Qed.
Print Assumptions C14_well_formed_programs_are_sentences.

(* ---- non-vacuity ---- *)
Theorem C14_nonvacuous :
  (* a flat program and one with compound statements (as before) *)
  (flat_program demo14_nodes /\ lexes_to demo14_src demo14_nodes /\
   r_out (parse_bytes demo14_src) = OProgram (Block demo14_nodes)) /\
  (wf_program demo14b_nodes /\ lexes_to demo14b_src demo14b_nodes /\
   r_out (parse_bytes demo14b_src) = OProgram (Block demo14b_nodes)) /\
  (* map and function literals everywhere *)
  (xwf_program demoX_nodes /\ lexes_to demoX_src demoX_nodes /\
   r_out (parse_bytes demoX_src) = OProgram (Block demoX_nodes)) /\
  (* comments of both kinds, CR LF, a tab, glued tokens, a map literal holding a function
     literal, no newline at the end: the hypotheses of the layout theorem hold and it yields *)
  (xwf_program demoL_nodes /\ spells (flat_map unparse_node demoL_nodes) (map snd demoL_items) /\
   layout_ok demoL_items demoL_tail = true /\
   render demoL_items demoL_tail = string_bytes demoL_text /\
   r_out (parse_bytes (string_bytes demoL_text)) = OProgram (Block demoL_nodes)) /\
  (* the same program with the ']' of its map literal left out is rejected *)
  r_out (parse_bytes (render demoL_del_items demoL_tail)) = OError /\
  (* a derivation with redundant parentheses, a map with fields and elements, a lone ';' in a for *)
  GcsSound.DP GcsSound.demo_nodes GcsSound.demo_toks.
Proof.
  exact (conj (conj demo14_flat (conj demo14_lexes demo14_parses))
        (conj (conj demo14b_wf (conj demo14b_lexes demo14b_parses))
        (conj (conj demoX_wf (conj demoX_lexes demoX_parses))
        (conj (conj demoL_wf (conj demoL_spells (conj demoL_layout (conj demoL_source demoL_parses))))
        (conj demoL_del_rejected GcsSound.demo_derives))))).
Qed.
