(* C04 — Hits deal the documented damage, toughness damage and energy.
   Only statements, [exact] and [Print Assumptions] live here. *)
From Coq Require Import List ZArith Bool Reals.
From SR Require Import Model.CombatCore Model.Hit Proofs.CombatFacts Proofs.HitProofs.
From SR Require Gen.FormulasInfo Gen.FormulasAttr Gen.Formulas Proofs.FormulasProofs.
Import ListNotations.

Theorem C04_hits : C04_statement.
Proof. exact C04_holds. Qed.
Print Assumptions C04_hits.

(* some clauses by name *)
Theorem C04_vulnerability_reads_defender :
  forall h : hit RNum,
    vul RNum h = Rmin (7 / 2) (1 + sget RNum (h_def RNum h) pAllDamageTaken
                                 + sget RNum (h_def RNum h) (dmgTakenProp (h_dtype RNum h)))%R /\
    (vul RNum h <= 7 / 2)%R.
Proof. exact vul_R. Qed.
Print Assumptions C04_vulnerability_reads_defender.

Theorem C04_crit_iff_and_one_draw :
  forall N w h,
    let '(crit, w1, drawn) := crit_step N w h in
    crit = crit_eligible N h && nltb N (next_draw N w) (CritChance N (h_att N h)) /\
    w_units N w1 = w_units N w /\ w_limbo N w1 = w_limbo N w /\ w_attack N w1 = w_attack N w /\
    w_draws N w1 = (if crit_eligible N h then tl (w_draws N w) else w_draws N w) /\
    drawn = (if crit_eligible N h then [IDraw (next_draw N w)] else []).
Proof. exact crit_step_spec. Qed.
Print Assumptions C04_crit_iff_and_one_draw.

Theorem C04_hp_plus_shield_is_total :
  forall w h bd r, hit_steps RNum w h bd r ->
    (r_hp RNum r + (r_total RNum r - r_hp RNum r) = r_total RNum r /\
     r_hp RNum r <= r_total RNum r /\
     (0 <= r_total RNum r -> 0 <= r_hp RNum r /\ 0 <= r_total RNum r - r_hp RNum r))%R.
Proof. exact hit_steps_split. Qed.
Print Assumptions C04_hp_plus_shield_is_total.

(* The translator tie: the model definitions the theorems above are about are, for every NumOps
   instance and every argument, EQUAL to the definitions go2coq generates from the Go source of
   damage.go, hit.go (arithmetic of performHit / newHit), stats.go, map.go, prop.go, the attribute
   and shield arithmetic the hit uses, and break.gen.go (Gen/FormulasInfo.v, Gen/FormulasAttr.v,
   Gen/Formulas.v; the conjunction is spelled out in Proofs/FormulasProofs.v,
   C04_formulas_statement). *)
Theorem C04_model_formulas_are_the_source : FormulasProofs.C04_formulas_statement.
Proof. exact FormulasProofs.C04_formulas_hold. Qed.
Print Assumptions C04_model_formulas_are_the_source.

(* the same tie for the whole hit: perform_hit with every arithmetic expression replaced by its
   generated twin *)
Theorem C04_perform_hit_is_the_source :
  forall N brk w h0 adjs,
  perform_hit N brk w h0 adjs =
  (let h := with_event N h0 (apply_adjs N (h_att N h0, h_def N h0, h_terms N h0, h_flat N h0) adjs) in
   let att := s_id N (h_att N h) in
   let def := s_id N (h_def N h) in
   let start := IHitStart (h_key N h) (h_idx N h) att def (h_atype N h) (h_dtype N h) (sort_terms N (h_terms N h))
                          [h_energy N h; h_stance N h; h_ratio N h; h_flat N h] (h_pure N h) (h_snap N h) in
   let '(crit, w1, drawn) := crit_step N w h in
   match Formulas.baseDamage N brk h with
   | None => None
   | Some bd =>
       let '(fs, total) := Formulas.performHit_damage N h bd crit in
       let '(w2, shieldEvs, hpUpdate) := absorb N w1 def total in
       let '(w3, hpEvs) := modify_hp N w2 (h_key N h) def att (Formulas.performHit_hpAmount N h hpUpdate) true in
       let '(w4, stEvs) :=
         if Formulas.performHit_stanceCond N h hpUpdate
         then modify_stance N w3 (h_key N h) def att (Formulas.performHit_stanceAmount N h hpUpdate)
         else (w3, []) in
       let amount := Formulas.performHit_energyAmount N h hpUpdate in
       let receiver := if is_char N w4 att then att else def in
       let '(w5, enEvs) := modify_energy N w4 (h_key N h) receiver att amount in
       let fin := IHitEnd (h_key N h) (h_idx N h) att def (h_atype N h) (h_dtype N h)
                          (fs ++ [total; hpUpdate; nsub N total hpUpdate; ratio_left N w5 def])
                          crit (h_snap N h) in
       Some (w5, start :: drawn ++ shieldEvs ++ hpEvs ++ stEvs ++ enEvs ++ [fin])
   end).
Proof. exact FormulasProofs.gen_perform_hit_is_model. Qed.
Print Assumptions C04_perform_hit_is_the_source.

Theorem C04_nonvacuous : demo_statement.
Proof. exact demo_hit. Qed.

(* ------------------------------------------------------------------------------------------ *)
(* "including stats altered by listeners before the hit": the hit listeners of content are MODIFIER
   callbacks, reached through the modifier manager's dispatch (pkg/engine/modifier/listener.go).
   Model/Dispatch.v models that dispatch as the code is; Model/DispatchSpec.v is the role table of the
   doc comments of modifier.Listeners.  The definitions are spelled out in Proofs/DispatchProofs.v. *)
From SR Require Model.Dispatch Model.DispatchSpec Proofs.DispatchProofs.

(* attack / hit dispatch: OnBeforeAttack on the attacker's instances, then OnBeforeBeingAttacked on
   those of every target in target order; per hit the attacker's instances then the defender's, on each
   instance the All variant and then, for qualified attack types only, the plain variant; in snapshot
   state only instances that may modify snapshots; death and break: victim first, then the causer,
   told who the victim is; the flat damage read back is the fold of the callbacks' adjustments *)
Theorem C04_hit_dispatch : DispatchProofs.hit_dispatch_statement.
Proof. exact DispatchProofs.hit_dispatch_holds. Qed.
Print Assumptions C04_hit_dispatch.

Theorem C04_listener_role_table : DispatchProofs.role_table_statement.
Proof. exact DispatchProofs.role_table_holds. Qed.
Print Assumptions C04_listener_role_table.

Theorem C04_dispatch_any_world : DispatchProofs.any_world_statement.
Proof. exact DispatchProofs.any_world_holds. Qed.
Print Assumptions C04_dispatch_any_world.

(* "qualified" in the dispatch model is the function go2coq generates from model.AttackType.IsQualified *)
Theorem C04_dispatch_qualified_is_the_source :
  forall t, Dispatch.is_qualified t = Formulas.AttackType_IsQualified t.
Proof. intros t; reflexivity. Qed.
Print Assumptions C04_dispatch_qualified_is_the_source.

Example C04_dispatch_nonvacuous : DispatchProofs.demo_hit_statement.
Proof. exact DispatchProofs.demo_hit. Qed.
Example C04_dispatch_scripted_nonvacuous : DispatchProofs.demo_scripted_statement.
Proof. exact DispatchProofs.demo_scripted. Qed.

(* ------------------------------------------------------------------------------------------ *)
(* TRANSLATOR TIE of the listener dispatch.  Gen/DispatchTable.v is regenerated by `go2coq DispatchTable`
   from pkg/engine/modifier/listener.go on every run: the Subscribe wiring, and per subscribed method the
   walks (role expression, snapshot guard, callbacks with their gates and arguments, in source order).
   Model/DispatchInterp.v interprets that table over the model's world / call / event types.  For every
   world and every event of listener.go the interpretation of the generated table is what the
   hand-written model computes (calls, verdict, read-back number, world afterwards); the model's callback
   enumeration is the field list of modifier.Listeners; the events wired are the model's events. *)
From SR Require Model.DispatchInterp Gen.DispatchTable Proofs.DispatchTableProofs.

Theorem C04_dispatch_is_the_source :
  (forall w e, DispatchTableProofs.from_listener_go e = true ->
     DispatchInterp.interp DispatchTable.table e w = Some (Dispatch.run_event w e)) /\
  DispatchTable.listeners_fields = Dispatch.all_cbs /\
  map DispatchInterp.sub_event (DispatchInterp.t_subs DispatchTable.table) = DispatchTableProofs.model_event_names.
Proof. exact DispatchTableProofs.c04_holds. Qed.
Print Assumptions C04_dispatch_is_the_source.

Example C04_dispatch_table_nonvacuous :
  option_map (fun r => List.length (fst (fst (fst r))))
    (DispatchInterp.interp DispatchTable.table (Dispatch.EHitStart 1 2 0 false 7) DispatchTableProofs.demo_world)
  = Some 6%nat.
Proof. exact DispatchTableProofs.demo_interp. Qed.
