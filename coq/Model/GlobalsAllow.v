(* Reviewed allow table for Gen/Globals.v (property C15).

   Gen.global_writes lists every write to, address-of and hand-out ("alias") of a package-level
   variable of the repository, with the enclosing function, whether that is init-time code and
   whether it is reachable from the run entry points.  The obligation proved in
   Proofs/GlobalsProofs.v is: every reachable, non-init-time row is either in [allow_table]
   below (reviewed by hand: the row does not make one run's behaviour depend on another run)
   or in [known_shared] (rows that DO violate run isolation and are recorded as a finding).
   A new global written from run code, or a catalog registration moved out of init(), produces
   a row that is in neither table and breaks the obligation for all inputs.

   Hand written; no proofs here. *)
From Coq Require Import List String Bool.
From SR Require Import Base.GlobalTypes.
Import ListNotations.
Open Scope string_scope.

Inductive allow :=
| AllowExact (pkg var kind fn : string)      (* exactly this row (any file) *)
| AllowVarPrefix (pkg prefix : string).      (* every variable of the package with this name prefix *)

Definition allow_table : list allow := [
  (* ---- read-only hand-outs of immutable tables (kind "alias": the slice / map value is copied
          into a local or passed on; every use that follows was read: range / index / variadic
          argument of a pure query) ---- *)
  (* `dots = allTriggerableDots`, then `for _, triggerable := range dots` *)
  AllowExact "internal/character/kafka" "allTriggerableDots" "alias" "internal/character/kafka.(*char).Ult";
  (* `HasBehaviorFlag(target, triggerFlags...)`: HasBehaviorFlag only ranges over its argument *)
  AllowExact "internal/lightcone/destruction/woofwalktime" "triggerFlags" "alias"
             "internal/lightcone/destruction/woofwalktime.dmgBoostOnBurnBleed";
  AllowExact "internal/lightcone/nihility/fermata" "triggerFlags" "alias"
             "internal/lightcone/nihility/fermata.onBeforeHitAll";
  (* StartupHooks() returns the registry map, filled by RegisterStartupHook from init() only
     (register_calls: no call outside init); its single caller `initialize` ranges over it *)
  AllowExact "pkg/engine/hook" "hooks" "alias" "pkg/engine/hook.StartupHooks";
  (* Curve(c) returns the generated level table; callers index it *)
  AllowExact "pkg/engine/target/enemy" "LevelCurve1" "alias" "pkg/engine/target/enemy.Curve";
  AllowExact "pkg/engine/target/enemy" "LevelCurve2" "alias" "pkg/engine/target/enemy.Curve";
  (* the protobuf enum name->value maps are put into a slice literal and ranged over to define
     script constants *)
  AllowExact "pkg/model" "DamageType_value" "alias" "pkg/logic/gcs/eval.(*Eval).initEnums";
  AllowExact "pkg/model" "Path_value" "alias" "pkg/logic/gcs/eval.(*Eval).initEnums";
  AllowExact "pkg/model" "Property_value" "alias" "pkg/logic/gcs/eval.(*Eval).initEnums";
  AllowExact "pkg/model" "StatusType_value" "alias" "pkg/logic/gcs/eval.(*Eval).initEnums";
  AllowExact "pkg/model" "TargetType_value" "alias" "pkg/logic/gcs/eval.(*Eval).initEnums";
  (* Aggregators() returns the aggregator-constructor registry, appended to from init() only;
     InitializeAggregators ranges over it once per batch, before the workers start *)
  AllowExact "pkg/statistics/agg" "aggregators" "alias" "pkg/statistics/agg.Aggregators";
  (* CreateResult stores &sha1ver / &modified (build metadata, written by init() only) into the
     result header; nothing writes through these pointers *)
  AllowExact "pkg/simulation" "modified" "addr" "pkg/simulation.CreateResult";
  AllowExact "pkg/simulation" "sha1ver" "addr" "pkg/simulation.CreateResult";
  (* Log reads the logger list into a local under the read lock *)
  AllowExact "pkg/engine/logging" "loggers" "alias" "pkg/engine/logging.Log";
  (* protoc-generated descriptor plumbing: file_pb_model_*_rawDescGZIP compresses the raw
     descriptor once under a sync.Once (idempotent, same value for every caller); only reached
     through Descriptor() in the over-approximate call graph *)
  AllowVarPrefix "pkg/model" "file_pb_model_"
].

(* rows that violate isolation in today's code: simulation.Run installs its loggers in a
   package-level list that every event emission of every concurrent run reads *)
Definition known_shared : list (string * string * string * string) := [
  ("pkg/engine/logging", "loggers", "assign", "pkg/engine/logging.InitLoggers")
].

Definition allow_matches (w : gwrite) (a : allow) : bool :=
  match a with
  | AllowExact p v k f => str_eqb p (gw_pkg w) && str_eqb v (gw_var w) && str_eqb k (gw_kind w) && str_eqb f (gw_fn w)
  | AllowVarPrefix p pre => str_eqb p (gw_pkg w) && str_prefix pre (gw_var w)
  end.
Definition allowed (w : gwrite) : bool := existsb (allow_matches w) allow_table.

Definition is_known_shared (w : gwrite) : bool :=
  existsb (fun k => let '(p, v, kd, f) := k in
                    str_eqb p (gw_pkg w) && str_eqb v (gw_var w) && str_eqb kd (gw_kind w) && str_eqb f (gw_fn w))
          known_shared.

(* run-time rows: reachable from the run entry points and not init-time code *)
Definition run_time (w : gwrite) : bool := gw_reach w && negb (gw_init w).

Definition offending (ws : list gwrite) : list gwrite :=
  filter (fun w => run_time w && negb (allowed w) && negb (is_known_shared w)) ws.

(* the process-wide registries ("catalogs") *)
Definition catalog_vars : list (string * string) := [
  ("pkg/engine/modifier", "modifierCatalog");
  ("pkg/engine/target/character", "characterCatalog");
  ("pkg/engine/target/enemy", "enemyCatalog");
  ("pkg/engine/equip/lightcone", "lightConeCatalog");
  ("pkg/engine/equip/relic", "relicCatalog");
  ("pkg/engine/hook", "hooks");
  ("pkg/statistics/agg", "aggregators")
].
Definition is_catalog (w : gwrite) : bool :=
  existsb (fun c => str_eqb (fst c) (gw_pkg w) && str_eqb (snd c) (gw_var w)) catalog_vars.

(* a catalog is written (not merely handed out) only by unreachable code *)
Definition catalog_row_ok (w : gwrite) : bool :=
  negb (is_catalog w) || negb (gw_reach w) || gw_init w || str_eqb (gw_kind w) "alias".

Definition register_outside_init (rs : list regcall) : list regcall :=
  filter (fun r => negb (rc_init r)) rs.

(* keys registered (at init time) through a given Register function *)
Definition registered_keys (callee : string) (rs : list regcall) : list string :=
  map rc_key (filter (fun r => str_eqb (rc_callee r) callee && rc_init r) rs).
