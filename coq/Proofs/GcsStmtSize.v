(* A well-formed statement tree is at most three times as large as its canonical token
   sequence (used to show that the fuel of Parse suffices). *)
From Coq Require Import List ZArith Bool String Ascii Lia.
From SR Require Import Base.CaseLib Model.GcsAst Model.GcsUnicode Model.GcsLex Model.GcsNum
  Model.GcsParse Model.GcsSpec Proofs.GcsRoundTrip Proofs.GcsStmtRoundTrip.
Import ListNotations.
Open Scope Z_scope.

(* ---- a tree is not larger than its token sequence ---- *)
Lemma length_sep_by : forall (ls : list (list utok)),
  (list_sum (map (@List.length utok) ls) <= List.length (sep_by COMMA ls))%nat.
Proof.
  induction ls as [|x ls IH]; [cbn; lia|].
  destruct ls as [|y ls]; [cbn; lia|].
  change (sep_by COMMA (x :: y :: ls)) with (x ++ COMMA :: sep_by COMMA (y :: ls)).
  rewrite app_length. cbn [List.length map list_sum fold_right] in *. lia.
Qed.

Lemma esize_le_tokens : forall k e, (esize e <= k)%nat -> efrag e = true ->
  (esize e <= List.length (unparse_expr e))%nat.
Proof.
  induction k as [|k IH]; intros e Hk Hf; [pose proof (size_pos e); lia|].
  destruct e; try discriminate; try (cbn; lia).
  - (* call *)
    cbn [efrag] in Hf. apply andb_true_iff in Hf. destruct Hf as [Hf1 Hf2].
    cbn [esize] in *. cbn [unparse_expr].
    assert (Hfn : (esize e <= List.length (paren_if 8 e (unparse_expr e)))%nat).
    { pose proof (IH e ltac:(lia) Hf1). unfold paren_if. destruct (8 <? level e); [assumption|].
      cbn [List.length]. rewrite app_length. lia. }
    assert (Hargs : (list_sum (map esize args) <= List.length (sep_by COMMA (map unparse_expr args)))%nat).
    { eapply Nat.le_trans; [|apply length_sep_by]. rewrite map_map.
      assert (Hall : forall a, In a args -> (esize a <= List.length (unparse_expr a))%nat).
      { intros a Ha. apply IH; [pose proof (In_sum esize args a Ha); lia|].
        rewrite forallb_forall in Hf2. apply Hf2. exact Ha. }
      clear -Hall. induction args as [|a r IHr]; [cbn; lia|].
      cbn [map list_sum fold_right]. fold (list_sum (map esize r)).
      fold (list_sum (map (fun x => List.length (unparse_expr x)) r)).
      pose proof (Hall a (or_introl eq_refl)). specialize (IHr (fun x Hx => Hall x (or_intror Hx))). lia. }
    rewrite app_length. cbn [List.length]. rewrite app_length. cbn [List.length]. lia.
  - (* unary *)
    cbn [efrag] in Hf. apply andb_true_iff in Hf. destruct Hf as [_ Hf].
    cbn [esize] in *. cbn [unparse_expr List.length].
    pose proof (IH e ltac:(lia) Hf). unfold paren_if. destruct (7 <? level e); [lia|].
    cbn [List.length]. rewrite app_length. lia.
  - (* binary *)
    cbn [efrag] in Hf. apply andb_true_iff in Hf. destruct Hf as [Hf Hf2]. apply andb_true_iff in Hf. destruct Hf as [_ Hf1].
    cbn [esize] in *. cbn [unparse_expr].
    pose proof (IH e1 ltac:(lia) Hf1). pose proof (IH e2 ltac:(lia) Hf2).
    rewrite app_length. cbn [List.length]. unfold paren_if.
    destruct (tok_prec (t_typ op) - 1 <? level e1), (tok_prec (t_typ op) <? level e2);
      cbn [List.length]; rewrite ?app_length; cbn [List.length]; lia.
Qed.


Lemma esize_tok : forall e, efrag e = true -> (esize e <= List.length (unparse_expr e))%nat.
Proof. intros e. apply (esize_le_tokens (esize e)). lia. Qed.

Definition tok3 (x : node) : Prop := (ndsize x <= 3 * List.length (unparse_node x))%nat.

Lemma nodes_tok3 : forall l, all_nodes l -> (forall y, In y l -> wf_node y -> tok3 y) ->
  (list_sum (map ndsize l) <= 3 * List.length (flat_map unparse_node l))%nat.
Proof.
  induction l as [|x l IH]; intros Hw H; [cbn; lia|].
  cbn [all_nodes] in Hw. destruct Hw as [Hx Hl].
  cbn [map list_sum fold_right flat_map]. fold (list_sum (map ndsize l)). rewrite app_length.
  pose proof (H x (or_introl eq_refl) Hx) as Hx3. unfold tok3 in Hx3.
  specialize (IH Hl (fun y Hy => H y (or_intror Hy))). lia.
Qed.

Lemma block_tok3 : forall l, all_nodes l -> (forall y, In y l -> wf_node y -> tok3 y) ->
  (bsize (Block l) + 5 <= 3 * List.length (unparse_block (Block l)))%nat.
Proof.
  intros l Hw H. cbn [bsize unparse_block List.length]. rewrite app_length. cbn [List.length].
  pose proof (nodes_tok3 l Hw H). lia.
Qed.

Lemma uparams_len : forall args, (List.length args + 2 <= List.length (uparams args))%nat.
Proof.
  intros args. unfold uparams. cbn [List.length]. rewrite app_length. cbn [List.length].
  assert (List.length args <= List.length (sep_by COMMA (map (fun a => [uident a]) args)))%nat.
  { induction args as [|a r IH]; [cbn; lia|]. destruct r as [|b r]; [cbn; lia|].
    change (sep_by COMMA (map (fun a0 => [uident a0]) (a :: b :: r)))
      with ([uident a] ++ COMMA :: sep_by COMMA (map (fun a0 => [uident a0]) (b :: r))).
    rewrite app_length. cbn [List.length] in *. lia. }
  lia.
Qed.

Theorem tok3_all : forall k x, (ndsize x <= k)%nat -> wf_node x -> tok3 x.
Proof.
  induction k as [|k IH]; intros x Hk Hw; [destruct x; cbn [ndsize] in Hk; lia|].
  assert (Hsub : forall y, (ndsize y < S k)%nat -> wf_node y -> tok3 y) by (intros y Hy; apply IH; lia).
  assert (Hblk : forall l, (bsize (Block l) < S k)%nat -> all_nodes l ->
            (bsize (Block l) + 5 <= 3 * List.length (unparse_block (Block l)))%nat).
  { intros l Hb Hl. apply block_tok3; [exact Hl|]. intros y Hy Hwy. apply Hsub; [|exact Hwy].
    pose proof (In_sum ndsize l y Hy). cbn [bsize] in Hb. lia. }
  unfold tok3. destruct x as [e|st]; cbn [wf_node] in Hw.
  - cbn [ndsize unparse_node]. rewrite (efrag_not_fn e Hw). rewrite app_length. cbn [List.length].
    pose proof (esize_tok e Hw). lia.
  - destruct st as [ |b|id v|id v|v|t|c b els|cnd cases def|c0|fv args body|c b|init cond post body];
      cbn [wf_stmt] in Hw; try contradiction; cbn [ndsize ssize] in *; cbn [unparse_node unparse_stmt].
    + destruct b as [|l]; [contradiction|]. rewrite wf_block_nodes in Hw.
      pose proof (Hblk l ltac:(lia) Hw). lia.
    + destruct Hw as [_ Hf]. pose proof (esize_tok v Hf). cbn [List.length]. rewrite app_length. cbn [List.length]. lia.
    + destruct Hw as [_ Hf]. pose proof (esize_tok v Hf). cbn [List.length]. rewrite app_length. cbn [List.length]. lia.
    + pose proof (esize_tok v Hw). cbn [List.length]. rewrite app_length. cbn [List.length]. lia.
    + destruct t; try contradiction; cbn; lia.
    + destruct Hw as (Hfc & Hwb & Hwe). destruct b as [|l]; [contradiction|]. rewrite wf_block_nodes in Hwb.
      pose proof (esize_tok c Hfc). pose proof (Hblk l ltac:(lia) Hwb) as Hb.
      cbn [List.length]. rewrite !app_length.
      destruct els as [ |eb|? ?|? ?|?|?|ec eb2 ee|? ? ?|?|? ? ?|? ?|? ? ? ?]; try contradiction.
      * cbn [ssize List.length]. lia.
      * assert (H3 : tok3 (NStmt (SBlock eb))) by (apply Hsub; [cbn [ndsize ssize] in *; lia|exact Hwe]).
        unfold tok3 in H3. cbn [ndsize unparse_node] in H3. cbn [List.length]. lia.
      * assert (H3 : tok3 (NStmt (SIf ec eb2 ee))) by (apply Hsub; [cbn [ndsize] in *; lia|exact Hwe]).
        unfold tok3 in H3. cbn [ndsize unparse_node] in H3. cbn [List.length]. lia.
    + (* switch *)
      destruct Hw as (Hc & Hwc & Hd).
      assert (Hcases : (list_sum (map csize cases) <= 3 * List.length (flat_map unparse_case cases))%nat).
      { assert (Hlt : (list_sum (map csize cases) < S k)%nat) by lia. clear Hk Hc Hd.
        induction cases as [|[cc bb] cases IHc]; [cbn; lia|].
        destruct Hwc as [[Hfcc Hwbb] Hwr]. destruct bb as [|l]; [contradiction|]. rewrite wf_block_nodes in Hwbb.
        cbn [map list_sum fold_right csize flat_map unparse_case] in *. fold (list_sum (map csize cases)) in *.
        rewrite app_length. cbn [List.length]. rewrite app_length. cbn [List.length].
        pose proof (esize_tok cc Hfcc).
        assert (Hn3 : (list_sum (map ndsize l) <= 3 * List.length (flat_map unparse_node l))%nat).
        { apply nodes_tok3; [exact Hwbb|]. intros y Hy Hwy. apply Hsub; [|exact Hwy].
          pose proof (In_sum ndsize l y Hy). cbn [bsize] in Hlt. lia. }
        specialize (IHc Hwr ltac:(lia)). cbn [bsize]. lia. }
      cbn [List.length]. rewrite !app_length. cbn [List.length]. rewrite !app_length.
      assert (He : (esize cnd <= 1 + List.length (unparse_expr cnd))%nat).
      { destruct Hc as [->|Hc]; [cbn; lia|pose proof (esize_tok cnd Hc); lia]. }
      destruct def as [|l].
      * cbn [bsize List.length]. lia.
      * destruct Hd as [Hd|Hd]; [discriminate|]. rewrite wf_block_nodes in Hd.
        assert (Hn3 : (list_sum (map ndsize l) <= 3 * List.length (flat_map unparse_node l))%nat).
        { apply nodes_tok3; [exact Hd|]. intros y Hy Hwy. apply Hsub; [|exact Hwy].
          pose proof (In_sum ndsize l y Hy). cbn [bsize] in Hk. lia. }
        cbn [bsize List.length]. lia.
    + destruct Hw as (Hid & Hdup & Hwb). destruct body as [|l]; [contradiction|]. rewrite wf_block_nodes in Hwb.
      pose proof (Hblk l ltac:(lia) Hwb). pose proof (uparams_len args).
      cbn [List.length]. rewrite !app_length. lia.
    + destruct Hw as (Hfc & Hwb). destruct b as [|l]; [contradiction|]. rewrite wf_block_nodes in Hwb.
      pose proof (esize_tok c Hfc). pose proof (Hblk l ltac:(lia) Hwb).
      cbn [List.length]. rewrite !app_length. lia.
    + destruct Hw as (Hparts & Hwb). destruct body as [|l]; [contradiction|]. rewrite wf_block_nodes in Hwb.
      pose proof (Hblk l ltac:(lia) Hwb) as Hb.
      cbn [List.length]. rewrite !app_length.
      destruct Hparts as [(-> & -> & ->)|(Hfc & Hini & Hpost)].
      * cbn [ssize esize unparse_expr List.length]. lia.
      * pose proof (esize_tok cond Hfc).
        assert (Hi : (ssize init <= 1 + List.length (match init with SNil => [] | _ => unparse_stmt init ++ [SEMI] end))%nat).
        { destruct init; try contradiction; cbn [simple_init] in Hini.
          - cbn; lia.
          - destruct Hini as [_ Hf]. pose proof (esize_tok v Hf). cbn [ssize unparse_stmt]. rewrite ?app_length. cbn [List.length]. rewrite ?app_length. cbn [List.length]. lia.
          - destruct Hini as [_ Hf]. pose proof (esize_tok v Hf). cbn [ssize unparse_stmt]. rewrite ?app_length. cbn [List.length]. rewrite ?app_length. cbn [List.length]. lia. }
        assert (Hp : (ssize post <= 1 + List.length (match post with SNil => [] | _ => SEMI :: unparse_stmt post end))%nat).
        { destruct post; try contradiction; cbn [simple_post] in Hpost.
          - cbn; lia.
          - destruct Hpost as [_ Hf]. pose proof (esize_tok v Hf). cbn [ssize unparse_stmt List.length]. rewrite ?app_length. cbn [List.length]. lia. }
        lia.
Qed.

Lemma program_tok3 : forall nodes, all_nodes nodes ->
  (list_sum (map ndsize nodes) <= 3 * List.length (flat_map unparse_node nodes))%nat.
Proof.
  intros nodes Hw. apply nodes_tok3; [exact Hw|]. intros y _ Hy. apply (tok3_all (ndsize y)); [lia|exact Hy].
Qed.
