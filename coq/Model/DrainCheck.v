(* Correspondence checker and property monitor for the insert queue drain (Model/Queue.v,
   the real simulation.executeQueue driven through the verif hook). *)
From Coq Require Import List ZArith Bool String.
From SR Require Import Base.CaseLib Model.Queue.
Import ListNotations.
Open Scope Z_scope.

Inductive observed := Ok (tr : list titem) | HarnessPanic (msg : string).

(* units with their class; per unit the scripts of its next action callbacks; top-level ops *)
Definition case := (list (Z * class) * list (Z * list (list eff)) * list top * observed)%type.

Definition titem_eqb (a b : titem) : bool :=
  match a, b with
  | TInsertStart i s p, TInsertStart i' s' p' => (i =? i') && (s =? s') && (p =? p')
  | TExec i, TExec i' => i =? i'
  | TInsertEnd i s p, TInsertEnd i' s' p' => (i =? i') && (s =? s') && (p =? p')
  | TActionStart u, TActionStart u' => u =? u'
  | TAct u, TAct u' => u =? u'
  | TActionEnd u, TActionEnd u' => u =? u'
  | TDeath u, TDeath u' => u =? u'
  | TTermination r, TTermination r' => r =? r'
  | TDrained s e, TDrained s' e' => Bool.eqb s s' && Bool.eqb e e'
  | _, _ => false
  end.

Definition fuel : nat := 2000.

Definition model_out (c : case) : option (list titem) :=
  let '(units, acts, ops, _) := c in
  match top_run fuel (sim_init units acts) ops with
  | Some s => Some (s_trace s)
  | None => None
  end.

Definition check_case (c : case) : bool :=
  let '(_, _, _, o) := c in
  match o, model_out c with
  | Ok tr, Some tr' => list_eqb titem_eqb tr' tr
  | _, _ => false
  end.

(* ------------------------------------------------------------------------------------ *)
(* Monitor.  The world (queue contents, life states, flags) is followed from the input
   scripts; WHICH task ran is taken from the implementation's trace (InsertStart /
   ActionStart), never from the model's pop.  At each reported execution the task must be
   pending and allowed to run (source not dead, on the field, no abort flag; an action: source alive), and
   every pending task that sorts before it (priority, then id) must be one the drain takes
   silently at that moment: source dead, or off the field, or flagged, or an action of a unit that is not alive.
   When a drain returns without an exit, everything still pending must be of that kind.
   Executions are unique because the task leaves the pending set.  The side lists are followed
   from the implementation's TargetDeath events; a Termination is accepted only when a side is
   empty, and nothing may run once that is so. *)
Definition lt_task (a b : task) : bool := less a b.

Definition silent (s : sim) (t : task) : bool :=
  lstate_eqb (life_of s (t_src t)) LDead || negb (on_field s (t_src t)) ||
  has_flag s (t_src t) (t_flags t) ||
  match t_body t with BAction u => negb (lstate_eqb (life_of s u) LAlive) | _ => false end.

Fixpoint find_task (p : task -> bool) (l : list task) : option task :=
  match l with [] => None | t :: r => if p t then Some t else find_task p r end.

(* take task t out of the pending set together with all silent tasks sorting before it;
   fails if a non-silent task sorts before it *)
Definition take (s : sim) (t : task) : option sim :=
  let pend := q_pending (s_q s) in
  if forallb (fun t' => negb (lt_task t' t) || silent s t') pend then
    Some (with_q s (mkQ (filter (fun t' => negb (lt_task t' t) && negb (t_id t' =? t_id t)) pend)
                        (q_counter (s_q s))))
  else None.

Definition runnable (s : sim) (t : task) : bool :=
  negb (lstate_eqb (life_of s (t_src t)) LDead) && on_field s (t_src t) &&
  negb (has_flag s (t_src t) (t_flags t)) &&
  match exit_reason s with None => true | Some _ => false end.   (* both sides still stand *)

(* a unit announced dead by the implementation has left its side *)
Definition leave (s : sim) (u : Z) : sim :=
  with_sides s (filter (fun x => negb (x =? u)) (s_chars s)) (filter (fun x => negb (x =? u)) (s_enemies s)).

Fixpoint mon_trace (s : sim) (ops : list top) (tr : list titem) (n : nat) : bool :=
  match n with
  | O => false
  | S n' =>
  match tr with
  | TInsertStart i src p :: TExec i' :: tr' =>
      (* an insert runs *)
      match find_task (fun t => t_id t =? i) (q_pending (s_q s)) with
      | Some t =>
          match t_body t, take s t with
          | BAbility sc, Some s1 =>
              (i =? i') && (t_src t =? src) && (t_prio t =? p) && runnable s t &&
              let s2 := run_script s1 sc in
              match tr' with
              | TInsertEnd i2 src2 p2 :: tr2 =>
                  (i2 =? i) && (src2 =? src) && (p2 =? p) && mon_trace s2 ops tr2 n'
              | _ => false
              end
          | _, _ => false
          end
      | None => false
      end
  | TActionStart u :: TAct u' :: tr' =>
      (* an inserted action runs: the first pending action task of u *)
      match find_task (fun t => match t_body t with BAction v => v =? u | _ => false end)
                      (q_pending (s_q s)) with
      | Some t0 =>
          (* among u's pending actions the drain takes the least; they all have the same priority *)
          let t := min_task t0 (filter (fun t => match t_body t with BAction v => v =? u | _ => false end)
                                       (q_pending (s_q s))) in
          match take s t with
          | Some s1 =>
              (u =? u') && runnable s t && lstate_eqb (life_of s u) LAlive &&
              let (sc, s2) := next_act s1 u in
              let s3 := run_script s2 sc in
              match tr' with
              | TActionEnd u2 :: tr2 => (u2 =? u) && mon_trace s3 ops tr2 n'
              | _ => false
              end
          | None => false
          end
      | None => false
      end
  | TDeath u :: tr' => mon_trace (leave s u) ops tr' n'
  | TTermination r :: TDrained stopped _ :: tr' =>
      (* the battle ends only when a side is empty, with the reason that side dictates *)
      stopped && match exit_reason s with Some r' => r =? r' | None => false end &&
      match tr' with [] => true | _ => false end
  | TDrained stopped e :: tr' =>
      (* the drain returned normally: what is left was taken silently *)
      negb stopped && e && forallb (silent s) (q_pending (s_q s)) &&
      (match q_pending (s_q s), exit_reason s with _ :: _, Some _ => false | _, _ => true end) &&
      let s1 := with_q s (mkQ [] (q_counter (s_q s))) in
      next_ops s1 ops tr' n'
  | _ => false
  end
  end
with next_ops (s : sim) (ops : list top) (tr : list titem) (n : nat) : bool :=
  match n with
  | O => false
  | S n' =>
  match ops with
  | TEff e :: ops' => next_ops (apply_eff s e) ops' tr n'
  | TLeave u :: ops' => next_ops (leave s u) ops' tr n'
  | TDrain :: ops' => mon_trace s ops' tr n'
  | [] => match tr with [] => true | _ => false end
  end
  end.

Definition monitor_case (c : case) : bool :=
  let '(units, acts, ops, o) := c in
  match o with
  | Ok tr => next_ops (sim_init units acts) ops tr (4 + 2 * (List.length ops + List.length tr))
  | HarnessPanic _ => false
  end.
